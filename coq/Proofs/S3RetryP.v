(* C09: lemmas about Model/S3Retry.v *)
From Coq Require Import ZArith List Bool String Lia ZifyBool.
From KV Require Import Base.Sx Base.Str Gen.Generated Model.S3Retry.
Import ListNotations.
Open Scope Z_scope.

(* ---------- the translated tables, as the model sees them ---------- *)
Lemma convert_table : forall e, request_convert e =
  match e with
  | SocketTimeout => U3ReadTimeout
  | ConnectionReset | IncompleteReadX | ChunkedEncoding => U3Protocol
  | ReqConnReadTimeout => U3ReadTimeout
  | ReqConnMaxRetry _ => U3MaxRetry
  | e => e
  end.
Proof. destruct e; try destruct timeout; reflexivity. Qed.

Lemma standardise_table :
  standardise U3MaxRetry = Glitch /\ standardise ReqRetryError = Glitch /\
  standardise ReqConnReadTimeout = Unavail /\ standardise (ReqConnMaxRetry true) = Unavail /\
  standardise (ReqConnMaxRetry false) = Unavail /\ standardise ChunkedEncoding = Unavail /\
  standardise IncompleteReadX = Raw /\ standardise U3Protocol = Raw.
Proof. repeat split; reflexivity. Qed.

Definition is_read_exn (e : exn) : bool :=
  match e with
  | SocketTimeout | ConnectionReset | IncompleteReadX | ChunkedEncoding | ReqConnReadTimeout => true
  | _ => false
  end.

(* every exception a faulty body can raise is turned into a read retry, and into a glitch when the budget is used up *)
Lemma handle_read_exn : forall r e, is_read_exn e = true ->
  handle_exn r e = match increment r CRead with Some r' => LRetry r' | None => LDone (Err Glitch) end.
Proof. intros r e H. destruct e; try discriminate H; reflexivity. Qed.

Lemma handle_adapter_exhausted : forall r t,
  handle_exn r (ReqConnMaxRetry t) = LDone (Err Glitch) /\ handle_exn r ReqRetryError = LDone (Err Glitch).
Proof. intros r t. split; destruct t; reflexivity. Qed.

Lemma raise_for_status_spec : forall c, 400 <= c < 600 -> raise_for_status c [] = Some (spec_status c).
Proof.
  intros c H. unfold raise_for_status, spec_status.
  change s3_status_lo with 300. change s3_status_hi with 600.
  replace ((300 <=? c) && (c <? 600) && negb (memZ c [])) with true by (cbn; lia).
  cbn [s3_status_chain s3_status_else find fst snd memZ existsb].
  destruct (c =? 401) eqn:E1; [reflexivity|].
  destruct (c =? 403) eqn:E3; [reflexivity|].
  cbn [orb]. destruct (c =? 404) eqn:E4; reflexivity.
Qed.

(* since the repair of C08-F5g an answer the client cannot follow (3xx) is an error too: the range starts at 300 *)
Lemma raise_for_status_range : forall c ign, raise_for_status c ign <> None -> 300 <= c < 600.
Proof.
  intros c ign. unfold raise_for_status. change s3_status_lo with 300. change s3_status_hi with 600.
  destruct ((300 <=? c) && (c <? 600) && negb (memZ c ign)) eqn:E; [lia | congruence].
Qed.

(* ---------- Retry ---------- *)
Lemma is_exhausted_spec : forall r, is_exhausted r = negb (wf_retry r).
Proof.
  intros [[t|] [c|] [rd|] [s|]]; unfold is_exhausted, wf_retry, nonneg, truthy;
    cbn [r_total r_connect r_read r_status];
    repeat match goal with |- context [?z =? 0] => destruct (Z.eqb_spec z 0) end;
    cbn [app fold_left]; try lia; subst; cbn; lia.
Qed.

(* ---------- _DetectTruncation: every cut position is detected, a complete body is consumed exactly ---------- *)
Definition total (segs : list nat) : nat := fold_right Nat.add O segs.

Lemma detect_complete : forall segs a, (total segs <= a)%nat -> detect_truncation segs a = Some (total segs).
Proof.
  induction segs as [|s t IH]; intros a H; cbn in *; [reflexivity|].
  change (fold_right Nat.add O t) with (total t) in *.
  destruct (Nat.leb_spec s a); [|lia]. rewrite IH by lia. reflexivity.
Qed.
Lemma detect_cut : forall segs a, (a < total segs)%nat -> detect_truncation segs a = None.
Proof.
  induction segs as [|s t IH]; intros a H; cbn in *; [lia|].
  change (fold_right Nat.add O t) with (total t) in *.
  destruct (Nat.leb_spec s a); [|reflexivity]. rewrite IH by lia. reflexivity.
Qed.
Lemma detect_some : forall segs a n, detect_truncation segs a = Some n -> n = total segs /\ (total segs <= a)%nat.
Proof.
  intros segs a n H. destruct (Nat.lt_ge_cases a (total segs)) as [L|L].
  - rewrite detect_cut in H by exact L. discriminate.
  - rewrite detect_complete in H by exact L. inversion H. split; [reflexivity | exact L].
Qed.

(* ---------- the body of a 200 response ---------- *)
Definition proc_ok (p : proc) (len : nat) : Prop :=
  match p with PChunk segs => total segs = len | _ => True end.

Definition is200 (o : outcome) : bool :=
  match o with Good | Trunc _ | Reset _ | Stall _ => true | _ => false end.

Lemma body_fault : forall p len o, proc_ok p len -> is200 o = true -> read_fault len o = true ->
  exists e, body_result p len o = inr e /\ is_read_exn e = true.
Proof.
  intros p len o Hp H2 Hf.
  destruct o as [c|k|k|k|h|]; try discriminate H2; cbn in Hf; try discriminate Hf;
    apply Nat.ltb_lt in Hf; destruct p as [segs| |]; cbn [body_result proc_ok] in *;
    try (rewrite Nat.min_l by lia; rewrite detect_cut by lia);
    try (destruct (Nat.ltb_spec k len); [|lia]); eexists; split; reflexivity.
Qed.

Lemma body_complete : forall p len o, proc_ok p len -> is200 o = true -> read_fault len o = false ->
  body_result p len o = inl (Ok len).
Proof.
  intros p len o Hp H2 Hf.
  destruct o as [c|k|k|k|h|]; try discriminate H2; cbn in Hf;
    try apply Nat.ltb_ge in Hf; destruct p as [segs| |]; cbn [body_result proc_ok] in *;
    try (rewrite Nat.min_r by lia); try (rewrite Nat.min_id);
    try (rewrite detect_complete by lia; rewrite Hp; reflexivity);
    try (destruct (Nat.ltb_spec k len); [lia|reflexivity]);
    try (rewrite Nat.ltb_irrefl; reflexivity).
Qed.

(* Ok can only come from a complete body *)
Lemma body_ok_complete : forall p len o d, proc_ok p len -> is200 o = true ->
  body_result p len o = inl (Ok d) -> d = len /\ read_fault len o = false.
Proof.
  intros p len o d Hp H2 H. destruct (read_fault len o) eqn:Hf.
  - destruct (body_fault p len o Hp H2 Hf) as [e [He _]]. congruence.
  - rewrite (body_complete p len o Hp H2 Hf) in H. inversion H. auto.
Qed.

(* ---------- counting ---------- *)
Lemma count_app : forall {A} (f : A -> bool) l x, count f (l ++ [x]) = count f l + (if f x then 1 else 0).
Proof.
  intros A f l x. unfold count. rewrite filter_app, app_length. cbn [filter].
  destruct (f x); cbn [List.length]; lia.
Qed.
Lemma count_app2 : forall {A} (f : A -> bool) l l', count f (l ++ l') = count f l + count f l'.
Proof. intros. unfold count. rewrite filter_app, app_length. lia. Qed.
Lemma count_nonneg : forall {A} (f : A -> bool) l, 0 <= count f l.
Proof. intros. unfold count. lia. Qed.

Lemma within_mono : forall n m b, n <= m -> within m b = true -> within n b = true.
Proof. intros n m [b|] H; cbn; [lia | reflexivity]. Qed.

Lemma fits_prefix : forall fl len b l l', fits fl len b (l ++ l') = true -> fits fl len b l = true.
Proof.
  intros fl len b l l'. unfold fits. rewrite !count_app2, app_length, Nat2Z.inj_add.
  intro H. apply andb_true_iff in H as [H H3]. apply andb_true_iff in H as [H1 H2].
  pose proof (count_nonneg (read_fault len) l'). pose proof (count_nonneg (status_fault fl) l').
  assert (A1 : within (count (read_fault len) l) (r_read b) = true)
    by (eapply within_mono; [|exact H1]; lia).
  assert (A2 : within (count (status_fault fl) l) (r_status b) = true)
    by (eapply within_mono; [|exact H2]; lia).
  assert (A3 : within (Z.of_nat (List.length l)) (r_total b) = true)
    by (eapply within_mono; [|exact H3]; lia).
  rewrite A1, A2, A3. reflexivity.
Qed.

(* ---------- the Retry object after the transient faults `seen` ---------- *)
Definition osub (o : option Z) (n : Z) : option Z := match o with Some z => Some (z - n) | None => None end.
Definition after (fl : list Z) (len : nat) (b : retry) (seen : list outcome) : retry :=
  mkRetry (osub (r_total b) (Z.of_nat (List.length seen))) (r_connect b)
          (osub (r_read b) (count (read_fault len) seen)) (osub (r_status b) (count (status_fault fl) seen)).

Lemma after_nil : forall fl len b, after fl len b [] = b.
Proof.
  intros fl len [[t|] c [r|] [s|]]; unfold after, osub, count; cbn; repeat f_equal; lia.
Qed.

Lemma read_not_status : forall fl len o, read_fault len o = true -> status_fault fl o = false.
Proof. intros fl len o; destruct o; cbn; congruence. Qed.
Lemma status_not_read : forall fl len o, status_fault fl o = true -> read_fault len o = false.
Proof. intros fl len o; destruct o; cbn; congruence. Qed.

Lemma increment_read_after : forall fl len b seen o,
  wf_retry b = true -> fits fl len b seen = true -> read_fault len o = true ->
  increment (after fl len b seen) CRead =
  if fits fl len b (seen ++ [o]) then Some (after fl len b (seen ++ [o])) else None.
Proof.
  intros fl len b seen o Hb Hf Hr.
  pose proof (read_not_status fl len o Hr) as Hs.
  unfold increment. rewrite is_exhausted_spec.
  assert (E : after fl len b (seen ++ [o]) =
              mkRetry (dec (r_total (after fl len b seen))) (r_connect (after fl len b seen))
                      (dec (r_read (after fl len b seen))) (r_status (after fl len b seen))).
  { unfold after, dec, osub. cbn [r_total r_connect r_read r_status].
    rewrite !count_app, Hr, Hs, app_length. cbn [List.length].
    destruct b as [[t|] c [r|] [s|]]; cbn [r_total r_connect r_read r_status];
      f_equal; try reflexivity; f_equal; lia. }
  rewrite <- E.
  replace (negb (wf_retry (after fl len b (seen ++ [o])))) with (negb (fits fl len b (seen ++ [o]))).
  { destruct (fits fl len b (seen ++ [o])); reflexivity. }
  f_equal. unfold fits, wf_retry, after, within, nonneg, osub in *.
  cbn [r_total r_connect r_read r_status] in *.
  rewrite !count_app, Hr, Hs, app_length in *. cbn [List.length] in *.
  pose proof (count_nonneg (read_fault len) seen). pose proof (count_nonneg (status_fault fl) seen).
  destruct b as [[t|] [c|] [r|] [s|]]; cbn [r_total r_connect r_read r_status] in *; lia.
Qed.

Lemma increment_status_after : forall fl len b seen o,
  wf_retry b = true -> fits fl len b seen = true -> status_fault fl o = true ->
  increment (after fl len b seen) CStatus =
  if fits fl len b (seen ++ [o]) then Some (after fl len b (seen ++ [o])) else None.
Proof.
  intros fl len b seen o Hb Hf Hs.
  pose proof (status_not_read fl len o Hs) as Hr.
  unfold increment. rewrite is_exhausted_spec.
  assert (E : after fl len b (seen ++ [o]) =
              mkRetry (dec (r_total (after fl len b seen))) (r_connect (after fl len b seen))
                      (r_read (after fl len b seen)) (dec (r_status (after fl len b seen)))).
  { unfold after, dec, osub. cbn [r_total r_connect r_read r_status].
    rewrite !count_app, Hr, Hs, app_length. cbn [List.length].
    destruct b as [[t|] c [r|] [s|]]; cbn [r_total r_connect r_read r_status];
      f_equal; try reflexivity; f_equal; lia. }
  rewrite <- E.
  replace (negb (wf_retry (after fl len b (seen ++ [o])))) with (negb (fits fl len b (seen ++ [o]))).
  { destruct (fits fl len b (seen ++ [o])); reflexivity. }
  f_equal. unfold fits, wf_retry, after, within, nonneg, osub in *.
  cbn [r_total r_connect r_read r_status] in *.
  rewrite !count_app, Hr, Hs, app_length in *. cbn [List.length] in *.
  pose proof (count_nonneg (read_fault len) seen). pose proof (count_nonneg (status_fault fl) seen).
  destruct b as [[t|] [c|] [r|] [s|]]; cbn [r_total r_connect r_read r_status] in *; lia.
Qed.

(* ---------- the retry loop against the counting spec ---------- *)
Definition gen_spec (fl : list Z) (len : nat) (b : retry) (seen fs : list outcome) : result * nat :=
  let p := take_while (transient fl len) fs in
  if fits fl len b (seen ++ p) then
    (match drop_while (transient fl len) fs with Status c :: _ => Err (spec_status c) | _ => Ok len end,
     S (List.length p))
  else (Err Glitch, first_unfit fl len b seen p).

Lemma gen_spec_nil_seen : forall cfg len fs,
  gen_spec (c_forcelist cfg) len (c_retry cfg) [] fs = spec_request cfg len fs.
Proof.
  intros. unfold gen_spec, spec_request, spec_result, spec_requests. cbn [app].
  destruct (fits _ _ _ _); reflexivity.
Qed.

Lemma gen_spec_step : forall fl len b seen o rest,
  transient fl len o = true -> fits fl len b (seen ++ [o]) = true ->
  gen_spec fl len b seen (o :: rest) =
  (let '(res, n) := gen_spec fl len b (seen ++ [o]) rest in (res, S n)).
Proof.
  intros fl len b seen o rest Ht Hf. unfold gen_spec. cbn [take_while drop_while]. rewrite Ht.
  rewrite <- app_assoc. cbn [app]. cbn [first_unfit]. rewrite Hf.
  destruct (fits fl len b (seen ++ o :: take_while (transient fl len) rest)); reflexivity.
Qed.

Lemma gen_spec_stop : forall fl len b seen o rest,
  transient fl len o = true -> fits fl len b (seen ++ [o]) = false ->
  gen_spec fl len b seen (o :: rest) = (Err Glitch, 1%nat).
Proof.
  intros fl len b seen o rest Ht Hf. unfold gen_spec. cbn [take_while]. rewrite Ht.
  destruct (fits fl len b (seen ++ o :: take_while (transient fl len) rest)) eqn:E.
  - replace (seen ++ o :: take_while (transient fl len) rest)
      with ((seen ++ [o]) ++ take_while (transient fl len) rest) in E by (rewrite <- app_assoc; reflexivity).
    apply fits_prefix in E. congruence.
  - cbn [first_unfit]. rewrite Hf. reflexivity.
Qed.

Lemma gen_spec_done : forall fl len b seen o rest,
  transient fl len o = false -> fits fl len b seen = true ->
  gen_spec fl len b seen (o :: rest) =
  (match o with Status c => Err (spec_status c) | _ => Ok len end, 1%nat).
Proof.
  intros fl len b seen o rest Ht Hf. unfold gen_spec. cbn [take_while drop_while]. rewrite Ht.
  rewrite app_nil_r, Hf. reflexivity.
Qed.

Lemma loop_spec : forall fl p len b, wf_retry b = true -> proc_ok p len -> streamed p = true ->
  forall fs seen r0, Forall (fun o => wf_outcome o = true) fs -> fits fl len b seen = true ->
  request_loop fl p len [] r0 (after fl len b seen) fs = gen_spec fl len b seen fs.
Proof.
  intros fl p len b Hb Hp Hs. induction fs as [|o rest IH]; intros seen r0 Hwf Hf.
  - cbn [request_loop]. unfold katdal_step. rewrite Hs.
    rewrite (body_complete p len Good Hp eq_refl eq_refl).
    unfold gen_spec. cbn [take_while drop_while]. rewrite app_nil_r, Hf. reflexivity.
  - inversion Hwf as [|? ? Ho Hrest]; subst.
    assert (RETRY : forall r0', read_fault len o = true ->
              (match increment (after fl len b seen) CRead with
               | Some r' => let '(res, n) := request_loop fl p len [] (r0' r') r' rest in (res, S n)
               | None => (Err Glitch, 1%nat)
               end) = gen_spec fl len b seen (o :: rest)).
    { intros r0' Hr. rewrite (increment_read_after fl len b seen o Hb Hf Hr).
      assert (Ht : transient fl len o = true) by (unfold transient; rewrite Hr; reflexivity).
      destruct (fits fl len b (seen ++ [o])) eqn:E.
      - rewrite (IH _ _ Hrest E). symmetry. apply gen_spec_step; assumption.
      - symmetry. apply gen_spec_stop; assumption. }
    destruct (is200 o) eqn:H200.
    + (* a 200 response: the adapter hands it over, katdal reads the body *)
      assert (Ha : adapter_step fl (after fl len b seen) o = AResp) by (destruct o; try discriminate H200; reflexivity).
      cbn [request_loop]. rewrite Ha. unfold katdal_step. rewrite Hs.
      assert (Hst : match o with Status c => raise_for_status c [] | _ => None end = None)
        by (destruct o; try discriminate H200; reflexivity).
      rewrite Hst.
      destruct (read_fault len o) eqn:Hr.
      * destruct (body_fault p len o Hp H200 Hr) as [e [He Hre]]. rewrite He.
        rewrite (handle_read_exn _ e Hre).
        rewrite <- (RETRY (fun r' => r') eq_refl).
        destruct (increment (after fl len b seen) CRead); reflexivity.
      * rewrite (body_complete p len o Hp H200 Hr).
        rewrite gen_spec_done; [destruct o; try discriminate H200; reflexivity | | exact Hf].
        unfold transient. rewrite Hr. destruct o; try discriminate H200; reflexivity.
    + destruct o as [c|k|k|k|h|]; try discriminate H200.
      * (* a status *)
        cbn [request_loop adapter_step]. destruct (memZ c fl) eqn:Hm.
        -- assert (Hsf : status_fault fl (Status c) = true) by exact Hm.
           rewrite (increment_status_after fl len b seen (Status c) Hb Hf Hsf).
           assert (Ht : transient fl len (Status c) = true) by (unfold transient; rewrite Hsf; apply orb_true_r).
           destruct (fits fl len b (seen ++ [Status c])) eqn:E.
           ++ rewrite (IH _ _ Hrest E). symmetry. apply gen_spec_step; assumption.
           ++ destruct (handle_adapter_exhausted r0 true) as [_ HR]. rewrite HR.
              symmetry. apply gen_spec_stop; assumption.
        -- unfold katdal_step. rewrite Hs. cbn in Ho.
           rewrite raise_for_status_spec by lia.
           rewrite gen_spec_done; [reflexivity | | exact Hf].
           unfold transient. cbn. exact Hm.
      * (* no response header *)
        cbn [request_loop adapter_step].
        rewrite <- (RETRY (fun _ => r0) eq_refl).
        destruct (increment (after fl len b seen) CRead); [reflexivity|].
        destruct (handle_adapter_exhausted r0 (match h with HStall => true | _ => false end)) as [HR _].
        rewrite HR. reflexivity.
Qed.

(* C09_retry *)
Lemma request_is_spec : forall cfg p len fs,
  wf_retry (c_retry cfg) = true -> proc_ok p len -> streamed p = true ->
  Forall (fun o => wf_outcome o = true) fs ->
  request cfg p len [] fs = spec_request cfg len fs.
Proof.
  intros cfg p len fs Hb Hp Hs Hwf. unfold request.
  rewrite <- gen_spec_nil_seen.
  rewrite <- (after_nil (c_forcelist cfg) len (c_retry cfg)) at 2.
  apply loop_spec; try assumption.
  unfold fits, count, within. cbn. unfold wf_retry, nonneg in Hb.
  destruct (c_retry cfg) as [[t|] [c|] [r|] [s|]]; cbn in *; lia.
Qed.

(* ---------- never partial ---------- *)
Lemma handle_exn_not_ok : forall r e d, handle_exn r e <> LDone (Ok d).
Proof.
  intros r e d. unfold handle_exn.
  destruct (mem_string _ _); [destruct (increment r CRead)|]; congruence.
Qed.

Lemma chunk_body_ok : forall segs o d, body_result (PChunk segs) (total segs) o = inl (Ok d) -> d = total segs.
Proof.
  intros segs o d H.
  destruct o as [c|k|k|k|h|]; cbn [body_result] in H;
    try (destruct (detect_truncation segs _) eqn:E; [|discriminate H];
         apply detect_some in E; inversion H; lia).
  discriminate H.
Qed.

Lemma katdal_chunk_ok : forall segs ign r0 ra o d,
  katdal_step (PChunk segs) (total segs) ign r0 ra o = LDone (Ok d) -> d = total segs.
Proof.
  intros segs ign r0 ra o d. unfold katdal_step.
  destruct (streamed (PChunk segs)).
  - destruct (match o with Status c => raise_for_status c ign | _ => None end); [congruence|].
    destruct (body_result _ _ o) as [res|e] eqn:E.
    + intro H. inversion H; subst. eapply chunk_body_ok; eassumption.
    + intro H. exfalso. eapply handle_exn_not_ok; eassumption.
  - destruct (body_result _ _ o) as [res|e] eqn:E.
    + destruct (match o with Status c => raise_for_status c ign | _ => None end); [congruence|].
      intro H. inversion H; subst. eapply chunk_body_ok; eassumption.
    + intro H. exfalso. eapply handle_exn_not_ok; eassumption.
Qed.

Lemma loop_never_partial : forall fl segs ign fs r0 ra d n,
  request_loop fl (PChunk segs) (total segs) ign r0 ra fs = (Ok d, n) -> d = total segs.
Proof.
  intros fl segs ign. induction fs as [|o rest IH]; intros r0 ra d n H.
  - cbn [request_loop] in H.
    destruct (katdal_step _ _ ign r0 ra Good) eqn:E; [|congruence].
    inversion H; subst. eapply katdal_chunk_ok; eassumption.
  - cbn [request_loop] in H.
    destruct (adapter_step fl ra o).
    + destruct (katdal_step _ _ ign r0 ra o) eqn:E.
      * inversion H; subst. eapply katdal_chunk_ok; eassumption.
      * destruct (request_loop fl _ _ ign r r rest) as [res m] eqn:E2. inversion H; subst. eapply IH; eassumption.
    + destruct (request_loop fl _ _ ign r0 r rest) as [res m] eqn:E2. inversion H; subst. eapply IH; eassumption.
    + destruct (handle_exn r0 e) eqn:E.
      * inversion H; subst. exfalso. eapply handle_exn_not_ok; eassumption.
      * destruct (request_loop fl _ _ ign r r rest) as [res m] eqn:E2. inversion H; subst. eapply IH; eassumption.
Qed.

(* ---------- consequences of the refinement ---------- *)
Lemma take_while_app : forall {A} (f : A -> bool) pre x rest,
  forallb f pre = true -> f x = false -> take_while f (pre ++ x :: rest) = pre /\ drop_while f (pre ++ x :: rest) = x :: rest.
Proof.
  intros A f. induction pre as [|a t IH]; intros x rest Hp Hx; cbn in *.
  - rewrite Hx. auto.
  - apply andb_true_iff in Hp as [Ha Ht]. rewrite Ha. destruct (IH x rest Ht Hx) as [E1 E2]. rewrite E1, E2. auto.
Qed.
Lemma take_while_all : forall {A} (f : A -> bool) pre,
  forallb f pre = true -> take_while f pre = pre /\ drop_while f pre = [].
Proof.
  intros A f. induction pre as [|a t IH]; intros Hp; cbn in *; [auto|].
  apply andb_true_iff in Hp as [Ha Ht]. rewrite Ha. destruct (IH Ht) as [E1 E2]. rewrite E1, E2. auto.
Qed.

Lemma transient_wf : forall fl len o, wf_forcelist fl = true -> transient fl len o = true -> wf_outcome o = true.
Proof.
  intros fl len o Hfl Ht. destruct o as [c| | | | |]; try reflexivity.
  unfold transient in Ht. cbn in Ht. unfold memZ in Ht. apply existsb_exists in Ht as [x [Hin Hx]].
  apply Z.eqb_eq in Hx. subst x. unfold wf_forcelist in Hfl. rewrite forallb_forall in Hfl.
  specialize (Hfl c Hin). cbn. lia.
Qed.
Lemma transients_wf : forall fl len pre, wf_forcelist fl = true -> forallb (transient fl len) pre = true ->
  Forall (fun o => wf_outcome o = true) pre.
Proof.
  intros fl len pre Hfl H. apply Forall_forall. intros o Hin. rewrite forallb_forall in H.
  eapply transient_wf; eauto.
Qed.

(* transient faults, then the good response *)
Lemma faults_then_good : forall cfg p len pre,
  wf_retry (c_retry cfg) = true -> wf_forcelist (c_forcelist cfg) = true -> proc_ok p len -> streamed p = true ->
  forallb (transient (c_forcelist cfg) len) pre = true ->
  request cfg p len [] pre =
  if fits (c_forcelist cfg) len (c_retry cfg) pre then (Ok len, S (List.length pre))
  else (Err Glitch, first_unfit (c_forcelist cfg) len (c_retry cfg) [] pre).
Proof.
  intros cfg p len pre Hb Hfl Hp Hs Hpre.
  rewrite request_is_spec; try assumption; [|eapply transients_wf; eassumption].
  unfold spec_request, spec_result, spec_requests.
  destruct (take_while_all _ pre Hpre) as [E1 E2]. rewrite E1, E2.
  destruct (fits _ _ _ pre); reflexivity.
Qed.

(* transient faults, then a permanent status: classified at once, nothing after it matters *)
Lemma faults_then_permanent : forall cfg p len pre c rest,
  wf_retry (c_retry cfg) = true -> wf_forcelist (c_forcelist cfg) = true -> proc_ok p len -> streamed p = true ->
  forallb (transient (c_forcelist cfg) len) pre = true ->
  400 <= c < 600 -> memZ c (c_forcelist cfg) = false ->
  Forall (fun o => wf_outcome o = true) rest ->
  request cfg p len [] (pre ++ Status c :: rest) =
  if fits (c_forcelist cfg) len (c_retry cfg) pre then (Err (spec_status c), S (List.length pre))
  else (Err Glitch, first_unfit (c_forcelist cfg) len (c_retry cfg) [] pre).
Proof.
  intros cfg p len pre c rest Hb Hfl Hp Hs Hpre Hc Hm Hrest.
  rewrite request_is_spec; try assumption.
  - unfold spec_request, spec_result, spec_requests.
    assert (Hx : transient (c_forcelist cfg) len (Status c) = false) by (unfold transient; cbn; exact Hm).
    destruct (take_while_app _ pre (Status c) rest Hpre Hx) as [E1 E2]. rewrite E1, E2.
    destruct (fits _ _ _ pre); reflexivity.
  - apply Forall_app. split; [eapply transients_wf; eassumption|].
    constructor; [cbn; lia | exact Hrest].
Qed.

(* 401 / 403 as the first answer: exactly one request, whatever the budgets *)
Lemma auth_one_request : forall cfg p len c rest,
  streamed p = true -> (c = 401 \/ c = 403) -> memZ c (c_forcelist cfg) = false ->
  request cfg p len [] (Status c :: rest) = (Err Auth, 1%nat).
Proof.
  intros cfg p len c rest Hs Hc Hm. unfold request. cbn [request_loop adapter_step]. rewrite Hm.
  unfold katdal_step. rewrite Hs. rewrite raise_for_status_spec by lia.
  destruct Hc; subst; reflexivity.
Qed.

(* ---------- get_chunk and the 404 rule ---------- *)
Lemma spec_result_cases : forall fl len b fs,
  spec_result fl len b fs = Ok len \/ spec_result fl len b fs = Err Glitch \/
  exists c, spec_result fl len b fs = Err (spec_status c).
Proof.
  intros. unfold spec_result. destruct (fits _ _ _ _); [|auto].
  destruct (drop_while _ fs) as [|[c| | | | |] t]; eauto.
Qed.
Lemma spec_status_cases : forall c, spec_status c = Auth \/ spec_status c = NotFound \/ spec_status c = Unavail.
Proof. intro c. unfold spec_status. destruct ((c =? 401) || (c =? 403)); [auto|]. destruct (c =? 404); auto. Qed.

Lemma get_chunk_is_spec : forall cfg segs blen verified b fs fsb,
  wf_retry (c_retry cfg) = true -> Forall (fun o => wf_outcome o = true) fs ->
  s3_chunk_streamed = true ->
  let g := get_chunk cfg segs (total segs) blen verified b fs fsb in
  let listing := request cfg PListing blen [] (listing_script b fsb) in
  g_result g = spec_get_chunk cfg (total segs) blen verified b fs fsb /\
  g_obj_requests g = spec_requests (c_forcelist cfg) (total segs) (c_retry cfg) fs /\
  (g_bucket_requests g =
     if verified then O else
     match spec_result (c_forcelist cfg) (total segs) (c_retry cfg) fs with Err NotFound => snd listing | _ => O end) /\
  (g_verified g =
     match spec_result (c_forcelist cfg) (total segs) (c_retry cfg) fs with
     | Err NotFound => verified || match b, fst listing with BFull, Ok _ => true | _, _ => false end
     | _ => verified
     end).
Proof.
  intros cfg segs blen verified b fs fsb Hb Hwf Hs. cbv zeta.
  unfold get_chunk, spec_get_chunk.
  rewrite (request_is_spec cfg (PChunk segs) (total segs) fs Hb eq_refl Hs Hwf).
  unfold spec_request.
  destruct (spec_result (c_forcelist cfg) (total segs) (c_retry cfg) fs) as [d|[]] eqn:E;
    cbn [g_result g_obj_requests g_bucket_requests g_verified];
    try (destruct verified; repeat split; reflexivity).
  unfold spec_404, verify_bucket.
  destruct verified; cbn [g_result g_obj_requests g_bucket_requests g_verified orb]; [repeat split; reflexivity|].
  destruct (request cfg PListing blen [] (listing_script b fsb)) as [resb m]. cbn [fst snd].
  destruct resb as [d|[]]; destruct b; cbn [g_result g_obj_requests g_bucket_requests g_verified];
    repeat split; reflexivity.
Qed.

(* the listing itself, when nothing goes wrong with it *)
Lemma listing_plain : forall cfg blen b, memZ 404 (c_forcelist cfg) = false ->
  request cfg PListing blen [] (listing_script b []) =
  (match b with BMissing => Err NotFound | _ => Ok blen end, 1%nat).
Proof.
  intros cfg blen b Hm. unfold request.
  destruct b; cbn [listing_script app request_loop adapter_step]; try rewrite Hm;
    unfold katdal_step; cbn [streamed]; change s3_listing_streamed with false; cbn [body_result];
    try rewrite Nat.ltb_irrefl; reflexivity.
Qed.

(* ---------- RDB ---------- *)
Lemma rdb_is_spec : forall cfg len fs,
  wf_retry (c_retry cfg) = true -> Forall (fun o => wf_outcome o = true) fs ->
  rdb_fetch cfg len fs =
  (match spec_result (c_forcelist cfg) len (c_retry cfg) fs with Ok d => RdbOk d | Err _ => RdbNotFound end,
   spec_requests (c_forcelist cfg) len (c_retry cfg) fs).
Proof.
  intros cfg len fs Hb Hwf. unfold rdb_fetch.
  rewrite (request_is_spec cfg PObject len fs Hb Logic.I eq_refl Hwf). unfold spec_request.
  destruct (spec_result_cases (c_forcelist cfg) len (c_retry cfg) fs) as [E|[E|[c E]]]; rewrite E; try reflexivity.
  destruct (spec_status_cases c) as [H|[H|H]]; rewrite H; reflexivity.
Qed.

(* ---------- the default configuration of S3ChunkStore ---------- *)
Lemma default_config_ok : forall c r, 0 <= c -> 0 <= r ->
  wf_retry (c_retry (default_config c r)) = true /\
  c_forcelist (default_config c r) = [500; 502; 503; 504] /\
  wf_forcelist (c_forcelist (default_config c r)) = true /\
  r_status (c_retry (default_config c r)) = Some 5 /\ r_total (c_retry (default_config c r)) = Some 10.
Proof.
  intros c r Hc Hr. unfold default_config.
  change s3_default_forcelist_is_glitches with true. change s3_server_glitches with [500; 502; 503; 504].
  change s3_default_status with 5.
  cbn [c_retry c_forcelist r_status r_total]. repeat split; try reflexivity.
  unfold wf_retry, nonneg. cbn [r_total r_connect r_read r_status]. lia.
Qed.

Lemma exception_tables :
  (forall e, request_convert e =
     match e with
     | SocketTimeout | ReqConnReadTimeout => U3ReadTimeout
     | ConnectionReset | IncompleteReadX | ChunkedEncoding => U3Protocol
     | ReqConnMaxRetry _ => U3MaxRetry
     | e => e
     end) /\
  standardise U3MaxRetry = Glitch /\ standardise ReqRetryError = Glitch.
Proof. split; [intro e; rewrite convert_table; destruct e; reflexivity|]. split; apply standardise_table. Qed.

Lemma permanent_after_faults_4xx : forall cfg segs pre c rest,
  wf_retry (c_retry cfg) = true -> wf_forcelist (c_forcelist cfg) = true ->
  forallb (transient (c_forcelist cfg) (total segs)) pre = true ->
  400 <= c < 500 -> Forall (fun o => wf_outcome o = true) rest ->
  request cfg (PChunk segs) (total segs) [] (pre ++ Status c :: rest) =
  if fits (c_forcelist cfg) (total segs) (c_retry cfg) pre
  then (Err (if (c =? 401) || (c =? 403) then Auth else if c =? 404 then NotFound else Unavail), S (List.length pre))
  else (Err Glitch, first_unfit (c_forcelist cfg) (total segs) (c_retry cfg) [] pre).
Proof.
  intros cfg segs pre c rest Hb Hfl Hp Hc Hrest.
  apply (faults_then_permanent cfg (PChunk segs) (total segs) pre c rest Hb Hfl eq_refl eq_refl Hp); try assumption.
  - destruct Hc; split; [assumption | eapply Z.lt_trans; [eassumption | reflexivity]].
  - destruct (memZ c (c_forcelist cfg)) eqn:E; [|reflexivity]. exfalso.
    unfold memZ in E. apply existsb_exists in E as [x [Hin Hx]]. apply Z.eqb_eq in Hx. subst x.
    unfold wf_forcelist in Hfl. rewrite forallb_forall in Hfl. specialize (Hfl c Hin).
    apply andb_true_iff in Hfl as [H5 _]. apply Z.leb_le in H5. destruct Hc as [_ Hc].
    exact (Z.lt_irrefl _ (Z.lt_le_trans _ _ _ Hc H5)).
Qed.

(* =====================================================================================
   Requests that are NOT streamed (identity `process`: bucket listing, put_chunk, is_complete, mark_complete): the body
   of the answer is downloaded inside session.request.  When no answer loses part of its body - in particular when
   the answers carry no body at all, as for a PUT or the empty `complete` marker - the loop is the counting spec.
   ===================================================================================== *)
Definition no_body_fault (len : nat) (o : outcome) : bool := negb (is200 o && read_fault len o).

Lemma loop_spec_nb : forall fl len b, wf_retry b = true -> streamed PListing = false ->
  forall fs seen r0, Forall (fun o => wf_outcome o = true) fs -> forallb (no_body_fault len) fs = true ->
  fits fl len b seen = true ->
  request_loop fl PListing len [] r0 (after fl len b seen) fs = gen_spec fl len b seen fs.
Proof.
  intros fl len b Hb Hs. induction fs as [|o rest IH]; intros seen r0 Hwf Hnb Hf.
  - cbn [request_loop]. unfold katdal_step. rewrite Hs.
    rewrite (body_complete PListing len Good Logic.I eq_refl eq_refl).
    unfold gen_spec. cbn [take_while drop_while]. rewrite app_nil_r, Hf. reflexivity.
  - inversion Hwf as [|? ? Ho Hrest]; subst.
    cbn [forallb] in Hnb. apply andb_true_iff in Hnb as [Hno Hnb].
    assert (RETRY : forall r0', read_fault len o = true ->
              (match increment (after fl len b seen) CRead with
               | Some r' => let '(res, n) := request_loop fl PListing len [] (r0' r') r' rest in (res, S n)
               | None => (Err Glitch, 1%nat)
               end) = gen_spec fl len b seen (o :: rest)).
    { intros r0' Hr. rewrite (increment_read_after fl len b seen o Hb Hf Hr).
      assert (Ht : transient fl len o = true) by (unfold transient; rewrite Hr; reflexivity).
      destruct (fits fl len b (seen ++ [o])) eqn:E.
      - rewrite (IH _ _ Hrest Hnb E). symmetry. apply gen_spec_step; assumption.
      - symmetry. apply gen_spec_stop; assumption. }
    destruct (is200 o) eqn:H200.
    + (* a 200 response whose body arrives complete *)
      assert (Hr : read_fault len o = false).
      { unfold no_body_fault in Hno. rewrite H200 in Hno. cbn in Hno. apply negb_true_iff in Hno. exact Hno. }
      assert (Ha : adapter_step fl (after fl len b seen) o = AResp) by (destruct o; try discriminate H200; reflexivity).
      cbn [request_loop]. rewrite Ha. unfold katdal_step. rewrite Hs.
      rewrite (body_complete PListing len o Logic.I H200 Hr).
      assert (Hst : match o with Status c => raise_for_status c [] | _ => None end = None)
        by (destruct o; try discriminate H200; reflexivity).
      rewrite Hst.
      rewrite gen_spec_done; [destruct o; try discriminate H200; reflexivity | | exact Hf].
      unfold transient. rewrite Hr. destruct o; try discriminate H200; reflexivity.
    + destruct o as [c|k|k|k|h|]; try discriminate H200.
      * (* a status *)
        cbn [request_loop adapter_step]. destruct (memZ c fl) eqn:Hm.
        -- assert (Hsf : status_fault fl (Status c) = true) by exact Hm.
           rewrite (increment_status_after fl len b seen (Status c) Hb Hf Hsf).
           assert (Ht : transient fl len (Status c) = true) by (unfold transient; rewrite Hsf; apply orb_true_r).
           destruct (fits fl len b (seen ++ [Status c])) eqn:E.
           ++ rewrite (IH _ _ Hrest Hnb E). symmetry. apply gen_spec_step; assumption.
           ++ destruct (handle_adapter_exhausted r0 true) as [_ HR]. rewrite HR.
              symmetry. apply gen_spec_stop; assumption.
        -- unfold katdal_step. rewrite Hs. cbn in Ho. cbn [body_result].
           rewrite raise_for_status_spec by lia.
           rewrite gen_spec_done; [reflexivity | | exact Hf].
           unfold transient. cbn. exact Hm.
      * (* no response header *)
        cbn [request_loop adapter_step].
        rewrite <- (RETRY (fun _ => r0) eq_refl).
        destruct (increment (after fl len b seen) CRead); [reflexivity|].
        destruct (handle_adapter_exhausted r0 (match h with HStall => true | _ => false end)) as [HR _].
        rewrite HR. reflexivity.
Qed.

Lemma request_nb_is_spec : forall cfg len fs,
  wf_retry (c_retry cfg) = true -> Forall (fun o => wf_outcome o = true) fs ->
  forallb (no_body_fault len) fs = true ->
  request cfg PListing len [] fs = spec_request cfg len fs.
Proof.
  intros cfg len fs Hb Hwf Hnb. unfold request.
  rewrite <- gen_spec_nil_seen.
  rewrite <- (after_nil (c_forcelist cfg) len (c_retry cfg)) at 2.
  apply loop_spec_nb; try assumption; [reflexivity|].
  unfold fits, count, within. cbn. unfold wf_retry, nonneg in Hb.
  destruct (c_retry cfg) as [[t|] [c|] [r|] [s|]]; cbn in *; lia.
Qed.

(* answers without a body cannot lose part of it *)
Lemma no_body_no_fault : forall fs, forallb (no_body_fault O) fs = true.
Proof.
  induction fs as [|o rest IH]; [reflexivity|]. cbn [forallb]. rewrite IH, andb_true_r.
  unfold no_body_fault. destruct o; reflexivity.
Qed.

(* put_chunk: the answer to a PUT has no body *)
Lemma put_chunk_is_spec : forall cfg fs,
  wf_retry (c_retry cfg) = true -> Forall (fun o => wf_outcome o = true) fs ->
  put_chunk cfg O fs = spec_request cfg O fs.
Proof. intros. unfold put_chunk. apply request_nb_is_spec; try assumption. apply no_body_no_fault. Qed.

Lemma put_chunk_guarded : forall cfg len fs,
  wf_retry (c_retry cfg) = true -> Forall (fun o => wf_outcome o = true) fs ->
  forallb (no_body_fault len) fs = true ->
  put_chunk cfg len fs = spec_request cfg len fs.
Proof. intros. unfold put_chunk. apply request_nb_is_spec; assumption. Qed.

Lemma is_complete_table :
  caught_by_is_complete NotFound = true /\ caught_by_is_complete Glitch = true /\
  caught_by_is_complete Auth = false /\ caught_by_is_complete Unavail = false /\
  caught_by_is_complete InvalidTok = false /\ caught_by_is_complete Raw = false.
Proof. repeat split; reflexivity. Qed.

Lemma is_complete_guarded : forall cfg len fs,
  wf_retry (c_retry cfg) = true -> Forall (fun o => wf_outcome o = true) fs ->
  forallb (no_body_fault len) fs = true ->
  is_complete cfg len fs = (spec_is_complete cfg len fs, spec_requests (c_forcelist cfg) len (c_retry cfg) fs).
Proof.
  intros cfg len fs Hb Hwf Hnb. unfold is_complete, spec_is_complete.
  rewrite (request_nb_is_spec cfg len fs Hb Hwf Hnb). unfold spec_request.
  destruct (spec_result_cases (c_forcelist cfg) len (c_retry cfg) fs) as [E|[E|[c E]]]; rewrite E; try reflexivity.
  destruct (spec_status_cases c) as [H|[H|H]]; rewrite H; reflexivity.
Qed.

Lemma is_complete_is_spec : forall cfg fs,
  wf_retry (c_retry cfg) = true -> Forall (fun o => wf_outcome o = true) fs ->
  is_complete cfg O fs = (spec_is_complete cfg O fs, spec_requests (c_forcelist cfg) O (c_retry cfg) fs).
Proof. intros. apply is_complete_guarded; try assumption. apply no_body_no_fault. Qed.

(* mark_complete: the marker is written only after the bucket request succeeded (or was answered 409: the bucket
   exists already); its own request then is the counting spec with the full budget *)
Lemma mark_complete_bucket_failed : forall cfg fs e,
  fst (request cfg PListing O s3_create_bucket_ignored fs) = Err e ->
  mark_complete cfg fs = (Err e, snd (request cfg PListing O s3_create_bucket_ignored fs), O).
Proof.
  intros cfg fs e H. unfold mark_complete, mark_complete_with.
  destruct (request cfg PListing O s3_create_bucket_ignored fs) as [rb nb]. cbn in H. subst. reflexivity.
Qed.

Lemma mark_complete_bucket_ok : forall cfg fs d,
  wf_retry (c_retry cfg) = true -> Forall (fun o => wf_outcome o = true) fs ->
  fst (request cfg PListing O s3_create_bucket_ignored fs) = Ok d ->
  let nb := snd (request cfg PListing O s3_create_bucket_ignored fs) in
  mark_complete cfg fs =
  (spec_result (c_forcelist cfg) O (c_retry cfg) (skipn nb fs), nb,
   spec_requests (c_forcelist cfg) O (c_retry cfg) (skipn nb fs)).
Proof.
  intros cfg fs d Hb Hwf H. unfold mark_complete, mark_complete_with.
  destruct (request cfg PListing O s3_create_bucket_ignored fs) as [rb nb]. cbn in H. subst. cbn [snd].
  fold (put_chunk cfg O (skipn nb fs)).
  assert (Hwf' : Forall (fun o => wf_outcome o = true) (skipn nb fs)).
  { rewrite Forall_forall in *. intros x Hx. apply Hwf. rewrite <- (firstn_skipn nb fs). apply in_or_app. right. exact Hx. }
  rewrite (put_chunk_is_spec cfg (skipn nb fs) Hb Hwf'). reflexivity.
Qed.

(* 409 on the bucket request counts as success, any other permanent status does not *)
Lemma create_bucket_409 : forall cfg rest, memZ 409 (c_forcelist cfg) = false ->
  request cfg PListing O s3_create_bucket_ignored (Status 409 :: rest) = (Ok O, 1%nat).
Proof.
  intros cfg rest Hm. unfold request. cbn [request_loop adapter_step]. rewrite Hm.
  unfold katdal_step. change (streamed PListing) with false. cbv iota. reflexivity.
Qed.

(* ---------- the `retries` argument ---------- *)
Lemma store_config_int : forall n, 0 <= n ->
  let cfg := store_config (RInt n) in
  r_read (c_retry cfg) = Some n /\ r_connect (c_retry cfg) = Some n /\ r_status (c_retry cfg) = Some 5 /\
  r_total (c_retry cfg) = Some 10 /\ c_forcelist cfg = [500; 502; 503; 504] /\ wf_retry (c_retry cfg) = true.
Proof.
  intros n Hn. cbn [store_config]. destruct (default_config_ok n n Hn Hn) as [H1 [H2 [_ [H4 H5]]]].
  repeat split; try assumption; reflexivity.
Qed.

Lemma default_store_is : default_store = default_config 2 2.
Proof. reflexivity. Qed.

(* what a user of S3ChunkStore(url) can rely on: a chunk survives any run of transient faults with at most 2 read
   faults, at most 5 status faults (and at most 10 faults in all) *)
Lemma default_store_budget : forall segs pre,
  forallb (transient [500; 502; 503; 504] (total segs)) pre = true ->
  count (read_fault (total segs)) pre <= 2 -> count (status_fault [500; 502; 503; 504]) pre <= 5 ->
  request default_store (PChunk segs) (total segs) [] pre = (Ok (total segs), S (List.length pre)).
Proof.
  intros segs pre Ht Hr Hst. rewrite default_store_is.
  destruct (default_config_ok 2 2 ltac:(lia) ltac:(lia)) as [H1 [H2 [H3 _]]].
  rewrite (faults_then_good (default_config 2 2) (PChunk segs) (total segs) pre H1 H3 eq_refl eq_refl);
    [|rewrite H2; exact Ht].
  rewrite H2.
  assert (F : fits [500; 502; 503; 504] (total segs) (c_retry (default_config 2 2)) pre = true).
  { unfold fits, within. unfold default_config. change s3_default_status with 5. cbn [c_retry r_read r_status r_total].
    assert (Z.of_nat (List.length pre) <= 7).
    { assert (E : forall l, forallb (transient [500; 502; 503; 504] (total segs)) l = true ->
                  Z.of_nat (List.length l) <= count (read_fault (total segs)) l + count (status_fault [500; 502; 503; 504]) l).
      { unfold count. induction l as [|o l IH]; intro Hl; [cbn; lia|].
        cbn [forallb] in Hl. apply andb_true_iff in Hl as [Ho Hl]. specialize (IH Hl).
        unfold transient in Ho. cbn [filter List.length].
        destruct (read_fault (total segs) o); destruct (status_fault [500; 502; 503; 504] o);
          try discriminate Ho; cbn [List.length]; lia. }
      specialize (E pre Ht). lia. }
    apply andb_true_iff; split; [apply andb_true_iff; split|]; apply Z.leb_le; lia. }
  rewrite F. reflexivity.
Qed.

Lemma mark_complete_is_spec : forall cfg fs, mark_complete cfg fs = spec_mark_complete cfg fs.
Proof. reflexivity. Qed.
