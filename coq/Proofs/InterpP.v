(* C12 / C17: lemmas about piecewise-linear interpolation (Model/Interp.v). *)
From Coq Require Import ZArith QArith List Bool Lia Lqa.
From KV Require Import Model.Interp.
Import ListNotations.
Open Scope Q_scope.

Lemma select_mask_map : forall {A B} (f : A -> B) (m : list bool) (l : list A),
  select_mask m (map f l) = map f (select_mask m l).
Proof.
  intros A B f m. induction m as [|b m IH]; intros [|a l]; simpl; auto.
  destruct b; simpl; rewrite IH; reflexivity.
Qed.

(* interpolating onto a sub-grid = sub-grid of the interpolation *)
Lemma interp_pointwise : forall nodes (m : list bool) (grid : list Q),
  map (interp nodes) (select_mask m grid) = select_mask m (map (interp nodes) grid).
Proof. intros. symmetry. apply select_mask_map. Qed.
