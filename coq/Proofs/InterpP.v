(* C12 / C17: lemmas about piecewise-linear interpolation (Model/Interp.v). *)
From Coq Require Import ZArith QArith List Bool Lia Lqa.
From KV Require Import Model.Interp.
Import ListNotations.
Open Scope Q_scope.

Lemma select_mask_map : forall {A B} (f : A -> B) (m : list bool) (l : list A),
  select_mask m (map f l) = map f (select_mask m l).
Proof.
  intros A B f m. induction m as [|b m IH]; intros [|a l]; simpl; auto.
  destruct b; simpl; rewrite IH; reflexivity.
Qed.

(* interpolating onto a sub-grid = sub-grid of the interpolation *)
Lemma interp_pointwise : forall nodes (m : list bool) (grid : list Q),
  map (interp nodes) (select_mask m grid) = select_mask m (map (interp nodes) grid).
Proof. intros. symmetry. apply select_mask_map. Qed.

Lemma qle_true : forall a b, a <= b -> Qle_bool a b = true.
Proof. intros. apply Qle_bool_iff; assumption. Qed.
Lemma qle_false : forall a b, b < a -> Qle_bool a b = false.
Proof.
  intros a b H. destruct (Qle_bool a b) eqn:E; auto.
  apply Qle_bool_iff in E. lra.
Qed.

Lemma sinc_tail : forall n l, strictly_inc (n :: l) -> strictly_inc l.
Proof. intros [x y] l H. simpl in H. tauto. Qed.

Lemma sinc_head_lt : forall l x0 y0 xi yi,
  strictly_inc ((x0, y0) :: l) -> In (xi, yi) l -> x0 < xi.
Proof.
  induction l as [|[x1 y1] t IH]; intros x0 y0 xi yi H HI; [inversion HI|].
  simpl in H. destruct H as [H01 H1].
  destruct HI as [E|HI].
  - inversion E; subst. exact H01.
  - assert (x1 < xi) by (apply (IH x1 y1 xi yi); [exact H1 | exact HI]). lra.
Qed.

Lemma sinc_app_r : forall h l, strictly_inc (h ++ l) -> strictly_inc l.
Proof. induction h as [|n h IH]; intros l H; auto. apply IH. eapply sinc_tail. exact H. Qed.

Lemma seg_convex : forall x0 y0 x1 y1 x, x0 < x1 ->
  seg x0 y0 x1 y1 x == ((x1 - x) * y0 + (x - x0) * y1) / (x1 - x0).
Proof. intros. unfold seg. field. lra. Qed.

Lemma seg_at_left : forall x0 y0 x1 y1 x, x0 < x1 -> x == x0 -> seg x0 y0 x1 y1 x == y0.
Proof. intros. unfold seg. rewrite H0. field. lra. Qed.

(* value at the current node *)
Lemma interp_from_here : forall l x0 y0 x,
  strictly_inc ((x0, y0) :: l) -> x == x0 -> interp_from x0 y0 l x == y0.
Proof.
  intros [|[x1 y1] t] x0 y0 x H E; simpl; [reflexivity|].
  simpl in H. destruct H as [H01 _].
  rewrite qle_false by lra. apply seg_at_left; assumption.
Qed.

Lemma interp_from_node : forall l x0 y0 x xi yi,
  strictly_inc ((x0, y0) :: l) -> In (xi, yi) l -> x == xi -> interp_from x0 y0 l x == yi.
Proof.
  induction l as [|[x1 y1] t IH]; intros x0 y0 x xi yi H HI E; [inversion HI|].
  simpl. pose proof (sinc_tail _ _ H) as H1.
  destruct HI as [Eq|HI].
  - inversion Eq; subst. rewrite qle_true by lra. apply interp_from_here; assumption.
  - assert (x1 < xi) by (eapply sinc_head_lt; [exact H1| exact HI]).
    rewrite qle_true by lra. eapply IH; eassumption.
Qed.

(* ---- value AT a node ---- *)
Lemma interp_at_node : forall nodes x xi yi,
  strictly_inc nodes -> In (xi, yi) nodes -> x == xi -> interp_d nodes x == yi.
Proof.
  intros [|[x0 y0] t] x xi yi H HI E; [inversion HI|].
  unfold interp_d, interp. destruct HI as [Eq|HI].
  - inversion Eq; subst. rewrite qle_true by lra. apply interp_from_here; assumption.
  - assert (x0 < xi) by (eapply sinc_head_lt; eassumption).
    rewrite qle_true by lra. eapply interp_from_node; eassumption.
Qed.

(* skipping the nodes at or below x *)
Lemma interp_from_skip : forall h xa ya x0 y0 rest x,
  strictly_inc ((xa, ya) :: h ++ (x0, y0) :: rest) -> x0 <= x ->
  interp_from xa ya (h ++ (x0, y0) :: rest) x = interp_from x0 y0 rest x.
Proof.
  induction h as [|[xb yb] h IH]; intros xa ya x0 y0 rest x H Hx; simpl.
  - rewrite qle_true by assumption. reflexivity.
  - pose proof (sinc_tail _ _ H) as H1. simpl app in H1.
    assert (xb < x0) by (eapply sinc_head_lt; [exact H1| apply in_or_app; right; left; reflexivity]).
    rewrite qle_true by lra. apply IH; assumption.
Qed.

(* ---- value BETWEEN two adjacent nodes: the convex combination ---- *)
Lemma interp_between : forall h x0 y0 x1 y1 t x,
  strictly_inc (h ++ (x0, y0) :: (x1, y1) :: t) -> x0 <= x -> x < x1 ->
  interp_d (h ++ (x0, y0) :: (x1, y1) :: t) x == ((x1 - x) * y0 + (x - x0) * y1) / (x1 - x0).
Proof.
  intros h x0 y0 x1 y1 t x H Hl Hr.
  assert (H01 : x0 < x1).
  { pose proof (sinc_app_r _ _ H) as H'. simpl in H'. tauto. }
  unfold interp_d, interp. destruct h as [|[xa ya] h]; simpl app; cbv beta iota.
  - rewrite qle_true by assumption. simpl. rewrite qle_false by assumption. apply seg_convex; assumption.
  - simpl app in H.
    assert (xa < x0) by (eapply sinc_head_lt; [exact H| apply in_or_app; right; left; reflexivity]).
    rewrite qle_true by lra. rewrite interp_from_skip by assumption.
    simpl. rewrite qle_false by assumption. apply seg_convex; assumption.
Qed.

(* the same value written with the weight lam = (x - x0)/(x1 - x0) in [0,1) *)
Lemma interp_between_weight : forall h x0 y0 x1 y1 t x,
  strictly_inc (h ++ (x0, y0) :: (x1, y1) :: t) -> x0 <= x -> x < x1 ->
  let lam := (x - x0) / (x1 - x0) in
  0 <= lam /\ lam < 1 /\ x == (1 - lam) * x0 + lam * x1 /\
  interp_d (h ++ (x0, y0) :: (x1, y1) :: t) x == (1 - lam) * y0 + lam * y1.
Proof.
  intros h x0 y0 x1 y1 t x H Hl Hr lam.
  assert (H01 : x0 < x1).
  { pose proof (sinc_app_r _ _ H) as H'. simpl in H'. tauto. }
  assert (Hd : 0 < x1 - x0) by lra.
  assert (Hi : 0 < / (x1 - x0)) by (apply Qinv_lt_0_compat; exact Hd).
  subst lam. unfold Qdiv. repeat split.
  - apply Qmult_le_0_compat; lra.
  - setoid_replace 1 with ((x1 - x0) * / (x1 - x0)) by (field; lra).
    apply Qmult_lt_compat_r; [exact Hi | lra].
  - field. lra.
  - rewrite interp_between by assumption. field. lra.
Qed.

(* ---- held constant OUTSIDE the node range ---- *)
Lemma interp_left : forall x0 y0 t x,
  strictly_inc ((x0, y0) :: t) -> x <= x0 -> interp_d ((x0, y0) :: t) x == y0.
Proof.
  intros x0 y0 t x H Hx. unfold interp_d, interp.
  destruct (Qle_bool x0 x) eqn:E; [|reflexivity].
  apply Qle_bool_iff in E. apply interp_from_here; [assumption | lra].
Qed.

Lemma last_cons_default : forall {A} (l : list A) (a d : A), last (a :: l) d = last l a.
Proof.
  induction l as [|b l IH]; intros a d; [reflexivity|].
  change (last (a :: b :: l) d) with (last (b :: l) d). rewrite (IH b d), (IH b a). reflexivity.
Qed.

Lemma interp_from_right : forall l x0 y0 x,
  strictly_inc ((x0, y0) :: l) -> fst (last l (x0, y0)) <= x ->
  interp_from x0 y0 l x == snd (last l (x0, y0)).
Proof.
  induction l as [|[x1 y1] t IH]; intros x0 y0 x H Hx; [reflexivity|].
  pose proof (sinc_tail _ _ H) as H1.
  assert (Hlast : last ((x1, y1) :: t) (x0, y0) = last t (x1, y1)) by apply last_cons_default.
  rewrite Hlast in *.
  assert (x1 <= fst (last t (x1, y1))).
  { destruct t as [|n t']; [simpl; lra|].
    pose proof (@exists_last _ (n :: t') ltac:(discriminate)) as [h [[xl yl] El]].
    rewrite El. rewrite last_last. simpl.
    assert (x1 < xl) by (eapply sinc_head_lt; [exact H1| rewrite El; apply in_or_app; right; left; reflexivity]).
    lra. }
  simpl interp_from. rewrite qle_true by lra. apply IH; assumption.
Qed.

Lemma interp_right : forall h xn yn x,
  strictly_inc (h ++ [(xn, yn)]) -> xn <= x -> interp_d (h ++ [(xn, yn)]) x == yn.
Proof.
  intros h xn yn x H Hx. unfold interp_d, interp.
  destruct h as [|[x0 y0] h]; simpl app; cbv beta iota.
  - rewrite qle_true by assumption. reflexivity.
  - simpl app in H.
    assert (x0 < xn) by (eapply sinc_head_lt; [exact H| apply in_or_app; right; left; reflexivity]).
    rewrite qle_true by lra.
    rewrite interp_from_right; rewrite ?last_last; simpl; auto; lra.
Qed.

(* a single node (the dummy sample) gives a constant *)
Lemma interp_single : forall x0 y0 x, interp_d [(x0, y0)] x = y0.
Proof. intros. unfold interp_d, interp. destruct (Qle_bool x0 x); reflexivity. Qed.

(* the model satisfies the declarative relation everywhere (so the relation is inhabited exactly by it) *)
Lemma interp_total : forall nodes x, nodes <> [] -> exists y, interp nodes x = Some y.
Proof. intros [|[x0 y0] t] x H; [congruence|]. eexists. reflexivity. Qed.

Example interp_example :
  let nodes := [(0, 4); (2, 8); (6, 0)] in
  strictly_inc nodes /\ interp_d nodes (-1) == 4 /\ interp_d nodes 1 == 6 /\ interp_d nodes 2 == 8 /\
  interp_d nodes 3 == 6 /\ interp_d nodes 9 == 0.
Proof. simpl. repeat split; reflexivity. Qed.
