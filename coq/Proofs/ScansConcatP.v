(* C03 on concatenated data sets: the run-on offsets of ConcatenatedDataSet.__init__ (Model/ScansConcat.v) make the
   scan / compscan numbering of the concatenation consecutive from zero in time order and collision-free, for
   EVERY list of parts whose index sensors are built the way the format classes build them. *)
From Coq Require Import String.
From Coq Require Import ZArith List Bool Arith Lia FinFun.
From KV Require Import Base.Sx Gen.Generated Model.Categorical Proofs.CategoricalP Proofs.CategoricalConcatP
  Proofs.CategoricalRemoveP Proofs.ScansSegP.
From KV Require Model.Scans Model.ScansConcat.
Import ListNotations.
Open Scope nat_scope.

Module S := Scans.
Module C := ScansConcat.

(* ------------------------------------------------------------------ the translated constants *)
Lemma cc_start_zero : forall w, C.cc_start w = 0%Z.
Proof. destruct w; reflexivity. Qed.
Lemma advance_eq : forall w (c : S.cdz), C.advance w c = Z.of_nat (length (uv c)).
Proof. destruct w; reflexivity. Qed.
Lemma cc_skeleton_ok :
  cc_sort_key = "start_time"%string
  /\ cc_scan_sensor = "Observation/scan_index"%string /\ cc_compscan_sensor = "Observation/compscan_index"%string
  /\ cc_scan_start = 0%Z /\ cc_compscan_start = 0%Z
  /\ cc_scan_shift = "index+start"%string /\ cc_compscan_shift = "index+start"%string
  /\ cc_scan_advance = "len(unique_values)"%string /\ cc_compscan_advance = "len(unique_values)"%string.
Proof. repeat split; reflexivity. Qed.

(* ------------------------------------------------------------------ small list facts *)
Lemma seq_shift_Z : forall n a k,
  map (fun i => (Z.of_nat i + Z.of_nat k)%Z) (seq a n) = map Z.of_nat (seq (a + k) n).
Proof.
  induction n as [|n IH]; intros a k; [reflexivity|]. cbn [seq map]. f_equal; [lia|]. exact (IH (S a) k).
Qed.

Lemma In_expand_ev {A} : forall r s (vs : list A) x, In x (expand_ev s r vs) -> In x vs.
Proof.
  induction r as [|e r IH]; intros s vs x H; [destruct vs; contradiction|].
  destruct vs as [|v vs]; [contradiction|]. cbn [expand_ev] in H. apply in_app_or in H. destruct H as [H|H].
  - apply repeat_spec in H. subst. left. reflexivity.
  - right. eapply IH. exact H.
Qed.

Lemma Zadd_inj : forall k : Z, Injective (fun v : Z => (v + k)%Z).
Proof. intros k a b H. lia. Qed.

(* ------------------------------------------------------------------ one shifted part *)
Lemma vals_shift : forall (k : Z) (p : S.cdz), Forall (fun i => i < length (uv p)) (idx p) ->
  vals S.zd (C.shift_cd k p) = map (fun v => (v + k)%Z) (vals S.zd p).
Proof.
  intros k p Hf. unfold vals, C.shift_cd. cbn [uv idx]. rewrite map_map. apply map_ext_in. intros i Hi.
  rewrite Forall_forall in Hf. specialize (Hf i Hi).
  rewrite (nth_indep _ S.zd (S.zd + k)%Z) by (rewrite map_length; exact Hf).
  exact (map_nth (fun index => (index + k)%Z) (uv p) S.zd i).
Qed.

Lemma index_part_shape : forall p : S.cdz, C.index_part p ->
  exists e r, ev p = 0 :: e :: r /\ chain lt 0 (e :: r) /\ length (e :: r) = length (idx p).
Proof.
  intros p (W & S0 & Hne & _). destruct (WF_inv p W) as (s & r & E & Ch & Hl & _).
  unfold start0 in S0. rewrite E in S0. simpl in S0. subst s.
  destruct r as [|e r]; [destruct (idx p); [congruence|discriminate Hl]|].
  exists e, r. split; [exact E|]. split; [exact Ch|exact Hl].
Qed.

Lemma expand_shift : forall k (p : S.cdz), C.index_part p ->
  expand S.zd (C.shift_cd (Z.of_nat k) p) = expand_evs (ev p) (map Z.of_nat (seq k (length (idx p)))).
Proof.
  intros k p HP. pose proof HP as (W & _ & _ & _ & Hv). destruct W as (_ & _ & Hf & _).
  unfold expand. change (ev (C.shift_cd (Z.of_nat k) p)) with (ev p).
  rewrite vals_shift by exact Hf. rewrite Hv, map_map. rewrite (seq_shift_Z (length (idx p)) 0 k). reflexivity.
Qed.

Lemma shift_values : forall k (p : S.cdz) x, C.index_part p ->
  In x (expand S.zd (C.shift_cd (Z.of_nat k) p)) -> (Z.of_nat k <= x < Z.of_nat (k + length (idx p)))%Z.
Proof.
  intros k p x HP H. rewrite expand_shift in H by exact HP.
  destruct (index_part_shape p HP) as (e & r & E & _ & _). rewrite E in H. cbn [expand_evs] in H.
  apply In_expand_ev in H. apply in_map_iff in H. destruct H as (i & <- & Hi). apply in_seq in Hi. lia.
Qed.

Lemma shift_uv_length : forall k (p : S.cdz), C.index_part p -> length (uv (C.shift_cd k p)) = length (idx p).
Proof.
  intros k p (_ & _ & _ & Hu & _). unfold C.shift_cd. cbn [uv]. rewrite map_length, Hu, map_length, seq_length.
  reflexivity.
Qed.

Lemma shift_good : forall k (p : S.cdz), C.index_part p ->
  WF (C.shift_cd k p) /\ start0 (C.shift_cd k p) /\ idx (C.shift_cd k p) <> [].
Proof.
  intros k p ((Hi & Hl & Hf & Hn) & S0 & Hne & _). split; [|split; assumption].
  unfold WF, C.shift_cd. cbn [uv idx ev]. split; [exact Hi|]. split; [exact Hl|]. split.
  - rewrite map_length. exact Hf.
  - apply Injective_map_NoDup; [apply Zadd_inj | exact Hn].
Qed.

Lemma shift_length : forall k (p : S.cdz), C.index_part p ->
  length (expand S.zd (C.shift_cd k p)) = ndumps p.
Proof.
  intros k p HP. destruct (shift_good k p HP) as (W & S0 & _). rewrite (expand_length S.zd _ W).
  unfold start0 in S0. rewrite S0. unfold ndumps, C.shift_cd. cbn [ev]. lia.
Qed.

(* ------------------------------------------------------------------ numbering *)
Lemma steps_up_expand_app : forall r s k x rest, chain lt s r -> r <> [] ->
  (x = Z.of_nat k \/ (x + 1)%Z = Z.of_nat k) ->
  S.steps_up x (expand_ev s r (map Z.of_nat (seq k (length r))) ++ rest)
  = S.steps_up (Z.of_nat (k + length r - 1)) rest.
Proof.
  induction r as [|e r IH]; intros s k x rest Ch Hne Hx; [congruence|].
  destruct Ch as [Hlt Ch]. cbn [length seq map expand_ev].
  destruct (e - s) as [|j] eqn:Ej; [lia|]. cbn [repeat app S.steps_up].
  assert (Hb : (Z.eqb (Z.of_nat k) x || Z.eqb (Z.of_nat k) (x + 1))%bool = true).
  { destruct Hx as [->| <-]; [rewrite Z.eqb_refl; reflexivity | rewrite Z.eqb_refl; apply orb_true_r]. }
  rewrite Hb. cbn [andb]. rewrite <- app_assoc, steps_up_repeat.
  destruct r as [|e' r'].
  - cbn [length seq map expand_ev app]. replace (k + 1 - 1) with k by lia. reflexivity.
  - rewrite (IH e (S k) (Z.of_nat k) rest Ch); [|discriminate|right; lia].
    f_equal. f_equal. cbn [length]. lia.
Qed.

Lemma run_on_steps : forall w (parts : list S.cdz), Forall C.index_part parts -> forall k x,
  (x = Z.of_nat k \/ (x + 1)%Z = Z.of_nat k) ->
  S.steps_up x (concat (map (expand S.zd) (C.run_on w (Z.of_nat k) parts))) = true.
Proof.
  intros w parts HF. induction HF as [|p parts HP HF IH]; intros k x Hx; [reflexivity|].
  cbn [C.run_on map concat]. rewrite advance_eq, (shift_uv_length _ p HP), <- Nat2Z.inj_add.
  rewrite (expand_shift k p HP). destruct (index_part_shape p HP) as (e & r & E & Ch & Hl).
  rewrite E. cbn [expand_evs]. rewrite <- Hl.
  rewrite (steps_up_expand_app (e :: r) 0 k x _ Ch); [|discriminate|exact Hx].
  apply IH. right. cbn [length]. lia.
Qed.

Lemma numbered_of_steps : forall l, hd 0%Z l = 0%Z -> S.steps_up 0 l = true -> S.numbered l = true.
Proof.
  intros [|z t] Hh Hs; [reflexivity|]. cbn [hd] in Hh. subst z. cbn [S.numbered S.steps_up] in *.
  rewrite Z.eqb_refl in *. cbn [orb andb] in *. exact Hs.
Qed.

Lemma run_on_numbered : forall w (parts : list S.cdz), Forall C.index_part parts ->
  S.numbered (concat (map (expand S.zd) (C.run_on w 0%Z parts))) = true.
Proof.
  intros w parts HF. apply numbered_of_steps.
  - destruct HF as [|p parts HP HF]; [reflexivity|]. cbn [C.run_on map concat].
    pose proof (expand_shift 0 p HP) as Hx. cbn [Z.of_nat] in Hx. rewrite Hx. clear Hx.
    destruct (index_part_shape p HP) as (e & r & E & (Hlt & _) & Hl).
    rewrite E. cbn [expand_evs]. rewrite <- Hl. cbn [length seq map expand_ev].
    destruct (e - 0) as [|j] eqn:Ej; [lia|]. reflexivity.
  - apply (run_on_steps w parts HF 0 0%Z). left. reflexivity.
Qed.

(* ------------------------------------------------------------------ collision-free, in time order *)
Lemma run_on_separated : forall w (parts : list S.cdz), Forall C.index_part parts -> forall k,
  C.separated (map (expand S.zd) (C.run_on w (Z.of_nat k) parts))
  /\ (forall y, In y (concat (map (expand S.zd) (C.run_on w (Z.of_nat k) parts))) -> (Z.of_nat k <= y)%Z).
Proof.
  intros w parts HF. induction HF as [|p parts HP HF IH]; intros k.
  - split; [exact Logic.I|]. intros y [].
  - cbn [C.run_on map concat C.separated]. rewrite advance_eq, (shift_uv_length _ p HP), <- Nat2Z.inj_add.
    destruct (IH (k + length (idx p))) as [S1 S2]. split; [split|].
    + intros x y Hx Hy. pose proof (shift_values k p x HP Hx). pose proof (S2 y Hy). lia.
    + exact S1.
    + intros y Hy. apply in_app_or in Hy. destruct Hy as [Hy|Hy].
      * pose proof (shift_values k p y HP Hy). lia.
      * pose proof (S2 y Hy). lia.
Qed.

Lemma separatedb_sound : forall ls, C.separatedb ls = true -> C.separated ls.
Proof.
  induction ls as [|l rest IH]; intros H; [exact Logic.I|]. cbn [C.separatedb C.separated] in *.
  apply andb_true_iff in H. destruct H as [H1 H2]. split; [|apply IH; exact H2].
  intros x y Hx Hy. rewrite forallb_forall in H1. specialize (H1 x Hx). rewrite forallb_forall in H1.
  apply Z.ltb_lt. apply H1. exact Hy.
Qed.

(* ------------------------------------------------------------------ every dump exactly once *)
Lemma run_on_good : forall w (parts : list S.cdz), Forall C.index_part parts -> forall k p,
  In p (C.run_on w k parts) -> WF p /\ start0 p /\ idx p <> [].
Proof.
  intros w parts HF. induction HF as [|q parts HQ HF IH]; intros k p Hin; [contradiction|].
  cbn [C.run_on] in Hin. destruct Hin as [<-|Hin]; [apply shift_good; exact HQ|eapply IH; exact Hin].
Qed.

Lemma run_on_length : forall w (parts : list S.cdz), Forall C.index_part parts -> forall k,
  length (concat (map (expand S.zd) (C.run_on w k parts))) = list_sum (map ndumps parts).
Proof.
  intros w parts HF. induction HF as [|p parts HP HF IH]; intros k; [reflexivity|].
  cbn [C.run_on map concat list_sum]. rewrite app_length, (shift_length k p HP), IH. reflexivity.
Qed.

Lemma concat_index_expand : forall w (parts : list S.cdz) c, Forall C.index_part parts ->
  C.concat_index w parts = Some c ->
  WF c /\ start0 c /\ expand S.zd c = C.run_on_dumps w parts.
Proof.
  intros w parts c HF H. unfold C.concat_index, C.run_on_dumps, C.run_on_parts in *.
  pose proof (run_on_good w parts HF (C.cc_start w)) as HG.
  destruct (C.run_on w (C.cc_start w) parts) as [|p1 [|p2 t]] eqn:E.
  - discriminate H.
  - cbn in H. injection H as <-. destruct (HG p1 (or_introl eq_refl)) as (W & S0 & _).
    split; [exact W|]. split; [exact S0|]. cbn [map concat]. rewrite app_nil_r. reflexivity.
  - rewrite (concatenate_norepeats_eq Z.eqb S.zd) in H by (cbn [length]; lia).
    destruct (concatenate Z.eqb S.zd (p1 :: p2 :: t) true) as [c1|] eqn:E1; [|discriminate H].
    assert (Hne : p1 :: p2 :: t <> []) by discriminate.
    assert (HG1 : forall p, In p (p1 :: p2 :: t) -> WF p /\ start0 p) by (intros p Hp; destruct (HG p Hp) as (A & B & _); tauto).
    assert (HG2 : forall p, In p (p1 :: p2 :: t) -> idx p <> []) by (intros p Hp; destruct (HG p Hp) as (_ & _ & A); exact A).
    destruct (concatenate_repeats_WF Z.eqb S.zd Zeqb_spec_ok _ c1 Hne HG1 E1 HG2) as (W1 & S1 & _).
    destruct (remove_repeats_WF c1 c W1 H) as (W & _ & Hh & _).
    split; [exact W|]. split; [unfold start0 in *; rewrite Hh; exact S1|].
    rewrite (remove_repeats_expand S.zd c1 c W1 H).
    exact (concatenate_repeats_expand Z.eqb S.zd Zeqb_spec_ok _ c1 Hne HG1 E1).
Qed.

(* ------------------------------------------------------------------ the index sensors of the format classes *)
Lemma NoDup_range : forall n, NoDup (map Z.of_nat (seq 0 n)).
Proof. intros n. apply Injective_map_NoDup; [exact Nat2Z.inj | apply seq_NoDup]. Qed.

Lemma index_cd_index_part : forall c : S.cdz, WF c -> start0 c -> idx c <> [] -> C.index_part (S.index_cd c).
Proof.
  intros c W S0 Hne. destruct (index_cd_numbered c W S0 Hne) as (Wi & Si & _).
  assert (Hlen : length (idx (S.index_cd c)) = length (idx c)).
  { unfold S.index_cd, make. cbn [idx]. rewrite inverse_of_length, map_length, seq_length. reflexivity. }
  split; [exact Wi|]. split; [exact Si|]. split.
  - intro H0. rewrite H0 in Hlen. destruct (idx c); [congruence|discriminate Hlen].
  - rewrite Hlen. split.
    + unfold S.index_cd, make. cbn [uv]. apply (uio_id Z.eqb Zeqb_spec_ok). apply NoDup_range.
    + apply (make_vals Z.eqb S.zd Zeqb_spec_ok).
Qed.

(* ------------------------------------------------------------------ MAIN *)
Theorem concat_numbering : forall w (parts : list S.cdz), Forall C.index_part parts ->
  S.numbered (C.run_on_dumps w parts) = true
  /\ C.separated (map (expand S.zd) (C.run_on_parts w parts))
  /\ length (C.run_on_dumps w parts) = list_sum (map ndumps parts)
  /\ (forall c, C.concat_index w parts = Some c -> WF c /\ start0 c /\ expand S.zd c = C.run_on_dumps w parts).
Proof.
  intros w parts HF. unfold C.run_on_dumps, C.run_on_parts. rewrite cc_start_zero.
  split; [apply run_on_numbered; exact HF|].
  split; [exact (proj1 (run_on_separated w parts HF 0))|].
  split; [apply run_on_length; exact HF|].
  intros c H. pose proof (concat_index_expand w parts c HF H) as R.
  unfold C.run_on_dumps, C.run_on_parts in R. rewrite cc_start_zero in R. exact R.
Qed.

Theorem concat_numbering_formats : forall w (cs : list S.cdz),
  Forall (fun c => WF c /\ start0 c /\ idx c <> []) cs ->
  let parts := map S.index_cd cs in
  S.numbered (C.run_on_dumps w parts) = true
  /\ C.separated (map (expand S.zd) (C.run_on_parts w parts))
  /\ length (C.run_on_dumps w parts) = list_sum (map ndumps cs)
  /\ (forall c, C.concat_index w parts = Some c -> WF c /\ start0 c /\ expand S.zd c = C.run_on_dumps w parts).
Proof.
  intros w cs HF parts.
  assert (HP : Forall C.index_part parts).
  { unfold parts. apply Forall_forall. intros p Hp. apply in_map_iff in Hp. destruct Hp as (c & <- & Hc).
    rewrite Forall_forall in HF. destruct (HF c Hc) as (A & B & D). apply index_cd_index_part; assumption. }
  destruct (concat_numbering w parts HP) as (A & B & D & E).
  split; [exact A|]. split; [exact B|]. split; [|exact E].
  rewrite D. unfold parts. rewrite map_map. apply (f_equal list_sum). apply map_ext_in. intros c Hc.
  rewrite Forall_forall in HF. destruct (HF c Hc) as (W & S0 & Hne).
  destruct (index_cd_numbered c W S0 Hne) as (_ & _ & _ & Hn & _). exact Hn.
Qed.

(* the offsets matter: advancing by anything smaller than the number of scans a part HAS makes two physical scans
   share a number (witness: two parts of two scans each, offset advanced by one) *)
Definition ex_part : S.cdz := S.index_cd (Categorical.mk [7%Z; 8%Z] [0; 1] [0; 2; 4]).
Lemma ex_index_part : C.index_part ex_part.
Proof.
  apply index_cd_index_part; [|reflexivity|discriminate].
  unfold WF. cbn. split; [lia|]. split; [reflexivity|]. split; [repeat constructor|].
  apply (Injective_map_NoDup (l := [7; 8]) Nat2Z.inj). repeat constructor; simpl; intuition congruence.
Qed.
Lemma ex_run_on : C.run_on_dumps S.WScans [ex_part; ex_part] = [0; 0; 1; 1; 2; 2; 3; 3]%Z.
Proof. vm_compute. reflexivity. Qed.
Lemma ex_too_small_collides :
  concat (map (expand S.zd) [C.shift_cd 0 ex_part; C.shift_cd 1 ex_part]) = [0; 0; 1; 1; 1; 1; 2; 2]%Z
  /\ C.separatedb (map (expand S.zd) [C.shift_cd 0 ex_part; C.shift_cd 1 ex_part]) = false.
Proof. split; vm_compute; reflexivity. Qed.
