(* C12: proofs about the dtype-aware dummy fill of the concatenated sensor cache (Model/SensorFill.v). *)
From Coq Require Import ZArith QArith List Bool String Lia Permutation.
From KV Require Import Base.Sx Base.Str Gen.Generated Model.Interp Model.SensorCache Model.SensorFill.
Import ListNotations.
Local Open Scope Q_scope.

(* ---------------------------------------------------------------- the documented dummy value per dtype *)
Lemma fill_dummy_table :
  fill_dummy None DFloat = (DFloat, FNum None) /\
  fill_dummy None DInt = (DInt, FInt (-1)) /\
  fill_dummy None DStr = (DStr, FStr true) /\
  fill_dummy None DBool = (DBool, FBool false) /\
  (forall i dt, fill_dummy (Some i) dt = (init_dtype i, init_fval i)).
Proof. repeat split. Qed.

(* the table of this model IS the table of the single-cache model (Model/SensorCache.dummy_value) *)
Definition fval_of_dval (d : dval) : option fval :=
  match d with
  | VNum q => Some (FNum q) | VInt z => Some (FInt z) | VEmptyStr => Some (FStr true)
  | VFalse => Some (FBool false) | VNoneObj => Some FNone | VGiven _ => None
  end.
Lemma fill_dummy_agrees : forall dt,
  fst (fill_dummy None dt) = fst (dummy_value None dt) /\
  fval_of_dval (snd (dummy_value None dt)) = Some (snd (fill_dummy None dt)).
Proof. destruct dt; split; reflexivity. Qed.
Lemma fill_dummy_agrees_float : forall q dt,
  fill_dummy (Some (IFloat q)) dt = (DFloat, FNum (Some q)) /\
  dummy_value (Some (IVFloat q)) dt = (DFloat, VNum (Some q)).
Proof. split; reflexivity. Qed.

(* ---------------------------------------------------------------- np.result_type *)
Definition numeric (d : dtype) : Prop := rank d <> None.

Lemma promote2_comm : forall a b, promote2 a b = promote2 b a.
Proof. destruct a, b; reflexivity. Qed.
Lemma promote2_assoc : forall a b c,
  match promote2 b c with Some e => promote2 a e | None => None end =
  match promote2 a b with Some e => promote2 e c | None => None end.
Proof. destruct a, b, c; reflexivity. Qed.
Lemma promote2_idem : forall a, a <> DObj -> promote2 a a = Some a.
Proof. destruct a; intros; try reflexivity. congruence. Qed.

Lemma promote_all_cons : forall d t, t <> [] ->
  promote_all (d :: t) = match promote_all t with Some e => promote2 d e | None => None end.
Proof. intros d [|x t] H; [congruence|reflexivity]. Qed.

(* the common dtype does not depend on the ORDER of the parts *)
Lemma promote_all_swap : forall a b t, promote_all (a :: b :: t) = promote_all (b :: a :: t).
Proof.
  intros a b [|c t].
  - simpl. apply promote2_comm.
  - rewrite (promote_all_cons a (b :: c :: t)) by discriminate.
    rewrite (promote_all_cons b (c :: t)) by discriminate.
    rewrite (promote_all_cons b (a :: c :: t)) by discriminate.
    rewrite (promote_all_cons a (c :: t)) by discriminate.
    destruct (promote_all (c :: t)) as [e|]; [|reflexivity].
    rewrite (promote2_assoc a b e), (promote2_assoc b a e), (promote2_comm a b). reflexivity.
Qed.

Lemma promote_all_perm : forall l l', Permutation l l' -> promote_all l = promote_all l'.
Proof.
  induction 1.
  - reflexivity.
  - destruct l as [|y l].
    + apply Permutation_nil in H. subst. reflexivity.
    + assert (l' <> []) by (intro E; subst; apply Permutation_sym, Permutation_nil in H; discriminate).
      rewrite (promote_all_cons x (y :: l)) by discriminate.
      rewrite (promote_all_cons x l') by assumption. now rewrite IHPermutation.
  - apply promote_all_swap.
  - congruence.
Qed.

(* the common dtype is the dtype of one of the parts and absorbs the dtype of every part
   (bool < int < float < str) *)
Lemma promote2_in : forall a e d, promote2 a e = Some d -> d = a \/ d = e.
Proof. destruct a, e; simpl; intros d H; inversion H; auto. Qed.
Lemma promote2_ub : forall a e d, promote2 a e = Some d -> promote2 a d = Some d /\ promote2 e d = Some d.
Proof. destruct a, e; simpl; intros d H; inversion H; auto. Qed.
Lemma promote2_trans : forall x e d, promote2 x e = Some e -> promote2 e d = Some d -> promote2 x d = Some d.
Proof. destruct x, e, d; simpl; intros H1 H2; try discriminate; auto. Qed.

Lemma promote_all_spec : forall l d, promote_all l = Some d ->
  In d l /\ forall x, In x l -> x <> DObj -> promote2 x d = Some d.
Proof.
  induction l as [|a t IH]; intros d H; [discriminate|].
  destruct t as [|b t'].
  - inversion H; subst. split; [now left|]. intros x [<-|[]] Hx. now apply promote2_idem.
  - rewrite promote_all_cons in H by discriminate.
    destruct (promote_all (b :: t')) as [e|] eqn:E; [|discriminate].
    destruct (IH e eq_refl) as [Hin Hub].
    destruct (promote2_ub _ _ _ H) as [Ha He]. split.
    + destruct (promote2_in _ _ _ H) as [->| ->]; [now left|now right].
    + intros x [<-|Hx] Hn; [exact Ha|]. apply (promote2_trans x e d); auto.
Qed.

Example promote_examples :
  promote_all [DBool; DInt] = Some DInt /\ promote_all [DInt; DFloat; DBool] = Some DFloat /\
  promote_all [DStr; DStr] = Some DStr /\ promote_all [DStr; DInt] = Some DStr /\ promote_all [] = None /\
  promote_all [DBool] = Some DBool.
Proof. repeat split. Qed.

(* ---------------------------------------------------------------- one filler *)
(* the filler of a part with n dumps is CONSTANT over the n dumps and its value is the documented one: the
   initial_value when there is one, else the default of the common dtype of the parts that have the sensor *)
Lemma fill_one_spec : forall dtype anycat p n,
  let '(dt', fv) := fill_dummy (f_init p) dtype in
  fill_one dtype anycat p n =
    if f_decide p dt' then
      if negb (is_float dtype) && negb anycat then PArr dt' (repeat (fnum fv) n) else PCat dt' (Some fv)
    else match as_float fv with Some q => PArr DFloat (repeat q n) | None => PErr end.
Proof. intros. unfold fill_one. destruct (fill_dummy (f_init p) dtype). reflexivity. Qed.

Lemma fill_one_length : forall dtype anycat p n dt v, fill_one dtype anycat p n = PArr dt v -> List.length v = n.
Proof.
  intros dtype anycat p n dt v. unfold fill_one. destruct (fill_dummy (f_init p) dtype) as [dt' fv].
  destruct (f_decide p dt').
  - destruct (negb (is_float dtype) && negb anycat); intro H; inversion H. apply repeat_length.
  - destruct (as_float fv); intro H; inversion H. apply repeat_length.
Qed.

(* an array filler (instead of categorical data) is chosen exactly when the filler is interpolated, or the common
   dtype is not a float and no present part is categorical *)
Lemma fill_one_array_iff : forall dtype anycat p n,
  fill_one dtype anycat p n <> PErr ->
  (is_parr (fill_one dtype anycat p n) = true <->
   f_decide p (fst (fill_dummy (f_init p) dtype)) = false \/ (is_float dtype = false /\ anycat = false)).
Proof.
  intros dtype anycat p n. unfold fill_one. destruct (fill_dummy (f_init p) dtype) as [dt' fv]. cbn [fst].
  destruct (f_decide p dt'); destruct (is_float dtype); destruct anycat; cbn; try destruct (as_float fv); cbn;
    intro H; split; intro X; auto; try discriminate; try congruence;
    try (destruct X as [X|[X Y]]; discriminate).
Qed.

(* the all-float case is what the single-dtype model (Model/SensorCache.cget: dummy_value .. DFloat, finish_dummy)
   computes: a float array holding NaN or the float initial value *)
Lemma fill_one_float : forall anycat p n,
  (f_init p = None \/ exists q, f_init p = Some (IFloat q)) -> (f_cat p = None \/ f_cat p = Some false) ->
  fill_one DFloat anycat p n =
  PArr DFloat (repeat (match f_init p with Some (IFloat q) => Some q | _ => None end) n).
Proof.
  intros anycat p n Hi Hc. unfold fill_one, f_decide.
  destruct Hi as [->|[q ->]]; destruct Hc as [->| ->]; reflexivity.
Qed.

(* ---------------------------------------------------------------- the concatenated read *)
Lemma combine_map_fst : forall A B C (f : A * B -> C) (l : list (A * B)),
  combine (map fst l) (map f l) = map (fun x => (fst x, f x)) l.
Proof. induction l as [|[a b] t IH]; simpl; [reflexivity|]. now rewrite IH. Qed.

(* parts that HAVE the sensor come out exactly as they answer themselves; a part that lacks it gets the filler for
   its own number of dumps, computed from the common dtype of the parts that have it *)
Lemma cfill_parts : forall parts p dtype,
  let rs := map (fun ns => part_get (fst ns) (snd ns) p) parts in
  forallb is_pmissing rs = false -> existsb is_perr rs = false ->
  promote_all (somes (map pres_dtype rs)) = Some dtype ->
  fst (cfill parts p) =
  map (fun ns => let r := part_get (fst ns) (snd ns) p in
                 if is_pmissing r then fill_one dtype (existsb is_pcat rs) p (fst ns) else r) parts.
Proof.
  intros parts p dtype rs Hm He Hd. unfold cfill. fold rs. rewrite Hm, He.
  destruct (existsb is_pmissing rs) eqn:Em.
  - rewrite Hd. cbn [fst]. unfold rs. rewrite combine_map_fst, map_map. reflexivity.
  - cbn [fst]. unfold rs. apply map_ext_in. intros ns Hin.
    destruct (is_pmissing (part_get (fst ns) (snd ns) p)) eqn:E; [|reflexivity].
    exfalso. assert (existsb is_pmissing rs = true); [|congruence].
    apply existsb_exists. exists (part_get (fst ns) (snd ns) p). split; [|exact E].
    unfold rs. apply in_map_iff. exists ns. auto.
Qed.

Lemma cfill_all_missing : forall parts p,
  forallb is_pmissing (map (fun ns => part_get (fst ns) (snd ns) p) parts) = true ->
  snd (cfill parts p) = CKey.
Proof. intros parts p H. unfold cfill. now rewrite H. Qed.

(* non-vacuity: the cases observed on the real code (build/scratch experiments, now generated by the harness) *)
Example cfill_examples :
  (* float array + missing part: NaN *)
  cfill [(2%nat, SArr DFloat [Some 1; Some 2]); (3%nat, SMissing)] (mkFP None None)
    = ([PArr DFloat [Some 1; Some 2]; PArr DFloat [None; None; None]],
       CArr (Some DFloat) [Some 1; Some 2; None; None; None]) /\
  (* ... with a float initial value *)
  snd (cfill [(2%nat, SArr DFloat [Some 1; Some 2]); (2%nat, SMissing)] (mkFP None (Some (IFloat 7))))
    = CArr (Some DFloat) [Some 1; Some 2; Some 7; Some 7] /\
  (* integer array assigned directly: the filler is an ARRAY of -1 (not categorical data) *)
  cfill [(2%nat, SArr DInt [Some 4; Some 5]); (2%nat, SMissing)] (mkFP None None)
    = ([PArr DInt [Some 4; Some 5]; PArr DInt [Some (-1 # 1); Some (-1 # 1)]],
       CArr (Some DInt) [Some 4; Some 5; Some (-1 # 1); Some (-1 # 1)]) /\
  (* bool + int arrays promote to int; the filler is the int default *)
  snd (cfill [(1%nat, SArr DInt [Some 4]); (1%nat, SArr DBool [Some 1]); (1%nat, SMissing)] (mkFP None None))
    = CArr (Some DInt) [Some 4; Some 1; Some (-1 # 1)] /\
  (* integer getter (categorical) + missing part: categorical filler -1 *)
  cfill [(2%nat, SGet DInt 3); (2%nat, SMissing)] (mkFP None None)
    = ([PCat DInt None; PCat DInt (Some (FInt (-1)))], CCat) /\
  (* string getter: '' *)
  fst (cfill [(2%nat, SGet DStr 0); (2%nat, SMissing)] (mkFP None None))
    = [PCat DStr None; PCat DStr (Some (FStr true))] /\
  (* a non-float initial value on a float sensor gives categorical filler: cannot be concatenated with arrays *)
  cfill [(2%nat, SArr DFloat [Some 1; Some 2]); (1%nat, SMissing)] (mkFP None (Some (IInt 7)))
    = ([PArr DFloat [Some 1; Some 2]; PCat DInt (Some (FInt 7))], CMixed) /\
  (* categorical=False on an integer sensor: interpolated -1.0 *)
  snd (cfill [(2%nat, SArr DInt [Some 4; Some 5]); (1%nat, SMissing)] (mkFP (Some false) None))
    = CArr (Some DFloat) [Some 4; Some 5; Some (-1 # 1)] /\
  snd (cfill [(2%nat, SMissing); (1%nat, SMissing)] (mkFP None None)) = CKey.
Proof. vm_compute. repeat split; reflexivity. Qed.
