(* C13 lemmas: the kernels applied block by block to the stored arrays (dask elemwise on matching blocks) give the
   pointwise result for ANY chunking; what the kernels leave alone; applying corrections in two stages. *)
From Coq Require Import ZArith QArith Qabs Qcanon List Bool String Arith Lia Lqa Permutation.
From KV Require Import Base.Sx Gen.Generated Model.Applycal Proofs.ApplycalP.
Import ListNotations.
Local Open Scope nat_scope.

(* a stored array of shape T x F x B *)
Definition shape_ok {A} (data : list (list (list A))) (T F B : nat) : Prop :=
  List.length data = T /\
  (forall t, t < T -> List.length (nth t data []) = F) /\
  (forall t c, t < T -> c < F -> List.length (nth c (nth t data []) []) = B).

Lemma firstn_length_le' : forall {A} (l : list A) n, n <= List.length l -> List.length (firstn n l) = n.
Proof. intros. rewrite firstn_length. lia. Qed.

Lemma slice_block_rows : forall {A} (data : list (list A)) t0 tn c0 cn,
  t0 + tn <= List.length data -> List.length (slice_block data t0 tn c0 cn) = tn.
Proof.
  intros. unfold slice_block. rewrite map_length, firstn_length, skipn_length. lia.
Qed.

Lemma slice_block_row : forall {A} (data : list (list A)) t0 tn c0 cn n,
  t0 + tn <= List.length data -> n < tn ->
  nth n (slice_block data t0 tn c0 cn) [] = firstn cn (skipn c0 (nth (t0 + n) data [])).
Proof.
  intros A data t0 tn c0 cn n H Hn. unfold slice_block.
  rewrite (nth_map_in _ _ n [] []) by (rewrite firstn_length, skipn_length; lia).
  rewrite nth_firstn' by assumption. rewrite nth_skipn'. reflexivity.
Qed.

Section Corrected.
  Context {A : Type}.
  Variable kernel : A -> C -> A.
  Variable dflt : A.
  Variable data : list (list (list A)).
  Variables (prods : list product) (ninputs : nat) (cps : list (nat * nat)) (tch cch : list nat).
  Hypothesis Hshape : shape_ok data (total tch) (total cch) (List.length cps).
  Hypothesis Hcps : cps_ok ninputs cps.

  Let blk := corrected_block kernel data prods ninputs cps.
  Let cell t c := map2 kernel (nth c (nth t data []) []) (map (factor prods t c) cps).

  Lemma in_offsets_bound : forall sizes o n, In (o, n) (offsets 0 sizes) -> o + n <= total sizes.
  Proof. intros sizes o n H. apply offsets_range in H. lia. Qed.

  Lemma corrected_rows : forall t0 tn c0 cn, In (t0, tn) (offsets 0 tch) -> In (c0, cn) (offsets 0 cch) ->
    List.length (blk t0 tn c0 cn) = tn.
  Proof.
    intros t0 tn c0 cn Ht Hc. unfold blk, corrected_block. destruct Hshape as [HT _].
    rewrite map2_length, slice_block_rows, corr_block_rows; [lia |].
    rewrite HT. apply in_offsets_bound; auto.
  Qed.

  Lemma corrected_cols : forall t0 tn c0 cn n, In (t0, tn) (offsets 0 tch) -> In (c0, cn) (offsets 0 cch) ->
    n < tn -> List.length (nth n (blk t0 tn c0 cn) []) = cn.
  Proof.
    intros t0 tn c0 cn n Ht Hc Hn. unfold blk, corrected_block. destruct Hshape as [HT [HF _]].
    pose proof (in_offsets_bound _ _ _ Ht) as Bt. pose proof (in_offsets_bound _ _ _ Hc) as Bc.
    rewrite (nth_map2 _ _ _ n [] [] []).
    - rewrite map2_length, slice_block_row by (rewrite ?HT; lia).
      rewrite firstn_length, skipn_length, HF by lia. rewrite corr_block_cols by assumption. lia.
    - rewrite slice_block_rows by (rewrite HT; lia). exact Hn.
    - rewrite corr_block_rows. exact Hn.
  Qed.

  Lemma corrected_val : forall t0 tn c0 cn n j, In (t0, tn) (offsets 0 tch) -> In (c0, cn) (offsets 0 cch) ->
    n < tn -> j < cn -> nth j (nth n (blk t0 tn c0 cn) []) [] = cell (t0 + n) (c0 + j).
  Proof.
    intros t0 tn c0 cn n j Ht Hc Hn Hj. unfold blk, corrected_block, cell. destruct Hshape as [HT [HF HB]].
    pose proof (in_offsets_bound _ _ _ Ht) as Bt. pose proof (in_offsets_bound _ _ _ Hc) as Bc.
    rewrite (nth_map2 _ _ _ n [] [] []).
    2: { rewrite slice_block_rows by (rewrite HT; lia). exact Hn. }
    2: { rewrite corr_block_rows. exact Hn. }
    rewrite slice_block_row by (rewrite ?HT; lia).
    rewrite (nth_map2 _ _ _ j [] [] []).
    2: { rewrite firstn_length, skipn_length, HF by lia. lia. }
    2: { rewrite corr_block_cols by assumption. exact Hj. }
    rewrite nth_firstn' by assumption. rewrite nth_skipn'.
    f_equal.
    apply (nth_ext _ _ CNaN CNaN).
    - rewrite corr_block_cells, map_length by assumption. reflexivity.
    - intros k Hk. rewrite corr_block_cells in Hk by assumption.
      rewrite corr_block_nth with (ninputs := ninputs) by assumption.
      now rewrite (nth_map_in _ cps k CNaN (0, 0)).
  Qed.

  (* every element of the corrected array, for any chunking of time x channel = kernel(stored, factor) *)
  Lemma corrected_pointwise : forall t c b,
    t < total tch -> c < total cch -> b < List.length cps ->
    nth b (nth c (nth t (assemble blk tch cch) []) []) dflt
    = kernel (nth b (nth c (nth t data []) []) dflt) (factor prods t c (nth b cps (0, 0))).
  Proof.
    intros t c b Ht Hc Hb.
    rewrite (assemble_nth blk cell [] tch cch corrected_cols corrected_val t c Ht Hc).
    unfold cell. destruct Hshape as [_ [_ HB]].
    rewrite (nth_map2 _ _ _ b dflt dflt CNaN).
    - now rewrite (nth_map_in _ cps b CNaN (0, 0)).
    - rewrite HB by assumption. exact Hb.
    - rewrite map_length. exact Hb.
  Qed.
End Corrected.

(* ------------------------------------------------------------------ what the kernels leave alone *)
(* flags: only the postproc bit can change *)
Lemma apply_flags_other_bits : forall fl f n, n <> 7%Z -> Z.testbit (apply_flags fl f) n = Z.testbit fl n.
Proof.
  intros fl f n Hn. unfold apply_flags. destruct (is_nan f); auto.
  rewrite postproc_is_128. rewrite Z.lor_spec.
  assert (E : Z.testbit 128 n = false).
  { change 128%Z with (2 ^ 7)%Z. destruct (Z.ltb n 0) eqn:L.
    - apply Z.ltb_lt in L. apply Z.testbit_neg_r; auto.
    - apply Z.ltb_ge in L. rewrite Z.pow2_bits_eqb by lia. apply Z.eqb_neq. lia. }
  rewrite E. apply orb_false_r.
Qed.

Lemma apply_flags_monotone : forall fl f n, Z.testbit fl n = true -> Z.testbit (apply_flags fl f) n = true.
Proof.
  intros fl f n H. unfold apply_flags. destruct (is_nan f); auto. rewrite Z.lor_spec, H. reflexivity.
Qed.

(* a NaN stored visibility stays NaN; a factor of exactly 1 changes nothing *)
Lemma apply_vis_one : forall d, apply_vis d Cone = d.
Proof. intros. unfold apply_vis. cbn. apply Cmul_1_r. Qed.

Local Open Scope Qc_scope.

Lemma apply_weights_one : forall w, apply_weights w Cone = w.
Proof.
  intros. unfold Cone. rewrite apply_weights_fin.
  - assert (E : norm2 1 0 = 1) by (unfold norm2; ring). rewrite E. field. discriminate.
  - assert (E : norm2 1 0 = 1) by (unfold norm2; ring). rewrite E. discriminate.
Qed.

(* ------------------------------------------------------------------ two stages = one stage (numbers) *)
Lemma norm2_mul : forall a b c d, norm2 (a * c - b * d) (a * d + b * c) = norm2 a b * norm2 c d.
Proof. intros. unfold norm2. ring. Qed.

Lemma two_stage : forall d w fl a b c e,
  norm2 a b <> 0 -> norm2 c e <> 0 ->
  apply_vis (apply_vis d (CFin a b)) (CFin c e) = apply_vis d (Cmul (CFin a b) (CFin c e)) /\
  apply_weights (apply_weights w (CFin a b)) (CFin c e) = apply_weights w (Cmul (CFin a b) (CFin c e)) /\
  apply_flags (apply_flags fl (CFin a b)) (CFin c e) = apply_flags fl (Cmul (CFin a b) (CFin c e)).
Proof.
  intros d w fl a b c e H1 H2. repeat split.
  - destruct d as [| x y]; cbn; [reflexivity | f_equal; ring].
  - cbn [Cmul]. rewrite !apply_weights_fin; auto.
    + rewrite norm2_mul. field. split; auto.
    + rewrite norm2_mul. intro E. apply Qcmult_integral in E. tauto.
Qed.

(* an invalid stage can not be undone by a later one *)
Lemma invalid_stage_sticks : forall fl f1 f2, f1 = CNaN ->
  Z.testbit (apply_flags (apply_flags fl f1) f2) 7 = true.
Proof.
  intros fl f1 f2 ->. apply apply_flags_monotone. unfold apply_flags. cbn [is_nan].
  rewrite postproc_is_128, Z.lor_spec. change (Z.testbit 128 7) with true. apply orb_true_r.
Qed.
