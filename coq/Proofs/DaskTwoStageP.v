(* C04: dask_getitem = numpy outer indexing (outside dask's flaw F20); two-stage indexer, nesting, joint get. *)
From Coq Require Import ZArith List Bool Lia ZifyBool.
From KV Require Import Base.Sx Model.DaskIdx Proofs.DaskIdxP Proofs.DaskSliceP.
Import ListNotations.
Open Scope Z_scope.

(* ---------- the guard: no slice hits dask's normalize_slice flaw (negative step, start < -n, n > 0) ---------- *)
Definition d_f20_free_ix (n : Z) (ix : d_aidx) : bool :=
  match ix with DSlice s => d_f20_free s n | _ => true end.
Fixpoint d_f20_free_all (shape : list Z) (ixs : list d_aidx) : bool :=
  match shape, ixs with
  | n :: sh, ix :: r => d_f20_free_ix n ix && d_f20_free_all sh r
  | _, _ => true
  end.

(* what normalize_index leaves on one axis: ints, slices, in-range non-negative lists *)
Definition d_normal (n : Z) (ix : d_aidx) : Prop :=
  match ix with
  | DList l => forallb (fun z => (0 <=? z) && (z <? n)) l = true
  | DMask _ => False
  | _ => True
  end.

Lemma d_mask_pos_bounds m : forall i z, In z (d_mask_pos m i) -> i <= z < i + Z.of_nat (List.length m).
Proof.
  induction m as [|b t IH]; intros i z H; simpl in H; [contradiction|].
  cbn [List.length]. destruct b; [destruct H as [<-|H]|]; try (apply IH in H); lia.
Qed.

Lemma d_forallb_nonneg_inrange n l : (forall z, In z l -> 0 <= z < n) ->
  forallb (fun z => (0 <=? z) && (z <? n)) l = true.
Proof. intros H. apply forallb_forall. intros z Hz. apply H in Hz. lia. Qed.

Lemma d_norm_bounds n z : d_inrange n z = true -> 0 <= d_norm n z < n.
Proof. unfold d_inrange, d_norm. intros H. destruct (z <? 0) eqn:?; lia. Qed.

(* one axis: normalisation keeps the numpy meaning of the index, or both reject *)
Lemma d_normalize1_resolve n ix : 0 <= n -> d_f20_free_ix n ix = true ->
  match d_normalize1 n ix with
  | Some ix' => d_resolve n ix' = d_resolve n ix /\ d_resolve n ix <> None /\ d_normal n ix'
  | None => d_resolve n ix = None
  end.
Proof.
  intros Hn Hf. destruct ix as [z|s|m|l]; cbn [d_normalize1 d_resolve].
  - destruct (d_inrange n z) eqn:E; [|reflexivity].
    pose proof (d_norm_bounds _ _ E) as B. cbn [d_resolve d_normal].
    assert (E2 : d_inrange n (d_norm n z) = true) by (unfold d_inrange; lia).
    rewrite E2. split; [|split; [discriminate|exact Logic.I]].
    f_equal. f_equal. unfold d_norm at 1. destruct (d_norm n z <? 0) eqn:?; lia.
  - destruct (d_normalize_slice s n) as [s'|] eqn:E.
    + cbn [d_resolve d_normal]. rewrite (d_normalize_slice_pos_partial _ _ _ Hn Hf E).
      split; [reflexivity|]. split; [|exact Logic.I].
      destruct (d_slice_pos s n) eqn:E2; [discriminate|].
      apply d_normalize_slice_none in E2. congruence.
    + apply d_normalize_slice_none in E. rewrite E. reflexivity.
  - destruct (Z.of_nat (List.length m) =? n) eqn:E; [|reflexivity].
    assert (B : forall z, In z (d_mask_pos m 0) -> 0 <= z < n)
      by (intros z Hz; apply d_mask_pos_bounds in Hz; lia).
    pose proof (d_forallb_nonneg_inrange _ _ B) as F.
    rewrite (d_resolve_list_inrange _ _ F). split; [reflexivity|]. split; [discriminate|exact F].
  - destruct (forallb (d_inrange n) l) eqn:E; [|reflexivity].
    assert (B : forall z, In z (map (d_norm n) l) -> 0 <= z < n).
    { intros z Hz. apply in_map_iff in Hz. destruct Hz as (y & <- & Hy).
      apply d_norm_bounds. rewrite forallb_forall in E. apply E. exact Hy. }
    pose proof (d_forallb_nonneg_inrange _ _ B) as F.
    rewrite (d_resolve_list_inrange _ _ F). split; [reflexivity|]. split; [discriminate|exact F].
Qed.

(* one axis: katdal's simplification keeps the numpy meaning of a normalised index *)
Lemma d_simplify1_normal n ix : 0 <= n -> d_normal n ix -> d_resolve n (d_simplify1 n ix) = d_resolve n ix.
Proof.
  intros Hn H. destruct ix as [z|s|m|l]; try reflexivity.
  apply d_simplify1_resolve; assumption.
Qed.

(* ---------- the oracle on an index list padded with full slices (mirror of normalize_index) ---------- *)
Fixpoint d_resolve_pad (shape : list Z) (ixs : list d_aidx) : option (list d_view) :=
  match shape with
  | [] => match ixs with [] => Some [] | _ :: _ => None end
  | n :: sh =>
      let ix := match ixs with [] => d_full | i :: _ => i end in
      let r := match ixs with [] => [] | _ :: r => r end in
      match d_resolve n ix, d_resolve_pad sh r with
      | Some v, Some vs => Some (v :: vs)
      | _, _ => None
      end
  end.

Lemma d_f20_free_all_tl n sh ixs : d_f20_free_all (n :: sh) ixs = true ->
  d_f20_free_ix n (match ixs with [] => d_full | i :: _ => i end) = true /\
  d_f20_free_all sh (match ixs with [] => [] | _ :: r => r end) = true.
Proof.
  destruct ixs as [|i r]; cbn [d_f20_free_all].
  - intros _. split; [reflexivity|destruct sh; reflexivity].
  - intros H. apply andb_true_iff in H. exact H.
Qed.

(* _simplify_index (normalize_index, then per-axis simplification) resolves like the padded index list *)
Lemma d_simplify_index_resolve : forall shape ixs, Forall (fun n => 0 <= n) shape ->
  d_f20_free_all shape ixs = true ->
  match d_simplify_index ixs shape with
  | Some ixs' => d_resolve_all shape ixs' = d_resolve_pad shape ixs /\ d_resolve_pad shape ixs <> None
                 /\ List.length ixs' = List.length shape
  | None => d_resolve_pad shape ixs = None
  end.
Proof.
  unfold d_simplify_index.
  induction shape as [|n sh IH]; intros ixs Hs Hf.
  - destruct ixs; cbn; [|reflexivity]. repeat split; discriminate.
  - inversion Hs as [|? ? Hn Hs']; subst.
    destruct (d_f20_free_all_tl _ _ _ Hf) as [Hf1 Hf2].
    cbn [d_normalize_index d_resolve_pad].
    set (ix := match ixs with [] => d_full | i :: _ => i end) in *.
    set (r := match ixs with [] => [] | _ :: r => r end) in *.
    pose proof (d_normalize1_resolve n ix Hn Hf1) as H1.
    specialize (IH r Hs' Hf2).
    destruct (d_normalize1 n ix) as [ix'|].
    + destruct H1 as (E1 & N1 & Nm).
      destruct (d_normalize_index sh r) as [r'|].
      * destruct IH as (E2 & N2 & L2).
        cbn [d_map2 d_resolve_all]. rewrite (d_simplify1_normal _ _ Hn Nm), E1, E2.
        destruct (d_resolve n ix); [|congruence].
        destruct (d_resolve_pad sh r); [|congruence].
        repeat split; [discriminate|]. cbn [List.length]. rewrite L2.
        reflexivity.
      * rewrite IH. destruct (d_resolve n ix); reflexivity.
    + rewrite H1. reflexivity.
Qed.
Lemma d_range_bounds_pos a b c x : 0 < c -> In x (d_range a b c) -> a <= x < b.
Proof.
  intros Hc H. unfold d_range in H. apply in_map_iff in H. destruct H as (i & <- & Hi).
  apply in_seq in Hi. unfold d_range_len in Hi.
  destruct (0 <? c) eqn:?; [|lia]. destruct (a <? b) eqn:?; [|simpl in Hi; lia].
  assert (Hq : c * ((b - a - 1) / c) <= b - a - 1) by (apply Z.mul_div_le; lia).
  assert (0 <= (b - a - 1) / c) by (apply Z.div_pos; lia).
  assert (Z.of_nat i <= (b - a - 1) / c) by lia.
  nia.
Qed.
Lemma d_range_bounds_neg a b c x : c < 0 -> In x (d_range a b c) -> b < x <= a.
Proof.
  intros Hc H. unfold d_range in H. apply in_map_iff in H. destruct H as (i & <- & Hi).
  apply in_seq in Hi. unfold d_range_len in Hi.
  destruct (0 <? c) eqn:?; [lia|]. destruct (b <? a) eqn:?; [|simpl in Hi; lia].
  assert (Hq : (- c) * ((a - b - 1) / (- c)) <= a - b - 1) by (apply Z.mul_div_le; lia).
  assert (0 <= (a - b - 1) / (- c)) by (apply Z.div_pos; lia).
  assert (Z.of_nat i <= (a - b - 1) / (- c)) by lia.
  nia.
Qed.
Lemma d_slice_pos_inrange s n ps x : 0 <= n -> d_slice_pos s n = Some ps -> In x ps -> 0 <= x < n.
Proof.
  intros Hn H Hx. unfold d_slice_pos in H.
  destruct (d_indices s n) as [[[a b] c]|] eqn:E; [|discriminate]. injection H as <-.
  unfold d_indices in E.
  destruct ((match ds_step s with Some k => k | None => 1 end) =? 0) eqn:Ez; [discriminate|].
  injection E as Ea Eb Ec. rewrite Ec in *.
  destruct (c <? 0) eqn:Hc.
  - apply d_range_bounds_neg in Hx; [|lia].
    unfold d_clamp in Ea, Eb.
    destruct (ds_start s) as [st|]; destruct (ds_stop s) as [sp|];
      repeat match goal with H : context [if ?t then _ else _] |- _ => destruct t eqn:? end; lia.
  - apply d_range_bounds_pos in Hx; [|lia].
    unfold d_clamp in Ea, Eb.
    destruct (ds_start s) as [st|]; destruct (ds_stop s) as [sp|];
      repeat match goal with H : context [if ?t then _ else _] |- _ => destruct t eqn:? end; lia.
Qed.

Definition d_view_inrange (n : Z) (v : d_view) : Prop :=
  match v with VKeep ps => forall x, In x ps -> 0 <= x < n | VDrop p => 0 <= p < n end.

Lemma d_resolve_inrange n ix v : 0 <= n -> d_resolve n ix = Some v -> d_view_inrange n v.
Proof.
  intros Hn H. destruct ix as [z|s|m|l]; cbn [d_resolve] in H.
  - destruct (d_inrange n z) eqn:E; [|discriminate]. injection H as <-. apply d_norm_bounds. exact E.
  - destruct (d_slice_pos s n) eqn:E; [|discriminate]. injection H as <-.
    intros x Hx. eapply d_slice_pos_inrange; eauto.
  - destruct (_ =? _) eqn:E; [|discriminate]. injection H as <-.
    intros x Hx. apply d_mask_pos_bounds in Hx. lia.
  - destruct (forallb _ _) eqn:E; [|discriminate]. injection H as <-.
    intros x Hx. apply in_map_iff in Hx. destruct Hx as (y & <- & Hy).
    apply d_norm_bounds. rewrite forallb_forall in E. auto.
Qed.

(* ---------- full slices are the identity ---------- *)
Lemma d_full_resolve n : d_resolve n d_full = Some (VKeep (d_range 0 n 1)).
Proof. reflexivity. Qed.

Lemma d_range_full_length n : 0 <= n -> Z.of_nat (List.length (d_range 0 n 1)) = n.
Proof.
  intros Hn. unfold d_range. rewrite map_length, seq_length. unfold d_range_len.
  change (0 <? 1) with true. cbv iota. destruct (0 <? n) eqn:E; [|lia].
  rewrite Z.div_1_r. lia.
Qed.

Lemma d_nth_map_seq {A} (f : nat -> A) k m d : (k < m)%nat -> nth k (map f (seq 0 m)) d = f k.
Proof.
  intros H. rewrite (nth_indep _ d (f 0%nat)) by (rewrite map_length, seq_length; lia).
  rewrite map_nth, seq_nth by lia. reflexivity.
Qed.

Lemma d_range_full_nth n j : 0 <= j < n -> nth (Z.to_nat j) (d_range 0 n 1) 0 = j.
Proof.
  intros Hj. pose proof (d_range_full_length n ltac:(lia)) as HL.
  unfold d_range in *. rewrite map_length, seq_length in HL.
  rewrite d_nth_map_seq by lia. lia.
Qed.

(* ---------- padded oracle vs. the oracle on the short index list ---------- *)
Lemma d_resolve_pad_all : forall shape ixs, Forall (fun n => 0 <= n) shape ->
  match d_resolve_all shape ixs with
  | Some vs => exists vs', d_resolve_pad shape ixs = Some vs' /\
                 d_vshape vs' = d_vshape vs ++ skipn (List.length ixs) shape /\
                 forall idx, d_inb (d_vshape vs') idx -> d_remap vs' idx = d_remap vs idx
  | None => d_resolve_pad shape ixs = None
  end.
Proof.
  induction shape as [|n sh IH]; intros ixs Hs.
  - destruct ixs; cbn; [|reflexivity]. exists []. repeat split; auto.
  - inversion Hs as [|? ? Hn Hs']; subst. destruct ixs as [|i r].
    + rewrite d_resolve_all_nil. cbn [d_resolve_pad]. rewrite d_full_resolve.
      specialize (IH [] Hs'). rewrite d_resolve_all_nil in IH. destruct IH as (vs'' & E & Sh & R).
      rewrite E. eexists. split; [reflexivity|]. cbn [d_vshape List.length skipn app] in *.
      rewrite Sh, (d_range_full_length n Hn). split; [reflexivity|].
      intros idx Hin. inversion Hin as [|j ? idx' ? Hj Hin']; subst.
      cbn [d_remap]. rewrite (d_range_full_nth n j Hj). f_equal.
      rewrite R; [reflexivity|]. first [exact Hin' | rewrite Sh; exact Hin'].
    + cbn [d_resolve_all d_resolve_pad]. specialize (IH r Hs').
      destruct (d_resolve n i) as [v|]; [|reflexivity].
      destruct (d_resolve_all sh r) as [vs|].
      * destruct IH as (vs'' & E & Sh & R). rewrite E. eexists. split; [reflexivity|].
        destruct v as [ps|p]; cbn [d_vshape List.length skipn app].
        -- rewrite Sh. split; [reflexivity|]. intros idx Hin.
           inversion Hin as [|j ? idx' ? Hj Hin']; subst. cbn [d_remap]. f_equal. apply R.
           first [exact Hin' | rewrite Sh; exact Hin'].
        -- split; [exact Sh|]. intros idx Hin. cbn [d_remap]. f_equal. apply R. exact Hin.
      * rewrite IH. reflexivity.
Qed.

Definition d_nonneg (shape : list Z) : Prop := Forall (fun n => 0 <= n) shape.

(* ---------- dask_getitem = numpy outer indexing (all index kinds, any number of axes) ---------- *)
Lemma d_getitem_is_oindex x ixs : d_nonneg (d_shape x) -> d_f20_free_all (d_shape x) ixs = true ->
  d_oeqv (d_getitem x ixs) (d_oindex x ixs).
Proof.
  intros Hs Hf. unfold d_getitem.
  pose proof (d_simplify_index_resolve _ _ Hs Hf) as H1.
  pose proof (d_resolve_pad_all _ ixs Hs) as H2.
  destruct (d_simplify_index ixs (d_shape x)) as [ixs'|].
  - destruct H1 as (E & N & L).
    apply d_oeqv_trans with (y := d_oindex x ixs').
    { destruct (1 <? d_nfancy ixs')%nat; [apply d_oindex_seq_is_oindex|apply d_oeqv_refl]. }
    unfold d_oindex. rewrite E.
    destruct (d_resolve_all (d_shape x) ixs) as [vs|].
    + destruct H2 as (vs' & E2 & Sh & R). rewrite E2. cbn [d_oeqv]. unfold d_eqv. cbn [d_shape d_dtype d_get].
      rewrite L, skipn_all, app_nil_r. split; [exact Sh|]. split; [reflexivity|].
      intros idx Hin. f_equal. apply R. exact Hin.
    + congruence.
  - unfold d_oindex. destruct (d_resolve_all (d_shape x) ixs) as [vs|]; [|exact Logic.I].
    destruct H2 as (vs' & E2 & _). congruence.
Qed.

(* ---------- outer indexing respects array equality ---------- *)
Lemma d_remap_inb : forall shape ixs vs idx, d_nonneg shape -> d_resolve_all shape ixs = Some vs ->
  d_inb (d_vshape vs ++ skipn (List.length ixs) shape) idx -> d_inb shape (d_remap vs idx).
Proof.
  induction shape as [|n sh IH]; intros ixs vs idx Hs H Hin.
  - destruct ixs; cbn in H; [|discriminate]. injection H as <-. exact Hin.
  - inversion Hs as [|? ? Hn Hs']; subst. destruct ixs as [|i r].
    + rewrite d_resolve_all_nil in H. injection H as <-. exact Hin.
    + cbn [d_resolve_all] in H. destruct (d_resolve n i) as [v|] eqn:Ev; [|discriminate].
      destruct (d_resolve_all sh r) as [vs0|] eqn:Er; [|discriminate]. injection H as <-.
      pose proof (d_resolve_inrange _ _ _ Hn Ev) as Hr.
      destruct v as [ps|p]; cbn [d_vshape List.length skipn app d_remap] in *.
      * inversion Hin as [|j ? idx' ? Hj Hin']; subst. constructor.
        -- apply Hr. apply nth_In. lia.
        -- eapply IH; eauto.
      * constructor; [exact Hr|]. eapply IH; eauto.
Qed.

Lemma d_oindex_respects a b ixs : d_nonneg (d_shape a) -> d_eqv a b -> d_oeqv (d_oindex a ixs) (d_oindex b ixs).
Proof.
  intros Hs (S & T & G). unfold d_oindex. rewrite <- S.
  destruct (d_resolve_all (d_shape a) ixs) as [vs|] eqn:E; [|exact Logic.I].
  cbn [d_oeqv]. unfold d_eqv. cbn [d_shape d_dtype d_get]. repeat split; auto.
  intros idx Hin. apply G. eapply d_remap_inb; eauto.
Qed.

Lemma d_oindex_nonneg a ixs b : d_nonneg (d_shape a) -> d_oindex a ixs = Some b -> d_nonneg (d_shape b).
Proof.
  unfold d_oindex. intros Hs H. destruct (d_resolve_all (d_shape a) ixs) as [vs|]; [|discriminate].
  injection H as <-. cbn [d_shape]. apply Forall_app. split.
  - clear. induction vs as [|[ps|p] t IH]; cbn [d_vshape]; auto. constructor; [lia|exact IH].
  - apply Forall_forall. intros z Hz. unfold d_nonneg in Hs. rewrite Forall_forall in Hs.
    apply Hs. rewrite <- (firstn_skipn (List.length ixs) (d_shape a)). apply in_or_app. right. exact Hz.
Qed.

(* ---------- transforms: any function on arrays that respects array equality and keeps shapes well formed ---------- *)
Definition d_tr_ok (T : d_arr -> d_arr) : Prop :=
  (forall a b, d_nonneg (d_shape a) -> d_eqv a b -> d_eqv (T a) (T b)) /\
  (forall a, d_nonneg (d_shape a) -> d_nonneg (d_shape (T a))).

Lemma d_apply_all_ok : forall tr a b, Forall d_tr_ok tr -> d_nonneg (d_shape a) -> d_eqv a b ->
  d_eqv (d_apply_all tr a) (d_apply_all tr b) /\ d_nonneg (d_shape (d_apply_all tr a)).
Proof.
  unfold d_apply_all. induction tr as [|T tr IH]; intros a b Ht Hs He; cbn [fold_left]; [auto|].
  inversion Ht as [|? ? (P & Q) Ht']; subst. apply IH; auto.
Qed.

(* the elementwise transforms of the correspondence satisfy it (non-vacuity of d_tr_ok) *)
Lemma d_transform_ok c : c <> 1 -> d_tr_ok (d_transform c).
Proof.
  intros Hc. unfold d_transform. destruct (c =? 1) eqn:E1; [lia|]. split.
  - intros a b Hs (S & T & G).
    destruct (c =? 0); [|destruct (c =? 2)]; unfold d_eqv; cbn [d_shape d_dtype d_get];
      repeat split; try congruence; intros idx Hin; try (rewrite G by exact Hin; reflexivity); auto.
  - intros a Hs. destruct (c =? 0); [|destruct (c =? 2)]; cbn [d_shape]; auto.
Qed.

(* ---------- one stage: index, then transform ---------- *)
Lemma d_stage a a' k tr : d_nonneg (d_shape a) -> d_eqv a a' -> Forall d_tr_ok tr ->
  d_f20_free_all (d_shape a') k = true ->
  d_oeqv (match d_getitem a k with Some b => Some (d_apply_all tr b) | None => None end)
         (match d_oindex a' k with Some b => Some (d_apply_all tr b) | None => None end) /\
  (forall ds, match d_getitem a k with Some b => Some (d_apply_all tr b) | None => None end = Some ds ->
              d_nonneg (d_shape ds)).
Proof.
  intros Hs He Ht Hf. destruct He as (S & T & G).
  assert (H1 : d_oeqv (d_getitem a k) (d_oindex a k)) by (apply d_getitem_is_oindex; [exact Hs|rewrite S; exact Hf]).
  assert (H2 : d_oeqv (d_oindex a k) (d_oindex a' k)) by (apply d_oindex_respects; [exact Hs|repeat split; auto]).
  destruct (d_oindex a k) as [c|] eqn:Ec.
  - pose proof (d_oindex_nonneg _ _ _ Hs Ec) as Hc.
    destruct (d_getitem a k) as [b|]; [|contradiction].
    destruct (d_oindex a' k) as [b'|]; [|contradiction].
    cbn [d_oeqv] in *.
    assert (Hb : d_nonneg (d_shape b)) by (destruct H1 as (Sb & _); rewrite Sb; exact Hc).
    destruct (d_apply_all_ok tr b b' Ht Hb (d_eqv_trans _ _ _ H1 H2)) as [P Q].
    split; [exact P|]. intros ds E. injection E as <-. exact Q.
  - destruct (d_getitem a k); [contradiction|]. destruct (d_oindex a' k); [contradiction|].
    split; [exact Logic.I|discriminate].
Qed.

(* ---------- the guard on a (possibly nested) indexer ---------- *)
Fixpoint d_ind_ok (i : d_ind) : Prop :=
  match i with
  | DBase a k tr => d_nonneg (d_shape a) /\ Forall d_tr_ok tr /\ d_f20_free_all (d_shape a) k = true
  | DNest j k tr => d_ind_ok j /\ Forall d_tr_ok tr /\
                    (forall ds, d_spec_dataset j = Some ds -> d_f20_free_all (d_shape ds) k = true)
  end.

Lemma d_dataset_spec : forall i, d_ind_ok i ->
  d_oeqv (d_dataset i) (d_spec_dataset i) /\ (forall ds, d_dataset i = Some ds -> d_nonneg (d_shape ds)).
Proof.
  induction i as [a k tr|j IH k tr]; cbn [d_ind_ok d_dataset d_spec_dataset].
  - intros (Hs & Ht & Hf). apply d_stage; auto using d_eqv_refl.
  - intros (Hj & Ht & Hf). destruct (IH Hj) as [He Hn].
    destruct (d_dataset j) as [a|]; destruct (d_spec_dataset j) as [a'|]; try contradiction.
    + apply d_stage; auto.
    + split; [exact Logic.I|discriminate].
Qed.

(* indexer[k2] = (transform chain of array[stage 1] ... )[k2] under outer indexing, and the advertised
   shape and dtype are those of the spec data set; any nesting depth *)
Lemma d_index_spec i k2 : d_ind_ok i ->
  (forall ds, d_spec_dataset i = Some ds -> d_f20_free_all (d_shape ds) k2 = true) ->
  d_oeqv (d_index i k2) (d_spec_index i k2) /\
  d_adv i = match d_spec_dataset i with Some a => Some (d_shape a, d_dtype a) | None => None end.
Proof.
  intros Hi Hf. destruct (d_dataset_spec i Hi) as [He Hn]. unfold d_index, d_spec_index, d_adv.
  destruct (d_dataset i) as [a|]; destruct (d_spec_dataset i) as [a'|]; try contradiction.
  - split.
    + destruct (d_stage a a' k2 [] (Hn a eq_refl) He (Forall_nil _) (Hf a' eq_refl)) as [P _].
      unfold d_apply_all in P. cbn [fold_left] in P.
      destruct (d_getitem a k2); destruct (d_oindex a' k2); exact P.
    + destruct He as (S & T & _). rewrite S, T. reflexivity.
  - split; [exact Logic.I|reflexivity].
Qed.

(* the full statement is refuted by dask's F20: x[-6:2:-2] on 5 elements *)
Lemma d_index_spec_refuted : exists a k2, d_nonneg (d_shape a) /\
  option_map d_values (d_index (DBase a [] []) k2) = Some [4] /\
  option_map d_values (d_spec_index (DBase a [] []) k2) = Some [].
Proof.
  exists (d_label_arr [5]), [DSlice (DS (Some (-6)) (Some 2) (Some (-2)))].
  split; [repeat constructor; lia|]. split; vm_compute; reflexivity.
Qed.

(* joint get = one by one *)
Lemma d_get_joint_spec : forall l k rs,
  d_get_joint l k = Some rs <-> Forall2 (fun i r => d_index i k = Some r) l rs.
Proof.
  induction l as [|i l IH]; intros k rs; cbn [d_get_joint].
  - split; [intros H; injection H as <-; constructor|intros H; inversion H; reflexivity].
  - destruct (d_index i k) as [a|] eqn:E.
    + destruct (d_get_joint l k) as [rs'|] eqn:E2.
      * split.
        -- intros H. injection H as <-. constructor; [exact E|]. apply IH. exact E2.
        -- intros H. inversion H as [|? r ? rs'' Hr Hrs]; subst. apply IH in Hrs. congruence.
      * split; [discriminate|]. intros H. inversion H as [|? r ? rs'' Hr Hrs]; subst.
        apply IH in Hrs. congruence.
    + split; [discriminate|]. intros H. inversion H; subst. congruence.
Qed.

Lemma d_get_joint_none : forall l k, d_get_joint l k = None <-> exists i, In i l /\ d_index i k = None.
Proof.
  induction l as [|i l IH]; intros k; cbn [d_get_joint].
  - split; [discriminate|intros (i & [] & _)].
  - destruct (d_index i k) as [a|] eqn:E.
    + destruct (d_get_joint l k) as [rs'|] eqn:E2.
      * split; [discriminate|]. intros (j & [<-|Hj] & Hn); [congruence|].
        assert (d_get_joint l k = None) by (apply IH; eauto). congruence.
      * split; [|reflexivity]. intros _. destruct (proj1 (IH k) E2) as (j & Hj & Hn). exists j. split; [right|]; auto.
    + split; [|reflexivity]. intros _. exists i. split; [left; reflexivity|exact E].
Qed.

(* non-vacuity: a guarded two-level indexer with all index kinds *)
Example d_index_example :
  let i := DNest (DBase (d_label_arr [4; 3]) [DList [3; -4; 3]; DMask [true; false; true]] [d_transform 0])
                 [DSlice (DS None None (Some (-1)))] [d_transform 2] in
  d_ind_ok i /\ option_map d_values (d_index i [DInt (-1); DList [1; 0]]) = Some [-23; -19]
  /\ option_map d_values (d_spec_index i [DInt (-1); DList [1; 0]]) = Some [-23; -19].
Proof.
  cbn zeta. split; [|split; vm_compute; reflexivity].
  cbn [d_ind_ok]. split; [split; [|split]|split].
  - repeat constructor; cbn; lia.
  - constructor; [apply d_transform_ok; lia|constructor].
  - reflexivity.
  - constructor; [apply d_transform_ok; lia|constructor].
  - intros ds _. destruct (d_shape ds) as [|? [|? ?]]; reflexivity.
Qed.
