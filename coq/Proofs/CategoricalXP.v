(* C11 (round 2): lemmas about Model/CategoricalX.v: the per-dump list over all dumps, the literal _bool_per_dump,
   getitem on series that start after dump 0, add for every event argument, segments(), len(). *)
From Coq Require Import ZArith List Bool Arith Lia.
From KV Require Import Base.Sx Model.Categorical Model.CategoricalX Proofs.CategoricalP Proofs.CategoricalAddP
  Proofs.CategoricalPartP.
Import ListNotations.
Open Scope nat_scope.

(* ------------------------------------------------------------------ fill / ev_pairs *)
Lemma fill_block {A} (P T : list A) s e b : length P = s -> s <= e -> e - s <= length T ->
  fill (P ++ T) s e b = P ++ repeat b (e - s) ++ skipn (e - s) T.
Proof.
  intros LP H1 H2. unfold fill. rewrite app_length.
  replace (Nat.min e (length P + length T)) with e by lia. replace (Nat.max s e) with e by lia.
  rewrite firstn_app, LP, Nat.sub_diag, firstn_O, app_nil_r. rewrite <- LP at 1. rewrite firstn_all.
  f_equal. f_equal. rewrite skipn_app, LP. rewrite skipn_all2 by lia. reflexivity.
Qed.

Lemma ev_pairs_cons s e r : ev_pairs (s :: e :: r) = (s, e) :: ev_pairs (e :: r).
Proof. unfold ev_pairs. change (removelast (s :: e :: r)) with (s :: removelast (e :: r)). reflexivity. Qed.

Lemma fold_fill : forall r s (bs : list bool) (P T : list bool), chain le s r -> length r = length bs ->
  length P = s -> last r s - s <= length T ->
  fold_left (fun acc t => fill acc (fst (fst t)) (snd (fst t)) (snd t)) (combine (ev_pairs (s :: r)) bs) (P ++ T)
  = P ++ expand_ev s r bs ++ skipn (last r s - s) T.
Proof.
  induction r as [|e r IH]; intros s bs P T C L LP HT.
  - simpl. rewrite Nat.sub_diag. reflexivity.
  - destruct bs as [|b bs]; [discriminate|]. destruct C as [C1 C2]. rewrite last_cons in HT |- *.
    pose proof (chain_le_last r e C2) as LL.
    rewrite ev_pairs_cons. cbn [combine fold_left fst snd].
    rewrite fill_block by (auto; lia).
    rewrite app_assoc. rewrite IH; auto.
    + cbn [expand_ev]. rewrite <- !app_assoc. f_equal. f_equal. f_equal.
      rewrite skipn_skipn'. f_equal. lia.
    + rewrite app_length, repeat_length. lia.
    + rewrite skipn_length. lia.
Qed.

Lemma removelast_cons_length {A} : forall (r : list A) s, length (removelast (s :: r)) = length r.
Proof.
  induction r as [|e r IH]; intros s. reflexivity.
  change (removelast (s :: e :: r)) with (s :: removelast (e :: r)). cbn [length]. rewrite IH. reflexivity.
Qed.

Lemma expand_ev_extra {A} : forall r s (vs x : list A), length r = length vs ->
  expand_ev s r (vs ++ x) = expand_ev s r vs.
Proof.
  induction r as [|e r IH]; intros s vs x L.
  - destruct vs; [|discriminate]. simpl. destruct x; reflexivity.
  - destruct vs as [|v vs]; [discriminate|]. cbn [app expand_ev]. f_equal. apply IH. simpl in L; lia.
Qed.

Lemma all_some_app {A} (l1 l2 : list (option A)) :
  all_some (l1 ++ l2) = match all_some l1, all_some l2 with Some a, Some b => Some (a ++ b) | _, _ => None end.
Proof.
  induction l1 as [|[x|] l1 IH]; simpl.
  - destruct (all_some l2); reflexivity.
  - rewrite IH. destruct (all_some l1), (all_some l2); reflexivity.
  - reflexivity.
Qed.

Section CatXP.
Context {V : Type} (veqb : V -> V -> bool) (dflt : V).
Context (veqb_spec : forall a b, veqb a b = true <-> a = b).
Notation cdV := (@cd V).

Lemma WF_hd_le (c : cdV) : WF c -> hd 0 (ev c) <= ndumps c.
Proof.
  intros W. destruct (WF_inv c W) as (s & r & E & C & _). unfold ndumps. rewrite E. simpl hd. rewrite last_cons.
  apply chain_le_last. apply chain_lt_le; auto.
Qed.

(* the per-dump list over all dumps has one entry per dump *)
Lemma expand_full_length (c : cdV) : WF c -> length (expand_full dflt c) = ndumps c.
Proof.
  intros W. unfold expand_full. rewrite app_length, repeat_length, map_length, (expand_length dflt c W).
  pose proof (WF_hd_le c W). lia.
Qed.

Lemma expand_full_start0 (c : cdV) : start0 c -> expand_full dflt c = map Some (expand dflt c).
Proof. unfold start0, expand_full. intros ->. reflexivity. Qed.

(* _bool_per_dump, literally: N entries, `init` before the first event, the per-event booleans afterwards *)
Lemma bool_per_dump_spec (c : cdV) init f : WF c ->
  bool_per_dump init c f = repeat init (hd 0 (ev c)) ++ cmp c f.
Proof.
  intros W. destruct (WF_inv c W) as (s & r & E & C & L & _). pose proof (WF_hd_le c W) as HL.
  unfold bool_per_dump, cmp, ndumps in *. rewrite E in *. simpl hd in *. rewrite last_cons in *.
  replace (repeat init (last r s)) with (repeat init s ++ repeat init (last r s - s))
    by (rewrite <- repeat_app; f_equal; lia).
  rewrite fold_fill.
  - cbn [expand_evs]. rewrite skipn_all2 by (rewrite repeat_length; lia). rewrite app_nil_r. reflexivity.
  - apply chain_lt_le; auto.
  - rewrite map_length. auto.
  - apply repeat_length.
  - rewrite repeat_length. lia.
Qed.

Lemma cmp_full_spec (c : cdV) f : WF c ->
  bool_per_dump false c f = spec_cmp_full (expand_full dflt c) f.
Proof.
  intros W. rewrite bool_per_dump_spec by auto. unfold spec_cmp_full, expand_full. rewrite map_app, map_map.
  rewrite (cmp_expand dflt c f W). unfold spec_cmp. f_equal.
  induction (hd 0 (ev c)); simpl; congruence.
Qed.

(* ------------------------------------------------------------------ getitem on any well-formed series *)
Lemma nth_error_repeat_app_Some {A} (x : A) n (Y : list A) p :
  nth_error (repeat x n ++ Y) p = if p <? n then Some x else nth_error Y (p - n).
Proof.
  destruct (Nat.ltb_spec p n).
  - rewrite nth_error_app1 by (rewrite repeat_length; auto). apply nth_error_repeat; auto.
  - rewrite nth_error_app2; rewrite repeat_length; auto.
Qed.

Lemma lookupZ_full (c : cdV) : WF c -> forall z,
  option_map (fun i => nth i (uv c) dflt) (lookupZ c z) = nth_ZO (expand_full dflt c) z.
Proof.
  intros W z. unfold lookupZ, nth_ZO. destruct (Z.ltb_spec z 0); [reflexivity|].
  set (p := Z.to_nat z). unfold expand_full. rewrite nth_error_repeat_app_Some.
  pose proof (expand_length dflt c W) as EL. pose proof (WF_hd_le c W) as HL.
  destruct (Nat.ltb_spec p (hd 0 (ev c))).
  - rewrite lookup_none by auto. reflexivity.
  - destruct (Nat.lt_ge_cases p (ndumps c)) as [Hlt|Hge].
    + destruct (lookup_value dflt c p W) as (i & E1 & _ & E2); auto.
      rewrite E1. simpl. rewrite E2. rewrite nth_error_map.
      rewrite (nth_error_nth' _ dflt) by lia. reflexivity.
    + rewrite lookup_none by auto. simpl. rewrite nth_error_map.
      replace (nth_error (expand dflt c) (p - hd 0 (ev c))) with (@None V); [reflexivity|].
      symmetry. apply nth_error_None. lia.
Qed.

Lemma glist_full (c : cdV) ps : WF c ->
  glist dflt c ps = glist_of (map (nth_ZO (expand_full dflt c)) ps).
Proof.
  intros W. unfold glist, glist_of.
  rewrite <- (all_some_map (lookupZ c) (fun i => nth i (uv c) dflt) (nth_ZO (expand_full dflt c)) ps).
  - destruct (all_some (map (lookupZ c) ps)); reflexivity.
  - intros. apply lookupZ_full; auto.
Qed.

Lemma true_positions_full (X0 : list (option V)) : forall m P, length m <= length X0 ->
  all_some (map (nth_ZO (P ++ X0)) (map Z.of_nat (true_positions m (length P))))
  = all_some (map snd (filter fst (combine m X0))).
Proof.
  intros m. revert X0. induction m as [|b m IH]; intros X0 P L. reflexivity.
  destruct X0 as [|x X0]; simpl in L; [lia|].
  assert (E : P ++ x :: X0 = (P ++ [x]) ++ X0) by (rewrite <- app_assoc; reflexivity).
  assert (IH' := IH X0 (P ++ [x])). rewrite app_length in IH'. simpl in IH'.
  replace (length P + 1) with (S (length P)) in IH' by lia. rewrite <- E in IH'.
  destruct b; cbn [true_positions map combine filter fst snd].
  - cbn [all_some]. rewrite IH' by lia. unfold nth_ZO at 1.
    destruct (Z.ltb_spec (Z.of_nat (length P)) 0); [lia|]. rewrite Nat2Z.id.
    rewrite nth_error_app2 by lia. rewrite Nat.sub_diag. simpl nth_error. destruct x; reflexivity.
  - apply IH'. lia.
Qed.

(* getitem_full: on ANY well-formed series (also one that starts after dump 0) indexing by int / slice / mask / list
   is the same indexing of the list of option values; a selected dump without value is an IndexError *)
Lemma getitem_full (c : cdV) k : WF c ->
  (forall m, k = KMask m -> length m = ndumps c) ->
  getitem dflt c k = spec_getitem_full (expand_full dflt c) k.
Proof.
  intros W HM. pose proof (expand_full_length c W) as EL.
  destruct k as [z|a b s|m|l]; cbn [getitem spec_getitem_full].
  - rewrite <- (lookupZ_full c W z). destruct (lookupZ c z); reflexivity.
  - rewrite EL. destruct (slice_range (Z.of_nat (ndumps c)) a b s); [|reflexivity]. apply glist_full; auto.
  - rewrite EL, (HM m eq_refl), Nat.eqb_refl. rewrite glist_full by auto. unfold glist_of.
    pose proof (true_positions_full (expand_full dflt c) m []) as T. simpl in T.
    rewrite T by (rewrite EL, (HM m eq_refl); lia). reflexivity.
  - apply glist_full; auto.
Qed.

(* a mask whose length is not the number of dumps is out of the documented domain: the code then uses the
   booleans as dump indices 0 / 1 (numpy would raise) -- stated so that the behaviour is on record *)
Lemma getitem_wrong_mask (c : cdV) m : length m <> ndumps c ->
  getitem dflt c (KMask m) = getitem dflt c (KList (map (fun b : bool => if b then 1%Z else 0%Z) m)).
Proof. intros H. cbn [getitem]. destruct (Nat.eqb_spec (length m) (ndumps c)); [contradiction|reflexivity]. Qed.

(* ------------------------------------------------------------------ len() and segments() *)
Lemma segments_length (c : cdV) : WF c -> length (segments dflt c) = cat_len c.
Proof.
  intros W. destruct (WF_inv c W) as (s & r & E & C & L & _). unfold segments, cat_len.
  rewrite !combine_length, vals_length. rewrite E. simpl tl.
  pose proof (removelast_cons_length r s). lia.
Qed.

Lemma glue_pairs : forall r s (vs : list V), length r = length vs ->
  glue_segments (combine (combine (removelast (s :: r)) r) vs) = expand_ev s r vs.
Proof.
  induction r as [|e r IH]; intros s vs L. reflexivity.
  destruct vs as [|v vs]; [discriminate|].
  change (removelast (s :: e :: r)) with (s :: removelast (e :: r)). cbn [combine glue_segments flat_map fst snd expand_ev].
  f_equal. apply IH. simpl in L; lia.
Qed.

(* segments(): the segments are contiguous, run from the first event to N, and glued together they are the
   per-dump list *)
Lemma segments_spec (c : cdV) : WF c ->
  glue_segments (segments dflt c) = expand dflt c /\
  map (fun t => fst (fst t)) (segments dflt c) = removelast (ev c) /\
  map (fun t => snd (fst t)) (segments dflt c) = tl (ev c) /\
  map snd (segments dflt c) = vals dflt c /\
  Forall (fun t => fst (fst t) < snd (fst t)) (segments dflt c).
Proof.
  intros W. destruct (WF_inv c W) as (s & r & E & C & L & _).
  pose proof (removelast_cons_length r s) as LR.
  assert (LV : length (combine (removelast (s :: r)) r) = length (vals dflt c)).
  { rewrite combine_length, vals_length. lia. }
  unfold segments, expand. rewrite E. simpl tl. cbn [expand_evs]. split; [|split; [|split; [|split]]].
  - apply glue_pairs. rewrite vals_length. auto.
  - rewrite <- map_map, map_fst_combine by auto. apply map_fst_combine. lia.
  - rewrite <- map_map, map_fst_combine by auto. apply map_snd_combine. lia.
  - apply map_snd_combine. auto.
  - apply Forall_forall. intros [[a b] v] Hin. apply in_combine_l in Hin. simpl.
    assert (I : incr (s :: r)) by exact C.
    destruct (In_pairs_incr (s :: r) a b I Hin). auto.
Qed.

(* ------------------------------------------------------------------ add for EVERY event argument *)
Lemma count_lt_all l p : Forall (fun x => x < p) l -> count_lt l p = length l.
Proof. induction 1; [reflexivity|]. rewrite count_lt_cons, IHForall. destruct (Nat.ltb_spec x p); simpl; lia. Qed.

Lemma count_lt_app l1 l2 p : count_lt (l1 ++ l2) p = count_lt l1 p + count_lt l2 p.
Proof. unfold count_lt. rewrite filter_app, app_length. reflexivity. Qed.

Lemma incr_all_lt_last (l : list nat) : incr l -> l <> [] -> Forall (fun x => x < last l 0) (removelast l).
Proof.
  intros I NE. rewrite (ev_snoc l NE) in I. apply Forall_forall. intros x Hx.
  remember (removelast l) as E. clear HeqE NE. remember (last l 0) as N. clear HeqN.
  apply in_split in Hx. destruct Hx as (l1 & l2 & ->). rewrite <- app_assoc in I. cbn [app] in I.
  apply incr_app_inv in I. destruct I as [_ I]. simpl in I.
  pose proof (chain_lt_Forall _ _ I) as F. rewrite Forall_forall in F. apply F. apply in_or_app. right. left. reflexivity.
Qed.

(* beyond the last dump: add(e, value) with e > N raises IndexError (events[event_index] out of bounds);
   add(e) without value raises IndexError for every e outside [first event, N) *)
Lemma add_beyond (c : cdV) e v : WF c -> ndumps c < e -> add veqb c e v = None.
Proof.
  intros W H. destruct (WF_inv c W) as (s & r & E & C & L & _).
  assert (NE : ev c <> []) by (rewrite E; discriminate).
  assert (K : count_lt (ev c) e = length (ev c)).
  { apply count_lt_all. rewrite (ev_snoc _ NE). apply Forall_app. split.
    - eapply Forall_impl; [|apply incr_all_lt_last; [destruct W; auto|auto]]. unfold ndumps in H. simpl. intros; lia.
    - constructor; [|constructor]. exact H. }
  unfold add. destruct v as [v|].
  - destruct (index_of veqb v (uv c)); rewrite K; replace (nth_error (ev c) (length (ev c))) with (@None nat)
      by (symmetry; apply nth_error_None; lia); reflexivity.
  - rewrite lookup_none by (auto; lia). reflexivity.
Qed.

Lemma add_novalue_outside (c : cdV) e : WF c -> e < hd 0 (ev c) \/ ndumps c <= e -> add veqb c e None = None.
Proof. intros W H. unfold add. rewrite lookup_none by auto. reflexivity. Qed.

(* exactly AT the number of dumps, add(N, value) does not raise: it appends an index WITHOUT an event.  The
   per-dump list is unchanged but the container no longer has one more event than indices (out of the
   documented domain "event : dump", recorded so that the behaviour is on record) *)
Lemma add_at_end (c : cdV) v : WF c ->
  exists c' vi, add veqb c (ndumps c) (Some v) = Some c' /\ ev c' = ev c /\ idx c' = idx c ++ [vi] /\
    expand dflt c' = expand dflt c /\ ~ WF c'.
Proof.
  intros W. destruct (WF_inv c W) as (s & r & E & C & L & _).
  assert (NE : ev c <> []) by (rewrite E; discriminate).
  assert (I : incr (ev c)) by (destruct W; auto).
  pose proof (ev_snoc _ NE) as SN. fold (ndumps c) in SN.
  assert (LE : length (removelast (ev c)) = length (idx c)).
  { assert (length (ev c) = S (length (removelast (ev c)))) by (rewrite SN at 1; rewrite app_length; simpl; lia).
    rewrite E in H at 1. simpl in H. lia. }
  assert (K : count_lt (ev c) (ndumps c) = length (idx c)).
  { rewrite SN, count_lt_app, count_lt_all by (apply incr_all_lt_last; auto).
    rewrite count_lt_cons. destruct (Nat.ltb_spec (ndumps c) (ndumps c)); [lia|]. unfold count_lt. simpl. lia. }
  assert (NT : nth_error (ev c) (length (idx c)) = Some (ndumps c)).
  { rewrite SN, nth_error_app2 by lia. rewrite LE, Nat.sub_diag. reflexivity. }
  assert (F1 : firstn (length (idx c)) (ev c) = removelast (ev c)).
  { rewrite SN at 1. rewrite <- LE. rewrite firstn_app, firstn_all, Nat.sub_diag. simpl. apply app_nil_r. }
  assert (F2 : skipn (S (length (idx c))) (ev c) = []).
  { apply skipn_all2. rewrite E. simpl. lia. }
  assert (G : forall u vi, let c' := mk u (firstn (length (idx c)) (idx c) ++ [vi] ++ skipn (S (length (idx c))) (idx c))
                             (firstn (length (idx c)) (ev c) ++ [ndumps c] ++ skipn (S (length (idx c))) (ev c)) in
              (forall i, i < length (uv c) -> nth i u dflt = nth i (uv c) dflt) ->
              ev c' = ev c /\ idx c' = idx c ++ [vi] /\ expand dflt c' = expand dflt c /\ ~ WF c').
  { intros u vi c' HU. unfold c'. cbn [ev idx]. rewrite F1, F2, firstn_all, skipn_all2 by lia.
    rewrite app_nil_r. cbn [app]. rewrite <- SN. split; [reflexivity|]. split; [reflexivity|]. split.
    - unfold expand, vals. cbn [uv idx ev]. rewrite E. cbn [expand_evs]. rewrite map_app.
      assert (M : map (fun i => nth i u dflt) (idx c) = map (fun i => nth i (uv c) dflt) (idx c)).
      { apply map_ext_in. intros i Hi. apply HU. destruct W as (_ & _ & F & _). rewrite Forall_forall in F. auto. }
      rewrite M. apply expand_ev_extra. rewrite map_length. auto.
    - intros (_ & HL & _). cbn [ev idx] in HL. rewrite app_length in HL. simpl in HL. rewrite E in HL. simpl in HL. lia. }
  unfold add. destruct (index_of veqb v (uv c)) as [i|] eqn:IX; rewrite K, NT, Nat.eqb_refl.
  - eexists. exists i. split; [reflexivity|]. apply G. auto.
  - eexists. exists (length (uv c)). split; [reflexivity|]. apply G. intros i Hi. apply app_nth1. auto.
Qed.

End CatXP.
