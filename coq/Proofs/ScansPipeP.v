(* C03: the WHOLE segmentation pipeline of the format classes (Model/Scans.v: segment = v4 / v3 / v2, segment_v1)
   keeps every one of the six sensors well formed from dump 0 to dump N, for ALL well-formed inputs: chaining of
   C11's add_unmatched / align / remove / add / remove_repeats facts through the pipeline. *)
From Coq Require Import ZArith List Bool Arith Lia.
From KV Require Import Base.Sx Gen.Generated Model.Categorical Proofs.CategoricalP Proofs.CategoricalAddP Proofs.CategoricalConcatP
  Proofs.CategoricalRemoveP Proofs.CategoricalAlignP Proofs.ScansSegP.
From KV Require Model.Scans.
Import ListNotations.
Open Scope nat_scope.

Notation cdz := Scans.cdz.
Notation zd := Scans.zd.

(* a series that covers dumps 0 .. N-1 *)
Definition good (N : nat) (c : cdz) : Prop := WF c /\ start0 c /\ ndumps c = N.

Lemma chain_incrb : forall r s, chain lt s r -> Scans.incrb s r = true.
Proof.
  induction r as [|e r IH]; intros s C; simpl; [reflexivity|]. destruct C as [A B].
  apply andb_true_iff. split; [apply Nat.ltb_lt; exact A | apply IH; exact B].
Qed.

(* completeness of the decidable check (the converse of ScansSegP.cd_ok_sound) *)
Lemma good_cd_ok : forall N (c : cdz), good N c -> Scans.cd_ok N c = true.
Proof.
  intros N c (W & S0 & HN). destruct (WF_inv c W) as (s & r & E & C & L & F & _).
  unfold Scans.cd_ok. unfold start0 in S0. unfold ndumps in HN. rewrite E in *. simpl in S0. subst s.
  rewrite Nat.eqb_refl, (chain_incrb _ _ C). cbn [andb].
  apply andb_true_iff. split; [apply andb_true_iff; split|].
  - apply Nat.eqb_eq. exact HN.
  - apply Nat.eqb_eq. simpl. f_equal. exact L.
  - apply forallb_forall. intros i Hi. rewrite Forall_forall in F. apply Nat.ltb_lt. apply F. exact Hi.
Qed.

Lemma good_idx_nonempty : forall N (c : cdz), 0 < N -> good N c -> idx c <> [].
Proof.
  intros N c HN (W & S0 & E). destruct (WF_inv c W) as (s & r & Ev & C & L & _).
  unfold start0 in S0. unfold ndumps in E. rewrite Ev in *. simpl in S0. subst s.
  destruct r as [|e r]; [simpl in E; lia|]. destruct (idx c); [discriminate L | discriminate].
Qed.

Lemma last_In_ne : forall (l : list nat) d, l <> [] -> In (last l d) l.
Proof.
  induction l as [|a l IH]; intros d H; [congruence|]. destruct l as [|b l]; [left; reflexivity|].
  right. apply IH. discriminate.
Qed.

Lemma good_ends_in : forall N (c : cdz), good N c -> incr (ev c) /\ In 0 (ev c) /\ In N (ev c) /\ ev c <> [].
Proof.
  intros N c (W & S0 & E). destruct (WF_inv c W) as (s & r & Ev & C & _).
  assert (NE : ev c <> []) by (rewrite Ev; discriminate).
  split; [exact (proj1 W)|]. split; [|split; [|exact NE]].
  - unfold start0 in S0. rewrite Ev in *. simpl in S0. subst s. left; reflexivity.
  - rewrite <- E. unfold ndumps. apply last_In_ne. exact NE.
Qed.

(* x.events, x.indices = x.events[1:], x.indices[1:]; x.events[0] = 0 on a series of at least two events *)
Lemma drop_first_good : forall N (c : cdz), good N c -> 2 <= length (idx c) ->
  good N (Scans.drop_first c) /\ uv (Scans.drop_first c) = uv c.
Proof.
  intros N c (W & S0 & E) H2. destruct (WF_inv c W) as (s & r & Ev & C & L & F & ND).
  unfold start0 in S0. unfold ndumps in E. rewrite Ev in *. simpl in S0. subst s.
  destruct (idx c) as [|i0 [|i1 ix]] eqn:Ei; try (simpl in H2; lia).
  destruct r as [|e1 [|e2 r]]; try discriminate L.
  split; [|reflexivity]. unfold good, WF, start0, ndumps, Scans.drop_first. rewrite Ev, Ei. cbn [uv idx ev tl hd].
  destruct C as (C1 & C2 & C3).
  split; [split; [|split; [|split]]|split].
  - simpl. split; [lia | exact C3].
  - simpl in *. lia.
  - inversion F; assumption.
  - exact ND.
  - reflexivity.
  - rewrite <- E. reflexivity.
Qed.

(* align: the series still ends at N when N is a segment boundary; it still starts at dump 0 when it did and
   0 is a segment boundary *)
Lemma align_good_end : forall N (c sc c' : cdz), WF c -> ndumps c = N -> good N sc ->
  align zd c (ev sc) = Some c' -> WF c' /\ ndumps c' = N /\ Forall (fun e => In e (ev sc)) (ev c').
Proof.
  intros N c sc c' W E G H. destruct (good_ends_in N sc G) as (I & _ & HN & _).
  destruct (align_WF zd c (ev sc) c' W I H) as (W' & Fa & _).
  split; [exact W'|]. split; [|exact Fa]. rewrite (align_ends zd c (ev sc) c' W I H); [exact E | rewrite E; exact HN].
Qed.

Lemma align_start0 : forall (c c' : cdz) segs, WF c -> start0 c -> incr segs -> In 0 segs ->
  align zd c segs = Some c' -> start0 c'.
Proof.
  intros c c' segs W S0 I H0 H.
  assert (NE : segs <> []) by (destruct segs; [destruct H0 | discriminate]).
  destruct (al_setup c segs W I NE) as (e0 & es & Ev & Hl & Hc & Hl').
  rewrite (align_eq zd c segs NE) in H. injection H as <-.
  unfold start0 in *. cbn [ev]. rewrite Ev in *. simpl in S0. subst e0. rewrite map_cons.
  rewrite (nearest_fix segs 0 H0) in *.
  destruct (al_kept_head (map (nearest segs) es) 0 (idx c) Hc Hl') as [rest Hr]. rewrite Hr. reflexivity.
Qed.

Lemma align_good : forall N (c sc c' : cdz), good N c -> good N sc -> align zd c (ev sc) = Some c' -> good N c'.
Proof.
  intros N c sc c' (W & S0 & E) G H. destruct (align_good_end N c sc c' W E G H) as (W' & E' & _).
  destruct (good_ends_in N sc G) as (I & H0 & _).
  split; [exact W'|]. split; [|exact E']. exact (align_start0 c c' (ev sc) W S0 I H0 H).
Qed.

(* _lookup can only give two different answers on a series with at least two events *)
Lemma lookup_two : forall (c : cdz) p q a b, lookup c p = Some a -> lookup c q = Some b -> a <> b -> 2 <= length (idx c).
Proof.
  intros c p q a b Hp Hq Hne. unfold lookup in *.
  destruct ((count_le (ev c) p =? 0) || (length (idx c) <=? count_le (ev c) p - 1)) eqn:Gp; [discriminate|].
  destruct ((count_le (ev c) q =? 0) || (length (idx c) <=? count_le (ev c) q - 1)) eqn:Gq; [discriminate|].
  apply orb_false_iff in Gp. apply orb_false_iff in Gq. destruct Gp as [_ Gp]. destruct Gq as [_ Gq].
  apply Nat.leb_gt in Gp. apply Nat.leb_gt in Gq.
  destruct (idx c) as [|i0 [|i1 ix]]; simpl in *; try lia.
  assert (count_le (ev c) p - 1 = 0) by lia. assert (count_le (ev c) q - 1 = 0) by lia.
  rewrite H in Hp. rewrite H0 in Hq. simpl in *. congruence.
Qed.

Lemma stop_scan_true : forall K P (t : cdz) segs, Scans.stop_scan K P t segs = Some true -> 2 <= length (idx t).
Proof.
  intros K P t. induction segs as [|[[s e] state] rest IH]; intro H; simpl in H; [discriminate|].
  destruct (lookup t s) as [a|] eqn:La; [|discriminate].
  destruct (lookup t (Scans.k_stop_dump K)) as [b|] eqn:Lb; [|discriminate].
  destruct ((state =? Scans.p_stop P)%Z && (a =? b)); [apply IH; exact H|].
  injection H as H. apply negb_true_iff in H. apply Nat.eqb_neq in H. exact (lookup_two t s _ a b La Lb H).
Qed.

Lemma Zeqb_ok : forall a b : Z, Z.eqb a b = true <-> a = b.
Proof. intros. apply Z.eqb_eq. Qed.

(* CategoricalData(range(len(x)), x.events) and CategoricalData(x.indices, x.events) of a series covering 0..N *)
Lemma index_cd_good : forall N (c : cdz), 0 < N -> good N c ->
  good N (Scans.index_cd c) /\ ev (Scans.index_cd c) = ev c /\ Scans.numbered (expand zd (Scans.index_cd c)) = true
  /\ length (expand zd (Scans.index_cd c)) = N.
Proof.
  intros N c HN G. pose proof (good_idx_nonempty N c HN G) as NE. destruct G as (W & S0 & E).
  destruct (index_cd_numbered c W S0 NE) as (Wi & Si & Ev & Nd & Le & _ & Nu).
  split; [split; [exact Wi|split; [exact Si|congruence]]|]. split; [exact Ev|]. split; [exact Nu|]. congruence.
Qed.

Lemma tindex_cd_good : forall N (c : cdz), good N c -> good N (Scans.tindex_cd c) /\ ev (Scans.tindex_cd c) = ev c.
Proof.
  intros N c (W & S0 & E). split; [|reflexivity]. destruct W as (Hi & Hl & _).
  split; [|split; [exact S0 | exact E]].
  apply (make_WF Z.eqb zd Zeqb_ok); [exact Hi | rewrite map_length; exact Hl].
Qed.

(* ---------------------------------------------------------------- the stages of the pipeline *)
(* what the proofs need of the numbers read from the source: the first event is only dropped from a series with at
   least two events, the default label is added on dump 0 exactly when the labels do not start on dump 0 *)
Definition segk_ok (K : Scans.segk) : Prop :=
  1 <= Scans.k_slew_len K /\ 1 <= Scans.k_noth_len K /\ Scans.k_lab_first K = 0 /\ Scans.k_lab_add K = 0.
Lemma segk_of_ok : forall f, segk_ok (Scans.segk_of f).
Proof. intros []; vm_compute; repeat split; lia. Qed.

Lemma slew_fix_good : forall N K P (c : cdz), segk_ok K -> good N c -> good N (Scans.slew_fix K P c).
Proof.
  intros N K P c (HK & _) G. unfold Scans.slew_fix.
  destruct ((Scans.k_slew_len K <? length (idx c)) && (nth (Scans.k_slew_evi K) (ev c) 0 =? Scans.k_slew_ev K)
            && Scans.opt_is (Scans.value_at c (Scans.k_slew_dump K)) (Scans.p_slew P)) eqn:E; [|exact G].
  apply andb_true_iff in E. destruct E as [E _]. apply andb_true_iff in E. destruct E as [E _].
  apply Nat.ltb_lt in E. apply (drop_first_good N c G). lia.
Qed.

Lemma label_clean_ok : forall N K P (c : cdz), good N c ->
  WF (Scans.label_clean K P c) /\ ndumps (Scans.label_clean K P c) = N.
Proof.
  intros N K P c (W & _ & E). unfold Scans.label_clean. destruct (Scans.k_lab_uv K <? length (uv c)); [|split; assumption].
  destruct (remove_WF Z.eqb c (Scans.p_empty P) W) as [W' E']. split; [exact W' | congruence].
Qed.

(* label.align(scan.events); if label.events[0] > 0: label.add(0, '') *)
Lemma label_stage : forall N (sc l1 l2 l3 : cdz) (e : Z), 0 < N -> good N sc -> WF l1 -> ndumps l1 = N ->
  align zd l1 (ev sc) = Some l2 ->
  (if 0 <? hd 0 (ev l2) then add Z.eqb l2 0 (Some e) else Some l2) = Some l3 -> good N l3.
Proof.
  intros N sc l1 l2 l3 e HN G W1 E1 HA H3. destruct (align_good_end N l1 sc l2 W1 E1 G HA) as (W2 & E2 & _).
  destruct (Nat.ltb_spec 0 (hd 0 (ev l2))) as [Hlt|Hge].
  - destruct (add_value_spec Z.eqb zd Zeqb_ok l2 0 e W2) as (c' & A & W3 & E3 & H0 & _); [lia|].
    rewrite A in H3. injection H3 as <-. split; [exact W3|]. split; [unfold start0; rewrite H0; reflexivity | congruence].
  - injection H3 as <-. split; [exact W2|]. split; [unfold start0; lia | exact E2].
Qed.

Lemma target_post_good : forall N f P (sc t t3 : cdz), good N sc -> good N t ->
  Scans.target_post f P sc t = Some t3 -> good N t3.
Proof.
  intros N f P sc t t3 Gs (W & S0 & E) H. destruct f; unfold Scans.target_post in H; try (injection H as <-; split; [|split]; assumption).
  destruct (remove_repeats t) as [t1|] eqn:R; [|discriminate].
  destruct (remove_repeats_WF t t1 W R) as (W1 & E1 & H1 & _).
  assert (G1 : good N t1) by (split; [exact W1|split; [unfold start0 in *; congruence | congruence]]).
  destruct (Scans.stop_scan (Scans.segk_of Scans.V4) P t1 (segments zd sc)) as [[|]|] eqn:SS; [| injection H as <-; exact G1 | discriminate].
  destruct (drop_first_good N t1 G1 (stop_scan_true _ _ _ _ SS)) as [G2 _].
  exact (align_good N _ _ t3 G2 G2 H).
Qed.

(* ---------------------------------------------------------------- MAIN: v4 / v3 / v2 *)
Record seg_good (N : nat) (g : Scans.seg) : Prop := {
  sgd_state : good N (Scans.sg_state g); sgd_scan : good N (Scans.sg_scan g);
  sgd_label : good N (Scans.sg_label g); sgd_cscan : good N (Scans.sg_cscan g);
  sgd_target : good N (Scans.sg_target g); sgd_tindex : good N (Scans.sg_tindex g);
  (* the index sensors have the events of the sensors whose event number the generators look names up by *)
  sgd_scan_ev : ev (Scans.sg_scan g) = ev (Scans.sg_state g);
  sgd_cscan_ev : ev (Scans.sg_cscan g) = ev (Scans.sg_label g);
  sgd_tindex_ev : ev (Scans.sg_tindex g) = ev (Scans.sg_target g);
  sgd_scan_is : Scans.sg_scan g = Scans.index_cd (Scans.sg_state g);
  sgd_cscan_is : Scans.sg_cscan g = Scans.index_cd (Scans.sg_label g);
  sgd_tindex_is : Scans.sg_tindex g = Scans.tindex_cd (Scans.sg_target g);
  sgd_scan_numbered : Scans.numbered (expand zd (Scans.sg_scan g)) = true;
  sgd_cscan_numbered : Scans.numbered (expand zd (Scans.sg_cscan g)) = true
}.

Lemma seg_good_of : forall N (sc lb tg : cdz), 0 < N -> good N sc -> good N lb -> good N tg ->
  seg_good N {| Scans.sg_state := sc; Scans.sg_scan := Scans.index_cd sc; Scans.sg_label := lb;
                Scans.sg_cscan := Scans.index_cd lb; Scans.sg_target := tg; Scans.sg_tindex := Scans.tindex_cd tg |}.
Proof.
  intros N sc lb tg HN Gs Gl Gt.
  destruct (index_cd_good N sc HN Gs) as (A1 & A2 & A3 & _). destruct (index_cd_good N lb HN Gl) as (B1 & B2 & B3 & _).
  destruct (tindex_cd_good N tg Gt) as (C1 & C2).
  constructor; cbn [Scans.sg_state Scans.sg_scan Scans.sg_label Scans.sg_cscan Scans.sg_target Scans.sg_tindex]; auto.
Qed.

Theorem segment_good : forall f P (act label target : cdz) N g, 0 < N ->
  good N act -> good N label -> good N target ->
  Scans.segment f P act label target = Some g -> seg_good N g.
Proof.
  intros f P act label target N g HN Ga Gl Gt H. unfold Scans.segment in H. cbv zeta in H.
  pose proof (segk_of_ok f) as KO. set (K := Scans.segk_of f) in *.
  pose proof (slew_fix_good N K P act KO Ga) as G0. destruct (label_clean_ok N K P label Gl) as [W1 E1].
  set (scan0 := Scans.slew_fix K P act) in *. set (label1 := Scans.label_clean K P label) in *.
  destruct G0 as (W0 & S0 & E0).
  destruct (add_unmatched_spec Z.eqb zd scan0 (ev label1) (Scans.k_dist K) W0) as (Ws & Es & Hs & _).
  set (scan := add_unmatched Z.eqb scan0 (ev label1) (Scans.k_dist K)) in *.
  destruct KO as (_ & KN & KF & KA). rewrite KF, KA in H.
  assert (Gs : good N scan) by (split; [exact Ws|split; [unfold start0 in *; congruence | congruence]]).
  destruct (align zd label1 (ev scan)) as [label2|] eqn:A2; [|discriminate].
  destruct (if 0 <? hd 0 (ev label2) then add Z.eqb label2 0 (Some (Scans.p_addlabel P)) else Some label2) as [label3|] eqn:A3;
    [|discriminate].
  pose proof (label_stage N scan label1 label2 label3 _ HN Gs W1 E1 A2 A3) as G3.
  set (target1 := match f with
                  | Scans.V3 => if (Scans.k_noth_len K <? length (idx target))
                                   && Scans.opt_is (Scans.value_at target (Scans.k_noth_dump K)) (Scans.p_nothing P)
                                then Scans.drop_first target else target
                  | _ => target end) in *.
  assert (Gt1 : good N target1).
  { unfold target1. destruct f; try exact Gt.
    destruct ((Scans.k_noth_len K <? length (idx target))
              && Scans.opt_is (Scans.value_at target (Scans.k_noth_dump K)) (Scans.p_nothing P)) eqn:Ec; [|exact Gt].
    apply andb_true_iff in Ec. destruct Ec as [Ec _]. apply Nat.ltb_lt in Ec. apply (drop_first_good N target Gt). lia. }
  destruct (align zd target1 (ev scan)) as [target2|] eqn:A4; [|discriminate].
  pose proof (align_good N target1 scan target2 Gt1 Gs A4) as Gt2.
  destruct (Scans.target_post f P scan target2) as [target3|] eqn:A5; [|discriminate].
  pose proof (target_post_good N f P scan target2 target3 Gs Gt2 A5) as Gt3.
  injection H as <-. apply seg_good_of; assumption.
Qed.

Lemma seg_good_ok : forall N g, seg_good N g -> Scans.seg_ok N g = true.
Proof.
  intros N g [A B C D E F _ _ _ _ _ _ N1 N2]. unfold Scans.seg_ok.
  rewrite !good_cd_ok by assumption. rewrite N1, N2. reflexivity.
Qed.

(* ---------------------------------------------------------------- v1 *)
Lemma make_good : forall N (values : list Z) segs, incr segs -> length segs = S (length values) -> hd 0 segs = 0 ->
  last segs 0 = N -> good N (make Z.eqb values segs).
Proof.
  intros N values segs I L H0 HN. split; [apply (make_WF Z.eqb zd Zeqb_ok); assumption|]. split; assumption.
Qed.

Theorem segment_v1_good : forall states groups labels targets segs N g, 0 < N ->
  incr segs -> hd 0 segs = 0 -> last segs 0 = N ->
  length segs = S (length states) -> length groups = length states -> length labels = length states ->
  length targets = length states ->
  Scans.segment_v1 states groups labels targets segs = Some g -> seg_good N g.
Proof.
  intros states groups labels targets segs N g HN I H0 HL Ls Lg Ll Lt H. unfold Scans.segment_v1 in H.
  assert (Gs : good N (make Z.eqb states segs)) by (apply make_good; auto).
  assert (Gg : good N (make Z.eqb groups segs)) by (apply make_good; auto; congruence).
  assert (Gl : good N (make Z.eqb labels segs)) by (apply make_good; auto; congruence).
  assert (Gt : good N (make Z.eqb targets segs)) by (apply make_good; auto; congruence).
  destruct (remove_repeats (make Z.eqb groups segs)) as [cs|] eqn:R; [|discriminate].
  destruct Gg as (Wg & Sg & Eg). destruct (remove_repeats_WF _ cs Wg R) as (Wc & Ec & Hc & _).
  assert (Gc : good N cs) by (split; [exact Wc|split; [unfold start0 in *; congruence | congruence]]).
  destruct (align zd (make Z.eqb labels segs) (ev cs)) as [label|] eqn:A1; [|discriminate].
  destruct (align zd (make Z.eqb targets segs) (ev cs)) as [target|] eqn:A2; [|discriminate].
  injection H as <-. apply seg_good_of; auto.
  - exact (align_good N _ cs label Gl Gc A1).
  - exact (align_good N _ cs target Gt Gc A2).
Qed.

(* ---------------------------------------------------------------- what a dump sees *)
(* every dump p < N has exactly one value in a series covering 0..N: the per-dump list has N entries and entry p
   is the value of the event interval p falls in *)
Lemma good_expand_length : forall N (c : cdz), good N c -> length (expand zd c) = N.
Proof. intros N c (W & S0 & E). rewrite (expand_length zd c W). unfold start0 in S0. lia. Qed.

Lemma good_nth_expand : forall N (c : cdz) p, good N c -> p < N ->
  nth p (expand zd c) zd = nth (count_le (tl (ev c)) p) (vals zd c) zd /\ count_le (tl (ev c)) p < length (idx c).
Proof.
  intros N c p (W & S0 & E) Hp. destruct (WF_inv c W) as (s & r & Ev & C & L & _).
  unfold start0 in S0. unfold ndumps in E. unfold expand. rewrite Ev in *. simpl in S0. subst s. cbn [expand_evs tl].
  rewrite last_cons in E. pose proof (chain_lt_le _ _ C) as C'.
  split.
  - pose proof (nth_expand_ev zd r 0 (vals zd c) p C') as X. rewrite Nat.sub_0_r in X. apply X; [rewrite vals_length; exact L | lia | lia].
  - rewrite <- L. apply (count_le_lt_length r 0 p C'); lia.
Qed.
