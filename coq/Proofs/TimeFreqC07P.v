(* C17 (extension): the slice normalisation of Model/TimeFreqPre.v (written for the timestamps / spectral window side) and the
   one of the chunk-store model of C07 (Model/Chunks.v: norm_slice = slice.indices + dask's stop := max start stop, written
   independently for get_dask_array) are the same function: what the preselection keeps of the timestamps is what the chunk
   store is asked for. *)
From Coq Require Import ZArith List Bool Lia.
From KV Require Import Model.TimeFreqPre.
From KV Require Model.Chunks.
Import ListNotations.
Open Scope Z_scope.

Lemma py_indices_is_c07_norm_slice n a b st :
  Chunks.norm_slice n (a, b) = (fst (py_indices n (PSlice a b st)), Z.max (fst (py_indices n (PSlice a b st))) (snd (py_indices n (PSlice a b st)))) /\
  snd (Chunks.norm_slice n (a, b)) - fst (Chunks.norm_slice n (a, b)) = take_len (py_indices n (PSlice a b st)).
Proof.
  unfold Chunks.norm_slice, Chunks.norm_bound, py_indices, py_bound, take_len. cbn [fst snd]. split; [reflexivity|lia].
Qed.

(* the two-axis index of a preselection, as C07's norm_index sees it: same ranges as axis_range *)
Lemma pre_index_is_c07_norm_index T F da db st ca cb st' :
  Chunks.norm_index [T; F] [(da, db); (ca, cb)] =
  [ (fst (py_indices T (PSlice da db st)), Z.max (fst (py_indices T (PSlice da db st))) (snd (py_indices T (PSlice da db st))));
    (fst (py_indices F (PSlice ca cb st')), Z.max (fst (py_indices F (PSlice ca cb st'))) (snd (py_indices F (PSlice ca cb st')))) ].
Proof. reflexivity. Qed.
