(* C10: the public path (SensorCache._extract for categorical sensors) obeys the rule over the CLEANED samples for
   every raw sample list: the clean-up sorts, so the sortedness hypothesis of the per-dump theorem is discharged. *)
From Coq Require Import ZArith List Bool String Lia ZifyBool.
From KV Require Import Base.Sx Base.Str Gen.Generated Model.SensorToCat Model.SensorToCatSrc Model.SensorToCatPath
  Proofs.SensorToCatP Proofs.SensorToCatInitP Proofs.SensorToCatLawsP Proofs.SensorToCatSrcP Proofs.SensorToCatTopP.
Import ListNotations.
Open Scope Z_scope.

(* ---------- the clean-up yields non-decreasing (in fact strictly increasing) times ---------- *)
Lemma insert_nondecr a l : forall x, nondecrZ x (map r_t l) -> x <= r_t a -> nondecrZ x (map r_t (insert_r a l)).
Proof.
  induction l as [|b t IH]; intros x H Hx.
  - simpl. split; [exact Hx|exact Logic.I].
  - simpl in H. destruct H as [H1 H2]. simpl. destruct (r_t a <=? r_t b) eqn:E.
    + simpl. split; [exact Hx|]. split; [lia|exact H2].
    + simpl. split; [exact H1|]. apply IH; [exact H2|lia].
Qed.

Definition lsorted (l : list Z) : Prop := match l with [] => True | x :: t => nondecrZ x t end.

Lemma insert_lsorted a l : lsorted (map r_t l) -> lsorted (map r_t (insert_r a l)).
Proof.
  destruct l as [|b t]; [intros _; exact Logic.I|]. simpl. intro H. destruct (r_t a <=? r_t b) eqn:E.
  - simpl. split; [lia|exact H].
  - simpl. apply insert_nondecr; [exact H|lia].
Qed.

Lemma sort_lsorted l : lsorted (map r_t (sort_r l)).
Proof. induction l as [|a l IH]; [exact Logic.I|]. simpl. apply insert_lsorted. exact IH. Qed.

Lemma keep_last_nondecr l : forall x, nondecrZ x (map r_t l) -> nondecrZ x (map r_t (keep_last_r l)).
Proof.
  induction l as [|a t IH]; intros x H; [exact Logic.I|].
  destruct t as [|b t'].
  - exact H.
  - change (keep_last_r (a :: b :: t')) with (if r_t a =? r_t b then keep_last_r (b :: t') else a :: keep_last_r (b :: t')).
    simpl in H. destruct H as [H1 [H2 H3]].
    destruct (r_t a =? r_t b).
    + apply IH. simpl. split; [lia|exact H3].
    + simpl map. split; [exact H1|]. apply IH. simpl. split; [exact H2|exact H3].
Qed.

Lemma filter_nondecr (f : rsample -> bool) l : forall x, nondecrZ x (map r_t l) -> nondecrZ x (map r_t (filter f l)).
Proof.
  induction l as [|a t IH]; intros x H; [exact Logic.I|]. simpl in H. destruct H as [H1 H2]. simpl.
  destruct (f a).
  - simpl. split; [exact H1|]. apply IH. exact H2.
  - apply IH. destruct t as [|b t']; [exact Logic.I|]. simpl in H2 |- *. destruct H2 as [H3 H4]. split; [lia|exact H4].
Qed.

Lemma lsorted_time_sorted l : lsorted l -> time_sorted l.
Proof. unfold time_sorted. destruct l as [|x t]; [auto|]. simpl. intro H. split; [lia|exact H]. Qed.

Lemma clean_lsorted hs l : lsorted (map r_t (clean_r hs l)).
Proof.
  unfold clean_r. pose proof (sort_lsorted l) as Hs.
  assert (Hk : lsorted (map r_t (keep_last_r (sort_r l)))).
  { destruct (sort_r l) as [|a t] eqn:E; [exact Logic.I|].
    assert (Hn : nondecrZ (r_t a) (map r_t (keep_last_r (a :: t)))).
    { apply keep_last_nondecr. simpl. split; [lia|exact Hs]. }
    destruct (keep_last_r (a :: t)) as [|c u]; [exact Logic.I|]. simpl in Hn |- *. destruct Hn as [_ Hn]. exact Hn. }
  destruct hs; [|exact Hk].
  set (u := keep_last_r (sort_r l)) in *. destruct u as [|a t]; [exact Logic.I|].
  assert (Hn : nondecrZ (r_t a) (map r_t (filter (fun s => status_readable (r_st s)) (a :: t)))).
  { apply filter_nondecr. simpl. split; [lia|exact Hk]. }
  destruct (filter _ (a :: t)) as [|c w]; [exact Logic.I|]. simpl in Hn |- *. destruct Hn as [_ Hn]. exact Hn.
Qed.

Lemma usable_sorted raw hs off init dflt : time_sorted (map fst (usable_samples raw hs off init dflt)).
Proof.
  unfold usable_samples.
  set (c := match raw with [] => [] | _ => clean_r hs (shift_r _ raw) end).
  assert (Hc : lsorted (map r_t c)).
  { unfold c. destruct raw; [exact Logic.I|apply clean_lsorted]. }
  destruct c as [|a t].
  - unfold time_sorted. simpl. lia.
  - apply lsorted_time_sorted. rewrite map_map. exact Hc.
Qed.

Lemma usable_nonempty raw hs off init dflt : usable_samples raw hs off init dflt <> [].
Proof. unfold usable_samples. destruct (match raw with [] => [] | _ => _ end); discriminate. Qed.

(* a sensor without usable samples is replaced by ONE dummy sample carrying the initial value (else the default) *)
Lemma usable_dummy raw hs off init dflt :
  (match raw with [] => [] | _ => clean_r hs (shift_r (match off with Some o => o | None => 0 end) raw) end) = [] ->
  usable_samples raw hs off init dflt = [(0, match init with Some i => i | None => dflt end)].
Proof. unfold usable_samples, c10_default_time_offset, c10_dummy_time. intro H. rewrite H. reflexivity. Qed.

Lemma default_time_offset raw hs init dflt : usable_samples raw hs None init dflt = usable_samples raw hs (Some 0) init dflt.
Proof. reflexivity. Qed.

(* ---------- the theorem ---------- *)
Lemma extract_cat_rule raw hs off dflt mids P tr init greedy ar :
  mids <> [] -> ssorted mids -> 0 < P ->
  let s := usable_samples raw hs off init dflt in
  extract_per_dump_src raw hs off dflt mids P tr init greedy ar =
  rule (map fst s) (map snd s) mids P tr (init_as_coded (map fst s) (dump_ends mids P) P init) greedy
  /\ c10_domain (map fst s) (map snd s) mids P.
Proof.
  intros Hne Hs HP s.
  assert (D : c10_domain (map fst s) (map snd s) mids P).
  { unfold c10_domain. repeat split; try assumption; [apply usable_sorted|rewrite !map_length; reflexivity]. }
  split; [|exact D].
  unfold extract_per_dump_src, extract_cat_src. fold s.
  exact (per_dump_src_coded (map fst s) (map snd s) mids P tr init greedy ar D).
Qed.

Lemma decide_categorical_eq (p : option bool) (is_float : bool) :
  decide_categorical_src p is_float = spec_categorical p is_float.
Proof. destruct p; reflexivity. Qed.

(* cache[name]: a boolean keep mask (one entry per dump) selects exactly the masked per-dump values *)
Lemma res_all_ok {A} (f : nat -> res A) (g : nat -> A) (l : list nat) :
  (forall k, In k l -> f k = Ok (g k)) -> res_all (map f l) = Ok (map g l).
Proof.
  induction l as [|k l IH]; intro H; [reflexivity|]. simpl. rewrite (H k (or_introl eq_refl)).
  rewrite IH by (intros; apply H; right; assumption). reflexivity.
Qed.

Lemma res_all_inv {A} (l : list (res A)) r : res_all l = Ok r -> l = map Ok r.
Proof.
  revert r. induction l as [|[a|] l IH]; intros r H; simpl in H.
  - inversion H. reflexivity.
  - destruct (res_all l) as [r'|] eqn:E; [|discriminate]. inversion H; subst. simpl. f_equal. apply IH. reflexivity.
  - discriminate.
Qed.

Lemma nonzero_lt mask : forall k i, In i (nonzero k mask) -> (k <= i < k + List.length mask)%nat.
Proof.
  induction mask as [|b m IH]; intros k i H; [destruct H|]. simpl in H. simpl List.length. destruct b.
  - destruct H as [->|H]; [lia|]. specialize (IH _ _ H). lia.
  - specialize (IH _ _ H). lia.
Qed.

Lemma select_mask_cons {A} b (x : A) m l :
  select_mask (b :: m) (x :: l) = if b then x :: select_mask m l else select_mask m l.
Proof. unfold select_mask. simpl. destruct b; reflexivity. Qed.

Lemma nonzero_spec mask : forall k (l : list Z), List.length l = List.length mask ->
  map (fun i => nth (i - k) l 0) (nonzero k mask) = select_mask mask l.
Proof.
  induction mask as [|b m IH]; intros k l Hl; [reflexivity|]. destruct l as [|x l]; [discriminate|].
  simpl in Hl. rewrite select_mask_cons. simpl nonzero.
  assert (Ht : map (fun i => nth (i - k) (x :: l) 0) (nonzero (S k) m) = select_mask m l).
  { rewrite <- (IH (S k) l) by lia. apply map_ext_in. intros i Hi. apply nonzero_lt in Hi.
    replace (i - k)%nat with (S (i - S k)) by lia. reflexivity. }
  destruct b; [|exact Ht]. simpl map. rewrite Nat.sub_diag. simpl nth. f_equal. exact Ht.
Qed.

Lemma select_is_mask c (l : list Z) mask :
  cat_all_src c = Ok l -> Z.of_nat (List.length mask) = last (cevents c) 0 ->
  cat_select_src c (Some mask) = Ok (select_mask mask l) /\ cat_select_src c None = Ok l.
Proof.
  intros Hall Hlen. split; [|exact Hall]. unfold cat_select_src. rewrite Hlen, Z.eqb_refl.
  unfold cat_all_src in Hall. apply res_all_inv in Hall.
  set (n := Z.to_nat (last (cevents c) 0)) in *.
  assert (Hn : n = List.length mask) by (unfold n; lia).
  assert (Hll : List.length l = n).
  { apply (f_equal (@List.length _)) in Hall. rewrite !map_length, seq_length in Hall. lia. }
  rewrite <- (nonzero_spec mask 0 l) by lia.
  apply res_all_ok. intros k Hk. apply nonzero_lt in Hk. rewrite Nat.sub_0_r.
  assert (Hkth : nth k (map (fun k0 => cat_lookup_src c (Z.of_nat k0)) (seq 0 n)) Err = cat_lookup_src c (Z.of_nat k)).
  { rewrite (nth_indep _ Err (cat_lookup_src c (Z.of_nat 0))) by (rewrite map_length, seq_length; lia).
    rewrite (map_nth (fun k0 => cat_lookup_src c (Z.of_nat k0)) (seq 0 n) O k). rewrite seq_nth by lia. reflexivity. }
  rewrite Hall in Hkth. rewrite <- Hkth.
  rewrite (nth_indep _ Err (Ok 0)) by (rewrite map_length; lia).
  rewrite (map_nth (@Ok Z) l 0 k). reflexivity.
Qed.

(* ================= non-vacuity ================= *)
Open Scope string_scope.
(* unsorted raw samples with a duplicate timestamp (the later one wins) and an unreadable status, shifted by +1:
   usable samples are sorted; then the rule applies *)
Example ex_usable :
  usable_samples [(3, 1, "nominal"); (-6, 2, "warn"); (3, 4, "error"); (1, 3, "unknown"); (0, 3, "nominal")] true (Some 1) None 9
    = [(-5, 2); (1, 3); (4, 4)] /\
  extract_per_dump_src [(3, 1, "nominal"); (-6, 2, "warn"); (3, 4, "error"); (1, 3, "unknown"); (0, 3, "nominal")] true (Some 1) 9
      [-1; 1; 3] 2 None None [3] None = Ok [2; 3; 3].
Proof. vm_compute. split; reflexivity. Qed.

(* no usable sample: ONE dummy sample at time 0 with the initial value / the default of the type; the dummy is an
   ordinary event at time 0 (it is transformed like one) *)
Example ex_dummy :
  usable_samples [(3, 1, "failure")] true None (Some 7) 9 = [(0, 7)] /\
  usable_samples [] false None None 9 = [(0, 9)] /\
  extract_per_dump_src [] false None 9 [-1; 1; 3] 2 None (Some 7) [] None = Ok [7; 7; 7] /\
  extract_per_dump_src [] false None 9 [-1; 1; 3] 2 (Some [(7, 8)]) (Some 7) [] None = Ok [8; 8; 8].
Proof. vm_compute. repeat split. Qed.

Example ex_decision :
  decide_categorical_src None true = false /\ decide_categorical_src None false = true /\
  decide_categorical_src (Some true) true = true /\ decide_categorical_src (Some false) false = false.
Proof. repeat split. Qed.

Example ex_select :
  select_mask [true; false; true] [2; 3; 3] = [2; 3] /\
  match extract_cat_src [(-5, 2, ""); (1, 3, ""); (4, 4, "")] false None 9 [-1; 1; 3] 2 None None [3] None with
  | Ok c => cat_select_src c (Some [true; false; true]) = Ok [2; 3] /\ cat_select_src c None = Ok [2; 3; 3]
  | Err => False
  end.
Proof. vm_compute. repeat split. Qed.
