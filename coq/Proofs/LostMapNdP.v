(* N-d part: products of 1-D pieces, the lost map, _apply_data_lost. *)
From Coq Require Import ZArith List Bool Lia ZifyBool.
From KV Require Import Base.Sx Model.Prune Model.LostMap Proofs.PruneP Proofs.LostMapP.
Import ListNotations.
Open Scope Z_scope.

(* ---------- generic list facts ---------- *)
Lemma existsb_flat_map {A B} (f : B -> bool) (g : A -> list B) l :
  existsb f (flat_map g l) = existsb (fun a => existsb f (g a)) l.
Proof. induction l; simpl; [reflexivity|]. rewrite existsb_app, IHl. reflexivity. Qed.

Lemma existsb_map {A B} (f : B -> bool) (g : A -> B) l : existsb f (map g l) = existsb (fun a => f (g a)) l.
Proof. induction l; simpl; [reflexivity|]. rewrite IHl. reflexivity. Qed.

Lemma existsb_false {A} (l : list A) : existsb (fun _ => false) l = false.
Proof. induction l; simpl; auto. Qed.

Lemma existsb_andb_l {A} (c : bool) (f : A -> bool) l : existsb (fun a => c && f a) l = c && existsb f l.
Proof. induction l; simpl; [destruct c; reflexivity|]. rewrite IHl. destruct c, (f a), (existsb f l); reflexivity. Qed.

Lemma existsb_andb_r {A} (c : bool) (f : A -> bool) l : existsb (fun a => f a && c) l = existsb f l && c.
Proof. induction l; simpl; [reflexivity|]. rewrite IHl. destruct c, (f a), (existsb f l); reflexivity. Qed.

Lemma existsb_ext {A} (f g : A -> bool) l : (forall a, f a = g a) -> existsb f l = existsb g l.
Proof. intro H. apply existsb_ext_in. auto. Qed.

Lemma map_flat_map {A B C} (f : B -> C) (g : A -> list B) l : map f (flat_map g l) = flat_map (fun a => map f (g a)) l.
Proof. induction l; simpl; [reflexivity|]. rewrite map_app, IHl. reflexivity. Qed.

Lemma flat_map_map {A B C} (f : A -> B) (g : B -> list C) l : flat_map g (map f l) = flat_map (fun a => g (f a)) l.
Proof. induction l; simpl; [reflexivity|]. rewrite IHl. reflexivity. Qed.

Lemma flat_map_ext' {A B} (f g : A -> list B) l : (forall a, f a = g a) -> flat_map f l = flat_map g l.
Proof. intro H. induction l; simpl; [reflexivity|]. rewrite H, IHl. reflexivity. Qed.

Lemma map_nth_seq {A} (d : A) l : map (fun i => nth i l d) (seq 0 (length l)) = l.
Proof.
  induction l as [|a t IH]; [reflexivity|]. cbn [length seq map nth]. f_equal.
  rewrite <- seq_shift, map_map. exact IH.
Qed.

Lemma combine_map_r {A B} (f : A -> B) l : combine l (map f l) = map (fun x => (x, f x)) l.
Proof. induction l; simpl; [reflexivity|]. rewrite IHl. reflexivity. Qed.

(* ---------- products ---------- *)
Definition idx {A} (l : list A) : list nat := seq 0 (length l).
Definition sel {A} (d : A) (Ls : list (list A)) (J : list nat) : list A :=
  map (fun lj => nth (snd lj) (fst lj) d) (combine Ls J).

Lemma prod_sel {A} (d : A) (Ls : list (list A)) : product Ls = map (sel d Ls) (product (map idx Ls)).
Proof.
  induction Ls as [|L Ls IH]; [reflexivity|].
  cbn [product map]. rewrite map_flat_map.
  rewrite <- (map_nth_seq d L) at 1. rewrite flat_map_map. unfold idx at 1.
  apply flat_map_ext'. intro i. rewrite map_map. rewrite IH at 1. rewrite map_map. reflexivity.
Qed.

Lemma product_singletons {A} (xs : list A) : product (map (fun x => [x]) xs) = [xs].
Proof. induction xs as [|x t IH]; [reflexivity|]. cbn [map product flat_map]. rewrite IH. reflexivity. Qed.

Lemma product_snoc {A} (Ls : list (list A)) (xs : list A) :
  product (Ls ++ map (fun x => [x]) xs) = map (fun t => t ++ xs) (product Ls).
Proof.
  induction Ls as [|L Ls IH].
  - cbn [app]. rewrite product_singletons. reflexivity.
  - cbn [app product]. rewrite map_flat_map. apply flat_map_ext'. intro a.
    rewrite IH, !map_map. reflexivity.
Qed.

Lemma in_product {A} (Ls : list (list A)) (t : list A) :
  Forall2 (fun x L => In x L) t Ls -> In t (product Ls).
Proof.
  revert t. induction Ls as [|L Ls IH]; intros t H.
  - inversion H; subst. left. reflexivity.
  - inversion H; subst. cbn [product]. apply in_flat_map. exists x. split; [assumption|].
    apply in_map. apply IH. assumption.
Qed.

(* ---------- N-d cover ---------- *)
Fixpoint covers_nd (pc : list piece) (Iq : list (nat * Z)) : bool :=
  match pc, Iq with
  | [], [] => true
  | p :: pc', iq :: Iq' => covers p iq && covers_nd pc' Iq'
  | _, _ => false
  end.

Fixpoint forallb2 {A B} (f : A -> B -> bool) (la : list A) (lb : list B) : bool :=
  match la, lb with
  | [], [] => true
  | a :: la', b :: lb' => f a b && forallb2 f la' lb'
  | _, _ => false
  end.

Lemma covers_nd_split : forall pc Iq,
  nats_eqb (dst_index pc) (map fst Iq) && in_slices pc (map snd Iq) = covers_nd pc Iq.
Proof.
  induction pc as [|p pc IH]; intros [|iq Iq]; try reflexivity.
  cbn [dst_index map nats_eqb in_slices combine forallb covers_nd fst snd]. rewrite <- IH.
  unfold covers, in_slices, dst_index.
  set (A := nats_eqb _ _). set (B := forallb _ _).
  destruct (Nat.eqb (fst (fst p)) (fst iq)), (in_slice p (snd iq)), A, B; reflexivity.
Qed.

Lemma existsb_product : forall ls Iq, existsb (fun pc => covers_nd pc Iq) (product ls) = forallb2 cov1 ls Iq.
Proof.
  induction ls as [|l ls IH]; intros Iq.
  - destruct Iq; reflexivity.
  - cbn [product]. rewrite existsb_flat_map. destruct Iq as [|iq Iq].
    + cbn [forallb2]. rewrite (existsb_ext _ (fun _ => false)); [apply existsb_false|].
      intro a. rewrite existsb_map. apply existsb_false.
    + cbn [forallb2]. rewrite (existsb_ext _ (fun a => covers a iq && forallb2 cov1 ls Iq)).
      * rewrite existsb_andb_r. reflexivity.
      * intro a. rewrite existsb_map. cbn [covers_nd]. rewrite existsb_andb_l, IH. reflexivity.
Qed.

(* ---------- the pieces listed under source block J, axis by axis ---------- *)
Definition ext_pieces (f : list Z) : list piece := hd [] (intersect_1d f [zsum f]).

Fixpoint selx (flc dc : list (list Z)) (J : list nat) : list (list piece) :=
  match flc with
  | [] => []
  | f :: flc' =>
      match dc, J with
      | dd :: dc', j :: J' => nth j (intersect_1d f dd) [] :: selx flc' dc' J'
      | _, _ => ext_pieces f :: selx flc' [] []
      end
  end.

(* flags chunking flc, source chunking dc (possibly fewer axes), window position p *)
Fixpoint nd_ok (flc dc : list (list Z)) (p : list Z) : Prop :=
  match flc, p with
  | [], [] => dc = []
  | f :: flc', x :: p' =>
      allpos f /\ 0 <= x < zsum f /\
      match dc with
      | [] => nd_ok flc' [] p'
      | dd :: dc' => allpos dd /\ zsum f = zsum dd /\ nd_ok flc' dc' p'
      end
  | _, _ => False
  end.

Lemma intersect_1d_single f n : intersect_1d f [n] = [hd [] (intersect_1d f [n])].
Proof.
  unfold intersect_1d. cbn [inter]. destruct (take (S (length f)) f 0 0 n) as [ps [i' s']]. reflexivity.
Qed.

Lemma o2n_split : forall flc dc, (length dc <= length flc)%nat ->
  old_to_new flc (dc ++ map (fun f => [zsum f]) (skipn (length dc) flc)) =
  old_to_new (firstn (length dc) flc) dc ++ map (fun ps => [ps]) (map ext_pieces (skipn (length dc) flc)).
Proof.
  unfold old_to_new.
  induction flc as [|f flc IH]; intros dc H.
  - destruct dc; [reflexivity|simpl in H; lia].
  - destruct dc as [|dd dc].
    + cbn [length skipn firstn app map combine fst snd]. specialize (IH [] ltac:(simpl; lia)).
      cbn [length skipn firstn app map combine] in IH. rewrite IH.
      rewrite intersect_1d_single. reflexivity.
    + cbn [length skipn firstn app map combine fst snd]. rewrite IH by (simpl in H; lia). reflexivity.
Qed.

Lemma sel_selx : forall flc dc J, length J = length dc -> (length dc <= length flc)%nat ->
  sel [] (old_to_new (firstn (length dc) flc) dc) J ++ map ext_pieces (skipn (length dc) flc) = selx flc dc J.
Proof.
  unfold sel, old_to_new.
  induction flc as [|f flc IH]; intros dc J HJ H.
  - destruct dc; [|simpl in H; lia]. destruct J; [reflexivity|discriminate].
  - destruct dc as [|dd dc]; destruct J as [|j J]; try discriminate.
    + cbn [length skipn firstn combine map app selx]. f_equal.
      specialize (IH [] [] eq_refl ltac:(simpl; lia)). cbn [length skipn firstn combine map app] in IH. exact IH.
    + cbn [length skipn firstn combine map app selx fst snd]. f_equal.
      apply IH; simpl in *; lia.
Qed.

Lemma loc_single n x : 0 <= x < n -> loc [n] 0 x = (0%nat, x).
Proof. intro H. simpl. destruct (x <? n) eqn:E; [reflexivity|lia]. Qed.

Lemma selx_eval : forall flc dc p J, nd_ok flc dc p -> length J = length dc ->
  forallb2 cov1 (selx flc dc J) (locs flc p) = nats_eqb J (map fst (locs dc p)).
Proof.
  unfold locs.
  induction flc as [|f flc IH]; intros dc p J OK HJ.
  - destruct p; simpl in OK; [|contradiction]. subst dc. destruct J; [reflexivity|discriminate].
  - destruct p as [|x p]; [simpl in OK; contradiction|]. cbn [nd_ok] in OK. destruct OK as (Pf & Hx & OK).
    destruct dc as [|dd dc].
    + destruct J; [|discriminate]. cbn [selx combine map forallb2 fst snd nats_eqb].
      rewrite (IH [] p [] OK eq_refl). cbn [combine map nats_eqb]. rewrite andb_true_r.
      unfold ext_pieces.
      replace (hd [] (intersect_1d f [zsum f])) with (nth 0 (intersect_1d f [zsum f]) [])
        by (destruct (intersect_1d f [zsum f]); reflexivity).
      rewrite intersect_1d_cov; auto.
      * rewrite loc_single by lia. reflexivity.
      * constructor; [lia|constructor].
      * simpl. lia.
    + destruct OK as (Pd & Hs & OK). destruct J as [|j J]; [discriminate|].
      cbn [selx combine map forallb2 fst snd nats_eqb].
      rewrite (IH dc p J OK ltac:(simpl in HJ; lia)).
      rewrite intersect_1d_cov; auto.
Qed.

Lemma in_product_length {A} : forall (Ls : list (list A)) t, In t (product Ls) -> length t = length Ls.
Proof.
  induction Ls as [|L Ls IH]; intros t H.
  - simpl in H. destruct H as [<-|[]]. reflexivity.
  - cbn [product] in H. apply in_flat_map in H. destruct H as (a & _ & H). apply in_map_iff in H.
    destruct H as (t' & <- & H). simpl. f_equal. apply IH. exact H.
Qed.

Lemma locs_in_keys : forall flc dc p, nd_ok flc dc p ->
  In (map fst (locs dc p)) (product (map (fun dd => seq 0 (length dd)) dc)).
Proof.
  unfold locs.
  induction flc as [|f flc IH]; intros dc p OK.
  - destruct p; simpl in OK; [|contradiction]. subst dc. left. reflexivity.
  - destruct p as [|x p]; [simpl in OK; contradiction|]. cbn [nd_ok] in OK. destruct OK as (Pf & Hx & OK).
    destruct dc as [|dd dc]; [left; reflexivity|].
    destruct OK as (Pd & Hs & OK). cbn [combine map product fst snd].
    apply in_flat_map. exists (fst (loc dd 0 x)). split.
    + pose proof (loc_spec dd x Pd ltac:(lia)) as L. destruct (loc dd 0 x) as [i q]. simpl.
      apply in_seq. lia.
    + apply in_map. apply IH. exact OK.
Qed.

Lemma nats_eqb_eq : forall a b, nats_eqb a b = true <-> a = b.
Proof.
  induction a as [|x a IH]; intros [|y b]; simpl; split; intro H; try reflexivity; try discriminate.
  - apply andb_true_iff in H. destruct H as [H1 H2]. apply Nat.eqb_eq in H1. apply IH in H2. congruence.
  - inversion H; subst. rewrite Nat.eqb_refl. simpl. apply IH. reflexivity.
Qed.

Lemma existsb_pick (f : list nat -> bool) Jp l : In Jp l ->
  existsb (fun J => f J && nats_eqb J Jp) l = f Jp.
Proof.
  intro H. destruct (f Jp) eqn:E.
  - apply existsb_exists. exists Jp. split; [exact H|]. rewrite E. simpl. apply nats_eqb_eq. reflexivity.
  - destruct (existsb (fun J => f J && nats_eqb J Jp) l) eqn:X; [|reflexivity].
    apply existsb_exists in X. destruct X as (J & _ & HJ). apply andb_true_iff in HJ. destruct HJ as [A B].
    apply nats_eqb_eq in B. subst. congruence.
Qed.

(* ---------- one source array: a flagged entry exists iff the source block that covers p is a placeholder ---------- *)
Lemma entries_exists (ph : nat -> list nat -> bool) fl name d p :
  nd_ok (chunks_of fl) (chunks_of d) p ->
  existsb (fun e : entry => nats_eqb (dst_index (snd e)) (map fst (locs (chunks_of fl) p)) &&
                    (ph (fst (fst e)) (snd (fst e)) && in_slices (snd e) (map snd (locs (chunks_of fl) p))))
          (entries_of fl name d)
  = ph name (map fst (locs (chunks_of d) p)).
Proof.
  intro OK.
  assert (Hlen : (length (chunks_of d) <= length (chunks_of fl))%nat).
  { clear -OK. revert OK. generalize (chunks_of d) as dc. generalize p. induction (chunks_of fl) as [|f flc IH]; intros p0 dc OK.
    - destruct p0; simpl in OK; [subst; simpl; lia|contradiction].
    - destruct p0 as [|x p0]; [simpl in OK; contradiction|]. cbn [nd_ok] in OK. destruct OK as (_ & _ & OK).
      destruct dc as [|dd dc]; [simpl; lia|]. destruct OK as (_ & _ & OK). apply IH in OK. simpl. lia. }
  unfold entries_of.
  set (flc := chunks_of fl) in *. set (dc := chunks_of d) in *.
  assert (E1 : map (fun a : axis => [zsum (ax_sizes a)]) (skipn (length d) fl)
               = map (fun f => [zsum f]) (skipn (length dc) flc)).
  { unfold flc, dc, chunks_of. rewrite map_length, skipn_map, map_map. reflexivity. }
  rewrite E1. clear E1.
  assert (E2 : src_keys d = product (map (fun dd => seq 0 (length dd)) dc)).
  { unfold src_keys, dc, chunks_of. rewrite map_map. f_equal. apply map_ext. intro a. unfold ax_sizes.
    rewrite map_length. reflexivity. }
  rewrite E2. clear E2.
  set (keys := product (map (fun dd => seq 0 (length dd)) dc)).
  assert (E3 : intersect_chunks flc (dc ++ map (fun f => [zsum f]) (skipn (length dc) flc))
               = map (fun J => product (selx flc dc J)) keys).
  { unfold intersect_chunks. rewrite o2n_split by exact Hlen. rewrite product_snoc.
    rewrite (prod_sel [] (old_to_new (firstn (length dc) flc) dc)).
    assert (E4 : map idx (old_to_new (firstn (length dc) flc) dc) = map (fun dd => seq 0 (length dd)) dc).
    { unfold old_to_new, idx. rewrite map_map.
      assert (G : forall A B : list (list Z), length A = length B ->
                  map (fun x => seq 0 (length (intersect_1d (fst x) (snd x)))) (combine A B)
                  = map (fun dd => seq 0 (length dd)) B).
      { induction A as [|a A IH]; intros [|b B] HL; try discriminate; [reflexivity|].
        cbn [combine map fst snd]. unfold intersect_1d at 1. rewrite inter_length. f_equal. apply IH.
        simpl in HL. lia. }
      apply G. rewrite firstn_length. lia. }
    rewrite E4. fold keys. rewrite !map_map. apply map_ext_in. intros J HJ. f_equal.
    apply sel_selx; [|exact Hlen].
    apply in_product_length in HJ. rewrite map_length in HJ. exact HJ. }
  rewrite E3. clear E3. rewrite combine_map_r.
  rewrite existsb_flat_map, existsb_map. cbn [fst snd].
  rewrite (existsb_ext_in _ (fun J => ph name J && nats_eqb J (map fst (locs dc p)))).
  - apply existsb_pick. apply (locs_in_keys flc dc p OK).
  - intros J HJ. rewrite existsb_map. cbn [fst snd].
    rewrite (existsb_ext _ (fun pc => ph name J && covers_nd pc (locs flc p))).
    + rewrite existsb_andb_l, existsb_product. f_equal. apply selx_eval; [exact OK|].
      apply in_product_length in HJ. rewrite map_length in HJ. exact HJ.
    + intro pc. rewrite <- covers_nd_split.
      destruct (nats_eqb (dst_index pc) (map fst (locs flc p))), (ph name J),
               (in_slices pc (map snd (locs flc p))); reflexivity.
Qed.
