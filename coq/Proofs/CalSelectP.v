(* C14: lemmas about which calibration products end up applied (Model/CalSelect.v). *)
From Coq Require Import ZArith List Bool String Ascii.
From KV Require Import Base.Sx Base.Str Gen.Generated Model.CalInterp Model.CalSelect Proofs.CalInterpP.
Import ListNotations.
Local Open Scope string_scope.

(* ------------------------------------------------------------------ strings / dedup_first *)
Lemma mem_string_In : forall x l, mem_string x l = true <-> In x l.
Proof.
  intros x l. unfold mem_string. rewrite existsb_exists. split.
  - intros [y [Hin E]]. apply String.eqb_eq in E. subst. exact Hin.
  - intro H. exists x. split; [exact H | apply String.eqb_refl].
Qed.

Lemma sneq_true : forall a b, sneq a b = true <-> a <> b.
Proof.
  intros a b. unfold sneq. rewrite negb_true_iff. split.
  - intros E H. subst. rewrite String.eqb_refl in E. discriminate.
  - intro H. apply String.eqb_neq. exact H.
Qed.

Lemma filter_comm : forall (f g : string -> bool) l, filter f (filter g l) = filter g (filter f l).
Proof.
  intros f g l. induction l as [|a t IH]; [reflexivity|]. cbn [filter].
  destruct (g a) eqn:Eg; destruct (f a) eqn:Ef; cbn [filter]; rewrite ?Eg, ?Ef, IH; reflexivity.
Qed.

Lemma filter_absorb : forall (f g : string -> bool) l,
  (forall y, g y = true -> f y = true) -> filter g (filter f l) = filter g l.
Proof.
  intros f g l H. induction l as [|a t IH]; [reflexivity|]. cbn [filter].
  destruct (f a) eqn:Ef; cbn [filter].
  - rewrite IH. reflexivity.
  - destruct (g a) eqn:Eg; [rewrite (H _ Eg) in Ef; discriminate | exact IH].
Qed.

Lemma filter_and : forall (f g : string -> bool) l, filter (fun x => f x && g x) l = filter g (filter f l).
Proof.
  intros f g l. induction l as [|a t IH]; [reflexivity|]. cbn [filter].
  destruct (f a); cbn [andb filter]; [destruct (g a); rewrite IH; reflexivity | exact IH].
Qed.

Lemma filter_id : forall (f : string -> bool) l, (forall y, In y l -> f y = true) -> filter f l = l.
Proof.
  intros f l. induction l as [|a t IH]; intro H; [reflexivity|]. cbn [filter].
  rewrite (H a (or_introl eq_refl)), IH; [reflexivity|]. intros y Hy. apply H. right. exact Hy.
Qed.

(* dropping repeated entries commutes with any filter *)
Lemma dedup_filter : forall g l, dedup_first (filter g l) = filter g (dedup_first l).
Proof.
  intros g l. induction l as [|x t IH]; [reflexivity|]. cbn [filter dedup_first].
  destruct (g x) eqn:Eg.
  - cbn [dedup_first filter]. rewrite IH. f_equal. apply filter_comm.
  - rewrite IH. symmetry. apply filter_absorb.
    intros y Hy. apply sneq_true. intro E. subst. rewrite Eg in Hy. discriminate.
Qed.

Lemma dedup_in : forall x l, In x (dedup_first l) <-> In x l.
Proof.
  intros x l. induction l as [|a t IH]; [reflexivity|]. cbn [dedup_first In]. rewrite filter_In, IH, sneq_true.
  split.
  - intros [E | [H _]]; [left | right]; assumption.
  - intros [E | H]; [left; exact E |]. destruct (string_dec a x) as [E | N]; [left; exact E | right; split; assumption].
Qed.

Lemma dedup_nodup : forall l, NoDup (dedup_first l).
Proof.
  induction l as [|a t IH]; [constructor|]. cbn [dedup_first]. constructor.
  - rewrite filter_In, sneq_true. intros [_ N]. apply N. reflexivity.
  - apply NoDup_filter. exact IH.
Qed.

Lemma dedup_nodup_id : forall l, NoDup l -> dedup_first l = l.
Proof.
  induction l as [|a t IH]; [reflexivity|]. intro H. inversion H as [|? ? Hn Ht]; subst. cbn [dedup_first].
  rewrite (IH Ht). f_equal. apply filter_id. intros y Hy. apply sneq_true.
  intro E. subst. exact (Hn Hy).
Qed.

(* the first-occurrence order of the input is kept: dedup_first of a prefix is a prefix *)
Lemma dedup_app : forall l1 l2,
  dedup_first (l1 ++ l2) = (dedup_first l1 ++ filter (fun p => negb (mem_string p l1)) (dedup_first l2))%list.
Proof.
  induction l1 as [|a t IH]; intro l2.
  - cbn [app dedup_first mem_string existsb negb]. symmetry. apply filter_id. reflexivity.
  - cbn [app dedup_first]. rewrite IH, filter_app. f_equal. f_equal.
    rewrite <- filter_and. apply filter_ext. intro p. unfold mem_string, sneq. cbn [existsb].
    rewrite negb_orb, (String.eqb_sym p a). apply andb_comm.
Qed.

(* ------------------------------------------------------------------ the product loop *)
Section SelectP.
  Variable avail : string -> string -> bool.
  Variable inputs : list string.
  Notation ok := (product_ok avail inputs).

  (* the insertion-ordered dict is dedup_first *)
  Lemma dict_fold : forall l acc,
    fold_left dict_add l acc = (acc ++ dedup_first (filter (fun p => negb (mem_string p acc)) l))%list.
  Proof.
    induction l as [|a t IH]; intro acc; cbn [fold_left filter].
    - cbn [dedup_first]. rewrite app_nil_r. reflexivity.
    - unfold dict_add at 2. destruct (mem_string a acc) eqn:E; cbn [negb].
      + apply IH.
      + rewrite IH. cbn [dedup_first]. rewrite <- app_assoc. cbn [app]. f_equal. f_equal.
        rewrite <- dedup_filter, <- filter_and. f_equal. apply filter_ext. intro p.
        unfold mem_string, sneq. rewrite existsb_app. cbn [existsb]. rewrite orb_false_r, negb_orb, (String.eqb_sym p a).
        reflexivity.
  Qed.

  Lemma select_from_skip : forall ps acc,
    select_from avail inputs true ps acc = Some (fold_left dict_add (filter ok ps) acc).
  Proof.
    induction ps as [|p t IH]; intro acc; cbn [select_from filter fold_left]; [reflexivity|].
    destruct (ok p); cbn [fold_left]; apply IH.
  Qed.

  Lemma select_from_strict : forall ps acc,
    select_from avail inputs false ps acc = if forallb ok ps then Some (fold_left dict_add ps acc) else None.
  Proof.
    induction ps as [|p t IH]; intro acc; cbn [select_from forallb fold_left]; [reflexivity|].
    destruct (ok p); cbn [andb]; [apply IH | reflexivity].
  Qed.

  Lemma filter_notin_nil : forall l, filter (fun p : string => negb (mem_string p [])) l = l.
  Proof. intro l. apply filter_id. reflexivity. Qed.

  (* SKIPPING: exactly the requested products that are in the data set, each once, in request order *)
  Theorem select_skips_missing : forall ps,
    select avail inputs true ps = Some (dedup_first (filter ok ps)).
  Proof. intro ps. unfold select. rewrite select_from_skip, dict_fold, filter_notin_nil. reflexivity. Qed.

  (* STRICT: all of them or KeyError *)
  Theorem select_rejects_missing : forall ps,
    select avail inputs false ps = if forallb ok ps then Some (dedup_first ps) else None.
  Proof.
    intro ps. unfold select. rewrite select_from_strict. destruct (forallb ok ps); [|reflexivity].
    rewrite dict_fold, filter_notin_nil. reflexivity.
  Qed.

  (* every requested product that is present IS applied, whatever else is missing, wherever it stands;
     nothing else is applied; nothing twice *)
  Theorem select_skip_complete_sound : forall ps,
    exists out, select avail inputs true ps = Some out /\
      (forall p, In p out <-> In p ps /\ ok p = true) /\ NoDup out.
  Proof.
    intro ps. exists (dedup_first (filter ok ps)). split; [apply select_skips_missing|]. split.
    - intro p. rewrite dedup_in, filter_In. reflexivity.
    - apply dedup_nodup.
  Qed.

  (* a missing product changes nothing for the products around it (the seeded `break` out of the product loop
     violates exactly this) *)
  Theorem select_missing_irrelevant : forall a m b, ok m = false ->
    select avail inputs true (a ++ m :: b) = select avail inputs true (a ++ b).
  Proof.
    intros a m b H. rewrite !select_skips_missing, !filter_app. cbn [filter]. rewrite H. reflexivity.
  Qed.

  (* the applied products keep the request order: the products applied for a prefix of the request are a prefix *)
  Theorem select_prefix : forall a b out, select avail inputs true (a ++ b) = Some out ->
    exists rest, select avail inputs true a = Some (dedup_first (filter ok a)) /\
                 out = (dedup_first (filter ok a) ++ rest)%list.
  Proof.
    intros a b out H. rewrite select_skips_missing, filter_app, dedup_app in H. inversion H.
    eexists. split; [apply select_skips_missing | reflexivity].
  Qed.

  (* a product is applied only as a whole: one data input without a solution and it is out (skipping) / the
     whole request fails (strict) *)
  Theorem product_needs_every_input : forall p inp, In inp inputs -> avail p inp = false -> ok p = false.
  Proof.
    intros p inp Hin H. unfold product_ok. apply not_true_is_false. intro E.
    rewrite forallb_forall in E. rewrite (E _ Hin) in H. discriminate.
  Qed.

  Theorem select_strict_all_or_error : forall ps out,
    select avail inputs false ps = Some out -> (forall p, In p ps -> ok p = true) /\ out = dedup_first ps.
  Proof.
    intros ps out H. rewrite select_rejects_missing in H. destruct (forallb ok ps) eqn:E; [|discriminate].
    inversion H. split; [|reflexivity]. intros p Hp. rewrite forallb_forall in E. exact (E _ Hp).
  Qed.
End SelectP.

(* ------------------------------------------------------------------ whole request *)
Theorem applycal_is_spec : forall r streams inputs,
  applycal_products r streams inputs = spec_applycal r streams inputs.
Proof.
  intros r streams inputs. unfold applycal_products, spec_applycal.
  destruct (normalise r (map cs_name streams)) as [[l skip]|]; [|reflexivity].
  destruct skip.
  - rewrite select_skips_missing. reflexivity.
  - rewrite select_rejects_missing. destruct (forallb _ l); reflexivity.
Qed.

(* rsplit('.', 1) of "<stream>.<type>" *)
Lemma rsplit_nodot : forall t, has_dot t = false -> rsplit_dot t = None.
Proof.
  induction t as [|a t IH]; [reflexivity|]. cbn [has_dot rsplit_dot]. intro H. apply orb_false_elim in H.
  destruct H as [Ha Ht]. rewrite (IH Ht), Ha. reflexivity.
Qed.

Lemma rsplit_join : forall s t, has_dot t = false -> rsplit_dot (join_dot s t) = Some (s, t).
Proof.
  intros s t H. unfold join_dot. induction s as [|a s IH].
  - cbn [append rsplit_dot]. rewrite (rsplit_nodot _ H). reflexivity.
  - cbn [append rsplit_dot]. cbn [append] in IH. rewrite IH. reflexivity.
Qed.

Lemma types_nodot : forall t, In t cal_product_types -> has_dot t = false.
Proof.
  assert (H : forallb (fun t => negb (has_dot t)) cal_product_types = true) by (vm_compute; reflexivity).
  intros t Hin. rewrite forallb_forall in H. apply negb_true_iff. exact (H _ Hin).
Qed.

(* when is the correction sensor of <stream>.<type> for an input there *)
Theorem sensor_available_spec : forall streams s t inp, In t cal_product_types ->
  sensor_available streams (join_dot s t) inp =
  match find_stream s streams with
  | Some c => has_type c t && mem_string inp (cs_inputs c)
  | None => false
  end.
Proof.
  intros streams s t inp Ht. unfold sensor_available. rewrite (rsplit_join _ _ (types_nodot _ Ht)).
  destruct (find_stream s streams); [|reflexivity]. apply mem_string_In in Ht. rewrite Ht. reflexivity.
Qed.

Theorem applycal_all : forall streams inputs,
  (forall s, In s (map cs_name streams) -> has_dot s = false) ->
  applycal_products (RStr "all") streams inputs =
  Applied (dedup_first (filter (product_ok (sensor_available streams) inputs)
             (flat_map (fun s => map (join_dot s) cal_product_types) (map cs_name streams)))).
Proof.
  intros streams inputs H. rewrite applycal_is_spec. unfold spec_applycal. rewrite (normalise_all _ H). reflexivity.
Qed.

Theorem applycal_default : forall streams inputs,
  applycal_products (RStr "default") streams inputs =
  Applied (dedup_first (filter (product_ok (sensor_available streams) inputs) default_cal_products)).
Proof. intros. rewrite applycal_is_spec. unfold spec_applycal. rewrite normalise_default. reflexivity. Qed.

(* fully qualified requests are strict *)
Theorem applycal_dotted : forall streams inputs l, forallb has_dot l = true ->
  applycal_products (RList l) streams inputs =
  if forallb (product_ok (sensor_available streams) inputs) l then Applied (dedup_first l) else KeyErr.
Proof. intros. rewrite applycal_is_spec. unfold spec_applycal. rewrite (normalise_dotted _ _ H). reflexivity. Qed.

(* ------------------------------------------------------------------ stream discovery *)
Lemma discover_from_l1_set : forall l l1 l2, l1 <> "" ->
  fst (discover_from l l1 l2) = l1.
Proof.
  induction l as [|a t IH]; intros l1 l2 H; cbn [discover_from fst]; [reflexivity|].
  apply String.eqb_neq in H. rewrite H. cbn [andb].
  destruct (match l2 with [] => _ | _ => false end); apply IH; apply String.eqb_neq; exact H.
Qed.

(* the first archived stream of type sdp.cal is L1 (named streams), 'cal' when there is none *)
Theorem discover_l1_first : forall pre a post,
  (forall b, In b pre -> as_type b <> "sdp.cal") -> as_type a = "sdp.cal" -> as_name a <> "" ->
  fst (discover (pre ++ a :: post)) = as_name a.
Proof.
  intros pre a post Hpre Ha Hn. unfold discover. cbn [fst].
  assert (E : forall l2, exists l2', discover_from (pre ++ a :: post) "" l2 = discover_from post (as_name a) l2').
  { induction pre as [|b t IH]; intro l2.
    - cbn [app discover_from]. rewrite Ha, !String.eqb_refl. cbn [andb]. exists l2. reflexivity.
    - cbn [app discover_from].
      assert (Hb : String.eqb (as_type b) "sdp.cal" = false)
        by (apply String.eqb_neq; apply Hpre; left; reflexivity).
      rewrite Hb, andb_false_r.
      destruct (match l2 with [] => _ | _ => false end);
        apply IH; intros c Hc; apply Hpre; right; exact Hc. }
  destruct (E []) as [l2' E']. rewrite E', (discover_from_l1_set _ _ _ Hn).
  apply String.eqb_neq in Hn. rewrite Hn. reflexivity.
Qed.

Theorem discover_l1_default : forall l, (forall b, In b l -> as_type b <> "sdp.cal") -> fst (discover l) = "cal".
Proof.
  intros l H. unfold discover. cbn [fst].
  assert (E : forall l2, fst (discover_from l "" l2) = "").
  { induction l as [|b t IH]; intro l2; [reflexivity|]. cbn [discover_from].
    assert (Hb : String.eqb (as_type b) "sdp.cal" = false) by (apply String.eqb_neq; apply H; left; reflexivity).
    rewrite Hb, andb_false_r.
    destruct (match l2 with [] => _ | _ => false end); apply IH; intros c Hc; apply H; right; exact Hc. }
  rewrite E. reflexivity.
Qed.

Lemma discover_from_l2_set : forall l l1 x l2, snd (discover_from l l1 (x :: l2)) = x :: l2.
Proof.
  induction l as [|a t IH]; intros l1 x l2; cbn [discover_from snd]; [reflexivity|].
  destruct (String.eqb l1 "" && String.eqb (as_type a) "sdp.cal"); apply IH.
Qed.

(* L2 = one <imager stream>_<target>_selfcal substream per target of the first imager stream that has targets *)
Theorem discover_l2_first : forall pre a post,
  (forall b, In b pre -> as_type b <> "sdp.continuum_image" \/ as_targets b = []) ->
  as_type a = "sdp.continuum_image" -> as_targets a <> [] ->
  snd (discover (pre ++ a :: post)) = map (selfcal_name (as_name a)) (as_targets a).
Proof.
  intros pre a post Hpre Ha Ht. unfold discover. cbn [snd].
  assert (E : forall l1, exists l1', discover_from (pre ++ a :: post) l1 [] =
                                     discover_from post l1' (map (selfcal_name (as_name a)) (as_targets a))).
  { induction pre as [|b t IH]; intro l1.
    - cbn [app discover_from]. rewrite Ha. cbn [String.eqb Ascii.eqb Bool.eqb andb]. rewrite andb_false_r.
      exists l1. reflexivity.
    - cbn [app discover_from].
      assert (IH' := IH (fun c Hc => Hpre c (or_intror Hc))).
      destruct (String.eqb l1 "" && String.eqb (as_type b) "sdp.cal"); [apply IH'|].
      destruct (Hpre b (or_introl eq_refl)) as [Hb | Hb].
      + apply String.eqb_neq in Hb. rewrite Hb. apply IH'.
      + destruct (String.eqb (as_type b) "sdp.continuum_image"); [rewrite Hb; cbn [map]|]; apply IH'. }
  destruct (E "") as [l1' E']. rewrite E'.
  destruct (as_targets a) as [|x tl] eqn:Et; [contradiction Ht; reflexivity|]. cbn [map].
  apply discover_from_l2_set.
Qed.
