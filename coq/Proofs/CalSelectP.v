(* C14: lemmas about which calibration products end up applied (Model/CalSelect.v). *)
From Coq Require Import ZArith List Bool String Ascii.
From KV Require Import Base.Sx Base.Str Gen.Generated Model.CalInterp Model.CalSelect Proofs.CalInterpP.
Import ListNotations.
Local Open Scope string_scope.

(* ------------------------------------------------------------------ strings / dedup_first *)
Lemma mem_string_In : forall x l, mem_string x l = true <-> In x l.
Proof.
  intros x l. unfold mem_string. rewrite existsb_exists. split.
  - intros [y [Hin E]]. apply String.eqb_eq in E. subst. exact Hin.
  - intro H. exists x. split; [exact H | apply String.eqb_refl].
Qed.

Lemma sneq_true : forall a b, sneq a b = true <-> a <> b.
Proof.
  intros a b. unfold sneq. rewrite negb_true_iff. split.
  - intros E H. subst. rewrite String.eqb_refl in E. discriminate.
  - intro H. apply String.eqb_neq. exact H.
Qed.

Lemma filter_comm : forall (f g : string -> bool) l, filter f (filter g l) = filter g (filter f l).
Proof.
  intros f g l. induction l as [|a t IH]; [reflexivity|]. cbn [filter].
  destruct (g a) eqn:Eg; destruct (f a) eqn:Ef; cbn [filter]; rewrite ?Eg, ?Ef, IH; reflexivity.
Qed.

Lemma filter_absorb : forall (f g : string -> bool) l,
  (forall y, g y = true -> f y = true) -> filter g (filter f l) = filter g l.
Proof.
  intros f g l H. induction l as [|a t IH]; [reflexivity|]. cbn [filter].
  destruct (f a) eqn:Ef; cbn [filter].
  - rewrite IH. reflexivity.
  - destruct (g a) eqn:Eg; [rewrite (H _ Eg) in Ef; discriminate | exact IH].
Qed.

Lemma filter_and : forall (f g : string -> bool) l, filter (fun x => f x && g x) l = filter g (filter f l).
Proof.
  intros f g l. induction l as [|a t IH]; [reflexivity|]. cbn [filter].
  destruct (f a); cbn [andb filter]; [destruct (g a); rewrite IH; reflexivity | exact IH].
Qed.

Lemma filter_id : forall (f : string -> bool) l, (forall y, In y l -> f y = true) -> filter f l = l.
Proof.
  intros f l. induction l as [|a t IH]; intro H; [reflexivity|]. cbn [filter].
  rewrite (H a (or_introl eq_refl)), IH; [reflexivity|]. intros y Hy. apply H. right. exact Hy.
Qed.

(* dropping repeated entries commutes with any filter *)
Lemma dedup_filter : forall g l, dedup_first (filter g l) = filter g (dedup_first l).
Proof.
  intros g l. induction l as [|x t IH]; [reflexivity|]. cbn [filter dedup_first].
  destruct (g x) eqn:Eg.
  - cbn [dedup_first filter]. rewrite IH. f_equal. apply filter_comm.
  - rewrite IH. symmetry. apply filter_absorb.
    intros y Hy. apply sneq_true. intro E. subst. rewrite Eg in Hy. discriminate.
Qed.

Lemma dedup_in : forall x l, In x (dedup_first l) <-> In x l.
Proof.
  intros x l. induction l as [|a t IH]; [reflexivity|]. cbn [dedup_first In]. rewrite filter_In, IH, sneq_true.
  split.
  - intros [E | [H _]]; [left | right]; assumption.
  - intros [E | H]; [left; exact E |]. destruct (string_dec a x) as [E | N]; [left; exact E | right; split; assumption].
Qed.

Lemma dedup_nodup : forall l, NoDup (dedup_first l).
Proof.
  induction l as [|a t IH]; [constructor|]. cbn [dedup_first]. constructor.
  - rewrite filter_In, sneq_true. intros [_ N]. apply N. reflexivity.
  - apply NoDup_filter. exact IH.
Qed.

Lemma dedup_nodup_id : forall l, NoDup l -> dedup_first l = l.
Proof.
  induction l as [|a t IH]; [reflexivity|]. intro H. inversion H as [|? ? Hn Ht]; subst. cbn [dedup_first].
  rewrite (IH Ht). f_equal. apply filter_id. intros y Hy. apply sneq_true.
  intro E. subst. exact (Hn Hy).
Qed.

(* the first-occurrence order of the input is kept: dedup_first of a prefix is a prefix *)
Lemma dedup_app : forall l1 l2,
  dedup_first (l1 ++ l2) = (dedup_first l1 ++ filter (fun p => negb (mem_string p l1)) (dedup_first l2))%list.
Proof.
  induction l1 as [|a t IH]; intro l2.
  - cbn [app dedup_first mem_string existsb negb]. symmetry. apply filter_id. reflexivity.
  - cbn [app dedup_first]. rewrite IH, filter_app. f_equal. f_equal.
    rewrite <- filter_and. apply filter_ext. intro p. unfold mem_string, sneq. cbn [existsb].
    rewrite negb_orb, (String.eqb_sym p a). apply andb_comm.
Qed.

(* ------------------------------------------------------------------ the product loop *)
Section SelectP.
  Variable avail : string -> string -> bool.
  Variable inputs : list string.
  Notation ok := (product_ok avail inputs).

  (* the insertion-ordered dict is dedup_first *)
  Lemma dict_fold : forall l acc,
    fold_left dict_add l acc = (acc ++ dedup_first (filter (fun p => negb (mem_string p acc)) l))%list.
  Proof.
    induction l as [|a t IH]; intro acc; cbn [fold_left filter].
    - cbn [dedup_first]. rewrite app_nil_r. reflexivity.
    - unfold dict_add at 2. destruct (mem_string a acc) eqn:E; cbn [negb].
      + apply IH.
      + rewrite IH. cbn [dedup_first]. rewrite <- app_assoc. cbn [app]. f_equal. f_equal.
        rewrite <- dedup_filter, <- filter_and. f_equal. apply filter_ext. intro p.
        unfold mem_string, sneq. rewrite existsb_app. cbn [existsb]. rewrite orb_false_r, negb_orb, (String.eqb_sym p a).
        reflexivity.
  Qed.

  Lemma select_from_skip : forall ps acc,
    select_from avail inputs true ps acc = Some (fold_left dict_add (filter ok ps) acc).
  Proof.
    induction ps as [|p t IH]; intro acc; cbn [select_from filter fold_left]; [reflexivity|].
    destruct (ok p); cbn [fold_left]; apply IH.
  Qed.

  Lemma select_from_strict : forall ps acc,
    select_from avail inputs false ps acc = if forallb ok ps then Some (fold_left dict_add ps acc) else None.
  Proof.
    induction ps as [|p t IH]; intro acc; cbn [select_from forallb fold_left]; [reflexivity|].
    destruct (ok p); cbn [andb]; [apply IH | reflexivity].
  Qed.

  Lemma filter_notin_nil : forall l, filter (fun p : string => negb (mem_string p [])) l = l.
  Proof. intro l. apply filter_id. reflexivity. Qed.

  (* SKIPPING: exactly the requested products that are in the data set, each once, in request order *)
  Theorem select_skips_missing : forall ps,
    select avail inputs true ps = Some (dedup_first (filter ok ps)).
  Proof. intro ps. unfold select. rewrite select_from_skip, dict_fold, filter_notin_nil. reflexivity. Qed.

  (* STRICT: all of them or KeyError *)
  Theorem select_rejects_missing : forall ps,
    select avail inputs false ps = if forallb ok ps then Some (dedup_first ps) else None.
  Proof.
    intro ps. unfold select. rewrite select_from_strict. destruct (forallb ok ps); [|reflexivity].
    rewrite dict_fold, filter_notin_nil. reflexivity.
  Qed.

  (* every requested product that is present IS applied, whatever else is missing, wherever it stands;
     nothing else is applied; nothing twice *)
  Theorem select_skip_complete_sound : forall ps,
    exists out, select avail inputs true ps = Some out /\
      (forall p, In p out <-> In p ps /\ ok p = true) /\ NoDup out.
  Proof.
    intro ps. exists (dedup_first (filter ok ps)). split; [apply select_skips_missing|]. split.
    - intro p. rewrite dedup_in, filter_In. reflexivity.
    - apply dedup_nodup.
  Qed.

  (* a missing product changes nothing for the products around it (the seeded `break` out of the product loop
     violates exactly this) *)
  Theorem select_missing_irrelevant : forall a m b, ok m = false ->
    select avail inputs true (a ++ m :: b) = select avail inputs true (a ++ b).
  Proof.
    intros a m b H. rewrite !select_skips_missing, !filter_app. cbn [filter]. rewrite H. reflexivity.
  Qed.

  (* the applied products keep the request order: the products applied for a prefix of the request are a prefix *)
  Theorem select_prefix : forall a b out, select avail inputs true (a ++ b) = Some out ->
    exists rest, select avail inputs true a = Some (dedup_first (filter ok a)) /\
                 out = (dedup_first (filter ok a) ++ rest)%list.
  Proof.
    intros a b out H. rewrite select_skips_missing, filter_app, dedup_app in H. inversion H.
    eexists. split; [apply select_skips_missing | reflexivity].
  Qed.

  (* a product is applied only as a whole: one data input without a solution and it is out (skipping) / the
     whole request fails (strict) *)
  Theorem product_needs_every_input : forall p inp, In inp inputs -> avail p inp = false -> ok p = false.
  Proof.
    intros p inp Hin H. unfold product_ok. apply not_true_is_false. intro E.
    rewrite forallb_forall in E. rewrite (E _ Hin) in H. discriminate.
  Qed.

  Theorem select_strict_all_or_error : forall ps out,
    select avail inputs false ps = Some out -> (forall p, In p ps -> ok p = true) /\ out = dedup_first ps.
  Proof.
    intros ps out H. rewrite select_rejects_missing in H. destruct (forallb ok ps) eqn:E; [|discriminate].
    inversion H. split; [|reflexivity]. intros p Hp. rewrite forallb_forall in E. exact (E _ Hp).
  Qed.
End SelectP.

(* ------------------------------------------------------------------ whole request *)
Theorem applycal_is_spec : forall r streams inputs,
  applycal_products r streams inputs = spec_applycal r streams inputs.
Proof.
  intros r streams inputs. unfold applycal_products, spec_applycal.
  destruct (normalise r (map cs_name streams)) as [[l skip]|]; [|reflexivity].
  destruct skip.
  - rewrite select_skips_missing. reflexivity.
  - rewrite select_rejects_missing. destruct (forallb _ l); reflexivity.
Qed.

(* rsplit('.', 1) of "<stream>.<type>" *)
Lemma rsplit_nodot : forall t, has_dot t = false -> rsplit_dot t = None.
Proof.
  induction t as [|a t IH]; [reflexivity|]. cbn [has_dot rsplit_dot]. intro H. apply orb_false_elim in H.
  destruct H as [Ha Ht]. rewrite (IH Ht), Ha. reflexivity.
Qed.

Lemma rsplit_join : forall s t, has_dot t = false -> rsplit_dot (join_dot s t) = Some (s, t).
Proof.
  intros s t H. unfold join_dot. induction s as [|a s IH].
  - cbn [append rsplit_dot]. rewrite (rsplit_nodot _ H). reflexivity.
  - cbn [append rsplit_dot]. cbn [append] in IH. rewrite IH. reflexivity.
Qed.

Lemma types_nodot : forall t, In t cal_product_types -> has_dot t = false.
Proof.
  assert (H : forallb (fun t => negb (has_dot t)) cal_product_types = true) by (vm_compute; reflexivity).
  intros t Hin. rewrite forallb_forall in H. apply negb_true_iff. exact (H _ Hin).
Qed.

(* when is the correction sensor of <stream>.<type> for an input there *)
Theorem sensor_available_spec : forall streams s t inp, In t cal_product_types ->
  sensor_available streams (join_dot s t) inp =
  match find_stream s streams with
  | Some c => has_type c t && mem_string inp (cs_inputs c)
  | None => false
  end.
Proof.
  intros streams s t inp Ht. unfold sensor_available. rewrite (rsplit_join _ _ (types_nodot _ Ht)).
  destruct (find_stream s streams); [|reflexivity]. apply mem_string_In in Ht. rewrite Ht. reflexivity.
Qed.

Theorem applycal_all : forall streams inputs,
  (forall s, In s (map cs_name streams) -> has_dot s = false) ->
  applycal_products (RStr "all") streams inputs =
  Applied (dedup_first (filter (product_ok (sensor_available streams) inputs)
             (flat_map (fun s => map (join_dot s) cal_product_types) (map cs_name streams)))).
Proof.
  intros streams inputs H. rewrite applycal_is_spec. unfold spec_applycal. rewrite (normalise_all _ H). reflexivity.
Qed.

Theorem applycal_default : forall streams inputs,
  applycal_products (RStr "default") streams inputs =
  Applied (dedup_first (filter (product_ok (sensor_available streams) inputs) default_cal_products)).
Proof. intros. rewrite applycal_is_spec. unfold spec_applycal. rewrite normalise_default. reflexivity. Qed.

(* fully qualified requests are strict *)
Theorem applycal_dotted : forall streams inputs l, forallb has_dot l = true ->
  applycal_products (RList l) streams inputs =
  if forallb (product_ok (sensor_available streams) inputs) l then Applied (dedup_first l) else KeyErr.
Proof. intros. rewrite applycal_is_spec. unfold spec_applycal. rewrite (normalise_dotted _ _ H). reflexivity. Qed.

(* ------------------------------------------------------------------ stream discovery *)
(* the decisions the walk over sdp_archived_streams takes in the source (regenerated) are the documented ones *)
Lemma discover_decisions :
  (disc_cal_type, disc_image_type, disc_l1_default, disc_selfcal_suffix) =
  ("sdp.cal", "sdp.continuum_image", "cal", "_selfcal") /\ disc_l1_guarded = true /\ disc_l2_guarded = true.
Proof. repeat split; reflexivity. Qed.

Lemma substreams_spec : forall a,
  substreams_of a = map (fun t => as_name a ++ "_" ++ t ++ "_selfcal") (targets_of a).
Proof. intro a. reflexivity. Qed.

Lemma productive_targets : forall a, productive_imager a = true -> targets_of a <> [].
Proof.
  intros a H. unfold productive_imager in H. apply andb_true_iff in H. destruct H as [_ H]. unfold targets_of.
  destruct (as_targets a) as [[|x t]|]; discriminate.
Qed.

Lemma unproductive_imager : forall a,
  String.eqb (as_type a) "sdp.continuum_image" = true -> productive_imager a = false -> substreams_of a = [].
Proof.
  intros a Ht H. unfold productive_imager in H. rewrite Ht in H. cbn [andb] in H.
  unfold substreams_of, targets_of. destruct (as_targets a) as [[|x t]|]; try discriminate; reflexivity.
Qed.

Lemma cal_not_imager : forall a, is_cal_stream a = true -> String.eqb (as_type a) "sdp.continuum_image" = false.
Proof.
  intros a H. unfold is_cal_stream in H. apply String.eqb_eq in H. rewrite H. reflexivity.
Qed.

Lemma spec_l2_cons : forall a t,
  spec_l2 (a :: t) = if productive_imager a then substreams_of a else spec_l2 t.
Proof. intros a t. unfold spec_l2. cbn [filter]. destruct (productive_imager a); reflexivity. Qed.

Lemma nonimager_not_productive : forall a,
  String.eqb (as_type a) "sdp.continuum_image" = false -> productive_imager a = false.
Proof. intros a H. unfold productive_imager. rewrite H. reflexivity. Qed.

(* taking an imager while no substream has been found yet = the documented choice, productive or not *)
Lemma take_imager : forall a t, String.eqb (as_type a) "sdp.continuum_image" = true ->
  match substreams_of a with [] => spec_l2 t | _ => substreams_of a end = spec_l2 (a :: t).
Proof.
  intros a t Ei. rewrite spec_l2_cons. destruct (productive_imager a) eqn:Ep.
  - pose proof (productive_targets _ Ep) as Hne. unfold substreams_of.
    destruct (targets_of a) as [|y ys]; [contradiction Hne; reflexivity|]. reflexivity.
  - rewrite (unproductive_imager _ Ei Ep). reflexivity.
Qed.

(* THE WALK = THE DOCUMENTED CHOICE, from any intermediate state, for every list of archived streams *)
Lemma discover_from_spec : forall l l1 l2, (forall a, In a l -> as_name a <> "") ->
  discover_from l l1 l2 =
  (if String.eqb l1 "" then match filter is_cal_stream l with a :: _ => as_name a | [] => "" end else l1,
   match l2 with [] => spec_l2 l | _ => l2 end).
Proof.
  induction l as [|a t IH]; intros l1 l2 Hn.
  - cbn [discover_from filter spec_l2]. destruct (String.eqb l1 "") eqn:E1.
    + apply String.eqb_eq in E1. subst. destruct l2; reflexivity.
    + destruct l2; reflexivity.
  - assert (Ha : as_name a <> "") by (apply Hn; left; reflexivity).
    assert (Ht : forall b, In b t -> as_name b <> "") by (intros b Hb; apply Hn; right; exact Hb).
    cbn [discover_from]. unfold l1_unset, l2_unset.
    change disc_l1_guarded with true. change disc_l2_guarded with true.
    change disc_cal_type with "sdp.cal". change disc_image_type with "sdp.continuum_image".
    cbn [filter]. fold (is_cal_stream a).
    destruct (String.eqb l1 "") eqn:E1; cbn [andb].
    + destruct (is_cal_stream a) eqn:Ec.
      * rewrite (IH _ _ Ht). apply String.eqb_neq in Ha. rewrite Ha.
        rewrite spec_l2_cons, (nonimager_not_productive _ (cal_not_imager _ Ec)). reflexivity.
      * destruct l2 as [|x l2']; cbn [andb].
        -- destruct (String.eqb (as_type a) "sdp.continuum_image") eqn:Ei.
           ++ rewrite (IH _ _ Ht), E1. f_equal. apply take_imager. exact Ei.
           ++ rewrite (IH _ _ Ht), E1. rewrite spec_l2_cons, (nonimager_not_productive _ Ei). reflexivity.
        -- rewrite (IH _ _ Ht), E1. reflexivity.
    + destruct l2 as [|x l2']; cbn [andb].
      * destruct (String.eqb (as_type a) "sdp.continuum_image") eqn:Ei.
        -- rewrite (IH _ _ Ht), E1. f_equal. apply take_imager. exact Ei.
        -- rewrite (IH _ _ Ht), E1. rewrite spec_l2_cons, (nonimager_not_productive _ Ei). reflexivity.
      * rewrite (IH _ _ Ht), E1. reflexivity.
Qed.

(* MODEL = SPEC for every list of archived streams: several cal streams, several imagers, imagers with empty or
   absent targets, streams of other types, any order *)
Theorem discover_is_spec : forall l, (forall a, In a l -> as_name a <> "") -> discover l = spec_discover l.
Proof.
  intros l Hn. unfold discover. rewrite (discover_from_spec l "" [] Hn). cbn [fst snd String.eqb].
  unfold spec_discover, spec_l1. change disc_l1_default with "cal".
  destruct (filter is_cal_stream l) as [|a t] eqn:Ef; [reflexivity|].
  assert (Ha : as_name a <> "").
  { apply Hn. assert (Hin : In a (filter is_cal_stream l)) by (rewrite Ef; left; reflexivity).
    apply filter_In in Hin. exact (proj1 Hin). }
  apply String.eqb_neq in Ha. rewrite Ha. reflexivity.
Qed.

(* consequences, in the form "the first ... wherever the others stand" *)
Lemma filter_first : forall (f : astream -> bool) pre a post,
  (forall b, In b pre -> f b = false) -> f a = true -> exists r, filter f (pre ++ a :: post) = a :: r.
Proof.
  intros f pre a post Hpre Ha. induction pre as [|b t IH].
  - cbn [app filter]. rewrite Ha. eexists. reflexivity.
  - cbn [app filter]. rewrite (Hpre b (or_introl eq_refl)). apply IH. intros c Hc. apply Hpre. right. exact Hc.
Qed.

Lemma filter_none : forall (f : astream -> bool) l, (forall b, In b l -> f b = false) -> filter f l = [].
Proof.
  intros f l H. induction l as [|b t IH]; [reflexivity|]. cbn [filter]. rewrite (H b (or_introl eq_refl)).
  apply IH. intros c Hc. apply H. right. exact Hc.
Qed.

(* the first archived stream of type sdp.cal is L1, whatever stands before, between and after; 'cal' when none *)
Theorem discover_l1_first : forall pre a post,
  (forall b, In b (pre ++ a :: post) -> as_name b <> "") ->
  (forall b, In b pre -> as_type b <> "sdp.cal") -> as_type a = "sdp.cal" ->
  fst (discover (pre ++ a :: post)) = as_name a.
Proof.
  intros pre a post Hn Hpre Ha. rewrite (discover_is_spec _ Hn). cbn [spec_discover fst]. unfold spec_l1.
  destruct (filter_first is_cal_stream pre a post) as [r E].
  - intros b Hb. unfold is_cal_stream. apply String.eqb_neq. apply Hpre. exact Hb.
  - unfold is_cal_stream. rewrite Ha. reflexivity.
  - rewrite E. reflexivity.
Qed.

Theorem discover_l1_default : forall l, (forall b, In b l -> as_name b <> "") ->
  (forall b, In b l -> as_type b <> "sdp.cal") -> fst (discover l) = "cal".
Proof.
  intros l Hn H. rewrite (discover_is_spec _ Hn). cbn [spec_discover fst]. unfold spec_l1.
  rewrite filter_none; [reflexivity|]. intros b Hb. unfold is_cal_stream. apply String.eqb_neq. apply H. exact Hb.
Qed.

Lemma not_productive : forall b,
  as_type b <> "sdp.continuum_image" \/ as_targets b = None \/ as_targets b = Some [] -> productive_imager b = false.
Proof.
  intros b [H | [H | H]]; unfold productive_imager.
  - apply String.eqb_neq in H. rewrite H. reflexivity.
  - rewrite H. apply andb_false_r.
  - rewrite H. apply andb_false_r.
Qed.

(* L2 = one <imager>_<target>_selfcal substream per target (in order) of the first imager stream that HAS targets:
   imagers before it whose `targets` is absent or empty are passed over, everything after it is ignored *)
Theorem discover_l2_first : forall pre a post x tl,
  (forall b, In b (pre ++ a :: post) -> as_name b <> "") ->
  (forall b, In b pre -> as_type b <> "sdp.continuum_image" \/ as_targets b = None \/ as_targets b = Some []) ->
  as_type a = "sdp.continuum_image" -> as_targets a = Some (x :: tl) ->
  snd (discover (pre ++ a :: post)) = map (fun t => as_name a ++ "_" ++ t ++ "_selfcal") (x :: tl).
Proof.
  intros pre a post x tl Hn Hpre Ha Ht. rewrite (discover_is_spec _ Hn). cbn [spec_discover snd]. unfold spec_l2.
  destruct (filter_first productive_imager pre a post) as [r E].
  - intros b Hb. apply not_productive. apply Hpre. exact Hb.
  - unfold productive_imager. rewrite Ha, Ht. reflexivity.
  - rewrite E. unfold targets_of. rewrite Ht. reflexivity.
Qed.

(* no imager with targets anywhere: no L2 stream *)
Theorem discover_l2_none : forall l, (forall b, In b l -> as_name b <> "") ->
  (forall b, In b l -> as_type b <> "sdp.continuum_image" \/ as_targets b = None \/ as_targets b = Some []) ->
  snd (discover l) = [].
Proof.
  intros l Hn H. rewrite (discover_is_spec _ Hn). cbn [spec_discover snd]. unfold spec_l2.
  rewrite filter_none; [reflexivity|]. intros b Hb. apply not_productive. apply H. exact Hb.
Qed.

(* L2 exists exactly when SOME archived imager has self-cal targets (not: when the first imager has) *)
Theorem discover_l2_exists_iff : forall l, (forall b, In b l -> as_name b <> "") ->
  (snd (discover l) <> [] <-> exists a, In a l /\ productive_imager a = true).
Proof.
  intros l Hn. rewrite (discover_is_spec _ Hn). cbn [spec_discover snd]. unfold spec_l2. split.
  - intro H. destruct (filter productive_imager l) as [|a t] eqn:E; [contradiction H; reflexivity|].
    assert (Hin : In a (filter productive_imager l)) by (rewrite E; left; reflexivity).
    apply filter_In in Hin. exists a. exact Hin.
  - intros [a [Hin Hp]]. destruct (filter productive_imager l) as [|b t] eqn:E.
    + assert (Hf : In a (filter productive_imager l)) by (apply filter_In; split; assumption).
      rewrite E in Hf. destruct Hf.
    + assert (Hb : In b (filter productive_imager l)) by (rewrite E; left; reflexivity).
      apply filter_In in Hb. pose proof (productive_targets _ (proj2 Hb)) as Hne.
      destruct (targets_of b); [contradiction Hne; reflexivity|]. cbn [map]. discriminate.
Qed.

(* only the sdp.cal streams and the imagers with targets matter, and among them only their relative order: every
   other stream (imagers without targets, other stream types, names telstate knows nothing about) can be dropped from
   or inserted into sdp_archived_streams anywhere without changing the outcome *)
Definition relevant_stream (a : astream) : bool := is_cal_stream a || productive_imager a.
Lemma filter_filter_sub : forall (f g : astream -> bool) l,
  (forall a, f a = true -> g a = true) -> filter f (filter g l) = filter f l.
Proof.
  intros f g l H. induction l as [|a t IH]; [reflexivity|]. cbn [filter].
  destruct (g a) eqn:Eg; cbn [filter].
  - rewrite IH. reflexivity.
  - destruct (f a) eqn:Ef; [rewrite (H _ Ef) in Eg; discriminate | exact IH].
Qed.
Theorem discover_irrelevant_streams : forall l, (forall b, In b l -> as_name b <> "") ->
  discover l = discover (filter relevant_stream l).
Proof.
  intros l Hn. rewrite (discover_is_spec _ Hn), discover_is_spec.
  - unfold spec_discover, spec_l1, spec_l2, relevant_stream. rewrite !filter_filter_sub; [reflexivity| |].
    + intros a H. rewrite H. apply orb_true_r.
    + intros a H. rewrite H. reflexivity.
  - intros b Hb. apply filter_In in Hb. apply Hn. exact (proj1 Hb).
Qed.

(* which aliases the data set offers: the registration of _register_standard_cal_streams = the documented rule *)
Lemma register_one_names : forall tel alias n subs,
  map cs_name (register_one tel alias n subs) = if attrs_ok tel n then [alias] else [].
Proof.
  intros tel alias n subs. unfold register_one, attrs_ok. destruct (find_tstream n tel) as [t|]; [|reflexivity].
  destruct (ts_inputs t); [reflexivity|]. destruct (ts_spectral t); reflexivity.
Qed.

Theorem registered_aliases : forall tel archived, (forall n, In n archived -> n <> "") ->
  map cs_name (registered tel archived) = spec_aliases tel archived.
Proof.
  intros tel archived Hn. unfold registered, spec_aliases.
  assert (Hn' : forall a, In a (map (astream_of tel) archived) -> as_name a <> "").
  { intros a Ha. apply in_map_iff in Ha. destruct Ha as [n [E Hin]]. subst a. unfold astream_of.
    destruct (find_tstream n tel); cbn [as_name]; apply Hn; exact Hin. }
  rewrite (discover_is_spec _ Hn'). cbn [spec_discover fst snd]. rewrite map_app, register_one_names. f_equal.
  destruct (spec_l2 (map (astream_of tel) archived)) as [|h r]; [reflexivity|]. apply register_one_names.
Qed.

(* so, for a data set: a product of the default list whose correction sensors exist for every data input IS applied by
   applycal='default' - in particular l2.GPHASE whenever some imager (not necessarily the first) has self-cal targets
   whose substreams are registered and carry GPHASE solutions for the data inputs *)
Theorem default_applies_available : forall streams inputs p,
  In p default_cal_products -> product_ok (sensor_available streams) inputs p = true ->
  exists l, applycal_products (RStr "default") streams inputs = Applied l /\ In p l.
Proof.
  intros streams inputs p Hin Hok. eexists. split; [apply applycal_default|].
  apply dedup_in. apply filter_In. split; assumption.
Qed.
