(* C15, round 2: lost chunks (zeros), preselection, and the constructor on a store (Model/WeightsApi.v). *)
From Coq Require Import ZArith QArith Qcanon List Bool Arith Lia.
From KV Require Import Base.Sx Gen.Generated Model.Interp Model.Weights Model.WeightsApi
                       Proofs.WeightsP Proofs.WeightsBlocksP Proofs.WeightsNumP Proofs.WeightsApiP.
Import ListNotations.
Close Scope Q_scope.
Open Scope nat_scope.

(* ------------------------------------------------------------------ imap *)
Lemma imap_length : forall {A B} (f : nat -> A -> B) l, List.length (imap f l) = List.length l.
Proof. intros. unfold imap. rewrite map_length, combine_length, seq_length. lia. Qed.

Lemma imap_nth : forall {A B} (f : nat -> A -> B) l i d d', i < List.length l ->
  nth i (imap f l) d = f i (nth i l d').
Proof.
  intros A B f l i d d' Hi. unfold imap.
  rewrite (nth_map_in _ _ i d (0, d')) by (rewrite combine_length, seq_length; lia).
  rewrite combine_nth by (now rewrite seq_length). cbn [fst snd].
  rewrite seq_nth by exact Hi. reflexivity.
Qed.

(* ------------------------------------------------------------------ chunk_idx *)
(* the chunk that holds x: its offset is <= x < offset + size *)
Lemma chunk_idx_spec : forall ch x, x < total ch ->
  let i := chunk_idx ch x in
  i < List.length ch /\ total (firstn i ch) <= x < total (firstn i ch) + nth i ch 0.
Proof.
  induction ch as [| s r IH]; intros x Hx; cbn in Hx; [lia |].
  cbn [chunk_idx]. destruct (x <? s) eqn:E.
  - apply Nat.ltb_lt in E. cbn. lia.
  - apply Nat.ltb_ge in E. specialize (IH (x - s)). cbn zeta in IH.
    assert (Hx' : x - s < total r) by (unfold total in *; lia). specialize (IH Hx').
    destruct IH as [IH1 [IH2 IH3]]. cbn [List.length firstn nth]. split; [lia |].
    unfold total in *. cbn [fold_right]. lia.
Qed.

(* and it is the only one *)
Lemma chunk_idx_unique : forall ch x i, i < List.length ch ->
  total (firstn i ch) <= x < total (firstn i ch) + nth i ch 0 -> chunk_idx ch x = i.
Proof.
  induction ch as [| s r IH]; intros x i Hi Hx; cbn in Hi; [lia |].
  cbn [chunk_idx]. destruct i as [| i].
  - cbn in Hx. assert (E : x <? s = true) by (apply Nat.ltb_lt; lia). rewrite E. reflexivity.
  - cbn [firstn nth] in Hx. unfold total in Hx. cbn [fold_right] in Hx. fold (total (firstn i r)) in Hx.
    assert (E : x <? s = false) by (apply Nat.ltb_ge; lia). rewrite E. f_equal. apply IH; lia.
Qed.

(* ------------------------------------------------------------------ lost chunks read as the fill value *)
Lemma fill_lost3_shape : forall {A} (z : A) ch lost a T F B, shape3 a T F B -> shape3 (fill_lost3 z ch lost a) T F B.
Proof.
  intros A z [[tch fch] bch] lost a T F B [HL [HR HC]]. unfold fill_lost3.
  split; [now rewrite imap_length |]. split.
  - intros t Ht. rewrite (imap_nth _ _ _ [] []) by lia. rewrite imap_length. now apply HR.
  - intros t f Ht Hf. unfold cellat. rewrite (imap_nth _ _ _ [] []) by lia.
    rewrite (imap_nth _ _ _ [] []) by (rewrite HR by exact Ht; exact Hf). rewrite imap_length. now apply HC.
Qed.

Lemma fill_lost3_get3 : forall {A} (z : A) tch fch bch lost a T F B d t f b, shape3 a T F B -> t < T -> f < F -> b < B ->
  get3 (fill_lost3 z (tch, fch, bch) lost a) d t f b =
  if mem3 (chunk_idx tch t, chunk_idx fch f, chunk_idx bch b) lost then z else get3 a d t f b.
Proof.
  intros A z tch fch bch lost a T F B d t f b [HL [HR HC]] Ht Hf Hb. unfold fill_lost3, get3.
  rewrite (imap_nth _ _ _ [] []) by lia.
  rewrite (imap_nth _ _ _ [] []) by (rewrite HR by exact Ht; exact Hf).
  rewrite (imap_nth _ _ _ d d) by (specialize (HC t f Ht Hf); unfold cellat in HC; rewrite HC; exact Hb).
  reflexivity.
Qed.

Lemma fill_lost2_shape : forall {A} (z : A) ch lost a T F, shape2 a T F -> shape2 (fill_lost2 z ch lost a) T F.
Proof.
  intros A z ch lost a T F [HL HR]. unfold fill_lost2. split; [now rewrite imap_length |].
  intros t Ht. rewrite (imap_nth _ _ _ [] []) by lia. rewrite imap_length. now apply HR.
Qed.

Lemma fill_lost2_nth : forall {A} (z : A) ch lost a T F d t f, shape2 a T F -> t < T -> f < F ->
  nth f (nth t (fill_lost2 z ch lost a) []) d =
  if mem2 (chunk_idx (fst ch) t, chunk_idx (snd ch) f) lost then z else nth f (nth t a []) d.
Proof.
  intros A z ch lost a T F d t f [HL HR] Ht Hf. unfold fill_lost2.
  rewrite (imap_nth _ _ _ [] []) by lia. rewrite (imap_nth _ _ _ d d) by (rewrite HR by exact Ht; exact Hf). reflexivity.
Qed.

(* ------------------------------------------------------------------ preselection *)
Definition presel_ok (p : presel) (T F : nat) : Prop :=
  match p with None => True | Some (t0, tn, f0, fn) => t0 + tn <= T /\ f0 + fn <= F end.
Definition presel_T (p : presel) (T : nat) : nat := match p with None => T | Some (_, tn, _, _) => tn end.
Definition presel_F (p : presel) (F : nat) : nat := match p with None => F | Some (_, _, _, fn) => fn end.
Definition presel_t0 (p : presel) : nat := match p with None => 0 | Some (t0, _, _, _) => t0 end.
Definition presel_f0 (p : presel) : nat := match p with None => 0 | Some (_, _, f0, _) => f0 end.

Lemma slice_block_row : forall {A} (a : list (list A)) t0 tn f0 fn t, t0 + tn <= List.length a -> t < tn ->
  nth t (slice_block a t0 tn f0 fn) [] = firstn fn (skipn f0 (nth (t0 + t) a [])).
Proof.
  intros A a t0 tn f0 fn t HL Ht. unfold slice_block.
  rewrite (nth_map_in _ _ t [] []) by (rewrite firstn_length, skipn_length; lia).
  now rewrite nth_firstn', nth_skipn' by assumption.
Qed.

Lemma presel_rows_shape3 : forall {A} p (a : arr3 A) T F B, shape3 a T F B -> presel_ok p T F ->
  shape3 (presel_rows p a) (presel_T p T) (presel_F p F) B.
Proof.
  intros A [[[[t0 tn] f0] fn] |] a T F B Hs Hp; [| exact Hs].
  destruct Hs as [HL [HR HC]]. destruct Hp as [Hp1 Hp2]. cbn [presel_rows presel_T presel_F].
  split; [unfold slice_block; rewrite map_length, firstn_length, skipn_length; lia |]. split.
  - intros t Ht. rewrite slice_block_row by lia. rewrite firstn_length, skipn_length, HR by lia. lia.
  - intros t f Ht Hf. unfold cellat. rewrite slice_block_row by lia.
    rewrite nth_firstn', nth_skipn' by assumption. apply (HC (t0 + t) (f0 + f)); lia.
Qed.

Lemma presel_rows_get3 : forall {A} p (a : arr3 A) T F B d t f b, shape3 a T F B -> presel_ok p T F ->
  t < presel_T p T -> f < presel_F p F ->
  get3 (presel_rows p a) d t f b = get3 a d (presel_t0 p + t) (presel_f0 p + f) b.
Proof.
  intros A [[[[t0 tn] f0] fn] |] a T F B d t f b Hs Hp Ht Hf; [| reflexivity].
  destruct Hs as [HL _]. destruct Hp as [Hp1 Hp2]. cbn [presel_rows presel_T presel_F presel_t0 presel_f0] in *.
  unfold get3. rewrite slice_block_row by lia. now rewrite nth_firstn', nth_skipn' by assumption.
Qed.

Lemma presel_rows_shape2 : forall {A} p (a : list (list A)) T F, shape2 a T F -> presel_ok p T F ->
  shape2 (presel_rows p a) (presel_T p T) (presel_F p F).
Proof.
  intros A [[[[t0 tn] f0] fn] |] a T F Hs Hp; [| exact Hs].
  destruct Hs as [HL HR]. destruct Hp as [Hp1 Hp2]. cbn [presel_rows presel_T presel_F].
  split; [unfold slice_block; rewrite map_length, firstn_length, skipn_length; lia |].
  intros t Ht. rewrite slice_block_row by lia. rewrite firstn_length, skipn_length, HR by lia. lia.
Qed.

Lemma presel_rows_nth2 : forall {A} p (a : list (list A)) T F d t f, shape2 a T F -> presel_ok p T F ->
  t < presel_T p T -> f < presel_F p F ->
  nth f (nth t (presel_rows p a) []) d = nth (presel_f0 p + f) (nth (presel_t0 p + t) a []) d.
Proof.
  intros A [[[[t0 tn] f0] fn] |] a T F d t f Hs Hp Ht Hf; [| reflexivity].
  destruct Hs as [HL _]. destruct Hp as [Hp1 Hp2]. cbn [presel_rows presel_T presel_F presel_t0 presel_f0] in *.
  rewrite slice_block_row by lia. now rewrite nth_firstn', nth_skipn' by assumption.
Qed.

(* ------------------------------------------------------------------ the arrays the pipeline sees *)
Section Store.
  Variables (vis : arr3 cx) (w : arr3 Ext) (wc : list (list Ext)).
  Variables (tchv fchv bchv tchw fchw bchw tchc fchc : list nat).
  Variables (lostv lostw : list (nat * nat * nat)) (lostc : list (nat * nat)).
  Variable p : presel.
  Variables T F B : nat.
  Hypothesis Hv : shape3 vis T F B.
  Hypothesis Hw : shape3 w T F B.
  Hypothesis Hc : shape2 wc T F.
  Hypothesis Hp : presel_ok p T F.

  Definition seen_vis : arr3 cx := presel_rows p (fill_lost3 lost_fill_cx (tchv, fchv, bchv) lostv vis).
  Definition seen_w : arr3 Ext := presel_rows p (fill_lost3 lost_fill (tchw, fchw, bchw) lostw w).
  Definition seen_wc : list (list Ext) := presel_rows p (fill_lost2 lost_fill (tchc, fchc) lostc wc).

  Lemma seen_vis_shape : shape3 seen_vis (presel_T p T) (presel_F p F) B.
  Proof. apply presel_rows_shape3; [apply fill_lost3_shape; exact Hv | exact Hp]. Qed.
  Lemma seen_w_shape : shape3 seen_w (presel_T p T) (presel_F p F) B.
  Proof. apply presel_rows_shape3; [apply fill_lost3_shape; exact Hw | exact Hp]. Qed.
  Lemma seen_wc_shape : shape2 seen_wc (presel_T p T) (presel_F p F).
  Proof. apply presel_rows_shape2; [apply fill_lost2_shape; exact Hc | exact Hp]. Qed.

  Lemma presel_bounds : forall t f, t < presel_T p T -> f < presel_F p F -> presel_t0 p + t < T /\ presel_f0 p + f < F.
  Proof. intros t f. destruct p as [[[[t0 tn] f0] fn] |]; cbn in *; lia. Qed.

  (* a coordinate in a lost chunk reads the fill value, any other one the stored value; the preselection only shifts *)
  Lemma seen_vis_get3 : forall t f b, t < presel_T p T -> f < presel_F p F -> b < B ->
    get3 seen_vis cx_nan t f b =
    let t' := presel_t0 p + t in let f' := presel_f0 p + f in
    if mem3 (chunk_idx tchv t', chunk_idx fchv f', chunk_idx bchv b) lostv then lost_fill_cx else get3 vis cx_nan t' f' b.
  Proof.
    intros t f b Ht Hf Hb. destruct (presel_bounds t f Ht Hf). unfold seen_vis.
    rewrite (presel_rows_get3 p _ T F B) by (try apply fill_lost3_shape; assumption).
    now apply (fill_lost3_get3 _ _ _ _ _ _ T F B).
  Qed.
  Lemma seen_w_get3 : forall t f b, t < presel_T p T -> f < presel_F p F -> b < B ->
    get3 seen_w NaN t f b =
    let t' := presel_t0 p + t in let f' := presel_f0 p + f in
    if mem3 (chunk_idx tchw t', chunk_idx fchw f', chunk_idx bchw b) lostw then lost_fill else get3 w NaN t' f' b.
  Proof.
    intros t f b Ht Hf Hb. destruct (presel_bounds t f Ht Hf). unfold seen_w.
    rewrite (presel_rows_get3 p _ T F B) by (try apply fill_lost3_shape; assumption).
    now apply (fill_lost3_get3 _ _ _ _ _ _ T F B).
  Qed.
  Lemma seen_wc_nth : forall t f, t < presel_T p T -> f < presel_F p F ->
    nth f (nth t seen_wc []) NaN =
    let t' := presel_t0 p + t in let f' := presel_f0 p + f in
    if mem2 (chunk_idx tchc t', chunk_idx fchc f') lostc then lost_fill else nth f' (nth t' wc []) NaN.
  Proof.
    intros t f Ht Hf. destruct (presel_bounds t f Ht Hf). unfold seen_wc.
    rewrite (presel_rows_nth2 p _ T F) by (try apply fill_lost2_shape; assumption).
    now apply (fill_lost2_nth lost_fill (tchc, fchc) lostc wc T F).
  Qed.
End Store.

(* ------------------------------------------------------------------ the constructor on a store, pointwise *)
Theorem vfw_store_pointwise : forall cps scaled vvo table vis tchv fchv bchv lostv w tchw fchw bchw lostw wc tchc fchc lostc p
                                     tch fch T F,
  cps <> [] -> has_autos cps -> vvo <> VOther ->
  shape3 vis T F (List.length cps) -> shape3 w T F (List.length cps) -> shape2 wc T F -> presel_ok p T F ->
  total tch = presel_T p T -> total fch = presel_F p F ->
  total bchv = List.length cps -> total bchw = List.length cps ->
  let sv := seen_vis vis tchv fchv bchv lostv p in
  let sw := seen_w w tchw fchw bchw lostw p in
  let sc := seen_wc wc tchc fchc lostc p in
  exists o u,
    vfw_store (Some cps) scaled vvo table (List.length cps) vis (tchv, fchv, bchv) lostv w (tchw, fchw, bchw) lostw
              wc (tchc, fchc) lostc p tch fch = Ok o /\ o_unscaled o = Some u /\
    forall t f b, t < presel_T p T -> f < presel_F p F -> b < List.length cps ->
      let a1 := auto_re cps (o_vis o) t f (fst (cp_at cps b)) in
      let a2 := auto_re cps (o_vis o) t f (snd (cp_at cps b)) in
      get3 (o_vis o) cx_nan t f b = vv_vis (vv_arg vvo table) cps sv t f b /\
      get3 (o_weights o) NaN t f b = spec_weight scaled a1 a2 (get3 sw NaN t f b) (nth f (nth t sc []) NaN) /\
      get3 u NaN t f b = spec_unscaled scaled a1 a2 (get3 sw NaN t f b) (nth f (nth t sc []) NaN).
Proof.
  intros cps scaled vvo table vis tchv fchv bchv lostv w tchw fchw bchw lostw wc tchc fchc lostc p tch fch T F
         Hne Ha Hvv Hv Hw Hc Hp HT HF HBv HBw sv sw sc.
  unfold vfw_store. cbn [snd]. fold (seen_vis vis tchv fchv bchv lostv p). fold (seen_w w tchw fchw bchw lostw p).
  fold (seen_wc wc tchc fchc lostc p). fold sv. fold sw. fold sc.
  rewrite vfw_api_core by assumption.
  destruct (vis_flags_weights_pointwise cps scaled (vv_arg vvo table) sv bchv sw bchw sc tch fch
              (presel_T p T) (presel_F p F)) as [r [Er Pr]];
    try assumption.
  - apply seen_vis_shape; assumption.
  - apply seen_w_shape; assumption.
  - apply seen_wc_shape; assumption.
  - rewrite Er. eexists. eexists. split; [reflexivity |]. split; [reflexivity |]. cbn [o_vis o_weights]. exact Pr.
Qed.

(* ------------------------------------------------------------------ consequences *)
Lemma lost_fill_zero : lost_fill = Fin 0.
Proof. reflexivity. Qed.

Lemma auto_re_shift : forall cps v v' t f t' f' a,
  (forall p, p < List.length cps -> get3 v cx_nan t f p = get3 v' cx_nan t' f' p) ->
  auto_re cps v t f a = auto_re cps v' t' f' a.
Proof.
  intros cps v v' t f t' f' a H. unfold auto_re, last_auto. destruct (last_auto_from a cps 0) as [p|] eqn:E; [| reflexivity].
  apply last_auto_from_some in E. destruct E as [_ [Hn _]]. rewrite Nat.sub_0_r in Hn.
  rewrite H; [reflexivity |]. apply nth_error_Some. congruence.
Qed.

Lemma vv_vis_shift : forall vv cps v v' t f t' f' b,
  get3 v cx_nan t f b = get3 v' cx_nan t' f' b -> vv_vis vv cps v t f b = vv_vis vv cps v' t' f' b.
Proof. intros [table |] cps v v' t f t' f' b H; cbn [vv_vis]; [unfold spec_vv; rewrite H; reflexivity | exact H]. Qed.

Lemma last_auto_lt : forall cps a p, last_auto cps a = Some p -> p < List.length cps.
Proof.
  intros cps a p H. unfold last_auto in H. apply last_auto_from_some in H. destruct H as [_ [Hn _]].
  rewrite Nat.sub_0_r in Hn. apply nth_error_Some. congruence.
Qed.

Lemma spec_scale_div_zero_l : forall a2, spec_scale_div (Fin 0) a2 = spec_tiny.
Proof. intros [y | | |]; reflexivity. Qed.
Lemma spec_scale_div_zero_r : forall a1, spec_scale_div a1 (Fin 0) = spec_tiny.
Proof.
  intros [x | | |]; try reflexivity. cbn [spec_scale_div].
  replace (is_zero 0) with true by reflexivity. now rewrite orb_true_r.
Qed.

Section StoreConsequences.
  Variables (cps : list corrprod) (table : list node).
  Variables (vis : arr3 cx) (w : arr3 Ext) (wc : list (list Ext)).
  Variables (tchv fchv bchv tchw fchw bchw tchc fchc : list nat).
  Variables (lostv lostw : list (nat * nat * nat)) (lostc : list (nat * nat)).
  Variables T F : nat.
  Hypothesis Hne : cps <> [].
  Hypothesis Ha : has_autos cps.
  Hypothesis Hv : shape3 vis T F (List.length cps).
  Hypothesis Hw : shape3 w T F (List.length cps).
  Hypothesis Hc : shape2 wc T F.
  Hypothesis HBv : total bchv = List.length cps.
  Hypothesis HBw : total bchw = List.length cps.

  Let store scaled vvo p tch fch :=
    vfw_store (Some cps) scaled vvo table (List.length cps) vis (tchv, fchv, bchv) lostv w (tchw, fchw, bchw) lostw
              wc (tchc, fchc) lostc p tch fch.

  (* unscaled stored weights, no Van Vleck step: if the chunk of the visibilities that holds the autocorrelation of
     either input of product b (at that dump and channel) is lost, the weight is the tiny constant times what is stored *)
  Theorem lost_vis_chunk_tiny_weight : forall p tch fch, presel_ok p T F ->
    total tch = presel_T p T -> total fch = presel_F p F ->
    exists o, store false VOff p tch fch = Ok o /\
      forall t f b a pa, t < presel_T p T -> f < presel_F p F -> b < List.length cps ->
        a = fst (cp_at cps b) \/ a = snd (cp_at cps b) -> last_auto cps a = Some pa ->
        mem3 (chunk_idx tchv (presel_t0 p + t), chunk_idx fchv (presel_f0 p + f), chunk_idx bchv pa) lostv = true ->
        get3 (o_weights o) NaN t f b =
        emul (Fin bad_weight) (emul (get3 (seen_w w tchw fchw bchw lostw p) NaN t f b)
                                    (nth f (nth t (seen_wc wc tchc fchc lostc p) []) NaN)).
  Proof.
    intros p tch fch Hp HT HF.
    destruct (vfw_store_pointwise cps false VOff table vis tchv fchv bchv lostv w tchw fchw bchw lostw wc tchc fchc lostc
                p tch fch T F Hne Ha ltac:(discriminate) Hv Hw Hc Hp HT HF HBv HBw) as [o [u [Eo [_ P]]]].
    exists o. split; [exact Eo |]. intros t f b a pa Ht Hf Hb Hab Hla Hlost.
    destruct (P t f b Ht Hf Hb) as [_ [Pw _]]. rewrite Pw. unfold spec_weight.
    pose proof (last_auto_lt _ _ _ Hla) as Hpa.
    assert (Hz : auto_re cps (o_vis o) t f a = Fin 0).
    { unfold auto_re. rewrite Hla. destruct (P t f pa Ht Hf Hpa) as [Pv _]. rewrite Pv. cbn [vv_arg vv_vis].
      rewrite (seen_vis_get3 vis tchv fchv bchv lostv p T F (List.length cps)) by assumption.
      cbn zeta. rewrite Hlost. reflexivity. }
    rewrite bad_weight_value. destruct Hab as [-> | ->]; rewrite Hz.
    - now rewrite spec_scale_div_zero_l.
    - now rewrite spec_scale_div_zero_r.
  Qed.

  (* a lost chunk of the weights (finite per-channel weight): weight and unscaled weight are exactly zero, whatever
     the declaration and the autocorrelations *)
  Theorem lost_weights_chunk_zero : forall scaled vvo p tch fch, vvo <> VOther -> presel_ok p T F ->
    total tch = presel_T p T -> total fch = presel_F p F ->
    exists o u, store scaled vvo p tch fch = Ok o /\ o_unscaled o = Some u /\
      forall t f b c, t < presel_T p T -> f < presel_F p F -> b < List.length cps ->
        mem3 (chunk_idx tchw (presel_t0 p + t), chunk_idx fchw (presel_f0 p + f), chunk_idx bchw b) lostw = true ->
        nth f (nth t (seen_wc wc tchc fchc lostc p) []) NaN = Fin c ->
        get3 (o_weights o) NaN t f b = Fin 0 /\ get3 u NaN t f b = Fin 0.
  Proof.
    intros scaled vvo p tch fch Hvv Hp HT HF.
    destruct (vfw_store_pointwise cps scaled vvo table vis tchv fchv bchv lostv w tchw fchw bchw lostw wc tchc fchc lostc
                p tch fch T F Hne Ha Hvv Hv Hw Hc Hp HT HF HBv HBw) as [o [u [Eo [Eu P]]]].
    exists o, u. split; [exact Eo |]. split; [exact Eu |]. intros t f b c Ht Hf Hb Hlost Hcw.
    destruct (P t f b Ht Hf Hb) as [_ [Pw Pu]]. rewrite Pw, Pu, Hcw.
    rewrite (seen_w_get3 w tchw fchw bchw lostw p T F (List.length cps)) by assumption.
    cbn zeta. rewrite Hlost, lost_fill_zero. unfold spec_weight, spec_unscaled.
    assert (E0 : emul (Fin 0) (Fin c) = Fin 0) by (cbn [emul]; f_equal; ring).
    assert (E1 : forall s, emul (Fin s) (Fin 0) = Fin 0) by (intros s; cbn [emul]; f_equal; ring).
    rewrite E0. destruct scaled; rewrite ?E1; split; reflexivity.
  Qed.

  (* preselect_index commutes with everything: opening with a preselection of dumps / channels gives, at every kept
     coordinate, what the full data set gives there (whatever the chunkings of the two calls) *)
  Theorem preselect_commutes : forall scaled vvo t0 tn f0 fn tch fch tch' fch', vvo <> VOther ->
    t0 + tn <= T -> f0 + fn <= F -> total tch = T -> total fch = F -> total tch' = tn -> total fch' = fn ->
    exists o u o' u', store scaled vvo None tch fch = Ok o /\ o_unscaled o = Some u /\
      store scaled vvo (Some (t0, tn, f0, fn)) tch' fch' = Ok o' /\ o_unscaled o' = Some u' /\
      forall t f b, t < tn -> f < fn -> b < List.length cps ->
        get3 (o_vis o') cx_nan t f b = get3 (o_vis o) cx_nan (t0 + t) (f0 + f) b /\
        get3 (o_weights o') NaN t f b = get3 (o_weights o) NaN (t0 + t) (f0 + f) b /\
        get3 u' NaN t f b = get3 u NaN (t0 + t) (f0 + f) b.
  Proof.
    intros scaled vvo t0 tn f0 fn tch fch tch' fch' Hvv Ht0 Hf0 HT HF HT' HF'.
    destruct (vfw_store_pointwise cps scaled vvo table vis tchv fchv bchv lostv w tchw fchw bchw lostw wc tchc fchc lostc
                None tch fch T F Hne Ha Hvv Hv Hw Hc Logic.I HT HF HBv HBw) as [o [u [Eo [Eu P]]]].
    assert (Hp : presel_ok (Some (t0, tn, f0, fn)) T F) by (cbn; lia).
    destruct (vfw_store_pointwise cps scaled vvo table vis tchv fchv bchv lostv w tchw fchw bchw lostw wc tchc fchc lostc
                (Some (t0, tn, f0, fn)) tch' fch' T F Hne Ha Hvv Hv Hw Hc Hp HT' HF' HBv HBw) as [o' [u' [Eo' [Eu' P']]]].
    exists o, u, o', u'. repeat (split; [assumption |]).
    cbn [presel_T presel_F] in P, P'.
    set (p' := Some (t0, tn, f0, fn)) in *.
    assert (Sv : forall t f b, t < tn -> f < fn -> b < List.length cps ->
              get3 (seen_vis vis tchv fchv bchv lostv p') cx_nan t f b =
              get3 (seen_vis vis tchv fchv bchv lostv None) cx_nan (t0 + t) (f0 + f) b).
    { intros t f b Ht Hf Hb.
      rewrite (seen_vis_get3 vis tchv fchv bchv lostv p' T F (List.length cps)) by assumption.
      rewrite (seen_vis_get3 vis tchv fchv bchv lostv None T F (List.length cps)) by (cbn; trivial; lia).
      reflexivity. }
    assert (Sw : forall t f b, t < tn -> f < fn -> b < List.length cps ->
              get3 (seen_w w tchw fchw bchw lostw p') NaN t f b =
              get3 (seen_w w tchw fchw bchw lostw None) NaN (t0 + t) (f0 + f) b).
    { intros t f b Ht Hf Hb.
      rewrite (seen_w_get3 w tchw fchw bchw lostw p' T F (List.length cps)) by assumption.
      rewrite (seen_w_get3 w tchw fchw bchw lostw None T F (List.length cps)) by (cbn; trivial; lia).
      reflexivity. }
    assert (Sc : forall t f, t < tn -> f < fn ->
              nth f (nth t (seen_wc wc tchc fchc lostc p') []) NaN =
              nth (f0 + f) (nth (t0 + t) (seen_wc wc tchc fchc lostc None) []) NaN).
    { intros t f Ht Hf.
      rewrite (seen_wc_nth wc tchc fchc lostc p' T F) by assumption.
      rewrite (seen_wc_nth wc tchc fchc lostc None T F) by (cbn; trivial; lia).
      reflexivity. }
    assert (Pvis : forall t f b, t < tn -> f < fn -> b < List.length cps ->
              get3 (o_vis o') cx_nan t f b = get3 (o_vis o) cx_nan (t0 + t) (f0 + f) b).
    { intros t f b Ht Hf Hb. destruct (P' t f b Ht Hf Hb) as [-> _].
      destruct (P (t0 + t) (f0 + f) b ltac:(lia) ltac:(lia) Hb) as [-> _].
      apply vv_vis_shift. now apply Sv. }
    intros t f b Ht Hf Hb. split; [now apply Pvis |].
    destruct (P' t f b Ht Hf Hb) as [_ [-> ->]].
    destruct (P (t0 + t) (f0 + f) b ltac:(lia) ltac:(lia) Hb) as [_ [-> ->]].
    rewrite (auto_re_shift cps (o_vis o') (o_vis o) t f (t0 + t) (f0 + f) (fst (cp_at cps b)))
      by (intros q Hq; now apply Pvis).
    rewrite (auto_re_shift cps (o_vis o') (o_vis o) t f (t0 + t) (f0 + f) (snd (cp_at cps b)))
      by (intros q Hq; now apply Pvis).
    rewrite Sw, Sc by assumption. split; reflexivity.
  Qed.
End StoreConsequences.
