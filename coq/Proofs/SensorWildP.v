(* C12: the executable wildcard matcher `glob` (re.match('^' + '.*'.join(escaped parts) + '$', name)) accepts exactly
   the names that are, as a WHOLE, the literal parts of the key separated by arbitrary gaps; precedence of the merge. *)
From Coq Require Import ZArith QArith List Bool String Ascii Lia.
From KV Require Import Base.Sx Base.Str Gen.Generated Model.SensorCache Model.SensorWild.
Import ListNotations.
Open Scope list_scope.

Lemma glob_star_unfold : forall p s,
  glob (star :: p) s = glob p s || match s with [] => false | _ :: s' => glob (star :: p) s' end.
Proof. intros p s. destruct s; reflexivity. Qed.

Lemma glob_char_unfold : forall c p s, Ascii.eqb c star = false ->
  glob (c :: p) s = match s with c' :: s' => Ascii.eqb c c' && glob p s' | [] => false end.
Proof. intros c p s H. cbn [glob]. rewrite H. reflexivity. Qed.

(* a star matches any (possibly empty) run of characters *)
Lemma glob_star : forall p s,
  glob (star :: p) s = true <-> exists g rest, s = g ++ rest /\ glob p rest = true.
Proof.
  intros p s. induction s as [|a s IH].
  - rewrite glob_star_unfold, orb_false_r. split.
    + intro H. exists [], []. split; [reflexivity|exact H].
    + intros (g & rest & E & H). symmetry in E. apply app_eq_nil in E. destruct E; subst. exact H.
  - rewrite glob_star_unfold, orb_true_iff, IH. split.
    + intros [H | (g & rest & E & H)].
      * exists [], (a :: s). split; [reflexivity|exact H].
      * exists (a :: g), rest. split; [simpl; f_equal; exact E|exact H].
    + intros (g & rest & E & H). destruct g as [|b g].
      * left. simpl in E. subst. exact H.
      * right. simpl in E. inversion E; subst. exists g, rest. split; [reflexivity|exact H].
Qed.

Lemma split_star_nonempty : forall k, split_star k <> [].
Proof.
  induction k as [|c t IH]; simpl; [discriminate|].
  destruct (Ascii.eqb c star); [discriminate|]. destruct (split_star t); discriminate.
Qed.

(* glob = the declarative whole-name rule *)
Lemma glob_spec : forall k s, glob k s = true <-> wild_spec (split_star k) s.
Proof.
  induction k as [|c t IH]; intros s.
  - simpl. destruct s; split; intro H; try reflexivity; discriminate.
  - destruct (Ascii.eqb c star) eqn:Ec.
    + apply Ascii.eqb_eq in Ec. subst c.
      change (split_star (star :: t)) with (if Ascii.eqb star star then [] :: split_star t
                                            else match split_star t with p :: ps => (star :: p) :: ps | [] => [[star]] end).
      rewrite Ascii.eqb_refl. rewrite glob_star.
      destruct (split_star t) as [|q qs] eqn:Es; [exfalso; exact (split_star_nonempty t Es)|].
      cbn [wild_spec]. split.
      * intros (g & rest & E & H). exists g, rest. split; [exact E|]. apply IH. exact H.
      * intros (g & rest & E & H). exists g, rest. split; [exact E|]. apply IH. exact H.
    + rewrite (glob_char_unfold c t s Ec).
      change (split_star (c :: t)) with (if Ascii.eqb c star then [] :: split_star t
                                         else match split_star t with p :: ps => (c :: p) :: ps | [] => [[c]] end).
      rewrite Ec.
      destruct (split_star t) as [|q qs] eqn:Es; [exfalso; exact (split_star_nonempty t Es)|].
      destruct s as [|c' s'].
      * split; [discriminate|]. cbn [wild_spec]. destruct qs.
        -- discriminate.
        -- intros (g & rest & E & _). discriminate.
      * rewrite andb_true_iff, Ascii.eqb_eq, IH. cbn [wild_spec]. destruct qs as [|r rs].
        -- split.
           ++ intros [E1 E2]. subst. reflexivity.
           ++ intro E. inversion E. split; reflexivity.
        -- split.
           ++ intros [E1 (g & rest & E & H)]. subst. exists g, rest. split; [reflexivity|exact H].
           ++ intros (g & rest & E & H). simpl in E. inversion E; subst. split; [reflexivity|].
              exists g, rest. split; [reflexivity|exact H].
Qed.

Lemma has_star_In : forall k, has_star k = true <-> In star (list_ascii_of_string k).
Proof.
  intro k. unfold has_star. rewrite existsb_exists. split.
  - intros (x & Hx & E). apply Ascii.eqb_eq in E. subst. exact Hx.
  - intro H. exists star. split; [exact H|apply Ascii.eqb_refl].
Qed.

(* SensorCache._get_props applies an entry to a sensor iff its key contains a star and the WHOLE name fits the key *)
Lemma key_matches_spec : forall k name,
  key_matches k name = true <->
  In star (list_ascii_of_string k) /\ wild_spec (split_star (list_ascii_of_string k)) (list_ascii_of_string name).
Proof.
  intros k name. unfold key_matches. rewrite andb_true_iff, has_star_In, glob_spec. tauto.
Qed.

(* consequences of whole-name matching: the name starts with the first literal part AND ends with the last one,
   and is at least as long as the literal parts together (so a name that merely CONTAINS or EXTENDS a match
   does not match unless it also ends with the last part) *)
Lemma wild_spec_prefix : forall parts s, wild_spec parts s ->
  exists r, s = List.hd [] parts ++ r.
Proof.
  intros [|p ps] s H; [destruct H|]. cbn [wild_spec] in H. destruct ps.
  - subst. exists []. simpl. rewrite app_nil_r. reflexivity.
  - destruct H as (g & rest & E & _). exists (g ++ rest). exact E.
Qed.

Lemma wild_spec_suffix : forall parts s, wild_spec parts s ->
  exists l, s = l ++ List.last parts [].
Proof.
  induction parts as [|p ps IH]; intros s H; [destruct H|].
  cbn [wild_spec] in H. destruct ps as [|q qs].
  - subst. exists []. reflexivity.
  - destruct H as (g & rest & E & H). destruct (IH rest H) as (l & El).
    exists (p ++ g ++ l). subst s. rewrite El at 1. change (List.last (p :: q :: qs) []) with (List.last (q :: qs) []).
    rewrite <- !app_assoc. reflexivity.
Qed.

Lemma wild_spec_length : forall parts s, wild_spec parts s ->
  (List.length (List.concat parts) <= List.length s)%nat.
Proof.
  induction parts as [|p ps IH]; intros s H; [destruct H|].
  cbn [wild_spec] in H. destruct ps as [|q qs].
  - subst. simpl. rewrite app_nil_r. lia.
  - destruct H as (g & rest & E & H). specialize (IH rest H). subst s.
    change (List.concat (p :: q :: qs)) with (p ++ List.concat (q :: qs)). rewrite !app_length in *. lia.
Qed.

Lemma key_matches_anchored : forall k name, key_matches k name = true ->
  let parts := split_star (list_ascii_of_string k) in
  (exists r, list_ascii_of_string name = List.hd [] parts ++ r) /\
  (exists l, list_ascii_of_string name = l ++ List.last parts []) /\
  (List.length (List.concat parts) <= String.length name)%nat.
Proof.
  intros k name H. apply key_matches_spec in H. destruct H as [_ H]. cbn zeta. repeat split.
  - apply wild_spec_prefix. exact H.
  - apply wild_spec_suffix. exact H.
  - apply wild_spec_length in H. clear -H. revert H. generalize (List.concat (split_star (list_ascii_of_string k))).
    intros l H. replace (String.length name) with (List.length (list_ascii_of_string name)); [exact H|].
    clear. induction name; simpl; congruence.
Qed.

(* the stock examples of the seeded change: a name that merely STARTS WITH a match is not a match *)
Example key_matches_examples :
  key_matches "*wind_speed" "asc_wind_speed" = true /\
  key_matches "*wind_speed" "asc_wind_speed_rate" = false /\
  key_matches "*noise_diode" "m000_dig_noise_diode" = true /\
  key_matches "*noise_diode" "m000_dig_noise_diode_power" = false /\
  key_matches "a*x" "ba/x" = false /\
  key_matches "a.*" "a/x" = false /\
  key_matches "a/x" "a/x" = false /\
  key_matches "*" "" = true /\
  key_matches "a**x" "ax" = true.
Proof. vm_compute. repeat split. Qed.

(* ------------------------------------------------------------------ precedence of the merge *)
Section Field.
Context {A : Type} (f : props -> option A).
Hypothesis f_update : forall a b, f (p_update a b) = orelse (f b) (f a).
Hypothesis f_empty : f p_empty = None.

Lemma merge_wild_field : forall name pm base,
  f (merge_wild name pm base) =
  match last_wild f name pm with Some kv => f (snd kv) | None => f base end.
Proof.
  intros name pm base. unfold merge_wild, last_wild. induction pm as [|kv pm IH] using rev_ind.
  - reflexivity.
  - rewrite fold_left_app, rev_app_distr. cbn [fold_left rev app find].
    destruct (key_matches (fst kv) name) eqn:Ek; cbn [andb].
    + rewrite f_update. destruct (f (snd kv)) eqn:Ef; cbn [is_some orelse].
      * symmetry. exact Ef.
      * exact IH.
    + exact IH.
Qed.

Lemma get_props_field : forall name pm kw,
  f (fst (get_props name pm kw)) = effective f name pm kw.
Proof.
  intros name pm kw. unfold get_props, effective. cbn [fst]. rewrite f_update, merge_wild_field.
  destruct (last_wild f name pm); [reflexivity|]. destruct (pm_lookup name pm); [reflexivity|]. rewrite f_empty. reflexivity.
Qed.
End Field.

Lemma get_props_precedence : forall name pm kw,
  let p := fst (get_props name pm kw) in
  p_off p = effective p_off name pm kw /\ p_cat p = effective p_cat name pm kw /\ p_init p = effective p_init name pm kw.
Proof.
  intros name pm kw. cbn zeta. repeat split; apply get_props_field; try reflexivity; intros a b; reflexivity.
Qed.

(* an entry whose key does not match the whole name has no influence at all *)
Lemma merge_wild_irrelevant : forall name pm1 k v pm2 base,
  key_matches k name = false ->
  merge_wild name (pm1 ++ (k, v) :: pm2) base = merge_wild name (pm1 ++ pm2) base.
Proof.
  intros name pm1 k v pm2 base H. unfold merge_wild. rewrite !fold_left_app. cbn [fold_left fst]. rewrite H. reflexivity.
Qed.

(* the regex shape the hand-written matcher stands for, as found in the source at this run *)
Lemma wild_regex_shape :
  sensor_wild_char = "*"%string /\ sensor_wild_join = ".*"%string /\ sensor_wild_escape = true /\
  sensor_wild_anchor_start = true /\ sensor_wild_anchor_end = true /\
  sensor_props_merge_order = ["name"; "wildcards"; "kwargs"]%string.
Proof. repeat split; reflexivity. Qed.
