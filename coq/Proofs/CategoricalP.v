(* C11: lemmas about the categorical container model. *)
From Coq Require Import ZArith List Bool Arith Lia.
From KV Require Import Base.Sx Model.Categorical.
Import ListNotations.
Open Scope nat_scope.

Lemma expand_ev_map {A B} (f : A -> B) : forall r s vals,
  map f (expand_ev s r vals) = expand_ev s r (map f vals).
Proof.
  induction r as [|e r IH]; intros s [|v vals]; simpl; auto.
  rewrite map_app, IH. f_equal. clear. induction (e - s); simpl; congruence.
Qed.
