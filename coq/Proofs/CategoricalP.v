(* C11: lemmas about the categorical container model: base theory of expand_ev, lookup/getitem,
   comparisons, add, add_unmatched, partition, segments. *)
From Coq Require Import ZArith List Bool Arith Lia.
From KV Require Import Base.Sx Model.Categorical.
Import ListNotations.
Open Scope nat_scope.

(* ------------------------------------------------------------------ chains *)
Lemma last_cons {A} (a : A) r d : last (a :: r) d = last r a.
Proof. revert a d. induction r as [|b r IH]; intros a d; [reflexivity|].
  change (last (a :: b :: r) d) with (last (b :: r) d). rewrite (IH b d), (IH b a). reflexivity. Qed.

Lemma chain_weaken (R1 R2 : nat -> nat -> Prop) : (forall a b, R1 a b -> R2 a b) ->
  forall r s, chain R1 s r -> chain R2 s r.
Proof. intros H. induction r; simpl; intros; auto. destruct H0. split; auto. Qed.

Lemma chain_lt_le r s : chain lt s r -> chain le s r.
Proof. apply chain_weaken. intros; lia. Qed.

Lemma chain_le_Forall r : forall s, chain le s r -> Forall (fun x => s <= x) r.
Proof. induction r as [|e r IH]; simpl; intros s H; constructor. tauto.
  destruct H as [H1 H2]. apply IH in H2. eapply Forall_impl; [|exact H2]. simpl; intros; lia. Qed.

Lemma chain_lt_Forall r : forall s, chain lt s r -> Forall (fun x => s < x) r.
Proof. induction r as [|e r IH]; simpl; intros s H; constructor. tauto.
  destruct H as [H1 H2]. apply IH in H2. eapply Forall_impl; [|exact H2]. simpl; intros; lia. Qed.

Lemma chain_app (R : nat -> nat -> Prop) r1 : forall s r2,
  chain R s (r1 ++ r2) <-> chain R s r1 /\ chain R (last r1 s) r2.
Proof. induction r1 as [|a r1 IH]; intros s r2. simpl; tauto.
  rewrite (last_cons a r1 s). cbn [app chain]. rewrite IH. tauto. Qed.

Lemma chain_le_last r : forall s, chain le s r -> s <= last r s.
Proof. induction r as [|e r IH]; intros s H. simpl; lia. destruct H as [H1 H2].
  apply IH in H2. rewrite last_cons. lia. Qed.

(* ------------------------------------------------------------------ counting (searchsorted) *)
Lemma count_le_cons a l p : count_le (a :: l) p = (if a <=? p then 1 else 0) + count_le l p.
Proof. unfold count_le. simpl. destruct (a <=? p); reflexivity. Qed.
Lemma count_lt_cons a l p : count_lt (a :: l) p = (if a <? p then 1 else 0) + count_lt l p.
Proof. unfold count_lt. simpl. destruct (a <? p); reflexivity. Qed.
Lemma count_le_app l1 l2 p : count_le (l1 ++ l2) p = count_le l1 p + count_le l2 p.
Proof. unfold count_le. rewrite filter_app, app_length. reflexivity. Qed.
Lemma count_le_zero l p : Forall (fun x => p < x) l -> count_le l p = 0.
Proof. induction 1; [reflexivity|]. rewrite count_le_cons, IHForall. destruct (Nat.leb_spec x p); lia. Qed.
Lemma count_lt_zero l p : Forall (fun x => p <= x) l -> count_lt l p = 0.
Proof. induction 1; [reflexivity|]. rewrite count_lt_cons, IHForall. destruct (Nat.ltb_spec x p); lia. Qed.
Lemma count_le_all l p : Forall (fun x => x <= p) l -> count_le l p = length l.
Proof. induction 1; [reflexivity|]. rewrite count_le_cons, IHForall. simpl. destruct (Nat.leb_spec x p); lia. Qed.
Lemma count_le_bound l p : count_le l p <= length l.
Proof. unfold count_le. induction l; simpl; auto. destruct (a <=? p); simpl; lia. Qed.

(* a strictly increasing list splits at count_lt into the elements < e and the elements >= e *)
Lemma split_count_lt l e : incr l ->
  Forall (fun x => x < e) (firstn (count_lt l e) l) /\ Forall (fun x => e <= x) (skipn (count_lt l e) l).
Proof.
  destruct l as [|s r]; [simpl; auto|]. simpl. revert s.
  induction r as [|a r IH]; intros s H.
  - rewrite count_lt_cons. unfold count_lt; simpl. destruct (Nat.ltb_spec s e); simpl; repeat constructor; auto.
  - destruct H as [H1 H2]. specialize (IH a H2). rewrite count_lt_cons.
    destruct (Nat.ltb_spec s e).
    + simpl. destruct IH as [I1 I2]. split; auto.
    + assert (Z0 : count_lt (a :: r) e = 0).
      { apply count_lt_zero. constructor. lia. apply chain_lt_Forall in H2.
        eapply Forall_impl; [|exact H2]. simpl; intros; lia. }
      rewrite Z0. simpl. split; auto. constructor; auto. constructor. lia.
      apply chain_lt_Forall in H2. eapply Forall_impl; [|exact H2]. simpl; intros; lia.
Qed.

Lemma incr_firstn l k : incr l -> incr (firstn k l).
Proof.
  destruct l as [|s r]; [rewrite firstn_nil; auto|]. destruct k; [simpl; auto|]. simpl. revert s k.
  induction r as [|a r IH]; intros s k H. rewrite firstn_nil; simpl; auto.
  destruct k; simpl; auto. destruct H. split; auto.
Qed.
Lemma incr_skipn l k : incr l -> incr (skipn k l).
Proof.
  revert l. induction k; intros l H; [exact H|]. destruct l as [|s r]; [simpl; auto|]. simpl. apply IHk.
  destruct r; simpl in *; tauto.
Qed.
Lemma incr_tl l : incr l -> incr (tl l).
Proof. intros. apply (incr_skipn l 1 H). Qed.

(* ------------------------------------------------------------------ expand_ev *)
Lemma expand_ev_map {A B} (f : A -> B) : forall r s vals,
  map f (expand_ev s r vals) = expand_ev s r (map f vals).
Proof.
  induction r as [|e r IH]; intros s [|v vals]; simpl; auto.
  rewrite map_app, IH. f_equal. clear. induction (e - s); simpl; congruence.
Qed.

Lemma expand_ev_length {A} : forall r s (vs : list A), chain le s r -> length r = length vs ->
  length (expand_ev s r vs) = last r s - s.
Proof.
  induction r as [|e r IH]; intros s vs H L; destruct vs as [|v vs]; try discriminate L.
  - simpl. lia.
  - destruct H as [H1 H2]. cbn [expand_ev]. rewrite app_length, repeat_length, IH; [|auto|simpl in L; lia].
    rewrite last_cons. pose proof (chain_le_last r e H2). lia.
Qed.

Lemma expand_ev_app {A} : forall r1 s x r2 (vs1 vs2 : list A), length vs1 = S (length r1) ->
  expand_ev s (r1 ++ x :: r2) (vs1 ++ vs2) = expand_ev s (r1 ++ [x]) vs1 ++ expand_ev x r2 vs2.
Proof.
  induction r1 as [|a r1 IH]; intros s x r2 vs1 vs2 L.
  - destruct vs1 as [|v [|? ?]]; simpl in L; try discriminate. simpl. rewrite app_nil_r. reflexivity.
  - destruct vs1 as [|v vs1]; simpl in L; try discriminate. simpl. rewrite IH by lia. rewrite app_assoc. reflexivity.
Qed.

(* the last segment can be cut at any x between its start and its end *)
Lemma expand_ev_trunc {A} : forall r1 s x y (vs : list A) w, length vs = length r1 -> last r1 s <= x -> x <= y ->
  expand_ev s (r1 ++ [y]) (vs ++ [w]) = expand_ev s (r1 ++ [x]) (vs ++ [w]) ++ repeat w (y - x).
Proof.
  induction r1 as [|a r1 IH]; intros s x y vs w L H1 H2.
  - destruct vs; simpl in L; try discriminate. simpl in *. rewrite !app_nil_r, <- repeat_app. f_equal. lia.
  - destruct vs as [|v vs]; simpl in L; try discriminate. simpl. rewrite last_cons in H1.
    rewrite (IH a x y) by (auto; lia). rewrite app_assoc. reflexivity.
Qed.

Lemma expand_ev_shift {A} a : forall r s (vs : list A), a <= s -> chain le s r ->
  expand_ev (s - a) (map (fun e => e - a) r) vs = expand_ev s r vs.
Proof.
  induction r as [|e r IH]; intros s vs H C; destruct vs as [|v vs]; simpl; auto.
  destruct C as [C1 C2]. rewrite IH by (auto; lia). f_equal. f_equal. lia.
Qed.

Lemma nth_repeat_lt {A} (v d : A) m : forall n, n < m -> nth n (repeat v m) d = v.
Proof. induction m; intros n H. lia. destruct n; simpl; auto. apply IHm. lia. Qed.

(* MASTER LEMMA: dump p of the expansion is the value of the last event at or before p *)
Lemma nth_expand_ev {A} (d : A) : forall r s vs p, chain le s r -> length r = length vs ->
  s <= p -> p < last r s -> nth (p - s) (expand_ev s r vs) d = nth (count_le r p) vs d.
Proof.
  induction r as [|e r IH]; intros s vs p C L H1 H2. simpl in H2; lia.
  destruct vs as [|v vs]; simpl in L; try discriminate. destruct C as [C1 C2]. rewrite last_cons in H2.
  rewrite count_le_cons. cbn [expand_ev]. destruct (Nat.leb_spec e p).
  - rewrite app_nth2; rewrite repeat_length; [|lia]. replace (p - s - (e - s)) with (p - e) by lia.
    rewrite IH by (auto; lia). reflexivity.
  - rewrite app_nth1 by (rewrite repeat_length; lia). rewrite count_le_zero.
    + simpl. apply nth_repeat_lt. lia.
    + apply chain_le_Forall in C2. eapply Forall_impl; [|exact C2]. simpl; intros; lia.
Qed.

(* ------------------------------------------------------------------ all_some *)
Lemma all_some_map {A B C} (f : A -> option B) (g : B -> C) (h : A -> option C) l :
  (forall x, In x l -> option_map g (f x) = h x) ->
  match all_some (map f l) with Some r => Some (map g r) | None => None end = all_some (map h l).
Proof.
  induction l as [|a l IH]; intros H; simpl; auto.
  rewrite <- (H a) by (left; auto). destruct (f a); simpl; auto.
  rewrite <- IH by (intros; apply H; right; auto). destruct (all_some (map f l)); reflexivity.
Qed.

Lemma count_le_lt_length r : forall s p, chain le s r -> p < last r s -> s <= p -> count_le r p < length r.
Proof.
  induction r as [|e r IH]; intros s p C H1 H2. simpl in H1; lia.
  destruct C as [C1 C2]. rewrite last_cons in H1. rewrite count_le_cons. simpl length.
  destruct (Nat.leb_spec e p).
  - specialize (IH e p C2 H1 H). lia.
  - rewrite count_le_zero. lia. apply chain_le_Forall in C2. eapply Forall_impl; [|exact C2]. simpl; intros; lia.
Qed.

Lemma true_positions_spec {A} (X0 : list A) : forall m P, length m <= length X0 ->
  all_some (map (fun z => if (z <? 0)%Z then None else nth_error (P ++ X0) (Z.to_nat z))
                (map Z.of_nat (true_positions m (length P))))
  = Some (map snd (filter fst (combine m X0))).
Proof.
  revert X0. intros X0 m. revert X0. induction m as [|b m IH]; intros X0 P L. reflexivity.
  destruct X0 as [|x X0]; simpl in L; [lia|].
  assert (E : P ++ x :: X0 = (P ++ [x]) ++ X0) by (rewrite <- app_assoc; reflexivity).
  assert (IH' := IH X0 (P ++ [x])). rewrite app_length in IH'. simpl in IH'.
  replace (length P + 1) with (S (length P)) in IH' by lia. rewrite <- E in IH'.
  destruct b; cbn [true_positions map combine filter fst snd all_some].
  - destruct (Z.ltb_spec (Z.of_nat (length P)) 0); [lia|]. rewrite Nat2Z.id.
    rewrite nth_error_app2 by lia. rewrite Nat.sub_diag. simpl nth_error. cbv iota beta.
    rewrite IH' by lia. reflexivity.
  - apply IH'. lia.
Qed.

Section CatP.
Context {V : Type} (veqb : V -> V -> bool) (dflt : V).
Context (veqb_spec : forall a b, veqb a b = true <-> a = b).

Notation cdV := (@cd V).

Lemma WF_inv (c : cdV) : WF c -> exists s r, ev c = s :: r /\ chain lt s r /\ length r = length (idx c)
  /\ Forall (fun i => i < length (uv c)) (idx c) /\ NoDup (uv c).
Proof.
  intros (H1 & H2 & H3 & H4). destruct (ev c) as [|s r] eqn:E; [simpl in H2; lia|].
  exists s, r. simpl in H1, H2. repeat split; auto.
Qed.

Lemma vals_length (c : cdV) : length (vals dflt c) = length (idx c).
Proof. unfold vals. apply map_length. Qed.

Lemma expand_length (c : cdV) : WF c -> length (expand dflt c) = ndumps c - hd 0 (ev c).
Proof.
  intros W. destruct (WF_inv c W) as (s & r & E & C & L & _). unfold expand, ndumps. rewrite E. simpl hd.
  cbn [expand_evs]. rewrite expand_ev_length; [|apply chain_lt_le; auto|rewrite vals_length; auto].
  rewrite last_cons. reflexivity.
Qed.

Lemma nth_vals (c : cdV) m : m < length (idx c) -> nth m (vals dflt c) dflt = nth (nth m (idx c) 0) (uv c) dflt.
Proof.
  intros H. unfold vals. rewrite (nth_indep _ dflt (nth 0 (uv c) dflt)) by (rewrite map_length; auto).
  apply (map_nth (fun i => nth i (uv c) dflt)).
Qed.

(* _lookup inside the event range: the index of the value the per-dump list has at that dump *)
Lemma lookup_value (c : cdV) p : WF c -> hd 0 (ev c) <= p -> p < ndumps c ->
  exists i, lookup c p = Some i /\ i < length (uv c) /\
            nth i (uv c) dflt = nth (p - hd 0 (ev c)) (expand dflt c) dflt.
Proof.
  intros W H1 H2. destruct (WF_inv c W) as (s & r & E & C & L & F & _).
  unfold ndumps in H2. rewrite E in *. simpl hd in *. rewrite last_cons in H2.
  assert (C' := chain_lt_le _ _ C).
  pose proof (count_le_lt_length r s p C' H2 H1) as K.
  exists (nth (count_le r p) (idx c) 0). unfold lookup. rewrite E, count_le_cons.
  destruct (Nat.leb_spec s p); [|lia]. simpl Nat.add. simpl Nat.eqb. simpl Nat.sub. rewrite Nat.sub_0_r.
  destruct (Nat.leb_spec (length (idx c)) (count_le r p)); [lia|]. simpl orb. cbv iota.
  split; [apply nth_error_nth'; lia|]. split.
  - rewrite Forall_forall in F. apply F. apply nth_In. lia.
  - unfold expand. rewrite E. cbn [expand_evs]. rewrite (nth_expand_ev dflt); auto.
    + rewrite nth_vals by lia. reflexivity.
    + rewrite vals_length; auto.
Qed.

Lemma lookup_none (c : cdV) p : WF c -> p < hd 0 (ev c) \/ ndumps c <= p -> lookup c p = None.
Proof.
  intros W H. destruct (WF_inv c W) as (s & r & E & C & L & F & _).
  unfold ndumps in H. rewrite E in *. simpl hd in *. rewrite last_cons in H.
  unfold lookup. rewrite E, count_le_cons. destruct H as [H|H].
  - destruct (Nat.leb_spec s p); [lia|]. rewrite count_le_zero. reflexivity.
    apply chain_lt_Forall in C. eapply Forall_impl; [|exact C]. simpl; intros; lia.
  - assert (A : count_le r p = length r).
    { apply count_le_all. clear - C H. revert s C H. induction r as [|e r IH]; intros s C H; constructor.
      - destruct C as [C1 C2]. rewrite last_cons in H. pose proof (chain_le_last r e (chain_lt_le _ _ C2)). lia.
      - destruct C as [C1 C2]. rewrite last_cons in H. apply (IH e); auto. }
    rewrite A. assert (s <= p). { pose proof (chain_le_last r s (chain_lt_le _ _ C)). lia. }
    destruct (Nat.leb_spec s p); [|lia]. simpl Nat.add. simpl Nat.sub. rewrite Nat.sub_0_r.
    destruct (Nat.leb_spec (length (idx c)) (length r)); [|lia]. simpl. reflexivity.
Qed.

Lemma lookupZ_nth (c : cdV) : WF c -> start0 c -> forall z,
  option_map (fun i => nth i (uv c) dflt) (lookupZ c z) = nth_Z (expand dflt c) z.
Proof.
  intros W S0 z. unfold lookupZ, nth_Z. destruct (Z.ltb_spec z 0); [reflexivity|].
  pose proof (expand_length c W) as EL. unfold start0 in S0. rewrite S0, Nat.sub_0_r in EL.
  destruct (Nat.lt_ge_cases (Z.to_nat z) (ndumps c)) as [Hlt|Hge].
  - destruct (lookup_value c (Z.to_nat z) W) as (i & E1 & _ & E2); [lia|auto|].
    rewrite E1. simpl. rewrite E2, S0, Nat.sub_0_r. symmetry. apply nth_error_nth'. lia.
  - rewrite lookup_none by auto. simpl. symmetry. apply nth_error_None. lia.
Qed.

Lemma glist_spec (c : cdV) ps : WF c -> start0 c ->
  glist dflt c ps = match all_some (map (nth_Z (expand dflt c)) ps) with Some l => GList l | None => GErr end.
Proof.
  intros W S0. unfold glist.
  rewrite <- (all_some_map (lookupZ c) (fun i => nth i (uv c) dflt) (nth_Z (expand dflt c)) ps).
  - destruct (all_some (map (lookupZ c) ps)); reflexivity.
  - intros. apply lookupZ_nth; auto.
Qed.

(* getitem_expand: indexing by int / slice / mask / list = the same indexing of the explicit per-dump list *)
Lemma getitem_expand (c : cdV) k : WF c -> start0 c ->
  (forall m, k = KMask m -> length m = ndumps c) ->
  getitem dflt c k = spec_getitem (expand dflt c) k.
Proof.
  intros W S0 HM. pose proof (expand_length c W) as EL. unfold start0 in S0. rewrite S0, Nat.sub_0_r in EL.
  destruct k as [z|a b s|m|l]; cbn [getitem spec_getitem].
  - rewrite <- (lookupZ_nth c W S0 z). destruct (lookupZ c z); reflexivity.
  - rewrite EL. destruct (slice_range (Z.of_nat (ndumps c)) a b s); [|reflexivity]. apply glist_spec; auto.
  - rewrite EL, (HM m eq_refl), Nat.eqb_refl. rewrite glist_spec by auto.
    pose proof (true_positions_spec (expand dflt c) m [] ) as T. simpl in T. unfold nth_Z.
    rewrite T by (rewrite EL, (HM m eq_refl); lia). reflexivity.
  - rewrite glist_spec by auto. reflexivity.
Qed.

(* eq_expand: a comparison with a value = the per-dump booleans *)
Lemma cmp_expand (c : cdV) (f : V -> bool) : WF c -> cmp c f = spec_cmp (expand dflt c) f.
Proof.
  intros W. destruct (WF_inv c W) as (s & r & E & C & L & F & _).
  unfold cmp, spec_cmp, expand, expand_evs. rewrite E. rewrite expand_ev_map. f_equal.
  unfold vals. rewrite map_map. apply map_ext_in. intros i Hi. rewrite Forall_forall in F. specialize (F i Hi).
  rewrite (nth_indep _ false (f dflt)) by (rewrite map_length; auto). apply map_nth.
Qed.

End CatP.
