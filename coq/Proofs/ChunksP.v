(* C07: lemmas about Model/Chunks.v *)
From Coq Require Import ZArith List Bool Lia ZifyBool.
From KV Require Import Base.Sx Gen.Generated Model.Chunks.
Import ListNotations.
Open Scope Z_scope.

Lemma remove_key_idem {A} : forall k (st : store A), remove_key k (remove_key k st) = remove_key k st.
Proof.
  intros k st. induction st as [|[k' v] t IH]; cbn; auto.
  destruct (str_eq_dec k k') eqn:E; auto. cbn. rewrite E. now rewrite IH.
Qed.

Lemma mark_complete_idem {A} : forall (st : store A) arr, mark_complete (mark_complete st arr) arr = mark_complete st arr.
Proof.
  intros. unfold mark_complete, upd. cbn. destruct (str_eq_dec (marker_key arr) (marker_key arr)); [|congruence].
  now rewrite remove_key_idem.
Qed.
