(* C07: lemmas about Model/Chunks.v — naming, store markers, bucket normalisation, tiling. *)
From Coq Require Import ZArith List Bool Lia ZifyBool.
From KV Require Import Base.Sx Gen.Generated Model.Chunks.
Import ListNotations.
Open Scope Z_scope.

(* ------------------------------------------------------------------------------------------------ *)
(* decimal printing                                                                                    *)

Definition is_digit (c : Z) : Prop := 48 <= c <= 57.
Definition idchar (c : Z) : Prop := is_digit c \/ c = 45.

Lemma horner_app1 : forall l c, horner (l ++ [c]) = 10 * horner l + (c - 48).
Proof. intros. unfold horner. rewrite fold_left_app. reflexivity. Qed.

Lemma horner_zeros : forall k l, horner (repeat 48 k ++ l) = horner l.
Proof.
  intros k l. unfold horner. rewrite fold_left_app.
  replace (fold_left (fun a c => 10 * a + (c - 48)) (repeat 48 k) 0) with 0; auto.
  induction k; cbn [repeat fold_left]; auto.
Qed.

Lemma digits_fuel_spec : forall f n, 0 <= n < 2 ^ Z.of_nat (S f) ->
  horner (digits_fuel (S f) n) = n /\ Forall is_digit (digits_fuel (S f) n) /\ digits_fuel (S f) n <> [].
Proof.
  induction f; intros n Hn.
  - change (2 ^ Z.of_nat 1) with 2 in Hn. cbn [digits_fuel]. destruct (n <? 10) eqn:E; [|lia].
    repeat split; [unfold horner; cbn [fold_left]; lia | constructor; [unfold is_digit; lia|constructor] | discriminate].
  - remember (S f) as g. cbn [digits_fuel]. destruct (n <? 10) eqn:E.
    + repeat split; [unfold horner; cbn [fold_left]; lia | constructor; [unfold is_digit; lia|constructor] | discriminate].
    + assert (Hp : 2 ^ Z.of_nat (S g) = 2 * 2 ^ Z.of_nat g).
      { rewrite Nat2Z.inj_succ, Z.pow_succ_r; lia. }
      assert (Hq : 0 <= n / 10 < 2 ^ Z.of_nat g).
      { split; [apply Z.div_pos; lia|]. apply Z.div_lt_upper_bound; lia. }
      subst g. destruct (IHf (n / 10) Hq) as (H1 & H2 & H3).
      repeat split.
      * rewrite horner_app1, H1. pose proof (Z.div_mod n 10). pose proof (Z.mod_pos_bound n 10). lia.
      * apply Forall_app. split; auto. constructor; [|constructor]. unfold is_digit.
        pose proof (Z.mod_pos_bound n 10). lia.
      * intro C. apply app_eq_nil in C. destruct C; discriminate.
Qed.

Lemma digits_spec : forall n, 0 <= n ->
  horner (digits n) = n /\ Forall is_digit (digits n) /\ digits n <> [].
Proof.
  intros n Hn. unfold digits. apply digits_fuel_spec. split; auto.
  rewrite Nat2Z.inj_succ, Z2Nat.id by apply Z.log2_nonneg.
  destruct (Z.eq_dec n 0) as [->|]. { cbn. lia. }
  apply Z.log2_spec. lia.
Qed.

Lemma pad_spec : forall w l, Forall is_digit l -> l <> [] ->
  horner (pad w l) = horner l /\ Forall is_digit (pad w l) /\ pad w l <> [].
Proof.
  intros w l Hd Hne. unfold pad. repeat split.
  - apply horner_zeros.
  - apply Forall_app. split; auto. apply Forall_forall. intros x Hx. apply repeat_spec in Hx. subst. unfold is_digit. lia.
  - intro C. apply app_eq_nil in C. tauto.
Qed.

Lemma parse_digits : forall l, Forall is_digit l -> parse_index l = horner l.
Proof.
  intros [|c t] H; [reflexivity|]. cbn [parse_index]. inversion H; subst. unfold is_digit in *.
  destruct (c =? 45) eqn:E; [lia|reflexivity].
Qed.

Lemma parse_fmt : forall w z, parse_index (fmt_index w z) = z.
Proof.
  intros w z. unfold fmt_index. destruct (z <? 0) eqn:E.
  - cbn [parse_index]. rewrite Z.eqb_refl.
    destruct (digits_spec (- z)) as (H1 & H2 & H3); [lia|].
    destruct (pad_spec (w - 1) _ H2 H3) as (P1 & _). rewrite P1, H1. lia.
  - destruct (digits_spec z) as (H1 & H2 & H3); [lia|].
    destruct (pad_spec w _ H2 H3) as (P1 & P2 & _). rewrite parse_digits by auto. now rewrite P1.
Qed.

Lemma fmt_chars : forall w z, Forall idchar (fmt_index w z) /\ fmt_index w z <> [].
Proof.
  intros w z. unfold fmt_index. destruct (z <? 0) eqn:E.
  - destruct (digits_spec (- z)) as (H1 & H2 & H3); [lia|].
    destruct (pad_spec (w - 1) _ H2 H3) as (_ & P2 & _). split; [|discriminate].
    constructor; [right; reflexivity|]. eapply Forall_impl; [|exact P2]. intros; left; auto.
  - destruct (digits_spec z) as (H1 & H2 & H3); [lia|].
    destruct (pad_spec w _ H2 H3) as (_ & P2 & P3). split; auto.
    eapply Forall_impl; [|exact P2]. intros; left; auto.
Qed.

(* the printed form is at least `w` characters wide and is the shortest such zero-padded decimal *)
Lemma fmt_width : forall w z, w <= Z.of_nat (length (fmt_index w z)).
Proof.
  intros w z. unfold fmt_index, pad. destruct (z <? 0); cbn [length]; rewrite ?app_length, ?repeat_length; lia.
Qed.

(* ------------------------------------------------------------------------------------------------ *)
(* joining and splitting                                                                               *)

Lemma app_sep_unique : forall (x : Z) l1 r1 l2 r2,
  l1 ++ x :: r1 = l2 ++ x :: r2 -> ~ In x l1 -> ~ In x l2 -> l1 = l2 /\ r1 = r2.
Proof.
  induction l1 as [|a l1 IH]; intros r1 [|b l2] r2 E N1 N2; cbn in *.
  - inversion E; auto.
  - inversion E; subst. tauto.
  - inversion E; subst. tauto.
  - inversion E; subst. destruct (IH r1 l2 r2 H1) as [-> ->]; auto.
Qed.

Lemma app_sep_unique_last : forall (x : Z) l1 r1 l2 r2,
  l1 ++ x :: r1 = l2 ++ x :: r2 -> ~ In x r1 -> ~ In x r2 -> l1 = l2 /\ r1 = r2.
Proof.
  intros x l1 r1 l2 r2 E N1 N2. apply (f_equal (@rev Z)) in E.
  rewrite !rev_app_distr in E. cbn [rev] in E. rewrite <- !app_assoc in E. cbn [app] in E.
  apply app_sep_unique in E; try (rewrite <- in_rev; assumption).
  destruct E as [E1 E2]. apply (f_equal (@rev Z)) in E1, E2. rewrite !rev_involutive in E1, E2. auto.
Qed.

Lemma join_cons2 : forall sep x y t, join sep (x :: y :: t) = x ++ sep :: join sep (y :: t).
Proof. reflexivity. Qed.

Lemma join_chars : forall sep fs c, In c (join sep fs) -> c = sep \/ exists f, In f fs /\ In c f.
Proof.
  induction fs as [|x [|y t] IH]; intros c H.
  - destruct H.
  - right. exists x. cbn in *. auto.
  - rewrite join_cons2 in H. apply in_app_or in H. destruct H as [H|[H|H]].
    + right. exists x. cbn; auto.
    + auto.
    + destruct (IH c H) as [|(f & F1 & F2)]; auto. right. exists f. split; auto. right; auto.
Qed.

Lemma join_inj : forall sep fs1 fs2,
  (forall f, In f fs1 -> f <> [] /\ ~ In sep f) -> (forall f, In f fs2 -> f <> [] /\ ~ In sep f) ->
  join sep fs1 = join sep fs2 -> fs1 = fs2.
Proof.
  induction fs1 as [|x1 t1 IH]; intros [|x2 t2] H1 H2 E.
  - reflexivity.
  - exfalso. destruct (H2 x2 (or_introl eq_refl)) as [N _]. destruct t2; cbn in E; [congruence|].
    destruct x2; [congruence|discriminate].
  - exfalso. destruct (H1 x1 (or_introl eq_refl)) as [N _]. destruct t1; cbn in E; [congruence|].
    destruct x1; [congruence|discriminate].
  - destruct (H1 x1 (or_introl eq_refl)) as [_ N1]. destruct (H2 x2 (or_introl eq_refl)) as [_ N2].
    destruct t1 as [|y1 t1], t2 as [|y2 t2].
    + cbn in E. congruence.
    + exfalso. rewrite join_cons2 in E. cbn [join] in E. apply N1. rewrite E. apply in_or_app. right. left. reflexivity.
    + exfalso. rewrite join_cons2 in E. cbn [join] in E. apply N2. rewrite <- E. apply in_or_app. right. left. reflexivity.
    + rewrite !join_cons2 in E. apply app_sep_unique in E; auto. destruct E as [-> E]. f_equal.
      apply IH; auto; intros f Hf; [apply H1|apply H2]; right; auto.
Qed.

(* ------------------------------------------------------------------------------------------------ *)
(* chunk names: generic in the separators, then instantiated with the constants taken from the source  *)

Lemma id_fields_ok : forall sep w starts, ~ idchar sep ->
  forall f, In f (map (fmt_index w) starts) -> f <> [] /\ ~ In sep f.
Proof.
  intros sep w starts Hs f Hf. apply in_map_iff in Hf. destruct Hf as (z & <- & _).
  destruct (fmt_chars w z) as [C N]. split; auto. intro I. rewrite Forall_forall in C. apply Hs. auto.
Qed.

Lemma chunk_id_str_inj : forall w s1 s2, ~ idchar cs_id_sep ->
  chunk_id_str_w w s1 = chunk_id_str_w w s2 -> s1 = s2.
Proof.
  intros w s1 s2 Hs E. unfold chunk_id_str_w in E. apply join_inj in E; try (apply id_fields_ok; auto).
  apply (f_equal (map parse_index)) in E. rewrite !map_map in E.
  rewrite (map_ext _ (fun x => x)) in E by (intros; apply parse_fmt).
  rewrite (map_ext (fun x => parse_index (fmt_index w x)) (fun x => x)) in E by (intros; apply parse_fmt).
  now rewrite !map_id in E.
Qed.

Lemma id_str_chars : forall w s c, In c (chunk_id_str_w w s) -> c = cs_id_sep \/ idchar c.
Proof.
  intros w s c H. apply join_chars in H. destruct H as [|(f & F1 & F2)]; auto. right.
  apply in_map_iff in F1. destruct F1 as (z & <- & _). destruct (fmt_chars w z) as [C _].
  rewrite Forall_forall in C. auto.
Qed.

Lemma seps_ok : ~ idchar cs_id_sep /\ ~ idchar cs_name_sep /\ cs_name_sep <> cs_id_sep.
Proof. unfold idchar, is_digit, cs_id_sep, cs_name_sep. lia. Qed.

Lemma join_name_split : forall a1 a2 b1 b2,
  ~ In cs_name_sep b1 -> ~ In cs_name_sep b2 -> join_name a1 b1 = join_name a2 b2 -> a1 = a2 /\ b1 = b2.
Proof. intros a1 a2 b1 b2 N1 N2 E. unfold join_name in E. eapply app_sep_unique_last; eauto. Qed.

Lemma id_str_no_name_sep : forall s, ~ In cs_name_sep (chunk_id_str s).
Proof.
  intros s H. destruct seps_ok as (S1 & S2 & S3). apply id_str_chars in H. destruct H; auto.
Qed.

Lemma chunk_name_inj : forall a1 a2 s1 s2, chunk_name a1 s1 = chunk_name a2 s2 <-> (a1 = a2 /\ s1 = s2).
Proof.
  intros a1 a2 s1 s2. split; [|intros [-> ->]; reflexivity].
  intro E. unfold chunk_name in E. apply join_name_split in E; try apply id_str_no_name_sep.
  destruct E as [-> E]. split; auto. eapply chunk_id_str_inj; [apply seps_ok|exact E].
Qed.

Lemma chunk_key_inj : forall n1 n2, chunk_key n1 = chunk_key n2 -> n1 = n2.
Proof. intros n1 n2 E. unfold chunk_key in E. eapply app_inv_tail; eauto. Qed.

(* documented form: each index printed in at least NAME_INDEX_WIDTH characters and it reads back *)
Lemma chunk_id_documented : forall z,
  cs_name_index_width <= Z.of_nat (length (fmt_index cs_name_index_width z))
  /\ parse_index (fmt_index cs_name_index_width z) = z.
Proof. intro z. split; [apply fmt_width|apply parse_fmt]. Qed.

(* ------------------------------------------------------------------------------------------------ *)
(* store: completion markers                                                                           *)

Lemma remove_key_idem {A} : forall k (st : store A), remove_key k (remove_key k st) = remove_key k st.
Proof.
  intros k st. induction st as [|[k' v] t IH]; cbn; auto.
  destruct (str_eq_dec k k') eqn:E; auto. cbn. rewrite E. now rewrite IH.
Qed.

Lemma lookup_remove {A} : forall k k' (st : store A),
  lookup k (remove_key k' st) = if str_eq_dec k k' then None else lookup k st.
Proof.
  intros k k' st. induction st as [|[k2 v] t IH]; cbn.
  - destruct (str_eq_dec k k'); reflexivity.
  - destruct (str_eq_dec k' k2) as [->|N].
    + rewrite IH. destruct (str_eq_dec k k2); reflexivity.
    + cbn. rewrite IH. destruct (str_eq_dec k k2) as [->|]; destruct (str_eq_dec k2 k'); congruence || reflexivity.
Qed.

Lemma lookup_upd {A} : forall k k' v (st : store A),
  lookup k (upd k' v st) = if str_eq_dec k k' then Some v else lookup k st.
Proof.
  intros. unfold upd. cbn. destruct (str_eq_dec k k'); auto. rewrite lookup_remove.
  destruct (str_eq_dec k k'); congruence.
Qed.

Lemma mark_complete_idem {A} : forall (st : store A) arr, mark_complete (mark_complete st arr) arr = mark_complete st arr.
Proof.
  intros. unfold mark_complete, upd. cbn. destruct (str_eq_dec (marker_key arr) (marker_key arr)); [|congruence].
  now rewrite remove_key_idem.
Qed.

Lemma is_complete_after_mark {A} : forall (st : store A) arr, is_complete (mark_complete st arr) arr = true.
Proof. intros. unfold is_complete, mark_complete. rewrite lookup_upd. destruct (str_eq_dec _ _); congruence. Qed.

Lemma complete_no_sep : ~ In cs_name_sep cs_complete.
Proof. unfold cs_name_sep, cs_complete. cbn. lia. Qed.

Lemma marker_key_inj : forall a b, ~ In cs_name_sep cs_complete -> marker_key a = marker_key b -> a = b.
Proof. intros a b N E. unfold marker_key in E. apply join_name_split in E; tauto. Qed.

Lemma is_complete_other {A} : forall (st : store A) a b, a <> b -> is_complete (mark_complete st a) b = is_complete st b.
Proof.
  intros st a b N. unfold is_complete, mark_complete. rewrite lookup_upd.
  destruct (str_eq_dec _ _) as [E|]; auto. apply marker_key_inj in E; [congruence|apply complete_no_sep].
Qed.

(* a marker key is never a chunk key: the last character differs *)
Lemma last_app_ne : forall (l s : list Z) d, s <> [] -> last (l ++ s) d = last s d.
Proof.
  induction l; intros s d H; cbn [app]; auto. rewrite <- (IHl s d H). cbn [last].
  destruct (l ++ s) eqn:E; auto. apply app_eq_nil in E. tauto.
Qed.

Lemma marker_not_chunk : forall a n, marker_key a <> chunk_key n.
Proof.
  intros a n E. apply (f_equal (fun l => last l 0)) in E. unfold marker_key, join_name, chunk_key in E.
  change (a ++ cs_name_sep :: cs_complete) with (a ++ (cs_name_sep :: cs_complete)) in E.
  rewrite !last_app_ne in E by (unfold cs_chunk_ext; discriminate). unfold cs_complete, cs_chunk_ext in E. cbn in E. lia.
Qed.

Lemma mark_complete_keeps_chunks {A} : forall (st : store A) a arr sl dt ho,
  get_chunk (mark_complete st a) arr sl dt ho = get_chunk st arr sl dt ho.
Proof.
  intros. unfold get_chunk. destruct (chunk_metadata arr sl [] None false ho) as [[name shape]|]; auto.
  unfold mark_complete. rewrite lookup_upd. destruct (str_eq_dec _ _) as [E|]; auto.
  symmetry in E. apply marker_not_chunk in E. destruct E.
Qed.

(* ------------------------------------------------------------------------------------------------ *)
(* bucket-name normalisation                                                                           *)

Lemma split1_no_sep : forall c s a r, split1 c s = (a, r) -> ~ In c a.
Proof.
  induction s as [|x t IH]; intros a r E; cbn in E.
  - inversion E. auto.
  - destruct (x =? c) eqn:X. { inversion E. auto. }
    destruct (split1 c t) as [a' r'] eqn:S. inversion E; subst. intros [H|H]; [lia|]. eapply IH; eauto.
Qed.

Lemma split1_app : forall c a r, ~ In c a ->
  split1 c (a ++ match r with Some k => c :: k | None => [] end) = (a, r).
Proof.
  induction a as [|x t IH]; intros r N; cbn.
  - destruct r; cbn; [rewrite Z.eqb_refl|]; reflexivity.
  - destruct (x =? c) eqn:X. { exfalso. apply N. left. lia. }
    rewrite IH; auto. intro; apply N; right; auto.
Qed.

Lemma lstrip_head : forall c s x t, lstrip_c c s = x :: t -> x <> c.
Proof.
  induction s as [|y u IH]; intros x t E; cbn in E; [discriminate|].
  destruct (y =? c) eqn:Y; [eauto|]. inversion E; subst. lia.
Qed.

Lemma lstrip_fixed : forall c s, (match s with x :: _ => x <> c | [] => True end) -> lstrip_c c s = s.
Proof. intros c [|x t] H; cbn; auto. destruct (x =? c) eqn:X; [lia|reflexivity]. Qed.

Lemma replace_no_new : forall a b c s, c <> b -> ~ In c s -> ~ In c (replace_c a b s).
Proof.
  intros a b c s N H I. unfold replace_c in I. apply in_map_iff in I. destruct I as (x & E & Hx).
  destruct (x =? a); subst; tauto.
Qed.

Lemma replace_idem : forall a b s, a <> b -> replace_c a b (replace_c a b s) = replace_c a b s.
Proof.
  intros a b s N. unfold replace_c. rewrite map_map. apply map_ext. intro x.
  destruct (x =? a) eqn:X; [destruct (b =? a) eqn:Y; [lia|reflexivity]|rewrite X; reflexivity].
Qed.

(* split of a normalised path: the bucket is the replaced bucket, the key is untouched *)
Lemma normalise_split : forall p, cs_bucket_to <> 47 ->
  split1 47 (lstrip_c 47 (normalise_path p))
  = (replace_c cs_bucket_from cs_bucket_to (path_bucket p), path_key p).
Proof.
  intros p Hb. unfold normalise_path, path_bucket, path_key.
  destruct (split1 47 (lstrip_c 47 p)) as [bucket rest] eqn:S. cbn [fst snd].
  pose proof (split1_no_sep _ _ _ _ S) as N.
  assert (N' : ~ In 47 (replace_c cs_bucket_from cs_bucket_to bucket)) by (apply replace_no_new; auto).
  cbn [lstrip_c]. rewrite Z.eqb_refl.
  set (b' := replace_c cs_bucket_from cs_bucket_to bucket) in *.
  rewrite lstrip_fixed.
  - apply split1_app; auto.
  - destruct b' as [|x t] eqn:B; cbn.
    + destruct rest; cbn; auto. exfalso.
      assert (bucket = []) by (destruct bucket; [reflexivity|discriminate]). subst bucket.
      destruct (lstrip_c 47 p) as [|x t] eqn:L; cbn in S; [discriminate|].
      pose proof (lstrip_head _ _ _ _ L). destruct (x =? 47) eqn:X; [lia|].
      destruct (split1 47 t); discriminate.
    + intro; subst. apply N'. left; reflexivity.
Qed.

Lemma bucket_to_ok : cs_bucket_to <> 47 /\ cs_bucket_from <> cs_bucket_to.
Proof. unfold cs_bucket_to, cs_bucket_from. lia. Qed.

Lemma normalise_idem : forall p, normalise_path (normalise_path p) = normalise_path p.
Proof.
  intro p. destruct bucket_to_ok as [H1 H2].
  unfold normalise_path at 1. rewrite (normalise_split p H1). rewrite replace_idem by auto.
  unfold normalise_path, path_bucket, path_key. destruct (split1 47 (lstrip_c 47 p)). reflexivity.
Qed.

Lemma normalise_keeps_key : forall p, path_key (normalise_path p) = path_key p.
Proof. intro p. destruct bucket_to_ok as [H1 _]. unfold path_key at 1. now rewrite (normalise_split p H1). Qed.

Lemma normalise_bucket : forall p,
  path_bucket (normalise_path p) = replace_c cs_bucket_from cs_bucket_to (path_bucket p)
  /\ ~ In cs_bucket_from (path_bucket (normalise_path p)).
Proof.
  intro p. destruct bucket_to_ok as [H1 H2]. unfold path_bucket at 1 3. rewrite (normalise_split p H1). cbn [fst].
  split; auto. unfold replace_c. intro I. apply in_map_iff in I. destruct I as (x & E & _).
  destruct (x =? cs_bucket_from) eqn:X; lia.
Qed.

(* ------------------------------------------------------------------------------------------------ *)
(* tiling: the blocks of a chunk specification partition the index space                               *)

Lemma in_cart {T} : forall (ls : list (list T)) l, In l (cart ls) <-> Forall2 (fun x xs => In x xs) l ls.
Proof.
  induction ls as [|a ls IH]; intro l; cbn [cart].
  - split.
    + intros [<-|[]]. constructor.
    + intro H. inversion H. left; reflexivity.
  - rewrite in_flat_map. split.
    + intros (x & Hx & Hl). apply in_map_iff in Hl. destruct Hl as (l' & <- & Hl'). constructor; auto. now apply IH.
    + intro H. inversion H as [|x xs l' ls' Hx Hl']; subst. exists x. split; auto. apply in_map. now apply IH.
Qed.

Lemma in_zrange : forall s len x, In x (zrange s len) <-> s <= x < s + len.
Proof.
  intros s len x. unfold zrange. rewrite in_map_iff. split.
  - intros (i & <- & Hi). apply in_seq in Hi. lia.
  - intro H. exists (Z.to_nat (x - s)). split; [lia|]. apply in_seq. lia.
Qed.

Lemma in_enumerate : forall shape p, In p (enumerate shape) <-> Forall2 (fun x n => 0 <= x < n) p shape.
Proof.
  intros shape p. unfold enumerate. rewrite in_cart. revert p. induction shape as [|n t IH]; intro p; cbn [map].
  - split; intro H; inversion H; constructor.
  - split; intro H; inversion H; subst; constructor; try (apply IH; assumption).
    + rewrite in_zrange in *. lia.
    + rewrite in_zrange. lia.
Qed.

Lemma intervals_lb : forall cs a se, Forall (fun c => 0 <= c) cs -> In se (intervals a cs) -> a <= fst se /\ fst se <= snd se.
Proof.
  induction cs as [|c t IH]; intros a se F H; cbn in H; [tauto|]. inversion F; subst.
  destruct H as [<-|H]; cbn; [lia|]. destruct (IH _ _ H3 H). lia.
Qed.

Lemma intervals_cover : forall cs a x, Forall (fun c => 0 <= c) cs -> a <= x < a + sumZ cs ->
  exists se, In se (intervals a cs) /\ in_slice se x = true.
Proof.
  induction cs as [|c t IH]; intros a x F H; cbn [sumZ fold_right] in H; [lia|]. inversion F; subst.
  destruct (Z_lt_dec x (a + c)).
  - exists (a, a + c). split; [left; reflexivity|]. unfold in_slice; cbn. lia.
  - destruct (IH (a + c) x H3) as (se & I & C); [unfold sumZ; lia|]. exists se. split; auto. right; auto.
Qed.

Lemma intervals_disjoint : forall cs a se1 se2 x, Forall (fun c => 0 <= c) cs ->
  In se1 (intervals a cs) -> In se2 (intervals a cs) -> in_slice se1 x = true -> in_slice se2 x = true -> se1 = se2.
Proof.
  induction cs as [|c t IH]; intros a se1 se2 x F H1 H2 C1 C2; cbn in H1, H2; [tauto|]. inversion F; subst.
  unfold in_slice in *.
  destruct H1 as [<-|H1], H2 as [<-|H2]; auto.
  - apply intervals_lb in H2; auto. cbn in *. lia.
  - apply intervals_lb in H1; auto. cbn in *. lia.
  - eapply IH; eauto.
Qed.

Definition chunks_nonneg (chunks : list (list Z)) : Prop := Forall (Forall (fun c => 0 <= c)) chunks.

Lemma tile_exists : forall chunks p, chunks_nonneg chunks ->
  Forall2 (fun x cs => 0 <= x < sumZ cs) p chunks -> exists b, In b (blocks chunks) /\ contains b p = true.
Proof.
  unfold blocks. intros chunks p F H. induction H as [|x cs p' chunks' Hx Hp IH].
  - exists []. split; [left; reflexivity|reflexivity].
  - inversion F; subst. destruct (IH H2) as (b & Hb & Cb).
    destruct (intervals_cover cs 0 x H1) as (se & Hse & Cse); [lia|].
    exists (se :: b). split.
    + apply in_cart. constructor; auto. now apply in_cart.
    + cbn [contains]. now rewrite Cse, Cb.
Qed.

Lemma tile_unique : forall chunks p b1 b2, chunks_nonneg chunks ->
  In b1 (blocks chunks) -> In b2 (blocks chunks) -> contains b1 p = true -> contains b2 p = true -> b1 = b2.
Proof.
  unfold blocks. intros chunks. induction chunks as [|cs chunks IH]; intros p b1 b2 F H1 H2 C1 C2; cbn [map] in *.
  - apply in_cart in H1. apply in_cart in H2. inversion H1; inversion H2; reflexivity.
  - apply in_cart in H1. apply in_cart in H2.
    inversion H1 as [|se1 ? b1' ? Hs1 Hb1]; subst. inversion H2 as [|se2 ? b2' ? Hs2 Hb2]; subst.
    inversion F; subst. destruct p as [|x q]; [discriminate|]. cbn [contains] in C1, C2.
    apply andb_prop in C1. apply andb_prop in C2. destruct C1 as [A1 B1], C2 as [A2 B2].
    f_equal.
    + eapply intervals_disjoint; eauto.
    + eapply IH; eauto; apply in_cart; auto.
Qed.

Lemma blocks_tile_lemma : forall chunks p, chunks_nonneg chunks -> In p (enumerate (chunks_shape chunks)) ->
  exists b, (In b (blocks chunks) /\ contains b p = true)
            /\ forall b', In b' (blocks chunks) /\ contains b' p = true -> b' = b.
Proof.
  intros chunks p F H. apply in_enumerate in H.
  assert (H' : Forall2 (fun x cs => 0 <= x < sumZ cs) p chunks).
  { unfold chunks_shape in H. clear F. revert p H. induction chunks; intros p H; inversion H; subst; constructor; auto. }
  destruct (tile_exists chunks p F H') as (b & Hb & Cb). exists b. split; auto.
  intros b' [Hb' Cb']. eapply tile_unique; eauto.
Qed.
