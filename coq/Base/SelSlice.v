(* Boolean masks and numpy-style index assignment `m = zeros(n); m[ix] = True` used by select().
   Python slice resolution follows CPython's PySlice_AdjustIndices. *)
From Coq Require Import ZArith List Bool Lia.
Import ListNotations.
Open Scope Z_scope.

(* ---------- masks ---------- *)
Fixpoint mand (a b : list bool) : list bool :=
  match a, b with
  | x :: a', y :: b' => (x && y) :: mand a' b'
  | _, _ => []
  end.

Definition ones (n : nat) : list bool := repeat true n.

(* positions 0 .. n-1 as integers *)
Definition zpos (n : nat) : list Z := map Z.of_nat (seq 0 n).

(* ---------- index forms accepted by `mask[ix] = True` ---------- *)
Inductive idx :=
| IxMask (m : list bool)                 (* boolean mask (np.asarray(v).dtype == bool) *)
| IxInt (z : Z)                          (* single integer, negative counts from the end *)
| IxSlice (a b c : option Z)             (* slice(a, b, c) *)
| IxList (l : list Z).                   (* sequence of integers *)

(* PySlice_AdjustIndices: (start, stop, step) for a sequence of length n; None for step = 0 *)
Definition slice_adjust (n : Z) (a b c : option Z) : option (Z * Z * Z) :=
  let step := match c with Some s => s | None => 1 end in
  if step =? 0 then None else
  let neg := step <? 0 in
  let clamp (v : Z) :=
    if v <? 0 then (let v' := v + n in if v' <? 0 then (if neg then -1 else 0) else v')
    else if n <=? v then (if neg then n - 1 else n) else v in
  let start := match a with Some v => clamp v | None => if neg then n - 1 else 0 end in
  let stop := match b with Some v => clamp v | None => if neg then -1 else n end in
  Some (start, stop, step).

(* is position p one of start, start+step, ... (strictly before stop in the direction of step)? *)
Definition in_slice (start stop step p : Z) : bool :=
  if 0 <? step then (start <=? p) && (p <? stop) && ((p - start) mod step =? 0)
  else (stop <? p) && (p <=? start) && ((start - p) mod (- step) =? 0).

Definition norm_index (n z : Z) : Z := if z <? 0 then z + n else z.
Definition index_ok (n z : Z) : bool := (- n <=? z) && (z <? n).

(* the mask produced by  m = zeros(n, bool); m[ix] = True ; m   (None = numpy raises);
   for a boolean mask: the mask itself, which must have length n to be ANDed in place, or length 1
   (numpy broadcasts a one-element operand of `&=`) *)
Definition index_mask (n : nat) (ix : idx) : option (list bool) :=
  let nz := Z.of_nat n in
  match ix with
  | IxMask m => if Nat.eqb (List.length m) n then Some m
                else match m with [b] => Some (repeat b n) | _ => None end
  | IxInt z => if index_ok nz z then Some (map (fun p => p =? norm_index nz z) (zpos n)) else None
  | IxSlice a b c =>
      match slice_adjust nz a b c with
      | Some (start, stop, step) => Some (map (in_slice start stop step) (zpos n))
      | None => None
      end
  | IxList l =>
      if forallb (index_ok nz) l
      then Some (map (fun p => existsb (fun z => p =? norm_index nz z) l) (zpos n))
      else None
  end.
