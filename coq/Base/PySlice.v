(* Python slice semantics (shared: C05, later C04 / C01 / C19).

   [slice_indices n a b c] is CPython's [slice(a, b, c).indices(n)]
   (PySlice_Unpack + PySlice_AdjustIndices, Objects/sliceobject.c): [None] when the step
   is 0 (ValueError), otherwise the normalised (start, stop, step).
   [range_len] / [py_range] are [len(range(start, stop, step))] / [list(range(...))],
   and [slice_positions n a b c] is [list(range(n))[a:b:c]], i.e. the positions selected
   on an axis of length [n].  All positions are [Z]; an axis length is a non-negative [Z].

   The harness compares [slice_indices] and [slice_positions] exhaustively with
   Python's [slice.indices] on a small scope (harness/props/c05.py, wire_50). *)
From Coq Require Import ZArith List Bool Lia.
Import ListNotations.
Open Scope Z_scope.

Definition zlen {A} (l : list A) : Z := Z.of_nat (List.length l).

Definition slice_indices (n : Z) (a b c : option Z) : option (Z * Z * Z) :=
  let step := match c with Some s => s | None => 1 end in
  if step =? 0 then None else
  let lower := if step <? 0 then -1 else 0 in
  let upper := if step <? 0 then n - 1 else n in
  let adj v := if v <? 0 then Z.max (v + n) lower else Z.min v upper in
  let start := match a with Some v => adj v | None => if step <? 0 then upper else lower end in
  let stop := match b with Some v => adj v | None => if step <? 0 then lower else upper end in
  Some (start, stop, step).

(* len(range(start, stop, step)), step <> 0 *)
Definition range_len (start stop step : Z) : Z :=
  if 0 <? step then (if start <? stop then (stop - start - 1) / step + 1 else 0)
  else (if stop <? start then (start - stop - 1) / (- step) + 1 else 0).

(* [start, start+step, ...] with [k] elements *)
Definition range_list (start step : Z) (k : nat) : list Z :=
  map (fun i => start + Z.of_nat i * step) (seq 0 k).

Definition py_range (start stop step : Z) : list Z :=
  range_list start step (Z.to_nat (range_len start stop step)).

(* range(n) *)
Definition zrange (n : Z) : list Z := range_list 0 1 (Z.to_nat n).

Definition slice_positions (n : Z) (a b c : option Z) : option (list Z) :=
  match slice_indices n a b c with
  | Some (s, e, st) => Some (py_range s e st)
  | None => None
  end.

(* ------------------------------------------------------------------ lemmas *)

Lemma zlen_nonneg {A} (l : list A) : 0 <= zlen l.
Proof. unfold zlen. lia. Qed.

Lemma zlen_app {A} (l1 l2 : list A) : zlen (l1 ++ l2) = zlen l1 + zlen l2.
Proof. unfold zlen. rewrite app_length. lia. Qed.

Lemma zlen_cons {A} (x : A) l : zlen (x :: l) = 1 + zlen l.
Proof. unfold zlen. cbn [List.length]. lia. Qed.

Lemma zlen_map {A B} (f : A -> B) l : zlen (map f l) = zlen l.
Proof. unfold zlen. now rewrite map_length. Qed.

Lemma range_list_length s st k : List.length (range_list s st k) = k.
Proof. unfold range_list. now rewrite map_length, seq_length. Qed.

Lemma range_len_nonneg s e st : st <> 0 -> 0 <= range_len s e st.
Proof.
  intro H. unfold range_len.
  destruct (0 <? st) eqn:E1.
  - destruct (s <? e) eqn:E2; [|lia].
    assert (0 <= (e - s - 1) / st) by (apply Z.div_pos; lia). lia.
  - destruct (e <? s) eqn:E2; [|lia].
    assert (0 <= (s - e - 1) / (- st)) by (apply Z.div_pos; lia). lia.
Qed.

Lemma py_range_length s e st : st <> 0 -> zlen (py_range s e st) = range_len s e st.
Proof.
  intro H. unfold py_range, zlen. rewrite range_list_length.
  pose proof (range_len_nonneg s e st H). lia.
Qed.

Lemma zrange_length n : 0 <= n -> zlen (zrange n) = n.
Proof. intro H. unfold zrange, zlen. rewrite range_list_length. lia. Qed.

Lemma range_list_S s st k : range_list s st (S k) = s :: range_list (s + st) st k.
Proof.
  unfold range_list. cbn [seq map]. f_equal; [lia|].
  rewrite <- seq_shift, map_map. apply map_ext. intro i. lia.
Qed.

Lemma range_list_nth s st k i : (i < k)%nat -> nth i (range_list s st k) 0 = s + Z.of_nat i * st.
Proof.
  revert s i. induction k as [|k IH]; intros s i H; [lia|].
  rewrite range_list_S. destruct i as [|i]; cbn [nth]; [lia|].
  rewrite IH by lia. lia.
Qed.

Lemma zrange_nth n i : 0 <= i < n -> nth (Z.to_nat i) (zrange n) 0 = i.
Proof. intro H. unfold zrange. rewrite range_list_nth by lia. lia. Qed.

(* every element of range(start, stop, step) lies between start and stop *)
Lemma py_range_bounds s e st x : st <> 0 -> In x (py_range s e st) ->
  (0 < st -> s <= x < e) /\ (st < 0 -> e < x <= s).
Proof.
  intros Hst Hin. unfold py_range, range_list in Hin. apply in_map_iff in Hin.
  destruct Hin as [i [<- Hi]]. apply in_seq in Hi.
  pose proof (range_len_nonneg s e st Hst) as Hn.
  assert (Hi' : Z.of_nat i < range_len s e st) by lia. clear Hi.
  unfold range_len in *.
  split; intro Hs.
  - assert (E : (0 <? st) = true) by lia. rewrite E in *.
    destruct (s <? e) eqn:E2; [|lia].
    assert (Z.of_nat i <= (e - s - 1) / st) by lia.
    assert (st * ((e - s - 1) / st) <= e - s - 1) by (apply Z.mul_div_le; lia).
    nia.
  - assert (E : (0 <? st) = false) by lia. rewrite E in *.
    destruct (e <? s) eqn:E2; [|lia].
    assert (Z.of_nat i <= (s - e - 1) / (- st)) by lia.
    assert ((- st) * ((s - e - 1) / (- st)) <= s - e - 1) by (apply Z.mul_div_le; lia).
    nia.
Qed.

(* normalised bounds *)
Lemma slice_indices_bounds n a b c s e st : 0 <= n -> slice_indices n a b c = Some (s, e, st) ->
  st <> 0 /\ (0 < st -> 0 <= s <= n /\ 0 <= e <= n) /\ (st < 0 -> -1 <= s <= n - 1 /\ -1 <= e <= n - 1).
Proof.
  intros Hn H. unfold slice_indices in H.
  set (step := match c with Some s0 => s0 | None => 1 end) in *.
  destruct (step =? 0) eqn:E0; [discriminate|].
  injection H as <- <- <-.
  split; [lia|].
  destruct (step <? 0) eqn:E1; (split; [intro|intro]; try lia); split;
    [destruct a as [v|]|destruct b as [v|]|destruct a as [v|]|destruct b as [v|]]; try lia;
    destruct (v <? 0) eqn:E2; lia.
Qed.

(* positions selected by a slice lie on the axis *)
Lemma slice_positions_in_range n a b c ps x : 0 <= n ->
  slice_positions n a b c = Some ps -> In x ps -> 0 <= x < n.
Proof.
  intros Hn H Hin. unfold slice_positions in H.
  destruct (slice_indices n a b c) as [[[s e] st]|] eqn:E; [|discriminate].
  injection H as <-.
  destruct (slice_indices_bounds _ _ _ _ _ _ _ Hn E) as [H0 [Hp Hm]].
  destruct (py_range_bounds _ _ _ _ H0 Hin) as [Bp Bm].
  destruct (Z_lt_ge_dec 0 st); [specialize (Hp ltac:(lia)); specialize (Bp ltac:(lia))
                               |specialize (Hm ltac:(lia)); specialize (Bm ltac:(lia))]; lia.
Qed.

(* a normalised positive-step (or in-range negative-step) triple is a fixed point of normalisation *)
Lemma slice_indices_idem n s e st : 0 <= n -> st <> 0 ->
  (0 < st -> 0 <= s <= n /\ 0 <= e <= n) -> (st < 0 -> 0 <= s <= n - 1 /\ 0 <= e <= n - 1) ->
  slice_indices n (Some s) (Some e) (Some st) = Some (s, e, st).
Proof.
  intros Hn H0 Hp Hm. unfold slice_indices.
  assert (E0 : (st =? 0) = false) by lia. rewrite E0.
  destruct (st <? 0) eqn:E1.
  - specialize (Hm ltac:(lia)).
    assert (Es : (s <? 0) = false) by lia. assert (Ee : (e <? 0) = false) by lia.
    rewrite Es, Ee. repeat f_equal; lia.
  - specialize (Hp ltac:(lia)).
    assert (Es : (s <? 0) = false) by lia. assert (Ee : (e <? 0) = false) by lia.
    rewrite Es, Ee. repeat f_equal; lia.
Qed.

(* the full slice *)
Lemma slice_indices_full n : slice_indices n None None None = Some (0, n, 1).
Proof. reflexivity. Qed.

Lemma py_range_unit s e : s <= e -> py_range s e 1 = range_list s 1 (Z.to_nat (e - s)).
Proof.
  intro H. unfold py_range, range_len. cbn [Z.ltb Z.compare].
  destruct (s <? e) eqn:E.
  - rewrite Z.div_1_r. f_equal. lia.
  - assert (e = s) by lia. subst. rewrite Z.sub_diag. reflexivity.
Qed.

Lemma py_range_full n : 0 <= n -> py_range 0 n 1 = zrange n.
Proof. intro H. rewrite py_range_unit by lia. unfold zrange. f_equal. lia. Qed.

Lemma py_range_empty s e st : range_len s e st = 0 -> py_range s e st = [].
Proof. intro H. unfold py_range. rewrite H. reflexivity. Qed.
