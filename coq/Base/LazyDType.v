(* C05: dtypes of the arrays met by LazyIndexer / ConcatenatedLazyIndexer, numpy's promotion between them
   (np.concatenate / np.result_type), the value effect of a cast (ndarray.astype, assignment into an array of
   another dtype) and the encoding of array elements as integers used by the executable model.

   dtype codes (Z):  0 int64 | 1 float64 | 2 float32 | 3 bool | 4 complex128 | 5 complex64 | 100 + w  '|Sw' (w >= 1)
   kinds are ordered bool < int < float < complex; byte strings are ordered by width and promote among
   themselves only (katdal's _initial_dtype accepts exactly: all dtypes equal, or all byte strings).

   element encoding (one Z per element):
     bool          0 / 1
     int, float    the (integral) value
     complex       re + cK * im            (|re| < cK / 2, integral parts)
     '|Sw'         little-endian integer of the bytes (numpy strips trailing NULs: injective on what numpy shows)
   so that  a * z + b  on Z is the numpy value of  data * a + b  for every numeric kind, a cast to a narrower byte
   string is  mod 256^w , complex -> real is the centred remainder mod cK and anything -> bool is  <> 0. *)
From Coq Require Import ZArith List Bool Lia.
From KV Require Import Base.AxisIndex Base.NdArray.
Import ListNotations.
Open Scope Z_scope.

Definition cK : Z := 1048576.

Definition is_bytes (d : Z) : bool := 100 <? d.
Definition is_complex (d : Z) : bool := (d =? 4) || (d =? 5).

Definition kind_rank (d : Z) : Z :=
  if d =? 3 then 0 else if d =? 0 then 1 else if (d =? 1) || (d =? 2) then 2 else if is_complex d then 3 else -1.
(* 0: no precision of its own (bool), 1: 32-bit float class, 2: 64-bit class (int64 needs float64) *)
Definition prec (d : Z) : Z := if d =? 3 then 0 else if (d =? 2) || (d =? 5) then 1 else 2.
Definition of_kind_prec (k p : Z) : Z :=
  if k =? 0 then 3 else if k =? 1 then 0 else if k =? 2 then (if p <=? 1 then 2 else 1) else (if p <=? 1 then 5 else 4).

(* np.result_type of two dtypes of the table (byte strings and numbers do not mix here) *)
Definition promote (a b : Z) : res Z :=
  if a =? b then Ok a
  else if is_bytes a && is_bytes b then Ok (Z.max a b)
  else if (0 <=? kind_rank a) && (0 <=? kind_rank b)
       then Ok (of_kind_prec (Z.max (kind_rank a) (kind_rank b)) (Z.max (prec a) (prec b)))
       else Err.

(* dtype of np.concatenate of arrays with these dtypes *)
Definition promote_all (l : list Z) : res Z :=
  match l with
  | [] => Err
  | d :: r => fold_left (fun acc x => a <- acc ;; promote a x) r (Ok d)
  end.

(* katdal's ConcatenatedLazyIndexer._initial_dtype on the dtypes of the kept indexers:
   one distinct dtype -> that one; all byte strings -> '|S%d' % max(itemsize); otherwise ConcatenationError *)
Definition common_dtype (l : list Z) : res Z :=
  match l with
  | [] => Err
  | d :: r => if forallb (fun q => q =? d) r then Ok d
              else if forallb is_bytes (d :: r) then Ok (fold_left Z.max r d)
              else Err
  end.

(* [a] can be stored in an array of dtype [b] without changing any value *)
Definition dtype_le (a b : Z) : Prop := a = b \/ (is_bytes a = true /\ is_bytes b = true /\ a <= b).

Definition cre (v : Z) : Z := (v + cK / 2) mod cK - cK / 2.

(* value of an element of dtype [from] after .astype(to) / assignment into an array of dtype [to] *)
Definition cast_val (from to v : Z) : Z :=
  if from =? to then v
  else if is_bytes to then (if is_bytes from then (if from <=? to then v else v mod 256 ^ (to - 100)) else v)
  else if to =? 3 then (if v =? 0 then 0 else 1)
  else if is_complex from && negb (is_complex to) then cre v
  else v.

(* the test data: element with C-order label [v] of a source of dtype [dt] *)
Fixpoint bytes_val (n : nat) (v i : Z) : Z :=
  match n with O => 0 | S k => (97 + (v + 5 * i) mod 26) + 256 * bytes_val k v (i + 1) end.
Definition enc_val (dt v : Z) : Z :=
  if dt =? 3 then (v + v / 2) mod 2
  else if is_complex dt then v + cK * (v mod 7 - 3)
  else if is_bytes dt then bytes_val (Z.to_nat (1 + v mod (dt - 100))) v 0
  else v.

(* ---------------------------------------------------------------- lemmas *)

Lemma dtype_le_refl a : dtype_le a a.
Proof. now left. Qed.

Lemma cast_widen from to v : dtype_le from to -> cast_val from to v = v.
Proof.
  intros [->|[Ha [Hb Hle]]]; unfold cast_val.
  - now rewrite Z.eqb_refl.
  - destruct (from =? to); [reflexivity|]. rewrite Hb, Ha.
    assert (E : (from <=? to) = true) by lia. now rewrite E.
Qed.

Lemma tree_map_id f : (forall v, f v = v) -> forall t, tree_map f t = t.
Proof.
  intro H. fix IH 1. intros [a|ch]; cbn [tree_map]; [now rewrite H|]. f_equal.
  induction ch as [|x r IHr]; [reflexivity|]. rewrite (IH x). now rewrite IHr.
Qed.

Lemma fold_max_ge : forall r d, d <= fold_left Z.max r d /\ Forall (fun x => x <= fold_left Z.max r d) r.
Proof.
  induction r as [|x r IH]; intro d; cbn [fold_left]; [split; [lia|constructor]|].
  destruct (IH (Z.max d x)) as [H1 H2]. split; [lia|]. constructor; [lia|exact H2].
Qed.

Lemma fold_max_bytes : forall r d, is_bytes d = true -> is_bytes (fold_left Z.max r d) = true.
Proof.
  intros r d H. destruct (fold_max_ge r d) as [G _]. unfold is_bytes in *. lia.
Qed.

Lemma promote_fold_same d : forall r, forallb (fun q => q =? d) r = true ->
  fold_left (fun acc x => a <- acc ;; promote a x) r (Ok d) = Ok d.
Proof.
  induction r as [|x r IH]; intro H; [reflexivity|]. cbn [forallb] in H. apply andb_prop in H. destruct H as [H1 H2].
  cbn [fold_left bind]. unfold promote at 2. assert (E : (d =? x) = true) by lia. rewrite E. now apply IH.
Qed.

Lemma promote_fold_bytes : forall r d, is_bytes d = true -> forallb is_bytes r = true ->
  fold_left (fun acc x => a <- acc ;; promote a x) r (Ok d) = Ok (fold_left Z.max r d).
Proof.
  induction r as [|x r IH]; intros d Hd H; [reflexivity|]. cbn [forallb] in H. apply andb_prop in H. destruct H as [H1 H2].
  cbn [fold_left bind].
  assert (E : promote d x = Ok (Z.max d x)).
  { unfold promote. destruct (d =? x) eqn:E; [f_equal; lia|]. now rewrite Hd, H1. }
  rewrite E. apply IH; [|exact H2]. unfold is_bytes in *. lia.
Qed.

(* what _initial_dtype guarantees: every kept part fits the common dtype, which is numpy's promotion of them *)
Lemma common_dtype_spec l dt : common_dtype l = Ok dt ->
  Forall (fun d => dtype_le d dt) l /\ promote_all l = Ok dt.
Proof.
  destruct l as [|d r]; [discriminate|]. unfold common_dtype, promote_all.
  destruct (forallb (fun q => q =? d) r) eqn:E1.
  - intro H. injection H as <-. split; [|now apply promote_fold_same].
    constructor; [now left|]. rewrite forallb_forall in E1. apply Forall_forall. intros x Hx. left. specialize (E1 x Hx). lia.
  - destruct (forallb is_bytes (d :: r)) eqn:E2; [|discriminate]. intro H. injection H as <-.
    cbn [forallb] in E2. apply andb_prop in E2. destruct E2 as [Hd Hr].
    split; [|now apply promote_fold_bytes].
    destruct (fold_max_ge r d) as [G1 G2]. pose proof (fold_max_bytes r d Hd) as GB.
    constructor; [right; auto|]. rewrite forallb_forall in Hr. rewrite Forall_forall in G2. apply Forall_forall.
    intros x Hx. right. split; [now apply Hr|]. split; [exact GB|now apply G2].
Qed.

Lemma kind_rank_dom a : 0 <= kind_rank a -> a = 0 \/ a = 1 \/ a = 2 \/ a = 3 \/ a = 4 \/ a = 5.
Proof.
  unfold kind_rank, is_complex. intro H.
  destruct (a =? 3) eqn:E3; [lia|]. destruct (a =? 0) eqn:E0; [lia|].
  destruct (a =? 1) eqn:E1; [lia|]. destruct (a =? 2) eqn:E2; [lia|].
  destruct (a =? 4) eqn:E4; [lia|]. destruct (a =? 5) eqn:E5; [lia|]. cbn in H. lia.
Qed.

(* np.concatenate only ever casts to the promoted dtype, and such a cast keeps every value (in this encoding) *)
Lemma promote_cast_id a b c v : promote a b = Ok c -> cast_val a c v = v /\ cast_val b c v = v.
Proof.
  unfold promote. destruct (a =? b) eqn:E.
  - intro H. injection H as <-. assert (a = b) by lia. subst b. unfold cast_val. now rewrite Z.eqb_refl.
  - destruct (is_bytes a && is_bytes b) eqn:EB.
    + intro H. injection H as <-. apply andb_prop in EB. destruct EB as [Ha Hb].
      split; apply cast_widen; right; (split; [assumption|]); (split; [unfold is_bytes in *; lia|lia]).
    + destruct ((0 <=? kind_rank a) && (0 <=? kind_rank b)) eqn:EK; [|discriminate]. intro H. injection H as <-.
      apply andb_prop in EK. destruct EK as [Ka Kb].
      apply Z.leb_le in Ka, Kb. apply kind_rank_dom in Ka, Kb.
      destruct Ka as [Ha|[Ha|[Ha|[Ha|[Ha|Ha]]]]]; destruct Kb as [Hb|[Hb|[Hb|[Hb|[Hb|Hb]]]]]; subst a b;
        try discriminate E; split; reflexivity.
Qed.
