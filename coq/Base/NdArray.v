(* N-dimensional arrays and numpy OUTER indexing (shared: C05, later C04 / C01 / C19).

   An array is a nested list ([tree]: [Leaf] = element, [Node] = one axis) together
   with its shape ([nd], the shape is carried explicitly because an empty axis hides
   the lengths of the axes below it).  Outer indexing treats every axis separately:
   [take t sels] selects, on axis k, the positions [fst (nth k sels)] (in that order)
   and drops the axis when [snd (nth k sels)] is true (integer index; the single
   position is then the head of the list).  [sel] lists are what [AxisIndex.resolve]
   returns, so  [oindex a ixs = take a (resolve shape ixs)].

   Outer indexing is data-oblivious: the theorems hold for every content, and the
   correspondence harness labels the elements of a source injectively
   ([arange base shape] = base + C-order offset) so that positions are observable. *)
From Coq Require Import ZArith List Bool Lia.
From KV Require Import Base.PySlice Base.AxisIndex.
Import ListNotations.
Open Scope Z_scope.

Inductive tree : Type := Leaf (a : Z) | Node (ch : list tree).

Definition sel : Type := (list Z * bool)%type.

Definition children (t : tree) : list tree := match t with Node ch => ch | Leaf _ => [] end.
Definition child (t : tree) (p : Z) : tree := nth (Z.to_nat p) (children t) (Leaf 0).

Fixpoint take (t : tree) (sels : list sel) : tree :=
  match sels with
  | [] => t
  | (ps, dropped) :: rest =>
      if dropped then take (child t (hd 0 ps)) rest
      else Node (map (fun p => take (child t p) rest) ps)
  end.

(* shape of [take t sels] for an array of [length sels] axes *)
Fixpoint take_shape (sels : list sel) : list Z :=
  match sels with
  | [] => []
  | (ps, dropped) :: rest => if dropped then take_shape rest else zlen ps :: take_shape rest
  end.

Record nd := mk_nd { nd_shape : list Z; nd_body : tree }.

(* C-order labelled array: element at multi-index (i0, i1, ...) is  base*prod(shape) + ravel(i) *)
Fixpoint arange (shape : list Z) (acc : Z) : tree :=
  match shape with
  | [] => Leaf acc
  | d :: r => Node (map (fun i => arange r (acc * d + i)) (zrange d))
  end.

Fixpoint flatten (t : tree) : list Z :=
  match t with
  | Leaf a => [a]
  | Node ch => (fix go (l : list tree) : list Z := match l with [] => [] | x :: r => flatten x ++ go r end) ch
  end.

Fixpoint tree_map (f : Z -> Z) (t : tree) : tree :=
  match t with
  | Leaf a => Leaf (f a)
  | Node ch => Node ((fix go (l : list tree) : list tree := match l with [] => [] | x :: r => tree_map f x :: go r end) ch)
  end.

(* data[..., np.newaxis] *)
Fixpoint add_last (t : tree) : tree :=
  match t with
  | Leaf a => Node [Leaf a]
  | Node ch => Node ((fix go (l : list tree) : list tree := match l with [] => [] | x :: r => add_last x :: go r end) ch)
  end.

(* concatenation along the first axis *)
Definition cat (ts : list tree) : tree := Node (flat_map children ts).

(* selections of all positions of every axis of [shape] *)
Definition full_sels (shape : list Z) : list sel := map (fun d => (zrange d, false)) shape.

(* outer indexing of an array with an index tuple (padded / truncated to the number of axes) *)
Definition resolve_all (shape : list Z) (ixs : list aidx) : res (list sel) :=
  mapM (fun p => resolve (fst p) (snd p)) (combine shape (pad_to (List.length shape) ixs)).

Definition oindex (a : nd) (ixs : list aidx) : res nd :=
  sels <- resolve_all (nd_shape a) ixs ;;
  Ok (mk_nd (take_shape sels) (take (nd_body a) sels)).

(* first-stage variant keeping integer-indexed axes with length 1 *)
Definition keep_sels (shape : list Z) (ixs : list aidx) : res (list sel) :=
  mapM (fun p => ps <- resolve_keep (fst p) (snd p) ;; Ok (ps, false)) (combine shape (pad_to (List.length shape) ixs)).

Definition oindex_keep (a : nd) (ixs : list aidx) : res nd :=
  sels <- keep_sels (nd_shape a) ixs ;;
  Ok (mk_nd (take_shape sels) (take (nd_body a) sels)).

(* composition of a non-dropping selection with a second one, axis by axis *)
Definition compose_sel (s1 s2 : sel) : sel := (map (znth (fst s1)) (fst s2), snd s2).
Fixpoint compose_sels (s1 s2 : list sel) : list sel :=
  match s1, s2 with
  | a :: r1, b :: r2 => compose_sel a b :: compose_sels r1 r2
  | _, _ => []
  end.

(* ------------------------------------------------------------------ lemmas *)

Lemma take_shape_keep sels : Forall (fun s => snd s = false) sels -> take_shape sels = map (fun s => zlen (fst s)) sels.
Proof.
  induction 1 as [|[ps d] r H _ IH]; cbn; [reflexivity|]. cbn in H. subst d. now rewrite IH.
Qed.

Lemma child_node_map {A} (f : A -> tree) (l : list A) (d : A) p :
  0 <= p < zlen l -> child (Node (map f l)) p = f (nth (Z.to_nat p) l d).
Proof.
  intro H. unfold child, children.
  rewrite nth_indep with (d' := f d) by (rewrite map_length; unfold zlen in H; lia).
  apply map_nth.
Qed.

(* THE composition law of outer indexing: indexing the result of a (non-dropping)
   selection equals indexing the source with the composed positions. *)
Lemma take_compose t s1 s2 :
  List.length s1 = List.length s2 ->
  Forall (fun s => snd s = false) s1 ->
  Forall2 (fun a b => in_range (zlen (fst a)) (fst b) /\ (snd b = true -> fst b <> [])) s1 s2 ->
  take (take t s1) s2 = take t (compose_sels s1 s2).
Proof.
  revert t s2. induction s1 as [|[p1 d1] r1 IH]; intros t s2 Hlen Hk Hr.
  - destruct s2; [reflexivity|discriminate].
  - destruct s2 as [|[p2 d2] r2]; [discriminate|].
    inversion Hk as [|? ? Hd1 Hk']; subst. cbn in Hd1. subst d1.
    inversion Hr as [|? ? ? ? [Hin Hne] Hr']; subst. cbn in Hin, Hne.
    cbn [take compose_sels compose_sel fst snd].
    destruct d2.
    + destruct p2 as [|q p2]; [now specialize (Hne eq_refl)|].
      cbn [hd map]. inversion Hin; subst.
      rewrite child_node_map with (d := 0) by assumption.
      apply IH; auto.
    + f_equal. rewrite map_map. apply map_ext_in. intros q Hq.
      unfold in_range in Hin. rewrite Forall_forall in Hin. specialize (Hin q Hq).
      rewrite child_node_map with (d := 0) by assumption.
      apply IH; auto.
Qed.

Lemma take_shape_compose s1 s2 : List.length s1 = List.length s2 ->
  take_shape (compose_sels s1 s2) = take_shape s2.
Proof.
  revert s2. induction s1 as [|[p1 d1] r1 IH]; intros [|[p2 d2] r2] H; try discriminate; [reflexivity|].
  cbn. injection H as H. rewrite IH by assumption. now rewrite zlen_map.
Qed.

(* children of a concatenation *)
Lemma children_cat ts : children (cat ts) = flat_map children ts.
Proof. reflexivity. Qed.
