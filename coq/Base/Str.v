(* Strings on the wire: a string is a list of character codes. *)
From Coq Require Import ZArith List Bool String Ascii.
From KV Require Import Base.Sx.
Import ListNotations.
Open Scope Z_scope.

Fixpoint string_of_codes (l : list Z) : string :=
  match l with
  | [] => EmptyString
  | c :: t => String (ascii_of_N (Z.to_N c)) (string_of_codes t)
  end.
Fixpoint codes_of_string (s : string) : list Z :=
  match s with
  | EmptyString => []
  | String a t => Z.of_N (N_of_ascii a) :: codes_of_string t
  end.
Definition to_string (x : sx) : string := string_of_codes (to_Zs x).
Definition of_string (s : string) : sx := of_Zs (codes_of_string s).
Definition to_strings (x : sx) : list string := map to_string (to_list x).

Definition is_space (a : ascii) : bool :=
  let n := N_of_ascii a in
  (N.eqb n 32 || (N.leb 9 n && N.leb n 13) || (N.leb 28 n && N.leb n 31))%bool.

Fixpoint lstrip (s : string) : string :=
  match s with
  | String a t => if is_space a then lstrip t else s
  | EmptyString => EmptyString
  end.
Fixpoint srev_app (s acc : string) : string :=
  match s with EmptyString => acc | String a t => srev_app t (String a acc) end.
Definition srev (s : string) : string := srev_app s EmptyString.
Definition strip (s : string) : string := srev (lstrip (srev (lstrip s))).

(* Python's s.split(',') : always at least one field *)
Fixpoint split_comma_aux (s : string) (cur : string) : list string :=
  match s with
  | EmptyString => [srev cur]
  | String a t => if Ascii.eqb a ","%char then srev cur :: split_comma_aux t EmptyString
                  else split_comma_aux t (String a cur)
  end.
Definition split_comma (s : string) : list string := split_comma_aux s EmptyString.

Fixpoint index_of (x : string) (l : list string) : option nat :=
  match l with
  | [] => None
  | y :: t => if String.eqb x y then Some O else option_map S (index_of x t)
  end.
Definition mem_string (x : string) (l : list string) : bool :=
  existsb (String.eqb x) l.
