(* Per-axis index expressions and their numpy meaning (shared: C05, later C04 / C01 / C19).

   [aidx] is one item of an index tuple: an integer, a slice, a boolean mask or a
   sequence of integers.  [resolve n ix] is what numpy does with that item on an
   axis of length [n] under OUTER indexing: the list of selected positions (each in
   [0, n), in output order, repeats allowed) and whether the axis is dropped from the
   result (integer index).  [Err] = numpy raises (IndexError / ValueError):
   out-of-range integer, zero slice step, mask whose length is not [n].

   [resolve_keep] is the "keepdims" variant used for a first-stage selection that keeps
   an integer-indexed axis with length 1 (katdal's LazyIndexer: np.atleast_1d).  *)
From Coq Require Import ZArith List Bool Lia.
From KV Require Import Base.PySlice.
Import ListNotations.
Open Scope Z_scope.

Inductive res (A : Type) : Type := Ok (a : A) | Err.
Arguments Ok {A} a.
Arguments Err {A}.

Definition bind {A B} (r : res A) (f : A -> res B) : res B :=
  match r with Ok a => f a | Err => Err end.
Notation "x <- r ;; k" := (bind r (fun x => k)) (at level 61, r at next level, right associativity).

Fixpoint mapM {A B} (f : A -> res B) (l : list A) : res (list B) :=
  match l with
  | [] => Ok []
  | x :: r => y <- f x ;; ys <- mapM f r ;; Ok (y :: ys)
  end.

Inductive aidx :=
| AInt (z : Z)
| ASlice (a b c : option Z)
| AMask (m : list bool)
| AList (l : list Z).

(* numpy's treatment of one integer on an axis of length n: negative counts from the end *)
Definition wrap (n z : Z) : option Z :=
  if (0 <=? z) && (z <? n) then Some z
  else if (- n <=? z) && (z <? 0) then Some (z + n)
  else None.

Definition wrap_res (n z : Z) : res Z := match wrap n z with Some p => Ok p | None => Err end.

(* np.nonzero(mask)[0], positions counted from [i] *)
Fixpoint nonzero_from (i : Z) (m : list bool) : list Z :=
  match m with
  | [] => []
  | b :: r => if b then i :: nonzero_from (i + 1) r else nonzero_from (i + 1) r
  end.
Definition nonzero (m : list bool) : list Z := nonzero_from 0 m.

(* l[mask] for len mask = len l *)
Fixpoint select {A} (m : list bool) (l : list A) : list A :=
  match m, l with
  | b :: m', x :: l' => if b then x :: select m' l' else select m' l'
  | _, _ => []
  end.

Definition znth (l : list Z) (i : Z) : Z := nth (Z.to_nat i) l 0.

(* l[i] for an integer i (numpy / Python list semantics) *)
Definition np_get (l : list Z) (i : Z) : res Z :=
  match wrap (zlen l) i with Some p => Ok (znth l p) | None => Err end.
(* l[is] for a sequence of integers *)
Definition np_take (l : list Z) (is : list Z) : res (list Z) := mapM (np_get l) is.

Definition resolve (n : Z) (ix : aidx) : res (list Z * bool) :=
  match ix with
  | AInt z => p <- wrap_res n z ;; Ok ([p], true)
  | ASlice a b c => match slice_positions n a b c with Some ps => Ok (ps, false) | None => Err end
  | AMask m => if zlen m =? n then Ok (nonzero m, false) else Err
  | AList l => ps <- mapM (wrap_res n) l ;; Ok (ps, false)
  end.

Definition resolve_keep (n : Z) (ix : aidx) : res (list Z) :=
  r <- resolve n ix ;; Ok (fst r).

(* pad / truncate an index tuple to [ndim] items (missing axes fully selected, extra items ignored) *)
Definition full : aidx := ASlice None None None.
Fixpoint pad_to (ndim : nat) (ixs : list aidx) : list aidx :=
  match ndim with
  | O => []
  | S k => match ixs with [] => full :: pad_to k [] | x :: r => x :: pad_to k r end
  end.

Definition in_range (n : Z) (ps : list Z) : Prop := Forall (fun p => 0 <= p < n) ps.

(* strictly increasing sequence *)
Fixpoint increasing (l : list Z) : bool :=
  match l with
  | [] => true
  | x :: r => match r with [] => true | y :: _ => (x <? y) && increasing r end
  end.

(* ------------------------------------------------------------------ lemmas *)

Lemma pad_to_length k ixs : List.length (pad_to k ixs) = k.
Proof. revert ixs. induction k; intros [|x r]; cbn; auto. Qed.

Lemma wrap_range n z p : wrap n z = Some p -> 0 <= p < n.
Proof.
  unfold wrap. destruct ((0 <=? z) && (z <? n)) eqn:E1.
  - intro H; injection H as <-. lia.
  - destruct ((- n <=? z) && (z <? 0)) eqn:E2; [|discriminate]. intro H; injection H as <-. lia.
Qed.

Lemma wrap_id n z : 0 <= z < n -> wrap n z = Some z.
Proof. intro H. unfold wrap. assert (E : (0 <=? z) && (z <? n) = true) by lia. now rewrite E. Qed.

Lemma mapM_ok_length {A B} (f : A -> res B) l ys : mapM f l = Ok ys -> List.length ys = List.length l.
Proof.
  revert ys. induction l as [|x r IH]; intros ys H; cbn in H.
  - injection H as <-. reflexivity.
  - destruct (f x); [|discriminate]. cbn in H. destruct (mapM f r); [|discriminate]. cbn in H.
    injection H as <-. cbn. f_equal. now apply IH.
Qed.

Lemma mapM_ok_Forall2 {A B} (f : A -> res B) l ys : mapM f l = Ok ys -> Forall2 (fun x y => f x = Ok y) l ys.
Proof.
  revert ys. induction l as [|x r IH]; intros ys H; cbn in H.
  - injection H as <-. constructor.
  - destruct (f x) eqn:E; [|discriminate]. cbn in H. destruct (mapM f r); [|discriminate]. cbn in H.
    injection H as <-. constructor; auto.
Qed.

Lemma mapM_ext_in {A B} (f g : A -> res B) l : (forall x, In x l -> f x = g x) -> mapM f l = mapM g l.
Proof.
  induction l as [|x r IH]; intro H; cbn; [reflexivity|].
  rewrite (H x) by (now left). rewrite IH; [reflexivity|]. intros y Hy. apply H. now right.
Qed.

Lemma mapM_map {A B C} (f : B -> res C) (g : A -> B) l : mapM f (map g l) = mapM (fun x => f (g x)) l.
Proof. induction l as [|x r IH]; cbn; [reflexivity|]. now rewrite IH. Qed.

Lemma mapM_pure {A B} (f : A -> B) l : mapM (fun x => Ok (f x)) l = Ok (map f l).
Proof. induction l as [|x r IH]; cbn; [reflexivity|]. rewrite IH. reflexivity. Qed.

Lemma nonzero_from_range i m x : In x (nonzero_from i m) -> i <= x < i + zlen m.
Proof.
  revert i. induction m as [|b r IH]; intros i H; cbn in H; [contradiction|].
  rewrite zlen_cons. destruct b.
  - destruct H as [<-|H]; [pose proof (zlen_nonneg r); lia|]. apply IH in H. lia.
  - apply IH in H. lia.
Qed.

Lemma nonzero_from_increasing i m : increasing (nonzero_from i m) = true.
Proof.
  revert i. induction m as [|b r IH]; intro i; cbn; [reflexivity|].
  destruct b; [|apply IH].
  cbn [increasing]. destruct (nonzero_from (i + 1) r) as [|y t] eqn:E; [reflexivity|].
  rewrite <- E, IH.
  assert (In y (nonzero_from (i + 1) r)) by (rewrite E; now left).
  apply nonzero_from_range in H. rewrite andb_true_r. lia.
Qed.

(* positions produced by resolve are on the axis *)
Lemma resolve_in_range n ix ps d : 0 <= n -> resolve n ix = Ok (ps, d) -> in_range n ps.
Proof.
  intros Hn H. destruct ix as [z|a b c|m|l]; cbn in H.
  - unfold wrap_res in H. destruct (wrap n z) eqn:E; [|discriminate]. cbn in H. injection H as <- <-.
    constructor; [|constructor]. eapply wrap_range; eauto.
  - destruct (slice_positions n a b c) eqn:E; [|discriminate]. injection H as <- <-.
    apply Forall_forall. intros x Hx. eapply slice_positions_in_range; eauto.
  - destruct (zlen m =? n) eqn:E; [|discriminate]. injection H as <- <-.
    apply Forall_forall. intros x Hx. apply nonzero_from_range in Hx. lia.
  - destruct (mapM (wrap_res n) l) eqn:E; [|discriminate]. cbn in H. injection H as <- <-.
    apply mapM_ok_Forall2 in E. induction E; constructor; auto.
    unfold wrap_res in H. destruct (wrap n x) eqn:E2; [|discriminate]. injection H as <-.
    eapply wrap_range; eauto.
Qed.
