(* Wire format between the Python harness and the extracted models. *)
From Coq Require Import ZArith List Bool.
Import ListNotations.
Open Scope Z_scope.

Inductive sx := I (z : Z) | L (l : list sx).

Definition sx_err : sx := L [I (-999)].

Definition of_bool (b : bool) : sx := I (if b then 1 else 0).
Definition to_bool (x : sx) : bool := match x with I 0 => false | I _ => true | L _ => false end.
Definition to_Z (x : sx) : Z := match x with I z => z | L _ => 0 end.
Definition to_list (x : sx) : list sx := match x with L l => l | I _ => [] end.
Definition to_Zs (x : sx) : list Z := map to_Z (to_list x).
Definition of_Zs (l : list Z) : sx := L (map I l).
Definition to_bools (x : sx) : list bool := map to_bool (to_list x).
Definition of_bools (l : list bool) : sx := L (map of_bool l).
Definition to_nat (x : sx) : nat := Z.to_nat (to_Z x).
Definition of_nat (n : nat) : sx := I (Z.of_nat n).
Definition to_nats (x : sx) : list nat := map to_nat (to_list x).
Definition of_nats (l : list nat) : sx := L (map of_nat l).
(* option Z : () is None, (z) is Some z *)
Definition to_optZ (x : sx) : option Z := match x with L [I z] => Some z | _ => None end.
Definition of_optZ (o : option Z) : sx := match o with Some z => L [I z] | None => L [] end.
