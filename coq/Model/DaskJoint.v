(* C04 — joint retrieval (DaskLazyIndexer.get of several indexers in ONE call): several chunk stores, several
   stored arrays, several indexers derived from one stored array; dask names (graph keys) of the selected arrays and
   the sharing of chunk reads inside the one computation.  Definitions only; proofs in Proofs/DaskJointP.v. *)
From Coq Require Import ZArith List Bool.
From KV Require Import Base.Sx Model.DaskIdx.
Import ListNotations.
Open Scope Z_scope.

(* ------------------------------------------------------------------------------------------- *)
(* Values: get() keyed by dask names                                                           *)
(* ------------------------------------------------------------------------------------------- *)
(* An indexer as the caller built it: the stored array it derives from (which store, which array name) and the
   chain of (keep, transform codes) levels, innermost first.  A level made by get_dask_array(index=...) is a level
   with no transforms. *)
Definition j_level := (list d_aidx * list Z)%type.
Record j_ind := JI { ji_store : Z; ji_name : Z; ji_chain : list j_level }.

Section World.
  Variable w : Z -> Z -> d_arr.            (* contents of array `name` held by store `store` *)
  Variable tf : Z -> d_arr -> d_arr.       (* transforms, by code *)

  Definition j_sem (i : j_ind) : d_ind :=
    let a := w (ji_store i) (ji_name i) in
    match ji_chain i with
    | [] => DBase a [] []
    | (k, t) :: r => fold_left (fun acc lv => DNest acc (fst lv) (map tf (snd lv))) r (DBase a k (map tf t))
    end.

  (* the dask name of the selected array, as far as get() and the merged graph can see it *)
  Variable K : Type.
  Variable keqb : K -> K -> bool.
  Variable name : j_ind -> K.

  (* kept = [dask_getitem(array.dataset, keep) for array in arrays]  — (name, value | raises) *)
  Definition j_kept (l : list j_ind) (k2 : list d_aidx) : list (K * option d_arr) :=
    map (fun i => (name i, d_index (j_sem i) k2)) l.
  (* first.setdefault(array.name, (array, target)): the FIRST selected array carrying this name is the one computed;
     (the merged dask graph likewise holds one task per key) *)
  Definition j_first (kept : list (K * option d_arr)) (n : K) : option d_arr :=
    match find (fun p => keqb (fst p) n) kept with Some p => snd p | None => None end.
  (* get(arrays, keep): every output receives the array computed for its name *)
  Definition j_get (l : list j_ind) (k2 : list d_aidx) : option (list d_arr) :=
    let kept := j_kept l k2 in
    d_sequence (map (fun p => j_first kept (fst p)) kept).
End World.

(* the name as katdal/dask build it: array name + token(store, chunks, dtype, index) for the stored array, then one
   token per slicing / transform step — a function of (store, array name, chain) that separates different triples *)
Definition d_slice_eq_dec : forall a b : d_slice, {a = b} + {a <> b}.
Proof. repeat decide equality. Defined.
Definition d_aidx_eq_dec : forall a b : d_aidx, {a = b} + {a <> b}.
Proof. decide equality; try apply d_slice_eq_dec; try apply Z.eq_dec; apply list_eq_dec; try apply Z.eq_dec; apply bool_dec. Defined.
Definition j_level_eq_dec : forall a b : j_level, {a = b} + {a <> b}.
Proof. decide equality; apply list_eq_dec; try apply Z.eq_dec; apply d_aidx_eq_dec. Defined.
Definition j_ind_eq_dec : forall a b : j_ind, {a = b} + {a <> b}.
Proof. decide equality; try apply Z.eq_dec; apply list_eq_dec; apply j_level_eq_dec. Defined.
Definition j_ind_eqb (a b : j_ind) : bool := if j_ind_eq_dec a b then true else false.
Definition j_name (i : j_ind) : j_ind := i.

(* a naming scheme that forgets the store (array name + chain only): the counter-model of C04_joint_names_need_store *)
Definition j_name_nostore (i : j_ind) : Z * list j_level := (ji_name i, ji_chain i).
Definition j_nostore_eqb (a b : Z * list j_level) : bool :=
  (fst a =? fst b) && (if list_eq_dec j_level_eq_dec (snd a) (snd b) then true else false).

(* ------------------------------------------------------------------------------------------- *)
(* Reads of a joint request                                                                    *)
(* ------------------------------------------------------------------------------------------- *)
(* a contiguous indexer: its stored array and, for each stored axis, (chunk sizes, the indices that reach this axis
   stage by stage) — the per-axis view of Model/DaskIdx.v (d_reads_axis / d_spec_reads_axis) *)
Record j_rind := JR { jr_store : Z; jr_name : Z; jr_axes : list (list Z * list d_aidx) }.
(* one chunk-fetch task = one call of store.get_chunk(name, chunk): (store, array name, chunk id per axis) *)
Definition j_key := (Z * Z * list Z)%type.
Definition j_key_dec : forall a b : j_key, {a = b} + {a <> b}.
Proof. decide equality; [apply list_eq_dec; apply Z.eq_dec|decide equality; apply Z.eq_dec]. Defined.

Fixpoint d_product (ls : list (list Z)) : list (list Z) :=
  match ls with
  | [] => [[]]
  | l :: r => flat_map (fun x => map (cons x) (d_product r)) l
  end.

(* the chunk-fetch tasks in the graph of ONE selected array: the product of the per-axis chunk ids *)
Definition j_tasks (f : list Z -> list d_aidx -> option (list Z)) (i : j_rind) : option (list j_key) :=
  match d_sequence (map (fun ax => f (fst ax) (snd ax)) (jr_axes i)) with
  | None => None
  | Some ids => Some (map (fun c => (jr_store i, jr_name i, c)) (d_product ids))
  end.

(* MODEL of get(): ONE dask computation over the merged graph of all selected arrays; tasks are keyed, a key that
   occurs in several arrays is executed once *)
Definition j_reads (l : list j_rind) : option (list j_key) :=
  option_map (fun ls => nodup j_key_dec (concat ls)) (d_sequence (map (j_tasks d_reads_axis) l)).

(* counter-model: one computation per selected array (nothing shared) *)
Definition j_reads_seq (l : list j_rind) : option (list j_key) :=
  option_map (fun ls => concat ls) (d_sequence (map (j_tasks d_reads_axis) l)).

(* SPEC (executable form): of all chunks of the stored arrays involved, exactly those whose extent meets, on every
   axis, the composed region of SOME indexer derived from that stored array; each listed once *)
Definition j_all_chunks (i : j_rind) : list j_key :=
  map (fun c => (jr_store i, jr_name i, c))
      (d_product (map (fun ax => map Z.of_nat (seq 0 (List.length (fst ax)))) (jr_axes i))).

Fixpoint j_forall2b {A B} (p : A -> B -> bool) (l : list A) (m : list B) : bool :=
  match l, m with
  | [], [] => true
  | a :: l', b :: m' => p a b && j_forall2b p l' m'
  | _, _ => false
  end.

Definition j_off (cs : list Z) (id : Z) : Z := fold_right Z.add 0 (firstn (Z.to_nat id) cs).

Definition j_meets_axis (id : Z) (ax : list Z * list d_aidx) : bool :=
  match d_compose_region 0 (fold_right Z.add 0 (fst ax)) (snd ax) with
  | None => false
  | Some (lo, hi) =>
      (0 <=? id) &&
      match nth_error (fst ax) (Z.to_nat id) with
      | None => false
      | Some c => Z.max lo (j_off (fst ax) id) <? Z.min hi (j_off (fst ax) id + c)
      end
  end.

Definition j_overlaps (key : j_key) (i : j_rind) : bool :=
  (jr_store i =? fst (fst key)) && (jr_name i =? snd (fst key)) && j_forall2b j_meets_axis (snd key) (jr_axes i).

Definition j_contig (i : j_rind) : bool :=
  forallb (fun ax => match d_compose_region 0 (fold_right Z.add 0 (fst ax)) (snd ax) with Some _ => true | None => false end)
          (jr_axes i).

Definition j_spec_reads (l : list j_rind) : option (list j_key) :=
  if forallb j_contig l
  then Some (filter (fun key => existsb (j_overlaps key) l) (nodup j_key_dec (flat_map j_all_chunks l)))
  else None.

(* ------------------------------------------------------------------------------------------- *)
(* The hand-made cull of dask_getitem (lazy_indexer.py: "if prod(out.numblocks) < 0.5 * prod(x.numblocks)")   *)
(* ------------------------------------------------------------------------------------------- *)
(* When a dask_getitem call of an indexer keeps less than half of the blocks, katdal flattens the graph of the
   selected array into ONE layer that holds its own copies of the chunk-fetch tasks.  dask's blockwise fusion may then
   fuse the stored array's own layer into another (un-culled) selected array, and the copies are fetched again
   (finding F48).  Not modelled task by task: the model states WHICH selected arrays are culled (tied to the code by
   observing their graphs) and the envelope: a chunk may be fetched a second time only if a culled and an un-culled
   indexer of the same stored array both need it. *)
(* one axis: after each stage, (number of pieces left, at least 1 as in dask; axis dropped by an integer) *)
Fixpoint j_axis_counts (g : d_grid) (ks : list d_aidx) : list (Z * bool) :=
  match ks with
  | [] => []
  | k :: r =>
      match d_region (d_glen g) k with
      | None => []
      | Some (lo, hi) =>
          let g' := d_slice_grid g 0 lo hi in
          (Z.max 1 (Z.of_nat (List.length g')), d_is_int k) :: j_axis_counts g' r
      end
  end.

(* state per axis still alive: (pieces now, what the remaining stages do to it) *)
Fixpoint j_culled_steps (fuel : nat) (st : list (Z * list (Z * bool))) : bool :=
  match fuel with
  | O => false
  | S f =>
      let live := filter (fun a : Z * list (Z * bool) => match snd a with [] => false | _ => true end) st in
      match live with
      | [] => false
      | _ =>
          let before := fold_right Z.mul 1 (map fst live) in
          let next := flat_map (fun a : Z * list (Z * bool) => match snd a with
                                         | (c, dropped) :: r => if (dropped : bool) then [] else [(c, r)]
                                         | [] => [] end) live in
          let after := fold_right Z.mul 1 (map fst next) in
          (2 * after <? before) || j_culled_steps f next
      end
  end.

Definition j_culled (i : j_rind) : bool :=
  j_culled_steps (fold_right Nat.max O (map (fun ax => List.length (snd ax)) (jr_axes i)))
    (map (fun ax => (Z.max 1 (Z.of_nat (List.length (fst ax))), j_axis_counts (d_base_grid (fst ax) 0) (snd ax)))
         (jr_axes i)).

(* the chunks that may be fetched a second time *)
Definition j_twice (l : list j_rind) : list j_key :=
  filter (fun key => existsb (fun i => j_culled i && j_overlaps key i) l &&
                     existsb (fun i => negb (j_culled i) && j_overlaps key i) l)
         (nodup j_key_dec (flat_map j_all_chunks l)).

(* ------------------------------------------------------------------------------------------- *)
(* Wire                                                                                        *)
(* ------------------------------------------------------------------------------------------- *)
(* stored array `name` of store `store` in the correspondence: C-order position + 1000 * (2*store + name) *)
Definition j_world (shape : list Z) (s n : Z) : d_arr :=
  DA shape 0 (fun idx => d_ravel shape idx 0 + 1000 * (2 * s + n)).

Definition j_to_level (x : sx) : j_level :=
  match x with L [k; t] => (d_to_aidxs k, to_Zs t) | _ => ([], []) end.
Definition j_to_ind (x : sx) : j_ind :=
  match x with
  | L [I s; I n; L levels] => JI s n (map j_to_level levels)
  | _ => JI 0 0 []
  end.

(* (shape (ind ...) k2), ind = (store name ((keep transforms) ...))
   -> (model_joint (spec_of_each ...)),  model_joint = (0) | (1 (array ...)) *)
Definition wire_45 (x : sx) : sx :=
  match x with
  | L [shape; L inds; k2] =>
      let l := map j_to_ind inds in
      let k := d_to_aidxs k2 in
      let w := j_world (to_Zs shape) in
      L [match j_get w d_transform j_ind j_ind_eqb j_name l k with
         | None => L [I 0]
         | Some rs => L [I 1; L (map (fun a => d_of_arr (Some a)) rs)]
         end;
         L (map (fun i => d_of_arr (d_spec_index (j_sem w d_transform i) k)) l)]
  | _ => sx_err
  end.

Definition j_to_rind (x : sx) : j_rind :=
  match x with
  | L [I s; I n; L axes] =>
      JR s n (map (fun ax => match ax with L [cs; ks] => (to_Zs cs, d_to_aidxs ks) | _ => ([], []) end) axes)
  | _ => JR 0 0 []
  end.
Definition j_of_keys (o : option (list j_key)) : sx :=
  match o with
  | None => L [I 0]
  | Some ks => L [I 1; L (map (fun k => L [I (fst (fst k)); I (snd (fst k)); of_Zs (snd k)]) ks)]
  end.

(* ((store name ((chunks (k ...)) per axis)) per indexer)
   -> (model spec sequential_counter_model (culled? per indexer) may_be_fetched_twice) *)
Definition wire_46 (x : sx) : sx :=
  let l := map j_to_rind (to_list x) in
  L [j_of_keys (j_reads l); j_of_keys (j_spec_reads l); j_of_keys (j_reads_seq l);
     of_bools (map j_culled l); j_of_keys (Some (j_twice l))].
