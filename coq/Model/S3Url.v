(* C09: WHICH object a request asks for.  S3ChunkStore.make_url = urljoin(store URL, relative path) followed by
   _normalise_bucket_name: underscores in the FIRST path component (the S3 bucket) become dashes - and nothing else
   changes: array names and chunk indices are full of underscores ("correlator_data/00000_00000.npy") and must reach the
   server as they are.  _bucket_url keeps the first component (the bucket that is listed and cached after a 404).
   Paths are lists of character codes; separator and the two characters come from the source (Generated). *)
From Coq Require Import ZArith List Bool String.
From KV Require Import Base.Sx Base.Str Gen.Generated.
Import ListNotations.
Open Scope Z_scope.

(* str.lstrip('/') *)
Fixpoint lstrip_sep (p : list Z) : list Z :=
  match p with c :: t => if c =? s3_path_sep then lstrip_sep t else p | [] => [] end.
(* str.split('/', 1): the first component, and what follows the first separator if there is one *)
Fixpoint split1 (p : list Z) : list Z * option (list Z) :=
  match p with
  | [] => ([], None)
  | c :: t => if c =? s3_path_sep then ([], Some t)
              else let '(a, r) := split1 t in (c :: a, r)
  end.
Definition dash (b : list Z) : list Z := map (fun c => if c =? s3_bucket_from then s3_bucket_to else c) b.
Definition join1 (a : list Z) (r : option (list Z)) : list Z :=
  match r with None => a | Some t => a ++ s3_path_sep :: t end.

(* _normalise_bucket_name on the path of a URL *)
Definition normalise (path : list Z) : list Z :=
  let '(b, r) := split1 (lstrip_sep path) in s3_path_sep :: join1 (dash b) r.
(* _bucket_url on the path of a URL: the first component *)
Definition bucket_of (path : list Z) : list Z := fst (split1 (lstrip_sep path)).

(* the path that S3ChunkStore.get_chunk asks for: chunk name = <bucket>/<array path>/<idx>, plus the extension *)
Definition chunk_path (name : list Z) : list Z := normalise (s3_path_sep :: name ++ codes_of_string s3_chunk_extension).

Definition nosep (s : list Z) : bool := forallb (fun c => negb (c =? s3_path_sep)) s.

(* (path) -> (normalise path, bucket_of (normalise path), bucket_of path) *)
Definition wire_94 (x : sx) : sx :=
  match x with
  | L [p] => let p := to_Zs p in
             L [L (map I (normalise p)); L (map I (bucket_of (normalise p))); L (map I (bucket_of p))]
  | _ => sx_err
  end.
