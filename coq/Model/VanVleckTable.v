(* C15, round 3: the construction of the Van Vleck lookup table, katdal/van_vleck.py autocorr_lookup_table (46-85).

     rxx_grid  = np.r_[np.logspace(lo, 0, size // 2, endpoint=False), np.logspace(0, log10(smax/smin) + 8, size - 2 - size // 2)]
     rxx_grid *= sxx_min_nonzero
     sxx_mean  = _squared_quant_norm0_mean(levels, rxx_grid)
     sxx_table = np.r_[0., sxx_mean, sxx_max]
     rxx_table = np.r_[0., rxx_grid, rxx_grid[-1]]
     return 2. * sxx_table, 2. * rxx_table

   In the model: the grid EXPONENTS (two arithmetic progressions: start, stop, count, endpoint - all regenerated), the
   assembly of the two columns from ANY grid / expected quantised powers (anchor point in front, clip at the top, the two
   factors - all regenerated), the table as np.interp sees it (Model/Interp.v, which takes the LAST of equal abscissae as
   numpy does), and a decision procedure for "usable table" that the harness runs on the real table, exactly.
   Outside the model: 10 ** x and the erf-based expectation _squared_quant_norm0_mean (numerics; their outputs on the real
   levels are checked exactly by the harness on every run). *)
From Coq Require Import ZArith QArith Qcanon List Bool.
From KV Require Import Base.Sx Gen.Generated Model.Interp Model.Weights.
Import ListNotations.
Open Scope Q_scope.

Definition vv_ax : Q := vv_anchor_sxx_num # vv_anchor_sxx_den.
Definition vv_ay : Q := vv_anchor_rxx_num # vv_anchor_rxx_den.
Definition vv_fx : Q := vv_factor_sxx_num # vv_factor_sxx_den.
Definition vv_fy : Q := vv_factor_rxx_num # vv_factor_rxx_den.

(* the two columns: np.r_[ax, mean, smax] and np.r_[ay, grid, grid[-1]], each times its factor; np.interp pairs them *)
Definition vv_xs (ax fx : Q) (mean : list Q) (smax : Q) : list Q := map (Qmult fx) (ax :: mean ++ [smax]).
Definition vv_ys (ay fy : Q) (grid : list Q) : list Q := map (Qmult fy) (ay :: grid ++ [last grid 0]).
Definition vv_table_gen (ax ay fx fy : Q) (grid mean : list Q) (smax : Q) : list node :=
  combine (vv_xs ax fx mean smax) (vv_ys ay fy grid).
Definition vv_table := vv_table_gen vv_ax vv_ay vv_fx vv_fy.

(* ---- the grid exponents: np.linspace(start, stop, num, endpoint) (np.logspace = 10 ** linspace) *)
Definition linspace (endpoint : bool) (a b : Q) (n : nat) : list Q :=
  let d := inject_Z (Z.of_nat (if endpoint then n - 1 else n)) in
  map (fun i => a + inject_Z (Z.of_nat i) * ((b - a) / d)) (seq 0 n).

Definition vv_low_start : Q := vv_low_start_num # vv_low_start_den.
Definition vv_low_stop : Q := vv_low_stop_num # vv_low_stop_den.
Definition vv_high_start : Q := vv_high_start_num # vv_high_start_den.
Definition vv_high_extra : Q := vv_high_extra_num # vv_high_extra_den.

(* exponents of rxx_grid / sxx_min_nonzero for a table of `size` entries; top = log10(sxx_max / sxx_min_nonzero) *)
Definition vv_grid_exponents_gen (lo_ep hi_ep : bool) (lo_a lo_b hi_a extra : Q) (n_low n_high : nat) (top : Q) : list Q :=
  linspace lo_ep lo_a lo_b n_low ++ linspace hi_ep hi_a (top + extra) n_high.
Definition vv_grid_exponents (size : Z) (top : Q) : list Q :=
  vv_grid_exponents_gen vv_low_endpoint vv_high_endpoint vv_low_start vv_low_stop vv_high_start vv_high_extra
    (Z.to_nat (vv_low_count size)) (Z.to_nat (vv_high_count size)) top.

(* number of table entries for a requested size (None: a negative count, numpy raises) *)
Definition vv_table_size (size : Z) : option Z :=
  if (vv_low_count size <? 0)%Z || (vv_high_count size <? 0)%Z then None
  else Some (1 + (vv_low_count size + vv_high_count size) + 1)%Z.

(* ---- predicates on columns *)
Fixpoint sincQ (l : list Q) : Prop :=
  match l with
  | [] => True
  | x0 :: t => match t with [] => True | x1 :: _ => x0 < x1 end /\ sincQ t
  end.
Fixpoint nondecQ (l : list Q) : Prop :=
  match l with
  | [] => True
  | x0 :: t => match t with [] => True | x1 :: _ => x0 <= x1 end /\ nondecQ t
  end.

(* ---- decision procedure run on the real table *)
Definition Qlt_b (a b : Q) : bool := negb (Qle_bool b a).
Fixpoint sinc_b (l : list node) : bool :=
  match l with
  | [] => true
  | (x0, _) :: t => match t with [] => true | (x1, _) :: _ => Qlt_b x0 x1 end && sinc_b t
  end.
Fixpoint nondec_b (l : list node) : bool :=
  match l with
  | [] => true
  | (_, y0) :: t => match t with [] => true | (_, y1) :: _ => Qle_bool y0 y1 end && nondec_b t
  end.
Definition origin_b (l : list node) : bool :=
  match l with (x0, y0) :: _ => Qeq_bool x0 0 && Qeq_bool y0 0 | [] => false end.
(* usable: abscissae strictly increasing, ordinates non-decreasing, first node the origin *)
Definition table_ok_b (l : list node) : bool := sinc_b l && nondec_b l && origin_b l.

(* first position i with NOT (x[i] < x[i+1]) resp. NOT (y[i] <= y[i+1]); -1 if none *)
Fixpoint first_bad (ok : node -> node -> bool) (l : list node) (i : Z) : Z :=
  match l with
  | a :: ((b :: _) as t) => if ok a b then first_bad ok t (i + 1)%Z else i
  | _ => (-1)%Z
  end.

Fixpoint nodes_eq_at (a b : list node) (i : Z) : Z :=
  match a, b with
  | [], [] => (-1)%Z
  | (x, y) :: a', (x', y') :: b' => if Qeq_bool x x' && Qeq_bool y y' then nodes_eq_at a' b' (i + 1)%Z else i
  | _, _ => i
  end.

(* ------------------------------------------------------------------ wire *)
(* 1514: (table) -> (ok first_bad_abscissa first_bad_ordinate origin VV(0) VV(-1) size)   table nodes dyadic ((n k) (n k)) *)
Definition wire_1514 (x : sx) : sx :=
  match x with
  | L [table] =>
      let t := map to_node_d (to_list table) in
      L [of_bool (table_ok_b t);
         I (first_bad (fun a b => Qlt_b (fst a) (fst b)) t 0); I (first_bad (fun a b => Qle_bool (snd a) (snd b)) t 0);
         of_bool (origin_b t); of_Ext_big (vv_interp t (Fin (Q2Qc 0))); of_Ext_big (vv_interp t (Fin (Q2Qc (-1))));
         I (Z.of_nat (List.length t))]
  | _ => sx_err
  end.

(* 1512: (grid mean smax table size) -> (first node where vv_table grid mean smax differs from table | -1,
                                         length of the model table, the size the model predicts | -1)
   grid / mean / smax dyadic (n k); the tie of the construction *)
Definition wire_1512 (x : sx) : sx :=
  match x with
  | L [grid; mean; smax; table; I size] =>
      let t := map to_node_d (to_list table) in
      let m := vv_table (map to_Qd (to_list grid)) (map to_Qd (to_list mean)) (to_Qd smax) in
      L [I (nodes_eq_at m t 0); I (Z.of_nat (List.length m));
         I (match vv_table_size size with Some n => n | None => (-1)%Z end);
         I (Z.of_nat (List.length (vv_grid_exponents size 0)))]
  | _ => sx_err
  end.
