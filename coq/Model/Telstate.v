(* C18: telstate stream resolution and flag-stream upgrade.
   Model of datasources.py: view_capture_stream, view_l0_capture_stream, _shorten_key, the sensor table
   built in TelstateDataSource.__init__, from_url's kwargs merge, _upgrade_flags / _upgrade_chunk_info,
   _align_chunk_info; and of katsdptelstate views (ordered prefix list, first prefix that defines a key). *)
From Coq Require Import ZArith List Bool String Ascii.
From KV Require Import Base.Sx Base.Str.
Import ListNotations.
Open Scope string_scope.

Definition sep : string := "_".
Definition joinp (a b : string) : string := a ++ sep ++ b.

(* ---------- store and views ---------- *)
(* an entry: key, is-mutable (sensor) flag, value id *)
Record entry := mkEntry { e_key : string; e_mut : bool; e_val : Z }.
Definition store := list entry.

Definition find_key (st : store) (k : string) : option entry :=
  find (fun e => String.eqb (e_key e) k) st.

(* TelescopeState.view(name): new prefix searched first *)
Definition view (prefixes : list string) (name : string) : list string := (name ++ sep) :: prefixes.

(* get through a view: first prefix p such that p ++ k is in the store *)
Fixpoint lookup (st : store) (prefixes : list string) (k : string) : option Z :=
  match prefixes with
  | [] => None
  | p :: ps => match find_key st (p ++ k) with
               | Some e => Some (e_val e)
               | None => lookup st ps k
               end
  end.

(* ---------- view_capture_stream ---------- *)
(* inherit chain: telstate.view(stream, exclusive=True).get('inherit'); value ids are mapped to stream names
   by [names]; fuel bounds the (possibly cyclic) chain *)
Definition inherit_of (st : store) (names : Z -> option string) (stream : string) : option string :=
  match find_key st (stream ++ sep ++ "inherit") with
  | Some e => names (e_val e)
  | None => None
  end.

Fixpoint chain (st : store) (names : Z -> option string) (fuel : nat) (stream : string) : option (list string) :=
  match fuel with
  | O => None                       (* cyclic / too long: the real loop would not terminate *)
  | S f => match inherit_of st names stream with
           | None => Some [stream]
           | Some i => option_map (cons stream) (chain st names f i)
           end
  end.

(* streams = [stream; inh1; inh2 ...];  code: streams.reverse(); view each; view cb; view cb_stream each *)
Definition view_capture_stream (cb : string) (streams : list string) : list string :=
  let rs := rev streams in
  let v1 := fold_left view rs [""] in
  let v2 := view v1 cb in
  fold_left (fun v s => view v (joinp cb s)) rs v2.

(* SPEC: most specific first *)
Definition spec_prefixes (cb : string) (streams : list string) : list string :=
  map (fun s => joinp cb s ++ sep) streams ++ [cb ++ sep] ++ map (fun s => s ++ sep) streams ++ [""].

(* ---------- _shorten_key and the sensor table ---------- *)
Definition drop (n : nat) (s : string) : string := substring n (String.length s - n) s.

Fixpoint shorten_key (prefixes : list string) (key : string) : string :=
  match prefixes with
  | [] => ""
  | p :: ps => if String.prefix p key then drop (String.length p) key else shorten_key ps key
  end.

(* rank of the namespace that owns the key (index of first matching prefix) *)
Fixpoint key_rank (prefixes : list string) (key : string) : option nat :=
  match prefixes with
  | [] => None
  | p :: ps => if String.prefix p key then Some O else option_map S (key_rank ps key)
  end.

(* BEFORE the fix of F6:  sensors = {}; for key in telstate.keys(): if MUTABLE: name = shorten(key);
   if name: sensors[name] = key     (dict assignment: later keys overwrite earlier ones).  Kept for the record. *)
Definition table := list (string * string).        (* sensor name -> full key *)
Definition tbl_set (t : table) (n k : string) : table :=
  (n, k) :: filter (fun p => negb (String.eqb (fst p) n)) t.
Definition tbl_get (t : table) (n : string) : option string :=
  option_map snd (find (fun p => String.eqb (fst p) n) t).
Definition sensor_step_unranked (prefixes : list string) (t : table) (e : entry) : table :=
  if e_mut e then
    let n := shorten_key prefixes (e_key e) in
    if String.eqb n "" then t else tbl_set t n (e_key e)
  else t.
Definition sensor_table_unranked (prefixes : list string) (st : store) : table :=
  fold_left (sensor_step_unranked prefixes) st [].

(* AFTER the fix: each entry remembers the rank (index of the owning prefix); a key only replaces an entry of
   the same name when its namespace is at least as specific:
     rank = prefixes.index(key[:len(key) - len(name)]);  if rank <= ranks.get(name, rank): ... *)
Definition rtable := list (string * (nat * string)).        (* sensor name -> (rank, full key) *)
Definition rtbl_set (t : rtable) (n : string) (v : nat * string) : rtable :=
  (n, v) :: filter (fun p => negb (String.eqb (fst p) n)) t.
Definition rtbl_get (t : rtable) (n : string) : option (nat * string) :=
  option_map snd (find (fun p => String.eqb (fst p) n) t).
Definition better (acc : option (nat * string)) (r : nat) (k : string) : option (nat * string) :=
  match acc with
  | Some (r0, k0) => if Nat.leb r r0 then Some (r, k) else Some (r0, k0)
  | None => Some (r, k)
  end.
Definition sensor_step (prefixes : list string) (t : rtable) (e : entry) : rtable :=
  if e_mut e then
    let n := shorten_key prefixes (e_key e) in
    if String.eqb n "" then t else
    match key_rank prefixes (e_key e) with
    | Some r => match better (rtbl_get t n) r (e_key e) with
                | Some v => rtbl_set t n v
                | None => t
                end
    | None => t
    end
  else t.
Definition sensor_table (prefixes : list string) (st : store) : rtable :=
  fold_left (sensor_step prefixes) st [].
Definition sensor_key (prefixes : list string) (st : store) (n : string) : option string :=
  option_map snd (rtbl_get (sensor_table prefixes st) n).

(* SPEC: the sensor [name] is read from the most specific namespace that defines it *)
Fixpoint spec_sensor (st : store) (prefixes : list string) (name : string) : option string :=
  match prefixes with
  | [] => None
  | p :: ps => match find_key st (p ++ name) with
               | Some e => if e_mut e then Some (e_key e) else spec_sensor st ps name
               | None => spec_sensor st ps name
               end
  end.

(* ---------- capture block / stream name resolution ---------- *)
(* from_url: url_kwargs.update(kwargs): keyword beats URL query; view_l0_capture_stream: empty -> telstate *)
Definition resolve_id (kw url file : option string) : option string :=
  let merged := match kw with Some k => Some k | None => url end in
  match merged with
  | Some s => if String.eqb s "" then file else Some s
  | None => file
  end.

Inductive res (A : Type) := Ok (a : A) | Err (code : Z).
Arguments Ok {A} a. Arguments Err {A} code.

(* stream_type check: view.get('stream_type', 'unknown') must be 'sdp.vis' *)
Definition check_stream_type (ty : option string) : bool :=
  match ty with Some t => String.eqb t "sdp.vis" | None => false end.

(* ---------- flag stream upgrade ---------- *)
(* a candidate archived stream: its stream_type, src_streams, flags shape (dumps :: rest) and an id *)
Record fstream := mkF { f_id : Z; f_type : option string; f_src : list string; f_dumps : Z; f_rest : list Z }.
Record cinfo := mkC { c_id : Z; c_dumps : Z; c_rest : list Z }.

Definition zs_eqb (a b : list Z) : bool :=
  (Nat.eqb (List.length a) (List.length b) && forallb (fun p => Z.eqb (fst p) (snd p)) (combine a b))%bool.

Definition is_flag_source (stream : string) (f : fstream) : bool :=
  (match f_type f with Some t => String.eqb t "sdp.flags" | None => false end
   && mem_string stream (f_src f))%bool.

(* _upgrade_flags: for s in archived: if type/sources match: shape[1:] check then replace *)
Fixpoint upgrade_flags (stream : string) (cur : cinfo) (archived : list fstream) : res cinfo :=
  match archived with
  | [] => Ok cur
  | f :: fs =>
      if is_flag_source stream f then
        if zs_eqb (f_rest f) (c_rest cur) then upgrade_flags stream (mkC (f_id f) (f_dumps f) (f_rest f)) fs
        else Err 1
      else upgrade_flags stream cur fs
  end.

(* SPEC: the LAST matching archived flags stream replaces the stream's own flags; any matching stream with an
   incompatible channel/baseline shape is an error *)
Definition spec_upgrade (stream : string) (cur : cinfo) (archived : list fstream) : res cinfo :=
  let ms := filter (is_flag_source stream) archived in
  if forallb (fun f => zs_eqb (f_rest f) (c_rest cur)) ms then
    match rev ms with
    | [] => Ok cur
    | f :: _ => Ok (mkC (f_id f) (f_dumps f) (f_rest f))
    end
  else Err 1.

(* ---------- _align_chunk_info ---------- *)
(* per array: time chunks (list of chunk lengths); phantom chunks of one dump are appended up to max *)
Definition dumps_of (chunks : list Z) : Z := fold_right Z.add 0%Z chunks.
Definition zmax_list (l : list Z) : Z := fold_right Z.max 0%Z l.
Definition align_one (maxd : Z) (chunks : list Z) : list Z :=
  chunks ++ repeat 1%Z (Z.to_nat (maxd - dumps_of chunks)).
Definition align_chunk_info (arrays : list (list Z)) : list (list Z) :=
  let maxd := zmax_list (map dumps_of arrays) in map (align_one maxd) arrays.

(* ---------- wire ---------- *)
Definition to_entry (x : sx) : entry :=
  match x with L [k; m; I v] => mkEntry (to_string k) (to_bool m) v | _ => mkEntry "" false 0 end.
Definition to_store (x : sx) : store := map to_entry (to_list x).
Definition of_optstring (o : option string) : sx := match o with Some s => L [of_string s] | None => L [] end.
Definition to_optstring (x : sx) : option string := match x with L [s] => Some (to_string s) | _ => None end.
Definition names_of (l : list string) (z : Z) : option string := nth_error l (Z.to_nat z).
Definition of_optZ' (o : option Z) : sx := match o with Some z => L [I z] | None => L [] end.
Definition to_fstream (x : sx) : fstream :=
  match x with
  | L [I i; ty; src; I d; rest] => mkF i (to_optstring ty) (to_strings src) d (to_Zs rest)
  | _ => mkF 0 None [] 0 []
  end.
Definition of_res_cinfo (r : res cinfo) : sx :=
  match r with Ok c => L [I (c_id c); I (c_dumps c); of_Zs (c_rest c)] | Err e => L [I (-1); I e] end.

(* (1 store names cb stream)        -> () if chain cyclic | (model_prefixes spec_prefixes)
   (2 store prefixes key)           -> lookup
   (3 store prefixes names)         -> list of (model sensor key, spec sensor key, pre-fix model key) per requested name
   (4 kw url file)                  -> resolved id
   (5 type)                         -> stream type accepted?
   (6 stream (id dumps rest) archived) -> (model spec)
   (7 arrays)                       -> aligned chunks *)
Definition wire_18 (x : sx) : sx :=
  match x with
  | L [I 1; st; names; cb; stream] =>
      let st := to_store st in let names := to_strings names in
      match chain st (names_of names) (S (List.length names)) (to_string stream) with
      | Some streams => L [L (map of_string (view_capture_stream (to_string cb) streams));
                           L (map of_string (spec_prefixes (to_string cb) streams))]
      | None => L []
      end
  | L [I 2; st; prefixes; key] => of_optZ' (lookup (to_store st) (to_strings prefixes) (to_string key))
  | L [I 3; st; prefixes; names] =>
      let st := to_store st in let ps := to_strings prefixes in
      L (map (fun n => L [of_optstring (sensor_key ps st n); of_optstring (spec_sensor st ps n);
                          of_optstring (tbl_get (sensor_table_unranked ps st) n)]) (to_strings names))
  | L [I 4; kw; url; file] => of_optstring (resolve_id (to_optstring kw) (to_optstring url) (to_optstring file))
  | L [I 5; ty] => of_bool (check_stream_type (to_optstring ty))
  | L [I 6; stream; L [I i; I d; rest]; archived] =>
      let cur := mkC i d (to_Zs rest) in let ar := map to_fstream (to_list archived) in
      L [of_res_cinfo (upgrade_flags (to_string stream) cur ar); of_res_cinfo (spec_upgrade (to_string stream) cur ar)]
  | L [I 7; arrays] => L (map of_Zs (align_chunk_info (map to_Zs (to_list arrays))))
  | _ => sx_err
  end.
