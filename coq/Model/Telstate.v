(* C18: telstate stream resolution and flag-stream upgrade.
   Model of datasources.py: view_capture_stream, view_l0_capture_stream, _shorten_key, the sensor table
   built in TelstateDataSource.__init__, from_url's kwargs merge, _upgrade_flags / _upgrade_chunk_info,
   _align_chunk_info; and of katsdptelstate views (ordered prefix list, first prefix that defines a key). *)
From Coq Require Import ZArith List Bool String Ascii.
From KV Require Import Base.Sx Base.Str Gen.Generated.
Import ListNotations.
Open Scope string_scope.

(* Constants and the order of the view() calls come from katdal/datasources.py (and the separator from the
   installed katsdptelstate) through the translator items of harness/vh/items/c18.py:
   ts_sep ts_inherit_key vcs_steps l0_* fl_* ds_* url_keyword_wins. *)
Definition sep : string := ts_sep.
Definition joinp (a b : string) : string := a ++ sep ++ b.

(* ---------- store and views ---------- *)
(* an entry: key, is-mutable (sensor) flag, value id *)
Record entry := mkEntry { e_key : string; e_mut : bool; e_val : Z }.
Definition store := list entry.

Definition find_key (st : store) (k : string) : option entry :=
  find (fun e => String.eqb (e_key e) k) st.

(* TelescopeState.view(name): new prefix searched first *)
Definition view (prefixes : list string) (name : string) : list string := (name ++ sep) :: prefixes.

(* get through a view: first prefix p such that p ++ k is in the store *)
Fixpoint lookup (st : store) (prefixes : list string) (k : string) : option Z :=
  match prefixes with
  | [] => None
  | p :: ps => match find_key st (p ++ k) with
               | Some e => Some (e_val e)
               | None => lookup st ps k
               end
  end.

(* ---------- view_capture_stream ---------- *)
(* inherit chain: telstate.view(stream, exclusive=True).get('inherit'); value ids are mapped to stream names
   by [names]; fuel bounds the (possibly cyclic) chain *)
Definition inherit_of (st : store) (names : Z -> option string) (stream : string) : option string :=
  match find_key st (stream ++ sep ++ ts_inherit_key) with
  | Some e => names (e_val e)
  | None => None
  end.

Fixpoint chain (st : store) (names : Z -> option string) (fuel : nat) (stream : string) : option (list string) :=
  match fuel with
  | O => None                       (* cyclic / too long: the real loop would not terminate *)
  | S f => match inherit_of st names stream with
           | None => Some [stream]
           | Some i => option_map (cons stream) (chain st names f i)
           end
  end.

(* streams = [stream; inh1; inh2 ...];  the statements after the inherit loop are GENERATED (vcs_steps); in the
   pinned code: streams.reverse(); view each; view cb; view cb_stream each.  [base] = prefixes of the telstate
   the views are stacked on ([""] for the root telstate, the L0 view for the candidates of _upgrade_flags). *)
Definition vcs_run (cb : string) (st : list string * list string) (s : vcs_step) : list string * list string :=
  match s with
  | VRev => (rev (fst st), snd st)
  | VStreams r => (fst st, fold_left view (if r then rev (fst st) else fst st) (snd st))
  | VCb => (fst st, view (snd st) cb)
  | VCbStreams r => (fst st, fold_left (fun v s => view v (joinp cb s)) (if r then rev (fst st) else fst st) (snd st))
  end.
Definition view_capture_stream_on (base : list string) (cb : string) (streams : list string) : list string :=
  snd (fold_left (vcs_run cb) vcs_steps (streams, base)).
Definition view_capture_stream (cb : string) (streams : list string) : list string :=
  view_capture_stream_on [""] cb streams.

(* SPEC: most specific first *)
Definition spec_prefixes_on (base : list string) (cb : string) (streams : list string) : list string :=
  map (fun s => joinp cb s ++ sep) streams ++ [cb ++ sep] ++ map (fun s => s ++ sep) streams ++ base.
Definition spec_prefixes (cb : string) (streams : list string) : list string := spec_prefixes_on [""] cb streams.

(* ---------- _shorten_key and the sensor table ---------- *)
Definition drop (n : nat) (s : string) : string := substring n (String.length s - n) s.
Definition take (n : nat) (s : string) : string := substring 0 n s.

(* _shorten_key: `for prefix in telstate.prefixes: if key.startswith(prefix): return key[len(prefix):]` then
   `return ''` (GENERATED: the direction of the scan sk_reversed, the fall-through value sk_nomatch) *)
Definition scan_prefixes (ps : list string) : list string := if sk_reversed then rev ps else ps.
Fixpoint shorten_key (prefixes : list string) (key : string) : string :=
  match prefixes with
  | [] => sk_nomatch
  | p :: ps => if String.prefix p key then drop (String.length p) key else shorten_key ps key
  end.

(* rank of the namespace that owns the key (index of first matching prefix) *)
Fixpoint key_rank (prefixes : list string) (key : string) : option nat :=
  match prefixes with
  | [] => None
  | p :: ps => if String.prefix p key then Some O else option_map S (key_rank ps key)
  end.

(* BEFORE the fix of F6:  sensors = {}; for key in telstate.keys(): if MUTABLE: name = shorten(key);
   if name: sensors[name] = key     (dict assignment: later keys overwrite earlier ones).  Kept for the record. *)
Definition table := list (string * string).        (* sensor name -> full key *)
Definition tbl_set (t : table) (n k : string) : table :=
  (n, k) :: filter (fun p => negb (String.eqb (fst p) n)) t.
Definition tbl_get (t : table) (n : string) : option string :=
  option_map snd (find (fun p => String.eqb (fst p) n) t).
Definition sensor_step_unranked (prefixes : list string) (t : table) (e : entry) : table :=
  if e_mut e then
    let n := shorten_key prefixes (e_key e) in
    if String.eqb n "" then t else tbl_set t n (e_key e)
  else t.
Definition sensor_table_unranked (prefixes : list string) (st : store) : table :=
  fold_left (sensor_step_unranked prefixes) st [].

(* AFTER the fix, statement by statement (TelstateDataSource.__init__):
     for key in telstate.keys():
         if telstate.key_type(key) == KeyType.MUTABLE:             (GENERATED sn_key_type, sn_key_type_eq)
             sensor_name = _shorten_key(telstate, key)
             if sensor_name:
                 rank = telstate.prefixes.index(key[:len(key) - len(sensor_name)])
                 if rank <= namespace_ranks.get(sensor_name, rank):  (GENERATED sn_replaces, sn_default_rank)
                     namespace_ranks[sensor_name] = rank;  sensors[sensor_name] = getter(key) *)
Definition rtable := list (string * (nat * string)).        (* sensor name -> (rank, full key) *)
Definition rtbl_set (t : rtable) (n : string) (v : nat * string) : rtable :=
  (n, v) :: filter (fun p => negb (String.eqb (fst p) n)) t.
Definition rtbl_get (t : rtable) (n : string) : option (nat * string) :=
  option_map snd (find (fun p => String.eqb (fst p) n) t).
Definition type_holds (e : entry) : bool :=
  if String.eqb sn_key_type "MUTABLE" then e_mut e
  else if String.eqb sn_key_type "IMMUTABLE" then negb (e_mut e) else false.
(* whose type is asked: `root.key_type(key)` = the entry itself; `telstate.key_type(key)` on the view = the entry
   found by resolving the FULL key through the prefixes of the view once more (none if the view is exclusive) -
   the pinned code before the repair of F-C18x-1 (GENERATED sn_type_through_view) *)
Fixpoint lookup_entry (st : store) (prefixes : list string) (k : string) : option entry :=
  match prefixes with
  | [] => None
  | p :: ps => match find_key st (p ++ k) with Some e => Some e | None => lookup_entry st ps k end
  end.
Definition is_sensor_key_gen (through_view : bool) (prefixes : list string) (all : store) (e : entry) : bool :=
  match (if through_view then lookup_entry all prefixes (e_key e) else Some e) with
  | Some x => Bool.eqb (type_holds x) sn_key_type_eq
  | None => false
  end.
(* prefixes.index(key[:len(key) - len(sensor_name)]);  None = the ValueError of list.index *)
Definition rank_in_code (ps : list string) (key name : string) : option nat :=
  index_of (take (String.length key - String.length name) key) ps.
Definition sensor_step_gen (through_view : bool) (prefixes : list string) (all : store) (t : rtable) (e : entry) : rtable :=
  if is_sensor_key_gen through_view prefixes all e then
    let n := shorten_key (scan_prefixes prefixes) (e_key e) in
    if String.eqb n "" then t else
    match rank_in_code prefixes (e_key e) n with
    | Some r =>
        let old := match rtbl_get t n with Some (r0, _) => r0 | None => sn_default_rank r end in
        if sn_replaces r old then rtbl_set t n (r, e_key e) else t
    | None => t
    end
  else t.
Definition sensor_step := sensor_step_gen sn_type_through_view.
Definition sensor_table (prefixes : list string) (st : store) : rtable :=
  fold_left (sensor_step prefixes st) st [].
Definition sensor_key (prefixes : list string) (st : store) (n : string) : option string :=
  option_map snd (rtbl_get (sensor_table prefixes st) n).
(* before the repair of F-C18x-1 (kept for the refutation) *)
Definition sensor_key_viewtyped (prefixes : list string) (st : store) (n : string) : option string :=
  option_map snd (rtbl_get (fold_left (sensor_step_gen true prefixes st) st []) n).
(* the names of the sensors of the data set *)
Definition sensor_names (prefixes : list string) (st : store) : list string := map fst (sensor_table prefixes st).

(* SPEC: the sensor [name] is read from the most specific namespace that defines it *)
Fixpoint spec_sensor (st : store) (prefixes : list string) (name : string) : option string :=
  match prefixes with
  | [] => None
  | p :: ps => match find_key st (p ++ name) with
               | Some e => if e_mut e then Some (e_key e) else spec_sensor st ps name
               | None => spec_sensor st ps name
               end
  end.

(* ---------- capture block / stream name resolution ---------- *)
(* from_url: url_kwargs.update(kwargs): keyword beats URL query (generated: url_keyword_wins);
   view_l0_capture_stream: `if not x` -> the value recorded in the file (generated: l0_empty_falls_back) *)
Definition resolve_id (kw url file : option string) : option string :=
  let merged := if url_keyword_wins then match kw with Some k => Some k | None => url end
                else match url with Some u => Some u | None => kw end in
  match merged with
  | Some s => if (l0_empty_falls_back && String.eqb s "")%bool then file else Some s
  | None => file
  end.

(* stream_type check: view.get(l0_type_key, l0_type_default) must be l0_expected_type ('sdp.vis') *)
Definition check_stream_type (ty : option string) : bool :=
  String.eqb (match ty with Some t => t | None => l0_type_default end) l0_expected_type.

(* ---------- flag stream upgrade ---------- *)
(* a chunk info: the id of the value, dumps and channel/baseline shape of its flags array, and the id of the value
   that names where its chunks live (itself when it has a 'prefix', else the chunk name found by _ensure_prefix_is_set) *)
Record cinfo := mkC { c_id : Z; c_dumps : Z; c_rest : list Z; c_from : Z }.
(* a candidate archived stream as _upgrade_flags sees it through the candidate's view: its stream_type (None =
   absent or not a string), its src_streams (None = KeyError), its chunk info (None = KeyError) *)
Record fstream := mkF { f_type : option string; f_src : option (list string); f_info : option cinfo }.

Definition zs_eqb (a b : list Z) : bool :=
  (Nat.eqb (List.length a) (List.length b) && forallb (fun p => Z.eqb (fst p) (snd p)) (combine a b))%bool.

Definition type_is_flags (f : fstream) : bool :=
  match f_type f with Some t => String.eqb t fl_type | None => false end.
Definition is_flag_source (stream : string) (f : fstream) : bool :=
  (type_is_flags f && match f_src f with Some l => mem_string stream l | None => false end)%bool.

(* _upgrade_flags: for s in archived:
     if telstate_cs.get(type) != 'sdp.flags' or stream_name not in telstate_cs[src]: continue   (src only read when the
                                                                             type matches; KeyError = Err 2)
     flags_info = telstate_cs[chunk_info]                                    (KeyError = Err 2)
     chunk_info = _upgrade_chunk_info(chunk_info, flags_info)                (shape[1:] differs = ValueError = Err 1) *)
Inductive res (A : Type) := Ok (a : A) | Err (code : Z).
Arguments Ok {A} a. Arguments Err {A} code.
Fixpoint upgrade_flags (stream : string) (cur : cinfo) (archived : list fstream) : res cinfo :=
  match archived with
  | [] => Ok cur
  | f :: fs =>
      if type_is_flags f then
        match f_src f with
        | None => Err 2
        | Some src =>
            if mem_string stream src then
              match f_info f with
              | None => Err 2
              | Some ci => if zs_eqb (c_rest ci) (c_rest cur) then upgrade_flags stream ci fs else Err 1
              end
            else upgrade_flags stream cur fs
        end
      else upgrade_flags stream cur fs
  end.

(* SPEC.  What one archived stream means for the opened stream whose flags have channel/baseline shape [rest]:
   None = it is not a flags stream of the opened stream (ignored); Some (Ok ci) = it replaces the flags;
   Some (Err 1) = incompatible channel/baseline shape; Some (Err 2) = a flags stream that lacks its sources or its
   chunk info.  The FIRST defective stream (in archived order) is the error reported; otherwise the LAST
   replacing stream wins; without any the stream keeps its own flags. *)
Definition candidate_status (stream : string) (rest : list Z) (f : fstream) : option (res cinfo) :=
  match f_type f with
  | Some t =>
      if String.eqb t fl_type then
        match f_src f with
        | None => Some (Err 2)
        | Some src =>
            if mem_string stream src then
              match f_info f with
              | None => Some (Err 2)
              | Some ci => if zs_eqb (c_rest ci) rest then Some (Ok ci) else Some (Err 1)
              end
            else None
        end
      else None
  | None => None
  end.
Definition statuses (stream : string) (rest : list Z) (archived : list fstream) : list (res cinfo) :=
  flat_map (fun f => match candidate_status stream rest f with Some r => [r] | None => [] end) archived.
Definition is_err {A} (r : res A) : bool := match r with Err _ => true | Ok _ => false end.
Definition spec_upgrade (stream : string) (cur : cinfo) (archived : list fstream) : res cinfo :=
  let ss := statuses stream (c_rest cur) archived in
  match find is_err ss with
  | Some r => r
  | None => match rev ss with r :: _ => r | [] => Ok cur end
  end.

(* ---------- _align_chunk_info ---------- *)
(* per array: time chunks (list of chunk lengths); phantom chunks of one dump are appended up to max *)
Definition dumps_of (chunks : list Z) : Z := fold_right Z.add 0%Z chunks.
Definition zmax_list (l : list Z) : Z := fold_right Z.max 0%Z l.
Definition align_one (maxd : Z) (chunks : list Z) : list Z :=
  chunks ++ repeat 1%Z (Z.to_nat (maxd - dumps_of chunks)).
Definition align_chunk_info (arrays : list (list Z)) : list (list Z) :=
  let maxd := zmax_list (map dumps_of arrays) in map (align_one maxd) arrays.

(* ---------- attributes of the archived streams, read through telstate views ---------- *)
(* The value of an immutable key is identified by its index in a value table; only the shapes the code looks at
   are distinguished: a string, a list of strings, a chunk_info (dumps and channel/baseline shape of its 'flags'
   array; all arrays of one stream have the same number of dumps), anything else. *)
Inductive aval := AStr (s : string) | AStrs (l : list string) | AInfo (dumps : Z) (rest : list Z) (has_prefix : bool) | AOther.
Definition vtable := list aval.

Definition aget (st : store) (vals : vtable) (ps : list string) (k : string) : option (Z * aval) :=
  match lookup st ps k with
  | Some id => match nth_error vals (Z.to_nat id) with Some v => Some (id, v) | None => None end
  | None => None
  end.
Definition astr (o : option (Z * aval)) : option string := match o with Some (_, AStr s) => Some s | _ => None end.
Definition astrs (o : option (Z * aval)) : list string := match o with Some (_, AStrs l) => l | _ => [] end.
Definition names_of_vals (vals : vtable) (z : Z) : option string :=
  match nth_error vals (Z.to_nat z) with Some (AStr s) => Some s | _ => None end.
Definition chain_of (st : store) (vals : vtable) (stream : string) : option (list string) :=
  chain st (names_of_vals vals) (S (List.length st)) stream.

(* _upgrade_flags: telstate_cs = view_capture_stream(telstate, cb, s) stacked on the view of the opened stream
   [base]; stream_type, src_streams and chunk_info of the candidate are read through that view, i.e. through the
   candidate's own inherit chain and then the namespaces of the opened stream
   (keys generated: fl_type_key fl_src_key fl_chunk_info_key).  None = outside the model: cyclic inherit chain,
   src_streams / chunk_info present with a value of another shape. *)
(* telstate[key] followed by _ensure_prefix_is_set(info, telstate) through the view [ps]: an info without 'prefix' gets
   telstate[ci_prefix_key] ('chunk_name', GENERATED) looked up through the SAME view.
   None = a value of another shape (outside the model); Some None = KeyError (the info, or the chunk name it needs) *)
Definition info_of (st : store) (vals : vtable) (ps : list string) (key : string) : option (option cinfo) :=
  match aget st vals ps key with
  | None => Some None
  | Some (id, AInfo d rest hp) =>
      if hp then Some (Some (mkC id d rest id))
      else match aget st vals ps ci_prefix_key with
           | Some (nid, _) => Some (Some (mkC id d rest nid))
           | None => Some None
           end
  | Some _ => None
  end.
Definition fstream_of_with (prefixes_on : list string -> string -> list string -> list string)
    (st : store) (vals : vtable) (base : list string) (cb s : string) : option fstream :=
  match chain_of st vals s with
  | None => None
  | Some streams =>
      let ps := prefixes_on base cb streams in
      let ty := astr (aget st vals ps fl_type_key) in
      match aget st vals ps fl_src_key, info_of st vals ps fl_chunk_info_key with
      | Some (_, AStrs l), Some i => Some (mkF ty (Some l) i)
      | None, Some i => Some (mkF ty None i)
      | _, _ => None
      end
  end.
Definition fstream_of := fstream_of_with view_capture_stream_on.
Fixpoint all_some {A} (l : list (option A)) : option (list A) :=
  match l with
  | [] => Some []
  | Some a :: t => option_map (cons a) (all_some t)
  | None :: _ => None
  end.

(* ---------- how the data set is opened ---------- *)
(* with / without a chunk store, upgrade_flags keyword (None = default), explicit timestamps (their number) *)
Record omode := mkMode { m_store : bool; m_upgrade : option bool; m_ts : option Z }.
(* what comes out: number of timestamps; if there is data: its number of dumps and the id of the chunk info its
   flags come from *)
Record opened := mkOpened { o_ts : Z; o_data : option (Z * Z * Z) }.
Definition upgrade_on (m : omode) : bool := match m_upgrade m with Some b => b | None => ds_upgrade_default end.
Definition has_ts (m : omode) : bool := match m_ts m with Some _ => true | None => false end.

(* TelstateDataSource.__init__: chunk info is prepared (upgrade + align) when the generated condition
   ds_reads_chunk_info holds; the data object is built from it iff there is a chunk store; timestamps are
   synthesised from the aligned number of dumps unless given.  Err 4 = chunk_info unbound (cannot happen with the
   pinned condition, see open_source_total). *)
Definition open_source (m : omode) (stream : string) (cur : cinfo) (archived : list fstream) : res opened :=
  if ds_reads_chunk_info (m_store m) (has_ts m) then
    match (if upgrade_on m then upgrade_flags stream cur archived else Ok cur) with
    | Err e => Err e
    | Ok c =>
        let aligned := align_chunk_info [[c_dumps cur]; [c_dumps c]] in
        let n := dumps_of (nth 0 aligned []) in
        Ok (mkOpened (match m_ts m with Some k => k | None => n end)
                     (if m_store m then Some (dumps_of (nth 1 aligned []), c_id c, c_from c) else None))
    end
  else if m_store m then Err 4
  else match m_ts m with Some k => Ok (mkOpened k None) | None => Err 4 end.

(* SPEC: unless nothing at all is derived from the streams (no data AND timestamps given), the flag streams are
   consulted in every way of opening: incompatible = error; the data set spans the longer of the opened stream
   and the flag stream that replaces its flags *)
Definition spec_open (m : omode) (stream : string) (cur : cinfo) (archived : list fstream) : res opened :=
  match m_store m, m_ts m with
  | false, Some k => Ok (mkOpened k None)
  | _, _ =>
      match (if upgrade_on m then spec_upgrade stream cur archived else Ok cur) with
      | Err e => Err e
      | Ok c =>
          let n := Z.max (c_dumps cur) (c_dumps c) in
          Ok (mkOpened (match m_ts m with Some k => k | None => n end)
                       (if m_store m then Some (n, c_id c, c_from c) else None))
      end
  end.

(* the whole path from the telstate: view of the opened stream, stream type check, own chunk info, candidates
   named by fl_archived_key.  Err 1/3 = ValueError, 2 = KeyError, 9 = outside the model (cyclic inherit chain,
   candidate without any chunk info) *)
Definition open_telstate_with (prefixes_on : list string -> string -> list string -> list string)
    (opener : omode -> string -> cinfo -> list fstream -> res opened)
    (m : omode) (st : store) (vals : vtable) (cb stream : string) : res opened :=
  match chain_of st vals stream with
  | None => Err 9
  | Some streams =>
      let ps := prefixes_on [""] cb streams in
      if negb (check_stream_type (astr (aget st vals ps l0_type_key))) then Err 3
      else if ds_reads_chunk_info (m_store m) (has_ts m) then
        match info_of st vals ps ds_chunk_info_key with
        | Some (Some cur) =>
            let fs := if upgrade_on m then
                        all_some (map (fstream_of_with prefixes_on st vals ps cb)
                                      (astrs (aget st vals ps fl_archived_key)))
                      else Some [] in
            match fs with
            | Some fs => opener m stream cur fs
            | None => Err 9
            end
        | _ => Err 2
        end
      else opener m stream (mkC 0 0 [] 0) []
  end.
Definition open_telstate := open_telstate_with view_capture_stream_on open_source.
Definition spec_open_telstate := open_telstate_with spec_prefixes_on spec_open.

(* from_url / katdal.open: capture block and stream from keyword, URL query or the file (root telstate) *)
Definition open_url_with (ot : omode -> store -> vtable -> string -> string -> res opened)
    (m : omode) (st : store) (vals : vtable) (kw_cb url_cb kw_sn url_sn : option string)
    : res (string * string * opened) :=
  let file k := astr (aget st vals [""] k) in
  match resolve_id kw_cb url_cb (file l0_cbid_key), resolve_id kw_sn url_sn (file l0_stream_key) with
  | Some cb, Some sn => match ot m st vals cb sn with Ok o => Ok (cb, sn, o) | Err e => Err e end
  | _, _ => Err 3
  end.
Definition open_url := open_url_with open_telstate.
Definition spec_open_url := open_url_with spec_open_telstate.

(* ---------- which failures of a source are "not found" ---------- *)
(* outcome of katsdptelstate's load_from_file, by the class a handler would name (OSError: missing file, directory,
   no permission; RdbParseError: not a valid RDB dump) *)
Inductive load := Loaded | Raises (exn : string).
(* error codes: 1/3 ValueError, 2 KeyError, 4 UnboundLocalError, 5 DataSourceNotFound, 6 any other exception,
   8 not a v4 source (katdal.open hands the name to the HDF5 loaders), 9 outside the model *)
Definition exn_code (x : string) : Z :=
  if String.eqb x "DataSourceNotFound" then 5 else if String.eqb x "ValueError" then 3
  else if String.eqb x "KeyError" then 2 else 6.
(* from_url: scheme dispatch (GENERATED src_file_scheme, src_schemes), the handler around load_from_file
   (src_load_caught -> src_load_raises), the final else (src_unknown_raises) *)
Definition load_source (scheme : string) (l : load) : res unit :=
  if String.eqb scheme src_file_scheme then
    match l with
    | Loaded => Ok tt
    | Raises x => Err (exn_code (if mem_string x src_load_caught then src_load_raises else x))
    end
  else if mem_string scheme src_schemes then Err 9
  else Err (exn_code src_unknown_raises).
(* open_data_source: `try: return from_url(...) except <ods_catches>: ... raise <ods_raises>` *)
Definition ods {A} (r : res A) : res A :=
  match r with
  | Err e => if existsb (fun x => Z.eqb (exn_code x) e) ods_catches then Err (exn_code ods_raises) else Err e
  | Ok a => Ok a
  end.
(* the public entry points: from_url, open_data_source, katdal.open (name ends in '.rdb'?, has a scheme?) *)
Inductive how := HFromUrl | HOds | HOpen (ends_rdb has_scheme : bool).
Definition open_how_with (ou : omode -> store -> vtable -> option string -> option string -> option string -> option string
                               -> res (string * string * opened))
    (h : how) (scheme : string) (l : load) (m : omode) (st : store) (vals : vtable)
    (kw_cb url_cb kw_sn url_sn : option string) : res (string * string * opened) :=
  let fu := match load_source scheme l with
            | Err e => Err e
            | Ok _ => ou m st vals kw_cb url_cb kw_sn url_sn
            end in
  match h with
  | HFromUrl => fu
  | HOds => ods fu
  | HOpen e s => if open_is_v4 e s then ods fu else Err 8
  end.
Definition open_how := open_how_with open_url.
(* SPEC: an unreadable file and an unknown kind of source are "not found" whichever entry point is used and
   whatever else is asked for; a readable one is opened as the property says (its own errors keep their class) *)
Definition spec_open_how (h : how) (scheme : string) (l : load) (m : omode) (st : store) (vals : vtable)
    (kw_cb url_cb kw_sn url_sn : option string) : res (string * string * opened) :=
  match h with
  | HOpen false false => Err 8
  | _ =>
    if String.eqb scheme "file" then
      match l with
      | Loaded => spec_open_url m st vals kw_cb url_cb kw_sn url_sn
      | Raises x => if (String.eqb x "OSError" || String.eqb x "RdbParseError")%bool then Err 5 else Err (exn_code x)
      end
    else if mem_string scheme ["redis"; "http"; "https"] then Err 9
    else Err 5
  end.

(* ---------- visdatav4._relative_view: the attributes of another stream seen from every namespace of the view ------- *)
(*   prefix = telstate.prefixes[-1];  view = telstate.view(prefix + name, exclusive=True)
     for prefix in reversed(telstate.prefixes[:-1]): view = view.view(prefix + name)
   (GENERATED rv_exclusive, rv_reversed).  None = IndexError (a telstate always has at least one prefix). *)
Definition relative_view (ps : list string) (name : string) : option (list string) :=
  match rev ps with
  | [] => None
  | last :: before_rev =>
      let base := if rv_exclusive then [] else ps in
      let order := if rv_reversed then before_rev else rev before_rev in
      Some (fold_left (fun v p => view v (p ++ name)) order (view base (last ++ name)))
  end.
Definition spec_relative_view (ps : list string) (name : string) : list string :=
  map (fun p => (p ++ name) ++ sep) ps.

(* ---------- wire ---------- *)
Definition to_entry (x : sx) : entry :=
  match x with L [k; m; I v] => mkEntry (to_string k) (to_bool m) v | _ => mkEntry "" false 0 end.
Definition to_store (x : sx) : store := map to_entry (to_list x).
Definition of_optstring (o : option string) : sx := match o with Some s => L [of_string s] | None => L [] end.
Definition to_optstring (x : sx) : option string := match x with L [s] => Some (to_string s) | _ => None end.
Definition names_of (l : list string) (z : Z) : option string := nth_error l (Z.to_nat z).
Definition of_optZ' (o : option Z) : sx := match o with Some z => L [I z] | None => L [] end.
Definition to_fstream (x : sx) : fstream :=
  match x with
  | L [ty; src; info] =>
      mkF (to_optstring ty) (match src with L [l] => Some (to_strings l) | _ => None end)
          (match info with L [I i; I d; rest; I f] => Some (mkC i d (to_Zs rest) f) | _ => None end)
  | _ => mkF None None None
  end.
Definition to_load (x : sx) : load := match x with L [e] => Raises (to_string e) | _ => Loaded end.
Definition to_how (x : sx) : how :=
  match x with I 0 => HFromUrl | I 1 => HOds | L [e; s] => HOpen (to_bool e) (to_bool s) | _ => HFromUrl end.
Definition of_res_cinfo (r : res cinfo) : sx :=
  match r with Ok c => L [I (c_id c); I (c_dumps c); of_Zs (c_rest c); I (c_from c)] | Err e => L [I (-1); I e] end.

Definition to_aval (x : sx) : aval :=
  match x with
  | L [I 0; s] => AStr (to_string s)
  | L [I 1; l] => AStrs (to_strings l)
  | L [I 2; I d; rest; hp] => AInfo d (to_Zs rest) (to_bool hp)
  | _ => AOther
  end.
Definition to_optbool (x : sx) : option bool := match x with L [b] => Some (to_bool b) | _ => None end.
Definition to_mode (x : sx) : omode :=
  match x with L [s; u; t] => mkMode (to_bool s) (to_optbool u) (to_optZ t) | _ => mkMode false None None end.
Definition of_opened (o : opened) : list sx :=
  [I (o_ts o); match o_data o with Some (n, i, f) => L [I n; I i; I f] | None => L [] end].
Definition of_res_url (r : res (string * string * opened)) : sx :=
  match r with
  | Ok (cb, sn, o) => L (I 0 :: of_string cb :: of_string sn :: of_opened o)
  | Err e => L [I (-1); I e]
  end.
Definition of_res_opened (r : res opened) : sx :=
  match r with Ok o => L (I 0 :: of_opened o) | Err e => L [I (-1); I e] end.

(* (1 store names cb stream)        -> () if chain cyclic | (model_prefixes spec_prefixes)
   (2 store prefixes key)           -> lookup
   (3 store prefixes names)         -> list of (model sensor key, spec sensor key, pre-fix model key) per requested name
   (4 kw url file)                  -> resolved id
   (5 type)                         -> stream type accepted?
   (6 stream (id dumps rest) archived) -> (model spec)
   (7 arrays)                       -> aligned chunks
   (8 mode store vals kw_cb url_cb kw_sn url_sn) -> (model spec) of opening from the telstate; mode = (store? (upgrade)? (n_ts)?)
   (9 mode stream (id dumps rest) archived)      -> (model spec) of open_source
   (10 store vals base cb s)        -> () | (prefixes of the candidate view)
   (11 prefixes name)               -> () | (model spec) of _relative_view
   (12 how scheme load mode store vals kw_cb url_cb kw_sn url_sn) -> (model spec) of the entry point `how`
       how = 0 from_url | 1 open_data_source | (ends_rdb has_scheme) katdal.open;  load = () loaded | (exception class)
   (13 store prefixes)              -> names of the sensor table (in table order) *)
Definition wire_18 (x : sx) : sx :=
  match x with
  | L [I 1; st; names; cb; stream] =>
      let st := to_store st in let names := to_strings names in
      match chain st (names_of names) (S (List.length names)) (to_string stream) with
      | Some streams => L [L (map of_string (view_capture_stream (to_string cb) streams));
                           L (map of_string (spec_prefixes (to_string cb) streams))]
      | None => L []
      end
  | L [I 2; st; prefixes; key] => of_optZ' (lookup (to_store st) (to_strings prefixes) (to_string key))
  | L [I 3; st; prefixes; names] =>
      let st := to_store st in let ps := to_strings prefixes in
      L (map (fun n => L [of_optstring (sensor_key ps st n); of_optstring (spec_sensor st ps n);
                          of_optstring (tbl_get (sensor_table_unranked ps st) n);
                          of_optstring (sensor_key_viewtyped ps st n)]) (to_strings names))
  | L [I 4; kw; url; file] => of_optstring (resolve_id (to_optstring kw) (to_optstring url) (to_optstring file))
  | L [I 5; ty] => of_bool (check_stream_type (to_optstring ty))
  | L [I 6; stream; L [I i; I d; rest]; archived] =>
      let cur := mkC i d (to_Zs rest) i in let ar := map to_fstream (to_list archived) in
      L [of_res_cinfo (upgrade_flags (to_string stream) cur ar); of_res_cinfo (spec_upgrade (to_string stream) cur ar)]
  | L [I 7; arrays] => L (map of_Zs (align_chunk_info (map to_Zs (to_list arrays))))
  | L [I 8; m; st; vals; kwcb; urlcb; kwsn; urlsn] =>
      let st := to_store st in let vals := map to_aval (to_list vals) in let m := to_mode m in
      L [of_res_url (open_url m st vals (to_optstring kwcb) (to_optstring urlcb) (to_optstring kwsn) (to_optstring urlsn));
         of_res_url (spec_open_url m st vals (to_optstring kwcb) (to_optstring urlcb) (to_optstring kwsn) (to_optstring urlsn))]
  | L [I 9; m; stream; L [I i; I d; rest]; archived] =>
      let cur := mkC i d (to_Zs rest) i in let ar := map to_fstream (to_list archived) in
      L [of_res_opened (open_source (to_mode m) (to_string stream) cur ar);
         of_res_opened (spec_open (to_mode m) (to_string stream) cur ar)]
  | L [I 10; st; vals; base; cb; s] =>
      let st := to_store st in let vals := map to_aval (to_list vals) in
      match chain_of st vals (to_string s) with
      | Some ss => L [L (map of_string (view_capture_stream_on (to_strings base) (to_string cb) ss))]
      | None => L []
      end
  | L [I 11; ps; name] =>
      match relative_view (to_strings ps) (to_string name) with
      | Some v => L [L (map of_string v); L (map of_string (spec_relative_view (to_strings ps) (to_string name)))]
      | None => L []
      end
  | L [I 12; h; scheme; l; m; st; vals; kwcb; urlcb; kwsn; urlsn] =>
      let st := to_store st in let vals := map to_aval (to_list vals) in let m := to_mode m in
      L [of_res_url (open_how (to_how h) (to_string scheme) (to_load l) m st vals
                              (to_optstring kwcb) (to_optstring urlcb) (to_optstring kwsn) (to_optstring urlsn));
         of_res_url (spec_open_how (to_how h) (to_string scheme) (to_load l) m st vals
                                   (to_optstring kwcb) (to_optstring urlcb) (to_optstring kwsn) (to_optstring urlsn))]
  | L [I 13; st; prefixes] => L (map of_string (sensor_names (to_strings prefixes) (to_store st)))
  | _ => sx_err
  end.
