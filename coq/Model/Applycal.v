(* C13: applying calibration.  Model of katdal/applycal.py
     calc_correction (channel-map choice, lines 555-603), calc_correction_per_corrprod (455-495),
     _correction_inputs_to_corrprods (417-422), _correction_block (498-506),
     apply_vis_correction / apply_weights_correction / apply_flags_correction (615-655)
   and of visdatav4.py:_make_corrected (elementwise application block by block).

   Numbers: complex values are  C := CNaN | CFin re im  with re, im : Qc (canonical rationals, Leibniz
   equality); CNaN stands for "np.isnan(z)" (any component NaN) and is absorbing for `*` and conj, as in
   IEEE arithmetic.  Infinities are NOT in the carrier (documented: outside the model).  Weights are Qc,
   flags are Z, frequencies are Q.  No IEEE arithmetic anywhere. *)
From Coq Require Import ZArith QArith Qabs Qcanon List Bool String Arith.
From KV Require Import Base.Sx Gen.Generated.
Import ListNotations.

(* ------------------------------------------------------------------ complex numbers *)
Inductive C := CNaN | CFin (re im : Qc).

Definition Cone : C := CFin 1 0.
Definition Czero : C := CFin 0 0.
Definition Cmul (x y : C) : C :=
  match x, y with
  | CFin a b, CFin c d => CFin (a * c - b * d) (a * d + b * c)
  | _, _ => CNaN
  end.
Definition Cconj (x : C) : C := match x with CFin a b => CFin a (- b) | CNaN => CNaN end.
Definition norm2 (a b : Qc) : Qc := a * a + b * b.
(* numpy: reciprocal(0+0j) = nan+nanj (probed); reciprocal(nan) = nan *)
Definition Cinv (x : C) : C :=
  match x with
  | CFin a b => if Qc_eq_dec (norm2 a b) 0 then CNaN else CFin (a / norm2 a b) (- b / norm2 a b)
  | CNaN => CNaN
  end.
Definition is_nan (x : C) : bool := match x with CNaN => true | CFin _ _ => false end.
Definition Cprod (l : list C) : C := fold_right Cmul Cone l.

(* ------------------------------------------------------------------ the three kernels *)
(* flags.POSTPROC, looked up in the table regenerated from katdal/flags.py; the name of the constant used
   by apply_flags_correction is regenerated from applycal.py (Generated.applycal_flag_name) *)
Definition lookup_mask (n : string) : Z :=
  match find (fun p => String.eqb (fst p) n) flag_masks with Some p => snd p | None => 0%Z end.
Definition POSTPROC : Z := lookup_mask applycal_flag_name.

(* if not np.isnan(c): out = data * c  else: out = data *)
Definition apply_vis (d f : C) : C := if is_nan f then d else Cmul d f.
(* c = re*re + im*im; if c > 0 (false for NaN): out = data / c else: out = 0 *)
Definition apply_weights (w : Qc) (f : C) : Qc :=
  match f with
  | CNaN => 0
  | CFin a b => if Qclt_le_dec 0 (norm2 a b) then w / norm2 a b else 0
  end.
(* if np.isnan(c): out |= POSTPROC *)
Definition apply_flags (fl : Z) (f : C) : Z := if is_nan f then Z.lor fl POSTPROC else fl.

(* ------------------------------------------------------------------ channel maps *)
(* np.abs(data_freqs[:, newaxis] - cal_freqs[newaxis, :]).argmin(axis=-1): first minimum *)
Fixpoint argmin_from (best : Q) (bi i : nat) (l : list Q) : nat :=
  match l with
  | [] => bi
  | x :: t => if Qlt_le_dec x best then argmin_from x i (S i) t else argmin_from best bi (S i) t
  end.
Definition argmin (l : list Q) : nat := match l with [] => O | x :: t => argmin_from x O 1 t end.
Definition dist (a b : Q) : Q := Qabs (a - b).
Definition nearest (cal : list Q) (fd : Q) : nat := argmin (map (dist fd) cal).
Definition expand_map (data cal : list Q) : list nat := map (nearest cal) data.

(* np.allclose(cal, data, rtol=0, atol=applycal_atol) for equal lengths *)
Definition atol : Q := Z.pos applycal_atol_num # applycal_atol_den.
Fixpoint allclose (a b : list Q) : bool :=
  match a, b with
  | x :: a', y :: b' => Qle_bool (dist x y) atol && allclose a' b'
  | _, _ => true
  end.

Inductive chmap := Broadcast | Direct | Nearest (expand : list nat).

(* lines 586-603: correction_n_chans = max over inputs of len(atleast_1d(corr[input][0])) *)
Definition corr_nchans (corr : list (list (list C))) : nat :=
  fold_right Nat.max O (map (fun per_input => List.length (hd [] per_input)) corr).

(* kb = the product type is K or B (used only after the repair C13-F1; see applycal_kb_direct) *)
Definition choose_map (kb : bool) (cn : nat) (data cal : list Q) : chmap :=
  let F := List.length data in
  if Nat.eqb cn 1 then Broadcast
  else if Nat.eqb cn F
          && ((applycal_kb_direct && kb) || negb (Nat.eqb (List.length cal) F) || allclose cal data)
       then Direct
       else Nearest (expand_map data cal).

(* Python closures bind late: unless `expand` is bound when the lambda is created (the repair C13-F2,
   applycal_expand_bound), every nearest-channel lambda uses the LAST expand computed in the loop *)
Definition last_expand (ms : list chmap) : option (list nat) :=
  fold_left (fun acc m => match m with Nearest e => Some e | _ => acc end) ms None.
Definition bind_maps (ms : list chmap) : list chmap :=
  if applycal_expand_bound then ms
  else map (fun m => match m, last_expand ms with Nearest _, Some e => Nearest e | _, _ => m end) ms.

(* pointwise meaning of a map: which correction value data channel c receives
   (CNaN for "IndexError / broadcast error" positions; see wf below) *)
Definition map_chan (m : chmap) (g : list C) (c : nat) : C :=
  match m with
  | Broadcast => nth O g CNaN
  | Direct => nth c g CNaN
  | Nearest e => match nth_error e c with Some k => nth k g CNaN | None => CNaN end
  end.

(* what the lambdas do on a slice of channels [c0, c0+cn) *)
Definition map_block (m : chmap) (g : list C) (c0 cn : nat) : list C :=
  match m with
  | Broadcast => repeat (nth O g CNaN) cn                       (* g, broadcast by numpy *)
  | Direct => firstn cn (skipn c0 g)                            (* g[channels] *)
  | Nearest e => map (fun k => nth k g CNaN) (firstn cn (skipn c0 e))   (* g[expand[channels]] *)
  end.

(* ------------------------------------------------------------------ products and the factor *)
Record product := mkProduct { p_map : chmap; p_corr : list (list (list C)) (* input, dump, channel *) }.
Definition corr_at (p : product) (i t : nat) : list C := nth t (nth i (p_corr p) []) [].

Fixpoint map2 {A B D} (f : A -> B -> D) (a : list A) (b : list B) : list D :=
  match a, b with
  | x :: a', y :: b' => f x y :: map2 f a' b'
  | _, _ => []
  end.

(* the loop of calc_correction over the requested products: (is K/B, cal-stream freqs, corrections) *)
Record rawproduct := mkRaw { r_kb : bool; r_cal : list Q; r_corr : list (list (list C)) }.
Definition raw_map (data : list Q) (r : rawproduct) : chmap :=
  choose_map (r_kb r) (corr_nchans (r_corr r)) data (r_cal r).
Definition make_products (data : list Q) (raw : list rawproduct) : list product :=
  map2 (fun r m => mkProduct m (r_corr r)) raw (bind_maps (map (raw_map data) raw)).

(* calc_correction_per_corrprod: g_per_input = ones; for product: for i: g_per_input[i] *= channel_map(...) *)
Definition ginput_block (prods : list product) (i t c0 cn : nat) : list C :=
  fold_left (fun acc p => map2 Cmul acc (map_block (p_map p) (corr_at p i t) c0 cn)) prods (repeat Cone cn).

(* _correction_inputs_to_corrprods on the transposed array *)
Definition row_block (prods : list product) (ninputs : nat) (cps : list (nat * nat)) (t c0 cn : nat)
  : list (list C) :=
  let G := map (fun i => ginput_block prods i t c0 cn) (seq 0 ninputs) in
  map (fun j => map (fun cp => Cmul (nth j (nth (fst cp) G []) CNaN)
                                    (Cconj (nth j (nth (snd cp) G []) CNaN))) cps) (seq 0 cn).

(* _correction_block *)
Definition corr_block prods ninputs cps (t0 tn c0 cn : nat) : list (list (list C)) :=
  map (fun n => row_block prods ninputs cps (t0 + n) c0 cn) (seq 0 tn).

(* the pointwise function *)
Definition ginput (prods : list product) (i t c : nat) : C :=
  fold_left (fun acc p => Cmul acc (map_chan (p_map p) (corr_at p i t) c)) prods Cone.
Definition factor (prods : list product) (t c : nat) (cp : nat * nat) : C :=
  Cmul (ginput prods (fst cp) t c) (Cconj (ginput prods (snd cp) t c)).

(* ------------------------------------------------------------------ dask: blocks of a chunking, assembled *)
Fixpoint offsets (start : nat) (sizes : list nat) : list (nat * nat) :=
  match sizes with [] => [] | s :: r => (start, s) :: offsets (start + s) r end.

Section Assemble.
  Context {A : Type}.
  Variable blk : nat -> nat -> nat -> nat -> list (list A).   (* t0 tn c0 cn -> tn rows of cn cells *)
  Definition assemble (tch cch : list nat) : list (list A) :=
    flat_map (fun tt =>
      let blocks := map (fun cc => blk (fst tt) (snd tt) (fst cc) (snd cc)) (offsets 0 cch) in
      map (fun n => flat_map (fun b => nth n b []) blocks) (seq 0 (snd tt)))
    (offsets 0 tch).
End Assemble.

(* a block of a stored array (dask chunk of the data) *)
Definition slice_block {A} (data : list (list A)) (t0 tn c0 cn : nat) : list (list A) :=
  map (fun row => firstn cn (skipn c0 row)) (firstn tn (skipn t0 data)).

(* da.core.elemwise(kernel, data, corrections): the kernel runs on matching blocks *)
Definition corrected_block {A} (kernel : A -> C -> A) (data : list (list (list A)))
           prods ninputs cps (t0 tn c0 cn : nat) : list (list (list A)) :=
  map2 (map2 (map2 kernel)) (slice_block data t0 tn c0 cn) (corr_block prods ninputs cps t0 tn c0 cn).

(* ------------------------------------------------------------------ SPEC (the property statement) *)
(* a product's own channelisation: the centre frequencies its correction vectors are given on
   (a single entry for a channel-independent product) *)
Record sproduct := mkSProduct { s_own : list Q; s_corr : list (list (list C)) }.
Definition s_at (p : sproduct) (i t : nat) (fd : Q) : C :=
  nth (nearest (s_own p) fd) (nth t (nth i (s_corr p) []) []) CNaN.
(* product over the selected cal products of correction(first input) * conj(correction(second input)) *)
Definition spec_factor (sp : list sproduct) (t : nat) (fd : Q) (cp : nat * nat) : C :=
  Cprod (map (fun p => Cmul (s_at p (fst cp) t fd) (Cconj (s_at p (snd cp) t fd))) sp).
Definition spec_vis (d f : C) : C := match f with CNaN => d | _ => Cmul d f end.
Definition spec_weight (w : Qc) (f : C) : Qc :=
  match f with CNaN => 0 | CFin a b => w / (a * a + b * b) end.   (* factor 0: outside the property *)
Definition spec_flags (fl : Z) (f : C) : Z := match f with CNaN => Z.lor fl 128 | _ => fl end.

(* ------------------------------------------------------------------ well-formedness = "does not raise" *)
Definition wf_product (T F ninputs : nat) (p : product) : bool :=
  let cn := corr_nchans (p_corr p) in
  Nat.eqb (List.length (p_corr p)) ninputs
  && forallb (fun per_input => Nat.eqb (List.length per_input) T
                               && forallb (fun g => Nat.eqb (List.length g) cn) per_input) (p_corr p)
  && match p_map p with
     | Broadcast => Nat.eqb cn 1
     | Direct => Nat.eqb cn F
     | Nearest e => Nat.eqb (List.length e) F && forallb (fun k => Nat.ltb k cn) e
     end.

(* ------------------------------------------------------------------ which subset is LOADED (preselect) *)
(* A data set opened with preselect={'dumps': slice(t0, t0+T'), 'channels': slice(a, a+n)} holds that part of the
   stream (visdatav4.py 399-403: spw.subrange(start, stop); datasources.py: timestamps[preselect['dumps']]).
   Its data frequencies are the sub-list of the stream's; K/B corrections are computed ON the loaded channels
   (calc_delay_correction / calc_bandpass_correction evaluate pointwise at data_freqs), gain-type corrections stay
   on the cal stream's channels; every correction sensor covers the loaded dumps only. *)
Definition sub {A} (a n : nat) (l : list A) : list A := firstn n (skipn a l).
Definition loaded_corr (on_data : bool) (t0 a n : nat) (corr : list (list (list C))) : list (list (list C)) :=
  map (fun per_input => map (fun g => if on_data then sub a n g else g) (skipn t0 per_input)) corr.
Definition loaded_raw (on_data : bool) (t0 a n : nat) (r : rawproduct) : rawproduct :=
  mkRaw (r_kb r) (r_cal r) (loaded_corr on_data t0 a n (r_corr r)).

(* The cal SOLUTIONS a data set holding dumps [a, b) sees (categorical.sensor_to_categorical 716-764): a solution
   is an event (dump index, payload), in time order; those at or after b are dropped, those before a collapse onto
   the first loaded dump, and when several events share a dump only the last one is kept. *)
Fixpoint last_per_dump {A} (evs : list (Z * A)) : list (Z * A) :=
  match evs with
  | [] => []
  | e :: r => match r with
              | e2 :: _ => if Z.eqb (fst e) (fst e2) then last_per_dump r else e :: last_per_dump r
              | [] => [e]
              end
  end.
Definition seen {A} (a b : Z) (evs : list (Z * A)) : list (Z * A) :=
  last_per_dump (map (fun e => (Z.max (fst e - a) 0, snd e)) (filter (fun e => Z.ltb (fst e) b) evs)).
(* calc_gain_correction 178-204 for one input: time interpolation over the VALID solutions seen; the correction is
   a number at every dump iff at least one of them is valid *)
Definition gain_has_valid (a b : Z) (evs : list (Z * bool)) : bool := existsb snd (seen a b evs).

(* ------------------------------------------------------------------ wire *)
Definition pow2 (k : Z) : positive := Z.to_pos (2 ^ k).
Definition to_Qc (n k : Z) : Qc := Q2Qc (n # pow2 k).
(* () = NaN; (re im k) = (re + i im) / 2^k *)
Definition to_C (x : sx) : C :=
  match x with
  | L [I a; I b; I k] => CFin (to_Qc a k) (to_Qc b k)
  | _ => CNaN
  end.
Definition of_Qc (q : Qc) : sx := L [I (Qnum q); I (Z.pos (Qden q))].
Definition of_C (z : C) : sx :=
  match z with CNaN => L [] | CFin a b => L [of_Qc a; of_Qc b] end.
Definition to_Q (x : sx) : Q :=
  match x with L [I n; I d] => n # Z.to_pos d | _ => 0 end.
Definition to_W (x : sx) : Qc :=
  match x with L [I n; I k] => to_Qc n k | _ => Q2Qc 0 end.
Definition to_pair (x : sx) : nat * nat :=
  match x with L [a; b] => (to_nat a, to_nat b) | _ => (O, O) end.
Definition to_arr3 {A} (f : sx -> A) (x : sx) : list (list (list A)) :=
  map (fun r => map (fun c => map f (to_list c)) (to_list r)) (to_list x).
Definition of_arr3 {A} (f : A -> sx) (a : list (list (list A))) : sx :=
  L (map (fun r => L (map (fun c => L (map f c)) r)) a).

(* product on the wire: (own kb cal_freqs corr)  own: 0 scalar, 1 on the data channels, 2 on the cal-stream channels *)
Definition to_product (data : list Q) (x : sx) : rawproduct * sproduct :=
  match x with
  | L [I own; kb; cal; corr] =>
      let cal := map to_Q (to_list cal) in
      let corr := to_arr3 to_C corr in
      (mkRaw (to_bool kb) cal corr,
       mkSProduct (if Z.eqb own 0 then [0%Q] else if Z.eqb own 1 then data else cal) corr)
  | _ => (mkRaw false [] [], mkSProduct [] [])
  end.

Definition of_chmap (m : chmap) : sx :=
  match m with Broadcast => L [I 0] | Direct => L [I 1] | Nearest e => L [I 2; of_nats e] end.

(* (1 data_freqs prods ninputs cps tchunks cchunks vis weights flags)
   -> (wf maps corr vis weights flags spec_vis spec_weights spec_flags)
   model arrays are assembled from the blocks of the given chunking; spec arrays are pointwise *)
Definition wire_13 (x : sx) : sx :=
  match x with
  | L [I 1; data; prods; ninputs; cps; tch; cch; vis; wts; fls] =>
      let data := map to_Q (to_list data) in
      let ps := map (to_product data) (to_list prods) in
      let prods := make_products data (map fst ps) in
      let sprods := map snd ps in
      let ninputs := to_nat ninputs in
      let cps := map to_pair (to_list cps) in
      let tch := to_nats tch in
      let cch := to_nats cch in
      let vis := to_arr3 to_C vis in
      let wts := to_arr3 to_W wts in
      let fls := to_arr3 to_Z fls in
      let T := fold_right Nat.add O tch in
      let F := List.length data in
      let wf := forallb (wf_product T F ninputs) prods
                && Nat.eqb (fold_right Nat.add O cch) F && Nat.ltb O T in
      let pts := map (fun t => map (fun c => (t, c)) (seq 0 F)) (seq 0 T) in
      let sf t c := spec_factor sprods t (nth c data 0%Q) in
      let spec {A} (k : A -> C -> A) (d : list (list (list A))) (dflt : A) :=
          map (fun t => map (fun c => map (fun b => k (nth b (nth c (nth t d []) []) dflt) (sf t c (nth b cps (O, O))))
                                           (seq 0 (List.length cps))) (seq 0 F)) (seq 0 T) in
      L [of_bool wf;
         L (map (fun p => of_chmap (p_map p)) prods);
         of_arr3 of_C (assemble (corr_block prods ninputs cps) tch cch);
         of_arr3 of_C (assemble (corrected_block apply_vis vis prods ninputs cps) tch cch);
         of_arr3 of_Qc (assemble (corrected_block apply_weights wts prods ninputs cps) tch cch);
         of_arr3 I (assemble (corrected_block apply_flags fls prods ninputs cps) tch cch);
         of_arr3 of_C (spec spec_vis vis CNaN);
         of_arr3 of_Qc (spec spec_weight wts (Q2Qc 0));
         of_arr3 I (spec spec_flags fls 0%Z)]
  (* (2 z)  -> (1/z)   reciprocal, for the probe of numpy's reciprocal(0) *)
  | L [I 2; z] => of_C (Cinv (to_C z))
  (* (3 a b ((dump id) ...)) -> ((relative_dump id) ...)   the solutions seen by a data set holding dumps [a, b) *)
  | L [I 3; I a; I b; evs] =>
      L (map (fun e => L [I (fst e); I (snd e)])
             (seen a b (map (fun e => match e with L [I d; I k] => (d, k) | _ => (0%Z, 0%Z) end) (to_list evs))))
  | _ => sx_err
  end.
