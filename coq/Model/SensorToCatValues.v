(* C10: sensor VALUES that are not just ids.  Array-valued sensors hand ComparableArrayWrapper objects to
   sensor_to_categorical; repeat removal (`values[n] != values[n-1]`) and greedy membership (`value in greedy_values`)
   go through ComparableArrayWrapper.__eq__ (regenerated: Gen/Generated.v c10_eq_as_arrays, skeleton fixed by
   item_c10_values): as soon as either side is an ndarray the two are compared with np.array_equal - same SHAPE and
   same elements, NaN never equal -, otherwise with Python's ==.
   A value is (kind, shape, flat data); elements are integers standing for floats, `nan_code` stands for NaN.
   Definitions only. *)
From Coq Require Import ZArith List Bool.
From KV Require Import Base.Sx Gen.Generated Model.SensorToCat Model.SensorToCatSrc.
Import ListNotations.
Open Scope Z_scope.

Inductive vkind := KNd | KTup | KList | KNum.
Record wv := mk_wv { wk : vkind; wshape : list Z; wdata : list Z }.
Definition nan_code : Z := -777.

Definition is_nd (v : wv) : bool := match wk v with KNd => true | _ => false end.
Definition kind_eqb (a b : vkind) : bool :=
  match a, b with KNd, KNd | KTup, KTup | KList, KList | KNum, KNum => true | _, _ => false end.
Fixpoint zlist_eqb (a b : list Z) : bool :=
  match a, b with
  | [], [] => true
  | x :: s, y :: t => (x =? y) && zlist_eqb s t
  | _, _ => false
  end.
(* elementwise ==, NaN equal to nothing *)
Definition elem_eq (x y : Z) : bool := (x =? y) && negb (x =? nan_code).
Fixpoint data_eq (a b : list Z) : bool :=
  match a, b with
  | [], [] => true
  | x :: s, y :: t => elem_eq x y && data_eq s t
  | _, _ => false
  end.
(* the shape np.asarray gives the value: a scalar is 0-d, a tuple / list of n numbers is (n,) *)
Definition arr_shape (v : wv) : list Z :=
  match wk v with
  | KNd => wshape v
  | KTup | KList => [Z.of_nat (length (wdata v))]
  | KNum => []
  end.
(* np.array_equal(a, b): shapes differ -> False, else all(a == b) *)
Definition array_equal (a b : wv) : bool := zlist_eqb (arr_shape a) (arr_shape b) && data_eq (wdata a) (wdata b).
(* Python == of two values neither of which is an ndarray *)
Definition py_eq (a b : wv) : bool :=
  match wk a, wk b with
  | KTup, KTup | KList, KList | KNum, KNum => data_eq (wdata a) (wdata b)
  | _, _ => false
  end.

(* ComparableArrayWrapper.__eq__ *)
Definition caw_eq_src (a b : wv) : bool :=
  if c10_eq_as_arrays (is_nd a) (is_nd b) then array_equal a b else py_eq a b.

(* strict identity of a value (kind, shape, data; NaN identical to NaN): what dask's tokenize distinguishes *)
Definition tok_eqb (a b : wv) : bool :=
  kind_eqb (wk a) (wk b) && zlist_eqb (arr_shape a) (arr_shape b) && zlist_eqb (wdata a) (wdata b).
(* hash(wrapper) = hash(unwrapped): ndarrays and lists are unhashable *)
Definition hashable (v : wv) : bool := match wk v with KTup | KNum => true | _ => false end.

(* SPEC of value equality for array-valued sensors: same shape and same elements (no NaN) *)
Definition nan_free (v : wv) : bool := forallb (fun x => negb (x =? nan_code)) (wdata v).
Definition arr_eqb (a b : wv) : bool := zlist_eqb (arr_shape a) (arr_shape b) && zlist_eqb (wdata a) (wdata b).
(* tuple vs list is the one pair Python's == separates although np.asarray would not *)
Definition compatible (a b : wv) : bool :=
  match wk a, wk b with KTup, KList | KList, KTup => false | _, _ => true end.

(* ---------- ids: the quotient of the values of one sensor by the equality the code uses ---------- *)
Fixpoint first_eq (eq : wv -> wv -> bool) (x : wv) (l : list wv) (k : Z) : option Z :=
  match l with
  | [] => None
  | y :: t => if eq y x then Some k else first_eq eq x t (k + 1)
  end.
(* id of the i-th value of the universe u: 1 + index of the first value equal to it; a value equal to nothing
   (not even to itself: NaN) gets an id of its own *)
Definition id_in (eq : wv -> wv -> bool) (u : list wv) (i : Z) (x : wv) : Z :=
  match first_eq eq x u 0 with Some k => k + 1 | None => Z.of_nat (length u) + 1 + i end.
Fixpoint ids_from (eq : wv -> wv -> bool) (u : list wv) (i : Z) (l : list wv) : list Z :=
  match l with [] => [] | x :: t => id_in eq u i x :: ids_from eq u (i + 1) t end.

Definition olistv (o : option wv) : list wv := match o with Some v => [v] | None => [] end.

(* sensor_to_categorical on structured values: ids by caw_eq_src over the universe vals ++ init ++ greedy *)
Definition per_dump_sv (ts : list Z) (vals : list wv) (mids : list Z) (P : Z) (init : option wv) (greedy : list wv)
                       (ar : option bool) : res cat :=
  let u := vals ++ olistv init ++ greedy in
  let n := Z.of_nat (length vals) in
  sensor_to_categorical_src ts (ids_from caw_eq_src u 0 vals) mids P None
    (match init with Some v => Some (id_in caw_eq_src u n v) | None => None end)
    (ids_from caw_eq_src u (n + Z.of_nat (length (olistv init))) greedy) ar.

(* ---------- wire ---------- *)
Definition to_wv (x : sx) : wv :=
  match x with
  | L [I k; sh; d] => mk_wv (match k with 0 => KNd | 1 => KTup | 2 => KList | _ => KNum end) (to_Zs sh) (to_Zs d)
  | _ => mk_wv KNum [] [0]
  end.
Definition to_optwv (x : sx) : option wv := match x with L [v] => Some (to_wv v) | _ => None end.

(* (a b) -> (a == b, b == a, identical, hashable a, hashable b, spec: same shape and elements, compatible) *)
Definition wire_104 (x : sx) : sx :=
  match x with
  | L [a; b] =>
      let a := to_wv a in let b := to_wv b in
      L [of_bool (caw_eq_src a b); of_bool (caw_eq_src b a); of_bool (tok_eqb a b); of_bool (hashable a);
         of_bool (hashable b); of_bool (arr_eqb a b && nan_free a); of_bool (compatible a b)]
  | _ => sx_err
  end.

(* (ts structured-vals mids P init? greedy ar?) ->
   (ids-of-vals init-id? greedy-ids (ok events indices unique per_dump) (ok rule) (ok rule as coded) f14_differs) *)
Definition wire_105 (x : sx) : sx :=
  match x with
  | L [ts; vals; mids; I P; init; greedy; ar] =>
      let ts := to_Zs ts in let vals := map to_wv (to_list vals) in let mids := to_Zs mids in
      let init := to_optwv init in let greedy := map to_wv (to_list greedy) in let ar := to_optbool ar in
      let u := vals ++ olistv init ++ greedy in
      let n := Z.of_nat (length vals) in
      let ivals := ids_from caw_eq_src u 0 vals in
      let iinit := match init with Some v => Some (id_in caw_eq_src u n v) | None => None end in
      let igreedy := ids_from caw_eq_src u (n + Z.of_nat (length (olistv init))) greedy in
      let ends := dump_ends mids P in
      let m := match per_dump_sv ts vals mids P init greedy ar with
               | Ok c => L [I 1; of_Zs (cevents c); of_nats (indices c); of_Zs (unique_values c);
                            of_res_list (cat_all_src c)]
               | Err => L [I 0]
               end in
      let sp := fun i => match spec_per_dump ts ivals ends P None i igreedy with
                         | Some l => L [I 1; of_Zs l] | None => L [I 0] end in
      L [of_Zs ivals; of_optZ iinit; of_Zs igreedy; m; sp iinit; sp (init_as_coded ts ends P iinit);
         of_bool (f14_differs ts ivals ends P None iinit igreedy)]
  | _ => sx_err
  end.
