(* C04 — the chunk store as a RECORDED HISTORY of get_chunk calls under a history of public accesses to lazy indexers.
   The stored arrays are chunked as in C07's chunk model (Model/Chunks.v, imported unchanged: `intervals`, `blocks`,
   `slices`): a get_chunk call is (store, array name, slices) with slices = per-axis (start, stop).
   Definitions only; proofs in Proofs/DaskStoreP.v. *)
From Coq Require Import ZArith List Bool.
From KV Require Import Base.Sx Gen.Generated Model.Chunks Model.DaskIdx Model.DaskJoint.
Import ListNotations.
Open Scope Z_scope.

(* the extent of stored chunk number `id` on an axis chunked `cs`: dask's array-location of that block *)
Definition s_extent (cs : list Z) (id : Z) : Z * Z := nth (Z.to_nat id) (intervals 0 cs) (0, 0).
Fixpoint s_slices (chunks : list (list Z)) (ids : list Z) : slices :=
  match chunks, ids with
  | cs :: r, id :: t => s_extent cs id :: s_slices r t
  | _, _ => []
  end.

(* one recorded call of ChunkStore.get_chunk(array_name, slices, dtype) on store `s` *)
Definition s_call := (Z * Z * slices)%type.
Definition s_call_dec : forall a b : s_call, {a = b} + {a <> b}.
Proof.
  decide equality; [apply list_eq_dec; decide equality; apply Z.eq_dec|decide equality; apply Z.eq_dec].
Defined.

Definition s_chunks (i : j_rind) : list (list Z) := map fst (jr_axes i).
(* _ArrayLikeGetter.__getitem__ hands the slices dask.array.from_array set up for block `key` to the getter unchanged *)
Definition s_call_of (i : j_rind) (key : j_key) : s_call :=
  (fst (fst key), snd (fst key), s_slices (s_chunks i) (snd key)).

(* the get_chunk calls in the graph of ONE selected array *)
Definition s_tasks (i : j_rind) : option (list s_call) :=
  option_map (map (s_call_of i)) (j_tasks d_reads_axis i).
(* ONE request = one da.store over the merged graph: a task (call) shared by several selected arrays runs once *)
Definition s_request_calls (l : list j_rind) : option (list s_call) :=
  option_map (fun ls => nodup s_call_dec (concat ls)) (d_sequence (map s_tasks l)).

(* ---- histories of public accesses ---------------------------------------------------------- *)
(* j_rind describes an indexer as the reads see it: the stored array and, per stored axis, the chunking and the
   indices reaching that axis stage by stage (nesting = more stages). *)
Inductive s_op :=
  | SNew (i : j_rind)            (* DaskLazyIndexer(...) constructed, over a stored array or over another indexer *)
  | SMeta (i : j_rind)           (* .shape / .dtype / .dataset / len() / str() / repr() of it *)
  | SFetch (l : list j_rind).    (* indexer[k] (one) or DaskLazyIndexer.get([...], k) (several); k = their last stage *)

(* how many dask computations the code performs per access: counted in the source by the translator
   (c04_meta_computes: __init__, dataset, shape, dtype, __len__, __str__, __repr__, dask_getitem, _dask_oindex,
   _simplify_index; c04_get_computes: the body of get) *)
Definition s_times (n : Z) (o : option (list s_call)) : option (list s_call) :=
  match n with
  | 0 => Some []
  | _ => option_map (fun c => concat (repeat c (Z.to_nat n))) o
  end.
Definition s_step (op : s_op) : option (list s_call) :=
  match op with
  | SNew i => s_times c04_meta_computes (s_request_calls [i])
  | SMeta i => s_times c04_meta_computes (s_request_calls [i])
  | SFetch l => s_times c04_get_computes (s_request_calls l)
  end.
(* the store's log after a history (None: some request is outside the contiguous class) *)
Fixpoint s_run (h : list s_op) : option (list s_call) :=
  match h with
  | [] => Some []
  | op :: r => match s_step op, s_run r with Some a, Some b => Some (a ++ b) | _, _ => None end
  end.
Definition s_is_fetch (op : s_op) : bool := match op with SFetch _ => true | _ => false end.
Definition s_fetches (h : list s_op) : list (list j_rind) :=
  flat_map (fun op => match op with SFetch l => [l] | _ => [] end) h.

(* SPEC of one request, in the terms of the property: the stored chunks (whole blocks of the chunk grid) that overlap
   the requested region of some indexer of that stored array *)
Definition s_meets (se : Z * Z) (ax : list Z * list d_aidx) : Prop :=
  In se (intervals 0 (fst ax)) /\
  exists lo hi, d_compose_region 0 (fold_right Z.add 0 (fst ax)) (snd ax) = Some (lo, hi) /\
                Z.max lo (fst se) < Z.min hi (snd se).
Definition s_wanted (c : s_call) (i : j_rind) : Prop :=
  fst (fst c) = jr_store i /\ snd (fst c) = jr_name i /\ Forall2 s_meets (snd c) (jr_axes i).

(* ---- advertised shape / dtype without data -------------------------------------------------- *)
(* the same indexer over arrays whose contents have been blanked out: what can be known without reading anything *)
Definition d_blank_arr (a : d_arr) : d_arr := DA (d_shape a) (d_dtype a) (fun _ => 0).
Fixpoint d_blank (i : d_ind) : d_ind :=
  match i with
  | DBase a k tr => DBase (d_blank_arr a) k tr
  | DNest j k tr => DNest (d_blank j) k tr
  end.
Definition d_meta (a : d_arr) : list Z * Z := (d_shape a, d_dtype a).
(* a transform whose output shape/dtype depend on the input's shape/dtype only (every dask graph transform: dask
   derives chunks and meta without data) *)
Definition d_tr_meta (f : d_arr -> d_arr) : Prop := forall a b, d_meta a = d_meta b -> d_meta (f a) = d_meta (f b).
Fixpoint d_ind_meta (i : d_ind) : Prop :=
  match i with
  | DBase _ _ tr => Forall d_tr_meta tr
  | DNest j _ tr => d_ind_meta j /\ Forall d_tr_meta tr
  end.

(* ---- wire ------------------------------------------------------------------------------------ *)
Definition s_of_calls (o : option (list s_call)) : sx :=
  match o with
  | None => L [I 0]
  | Some cs => L [I 1; L (map (fun c => L [I (fst (fst c)); I (snd (fst c));
                                           L (map (fun se => L [I (fst se); I (snd se)]) (snd c))]) cs)]
  end.
Definition s_to_op (x : sx) : s_op :=
  match x with
  | L [I 0; r] => SNew (j_to_rind r)
  | L [I 1; r] => SMeta (j_to_rind r)
  | L [I _; L rs] => SFetch (map j_to_rind rs)
  | _ => SFetch []
  end.
(* history of (tag, indexer(s)) -> (log increment of every access, whole log, translated counts) *)
Definition wire_48 (x : sx) : sx :=
  let h := map s_to_op (to_list x) in
  L [L (map (fun op => s_of_calls (s_step op)) h); s_of_calls (s_run h); L [I c04_meta_computes; I c04_get_computes]].
