(* C14: which calculator turns the solutions of a product type into the correction of one input
   (katdal/applycal.py add_applycal_sensors.calc_correction_per_input 384-407).  The table `cal_dispatch` is
   regenerated from the if/elif chain of the source on every run (Gen/Generated.v). *)
From Coq Require Import ZArith QArith List Bool String.
From KV Require Import Base.Sx Base.Str Gen.Generated Model.Interp Model.CalInterp.
Import ListNotations.
Local Open Scope Z_scope.

Inductive cal_kind :=
  | KDelay                                   (* calc_delay_correction(product, index, data_freqs) *)
  | KBandpass                                (* calc_bandpass_correction(product, index, data_freqs, cal_freqs) *)
  | KGain (flux per_target : bool).          (* [calibrate_flux;] calc_gain_correction(product, index [, targets]) *)

Definition kind_of_code (c : Z * (bool * bool)) : option cal_kind :=
  match fst c with
  | 0 => Some KDelay
  | 1 => Some KBandpass
  | 2 => Some (KGain (fst (snd c)) (snd (snd c)))
  | _ => None
  end.
Fixpoint lookup_kind (tbl : list (string * (Z * (bool * bool)))) (t : string) : option cal_kind :=
  match tbl with
  | [] => None
  | (n, c) :: r => if String.eqb n t then kind_of_code c else lookup_kind r t
  end.
(* None = KeyError "Unknown calibration product type" *)
Definition kind_of_type (t : string) : option cal_kind := lookup_kind cal_dispatch t.

Section Dispatch.
  Variable rsqrt : Q -> Q.
  (* the correction of one input for a gain-like product: N dumps, the product's solutions of this input, the names of
     the target at each dump, the merged flux table, the target index per dump.  None = not a gain-like type. *)
  Definition gain_like_correction (t : string) (N : nat) (sols : list sol) (names_at : nat -> list Z)
             (tbl : flux_table) (targets : list Z) : option (list (list (option pv))) :=
    match kind_of_type t with
    | Some (KGain flux per_target) =>
        let s := if flux then calibrate_flux rsqrt sols names_at tbl else sols in
        Some (gain_corr N s (if per_target then Some targets else None))
    | _ => None
    end.
End Dispatch.

(* SPEC: the documented table and the documented gain rules, nothing taken from the source *)
Definition spec_dispatch : list (string * (Z * (bool * bool))) :=
  [("K"%string, (0, (false, false))); ("B"%string, (1, (false, false))); ("G"%string, (2, (true, false)));
   ("GPHASE"%string, (2, (false, true))); ("GAMP_PHASE"%string, (2, (false, true)))].
Definition spec_gain_like_correction (rsqrt : Q -> Q) (t : string) (N : nat) (sols : list sol)
           (names_at : nat -> list Z) (tbl : flux_table) (targets : list Z) : option (list (list (option pv))) :=
  match lookup_kind spec_dispatch t with
  | Some (KGain flux per_target) =>
      let s := if flux then calibrate_flux rsqrt sols names_at tbl else sols in
      Some (spec_gain_corr N s (if per_target then Some targets else None))
  | _ => None
  end.

Definition sx_of_kind (k : option cal_kind) : sx :=
  match k with
  | None => L []
  | Some KDelay => L [I 0]
  | Some KBandpass => L [I 1]
  | Some (KGain f t) => L [I 2; of_bool f; of_bool t]
  end.

Definition wire_142 (x : sx) : sx :=
  match x with
  | L [I 0; t] => sx_of_kind (kind_of_type (to_string t))
  | L [I 1; t; I n; sols; names; measured; ov; rt; tg] =>
      let names := map to_Zs (to_list names) in
      let tbl := merge_flux (ftable_of_sx measured) (match ov with L [o] => Some (ftable_of_sx o) | _ => None end) in
      let rt := map (fun e => match e with L [a; b] => (q_of_sx a, q_of_sx b) | _ => (0%Q, 0%Q) end) (to_list rt) in
      match gain_like_correction (rsqrt_tbl rt) (to_string t) (Z.to_nat n) (map sol_of_sx (to_list sols))
                                 (fun d => nth d names []) tbl (to_Zs tg) with
      | Some rows => L [L (map sx_of_opvs rows)]
      | None => L []
      end
  | L [I 10; t] => sx_of_kind (lookup_kind spec_dispatch (to_string t))
  | L [I 11; t; I n; sols; names; measured; ov; rt; tg] =>
      let names := map to_Zs (to_list names) in
      let tbl := merge_flux (ftable_of_sx measured) (match ov with L [o] => Some (ftable_of_sx o) | _ => None end) in
      let rt := map (fun e => match e with L [a; b] => (q_of_sx a, q_of_sx b) | _ => (0%Q, 0%Q) end) (to_list rt) in
      match spec_gain_like_correction (rsqrt_tbl rt) (to_string t) (Z.to_nat n) (map sol_of_sx (to_list sols))
                                      (fun d => nth d names []) tbl (to_Zs tg) with
      | Some rows => L [L (map sx_of_opvs rows)]
      | None => L []
      end
  | _ => sx_err
  end.
