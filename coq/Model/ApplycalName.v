(* C13: the dask NAME of the corrections array built by calc_correction (katdal/applycal.py, the `name = ...`
   assignment before da.map_blocks) and the baseline-axis chunking rule at the head of calc_correction.

   dask identifies a task by (array name, block index): two arrays with the same name that are computed in one graph
   are ONE array for dask.  The corrections depend on the products, on the data set (inputs, solutions) and on the
   loaded subset (preselect), so the name has to tell apart every pair of calc_correction calls.  The name katdal
   builds is   prefix ++ ','.join(sorted(final_cal_products)) ++ mid ++ [token of this call]
   (constants, separator, `sorted` and whether there is a per-call token are regenerated from the source:
   the Generated.applycal_name definitions).  Strings are lists of character codes. *)
From Coq Require Import ZArith List Bool.
From KV Require Import Base.Sx Gen.Generated.
Import ListNotations.

Definition str := list Z.

(* Python compares str lexicographically by code point *)
Fixpoint str_leb (a b : str) : bool :=
  match a, b with
  | [], _ => true
  | _ :: _, [] => false
  | x :: a', y :: b' => if Z.ltb x y then true else if Z.ltb y x then false else str_leb a' b'
  end.
Fixpoint insert_name (x : str) (l : list str) : list str :=
  match l with
  | [] => [x]
  | y :: r => if str_leb x y then x :: l else y :: insert_name x r
  end.
Definition sort_names (l : list str) : list str := fold_right insert_name [] l.

(* sep.join(l) for a one-character separator *)
Fixpoint join (c : Z) (l : list str) : str :=
  match l with
  | [] => []
  | x :: r => match r with [] => x | _ :: _ => x ++ c :: join c r end
  end.
Definition split (c : Z) (s : str) : list str :=
  fold_right (fun x acc => if Z.eqb x c then [] :: acc
                           else match acc with h :: t => (x :: h) :: t | [] => [[x]] end) [[]] s.

Definition name_products (final : list str) : str :=
  join applycal_name_sep_code (if applycal_name_sorted then sort_names final else final).
(* the name of the corrections array of ONE calc_correction call; tok = uuid4().hex of that call *)
Definition corr_name (tok : str) (final : list str) : str :=
  applycal_name_prefix ++ name_products final ++ applycal_name_mid ++ (if applycal_name_per_call then tok else []).
(* calc_correction: `if not final_cal_products: return final_cal_products, None` comes first *)
Definition calc_name (tok : str) (final : list str) : option str :=
  match final with [] => None | _ :: _ => Some (corr_name tok final) end.

(* a history of calc_correction calls (one per data set opened with applycal): (token, products applied) *)
Definition names_of (calls : list (str * list str)) : list (option str) :=
  map (fun c => calc_name (fst c) (snd c)) calls.

Definition sep_free (l : list str) : Prop := Forall (fun n => ~ In applycal_name_sep_code n) l.

(* ------------------------------------------------------------------ chunks of the corrections array
   shape = tuple(sum(bd) for bd in chunks);
   if len(chunks[2]) > 1: chunks = (chunks[0], chunks[1], (shape[2],))      (chunking on the baseline axis ignored) *)
Definition sum_nat (l : list nat) : nat := fold_right Nat.add O l.
Definition corr_chunks (tch cch bch : list nat) : list nat * list nat * list nat :=
  if Nat.ltb applycal_bl_chunks_limit (List.length bch) then (tch, cch, [sum_nat bch]) else (tch, cch, bch).

(* ------------------------------------------------------------------ wire
   (1 tok (name ...)) -> (name) | ()      (2 tch cch bch) -> (tch cch bch) *)
Definition wire_132 (x : sx) : sx :=
  match x with
  | L [I 1; tok; final] =>
      match calc_name (to_Zs tok) (map to_Zs (to_list final)) with
      | Some n => L [of_Zs n]
      | None => L []
      end
  | L [I 2; tch; cch; bch] =>
      let '(a, b, c) := corr_chunks (to_nats tch) (to_nats cch) (to_nats bch) in
      L [of_nats a; of_nats b; of_nats c]
  | _ => sx_err
  end.
