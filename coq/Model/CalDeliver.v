(* C14: the correction DELIVERED per data channel by calc_correction for one cal product (katdal/applycal.py 581-603 channel
   map choice, calc_correction_per_corrprod 455-495, _correction_inputs_to_corrprods 417-422), in polar form.

   The per-input correction sensors (Model/CalInterp.v) have their own channel axis; calc_correction maps it onto the data
   channels by one of three maps chosen by Model/Applycal.v `choose_map` (C13; the decision incl. the K/B clause is
   regenerated from the source: applycal_kb_direct, applycal_atol_num / _den): broadcast | slice directly | nearest cal channel.
   The correction of a correlation product (i1, i2) is g[i1] * conj(g[i2]).

   The property's clauses "delay solutions become exp(-2 pi i delay frequency)" and "bandpass solutions are inverted
   after ... interpolation over frequency" are about what the DATA channel c, of frequency data_freqs[c], receives. *)
From Coq Require Import ZArith QArith Qabs List Bool String Arith.
From KV Require Import Base.Sx Base.Str Gen.Generated Model.Interp Model.CalInterp.
From KV Require Model.Applycal.
Import ListNotations.
Local Open Scope Q_scope.

Definition cmul (a b : option pv) : option pv :=
  match a, b with
  | Some (m1, p1), Some (m2, p2) => Some (m1 * m2, p1 + p2)
  | _, _ => None
  end.
Definition cconj (a : option pv) : option pv := match a with Some (m, p) => Some (m, - p) | None => None end.

(* which value of the correction vector g data channel c receives (None also for an IndexError position) *)
Definition map_chan_pv (m : Applycal.chmap) (g : list (option pv)) (c : nat) : option pv :=
  match m with
  | Applycal.Broadcast => nth O g None
  | Applycal.Direct => nth c g None
  | Applycal.Nearest e => match nth_error e c with Some k => nth k g None | None => None end
  end.

(* correction_n_chans = max over the inputs of the length of the correction at the first dump *)
Definition corr_len (gs : list (list (option pv))) : nat := fold_right Nat.max O (map (@List.length _) gs).

(* one product at one dump: gs = the correction vector of every input; kb = the product type is K or B *)
Definition delivered (kb : bool) (data cal : list Q) (gs : list (list (option pv))) (i1 i2 c : nat) : option pv :=
  let m := Applycal.choose_map kb (corr_len gs) data cal in
  cmul (map_chan_pv m (nth i1 gs []) c) (cconj (map_chan_pv m (nth i2 gs []) c)).
Definition delivered_row (kb : bool) (data cal : list Q) (gs : list (list (option pv))) (i1 i2 : nat) : list (option pv) :=
  map (delivered kb data cal gs i1 i2) (seq 0 (List.length data)).

(* K: one delay per input (None = NaN); the calculator evaluates on the data frequencies *)
Definition delay_vectors (data : list Q) (delays : list (option Q)) : list (list (option pv)) :=
  map (fun d => map (@Some pv) (delay_corr_seg data d)) delays.
Definition delivered_delay (data cal : list Q) (delays : list (option Q)) (i1 i2 : nat) : list (option pv) :=
  delivered_row true data cal (delay_vectors data delays) i1 i2.
(* B: one bandpass (on the cal channels) per input *)
Definition bandpass_vectors (data cal : list Q) (bps : list (list (option pv))) : list (list (option pv)) :=
  map (bandpass_corr_seg cal data) bps.
Definition delivered_bandpass (data cal : list Q) (bps : list (list (option pv))) (i1 i2 : nat) : list (option pv) :=
  delivered_row true data cal (bandpass_vectors data cal bps) i1 i2.

(* SPEC (documented): data channel c gets the correction evaluated AT ITS OWN FREQUENCY data[c], whatever the
   channelisation of the cal stream: exp(-2 pi i (d1 - d2) f_c) for delays; for bandpasses the reciprocal of the
   interpolated solution of input 1 at f_c times the conjugate of that of input 2 *)
Definition spec_delay_at (f : Q) (d1 d2 : option Q) : option pv :=
  let z := fun d : option Q => match d with Some q => q | None => 0 end in
  Some (1 * 1, - (z d1 * f) + - - (z d2 * f)).
Definition spec_delivered_delay (data : list Q) (delays : list (option Q)) (i1 i2 : nat) : list (option pv) :=
  map (fun f => spec_delay_at f (nth i1 delays None) (nth i2 delays None)) data.
Definition spec_bandpass_at (cal : list Q) (f : Q) (bp : list (option pv)) : option pv :=
  match valid_nodes cal bp with
  | [] => None
  | ns => recip (cinterp Inval Inval ns f)
  end.
Definition spec_delivered_bandpass (data cal : list Q) (bps : list (list (option pv))) (i1 i2 : nat) : list (option pv) :=
  map (fun f => cmul (spec_bandpass_at cal f (nth i1 bps [])) (cconj (spec_bandpass_at cal f (nth i2 bps [])))) data.

(* ------------------------------------------------------------------ wire *)
Local Open Scope Z_scope.
Definition optq_of_sx (x : sx) : option Q := match x with L [q] => Some (q_of_sx q) | _ => None end.
Definition wire_143 (x : sx) : sx :=
  match x with
  (* K: [data; cal; delays; i1; i2] -> [model; spec] *)
  | L [I 1; data; cal; ds; I i1; I i2] =>
      let data := map q_of_sx (to_list data) in
      let ds := map optq_of_sx (to_list ds) in
      L [sx_of_opvs (delivered_delay data (map q_of_sx (to_list cal)) ds (Z.to_nat i1) (Z.to_nat i2));
         sx_of_opvs (spec_delivered_delay data ds (Z.to_nat i1) (Z.to_nat i2))]
  (* B: [data; cal; bandpasses; i1; i2] -> [model; spec] *)
  | L [I 2; data; cal; bps; I i1; I i2] =>
      let data := map q_of_sx (to_list data) in
      let cal := map q_of_sx (to_list cal) in
      let bps := map opvs_of_sx (to_list bps) in
      L [sx_of_opvs (delivered_bandpass data cal bps (Z.to_nat i1) (Z.to_nat i2));
         sx_of_opvs (spec_delivered_bandpass data cal bps (Z.to_nat i1) (Z.to_nat i2))]
  | _ => sx_err
  end.
