(* C14: WHICH gain / bandpass / delay solutions reach the correction calculators, and at which dump.

   A cal product is a telstate sensor of (timestamp, solution) samples.  `get_cal_product` extracts it through
   SensorCache.get -> categorical.sensor_to_categorical(timestamps, values, dump_midtimes, dump_period,
   **SENSOR_PROPS[name]) with the properties visdatav4.SENSOR_PROPS gives to 'Calibration/Products/*/<type>'
   (regenerated: Gen/Generated.v cal_initial_invalid / cal_allow_repeats): no transform, no greedy values; gain types
   have initial_value = INVALID_GAIN and allow_repeats = True.  The dumps are those of the data set AFTER a `dumps`
   preselection (katdal.open(..., preselect=dict(dumps=slice(a, b)))): the cache only knows the kept dump midtimes.

   Code followed (katdal/categorical.py sensor_to_categorical, for time-sorted samples and no greedy value):
     event_of        dump_endtimes = midtimes + P/2 with the extra prior dump; searchsorted(ts) - 1   (726-735)
     shift_prior     first_proper_event = events.searchsorted(-1, 'right'); the FINAL prior event is moved to dump 0,
                     earlier ones are sliced away                                                       (738-746)
     take_lt         one_past_last_event = events.searchsorted(num_dumps): events after the last dump   (743-746)
     with_initial    initial value at dump 0 unless an event is there                                   (757-761)
     force_first     events[0] = 0 (IndexError when there is no event at all)                           (762)
     last_per_dump   _single_event_per_dump without greedy values: the last event of every dump         (606-664)
   `place` is the whole; `spec_place` says the same without the prior bookkeeping: every solution counts for the dump
   during which it was timestamped, one timestamped before the first (kept) dump counts for that first dump, the last
   solution of a dump wins.  Proofs/CalPlaceP.v: place = spec_place for every time-sorted history. *)
From Coq Require Import ZArith QArith List Bool String.
From Coq Require Import Ascii.
From KV Require Import Base.Sx Base.Str Gen.Generated Model.CalInterp Model.CalSelect.
Import ListNotations.
Open Scope Z_scope.

(* dump_endtimes.searchsorted(t) (side='left') on increasing end times: how many leading end times are < t *)
Fixpoint count_lt (ends : list Q) (t : Q) : nat :=
  match ends with
  | [] => O
  | e :: r => if Qlt_bool e t then S (count_lt r t) else O
  end.
(* np.r_[dump_endtimes[0] - dump_period, dump_endtimes] *)
Definition with_prior_dump (ends : list Q) (P : Q) : list Q :=
  match ends with [] => [] | e0 :: _ => (e0 - P)%Q :: ends end.
(* -1 = before the first dump, 0..N-1 = during that dump, N = after the last *)
Definition event_of (ends : list Q) (P : Q) (t : Q) : Z := Z.of_nat (count_lt (with_prior_dump ends P) t) - 1.

Section Place.
  Variable A : Type.
  Definition evs := list (Z * A).

  Fixpoint shift_prior (l : evs) : evs :=
    match l with
    | [] => []
    | (e, v) :: t =>
        if e <=? -1 then
          match t with
          | [] => [(0, v)]
          | (e', _) :: _ => if e' <=? -1 then shift_prior t else (0, v) :: t
          end
        else l
    end.
  Fixpoint take_lt (n : Z) (l : evs) : evs :=
    match l with
    | [] => []
    | (e, v) :: t => if e <? n then (e, v) :: take_lt n t else []
    end.
  Definition with_initial (init : option A) (l : evs) : evs :=
    match init with
    | Some i => match l with
                | [] => [(0, i)]
                | (e, _) :: _ => if e =? 0 then l else (0, i) :: l
                end
    | None => l
    end.
  (* None = IndexError *)
  Definition force_first (l : evs) : option evs :=
    match l with [] => None | (_, v) :: t => Some ((0, v) :: t) end.
  Fixpoint last_per_dump (l : evs) : evs :=
    match l with
    | [] => []
    | (e, v) :: t =>
        match t with
        | [] => [(e, v)]
        | (e', _) :: _ => if e <? e' then (e, v) :: last_per_dump t else last_per_dump t
        end
    end.
  Definition place_tail (init : option A) (l : evs) : option evs :=
    match force_first (with_initial init l) with
    | Some l' => Some (last_per_dump l')
    | None => None
    end.

  Definition events_of (ends : list Q) (P : Q) (samples : list (Q * A)) : evs :=
    map (fun s => (event_of ends P (fst s), snd s)) samples.
  Definition place (init : option A) (ends : list Q) (P : Q) (samples : list (Q * A)) : option evs :=
    place_tail init (take_lt (Z.of_nat (List.length ends)) (shift_prior (events_of ends P samples))).

  (* SPEC.  The dump a solution counts for: the one during which it was timestamped; the first when it is older *)
  Definition dump_clamped (ends : list Q) (P : Q) (t : Q) : Z := Z.max 0 (event_of ends P t).
  Definition in_range (ends : list Q) (P : Q) (s : Q * A) : bool :=
    dump_clamped ends P (fst s) <? Z.of_nat (List.length ends).
  Definition spec_place (init : option A) (ends : list Q) (P : Q) (samples : list (Q * A)) : option evs :=
    place_tail init (map (fun s => (dump_clamped ends P (fst s), snd s)) (filter (in_range ends P) samples)).

  (* value in force at dump d: that of the last event at or before d (CategoricalData lookup) *)
  Fixpoint value_at (l : evs) (d : Z) (dflt : A) : A :=
    match l with
    | [] => dflt
    | (e, v) :: t => if e <=? d then value_at t d v else dflt
    end.
End Place.
Arguments shift_prior {A}. Arguments take_lt {A}. Arguments with_initial {A}. Arguments force_first {A}.
Arguments last_per_dump {A}. Arguments place_tail {A}. Arguments events_of {A}. Arguments place {A}.
Arguments in_range {A}. Arguments spec_place {A}. Arguments value_at {A}.

(* a `dumps` preselection slice(a, b) of the data set: the cache sees only these dumps *)
Definition preselect_dumps {B} (a b : nat) (l : list B) : list B := firstn (b - a) (skipn a l).

(* ------------------------------------------------------------------ by product type *)
Definition solution := option (list (option pv)).       (* None = the INVALID_GAIN placeholder *)
(* initial_value of 'Calibration/Products/*/<type>' in visdatav4.SENSOR_PROPS *)
Definition initial_of_type (t : string) : option solution :=
  if mem_string t cal_initial_invalid then Some None else None.
Definition place_product (t : string) (ends : list Q) (P : Q) (samples : list (Q * list (option pv)))
  : option (list sol) :=
  match place (initial_of_type t) ends P (map (fun s => (fst s, Some (snd s))) samples) with
  | Some l => Some (map (fun p => (Z.to_nat (fst p), snd p)) l)
  | None => None
  end.
Definition spec_place_product (gain_like : bool) (ends : list Q) (P : Q) (samples : list (Q * list (option pv)))
  : option (list sol) :=
  match spec_place (if gain_like then Some None else None) ends P (map (fun s => (fst s, Some (snd s))) samples) with
  | Some l => Some (map (fun p => (Z.to_nat (fst p), snd p)) l)
  | None => None
  end.

(* time-stamped solutions of one input -> gain corrections per (kept) dump and channel: placement, then
   calc_gain_correction; None = IndexError (no dump) *)
Definition gain_from_samples (t : string) (ends : list Q) (P : Q) (samples : list (Q * list (option pv)))
                             (targets : option (list Z)) : option (list (list (option pv))) :=
  match place_product t ends P samples with
  | Some sols => Some (gain_corr (List.length ends) sols targets)
  | None => None
  end.
Definition spec_gain_from_samples (ends : list Q) (P : Q) (samples : list (Q * list (option pv)))
                                  (targets : option (list Z)) : option (list (list (option pv))) :=
  match spec_place_product true ends P samples with
  | Some sols => Some (spec_gain_corr (List.length ends) sols targets)
  | None => None
  end.

(* ------------------------------------------------------------------ which telstate sensors hold a product
   indirect_cal_product: with the stream attribute product_<type>_parts = n the product is read from the n sensors
   <substream>_product_<type><i>, i = first .. first+n-1 (first = parts_first_index, regenerated), ALSO when n = 1; the
   unsuffixed sensor <substream>_product_<type> is read only when the attribute is absent.  A key is None (unsuffixed)
   or Some i; `lookup` gives the samples of a sensor (None = KeyError: some substream lacks it). *)
Definition product_keys (n_parts : option nat) : list (option nat) :=
  match n_parts with None => [None] | Some n => map Some (seq parts_first_index n) end.
(* None = KeyError *)
Definition indirect_product (lookup : option nat -> option part) (n_parts : option nat) : option (list sample) :=
  match n_parts with
  | None => lookup None
  | Some n => stitch (map (fun k => match lookup k with Some p => p | None => [] end) (product_keys (Some n)))
  end.

(* ------------------------------------------------------------------ <stream>.<type> names
   applycal._parse_cal_product: split at the LAST dot (parse_splits_at_last_dot, regenerated) *)
Fixpoint lsplit_dot (s : string) : option (string * string) :=
  match s with
  | EmptyString => None
  | String a t => if Ascii.eqb a "."%char then Some (EmptyString, t)
                  else match lsplit_dot t with Some (h, r) => Some (String a h, r) | None => None end
  end.
Definition parse_cal_product (s : string) : option (string * string) :=
  if parse_splits_at_last_dot then CalSelect.rsplit_dot s else lsplit_dot s.

(* ------------------------------------------------------------------ wire *)
Definition tsample_of_sx (x : sx) : Q * list (option pv) :=
  match x with L [t; v] => (q_of_sx t, opvs_of_sx v) | _ => (0%Q, []) end.
Definition sx_of_sols (o : option (list sol)) : sx :=
  match o with Some l => L [L (map sx_of_sol l)] | None => L [] end.
Definition sx_of_rows (o : option (list (list (option pv)))) : sx :=
  match o with Some l => L [L (map sx_of_opvs l)] | None => L [] end.

(* [op; type; ends; P; samples (; targets)]:
   op 0 -> [model placement; spec placement (gain-like iff the DOCUMENTED gain types)]
   op 1 -> [model gain corrections; spec gain corrections] *)
Definition wire_144 (x : sx) : sx :=
  match x with
  | L [I 0; t; ends; p; ss] =>
      let ty := to_string t in
      let es := map q_of_sx (to_list ends) in
      let sm := map tsample_of_sx (to_list ss) in
      L [sx_of_sols (place_product ty es (q_of_sx p) sm);
         sx_of_sols (spec_place_product (mem_string ty ["G"; "GPHASE"; "GAMP_PHASE"]%string) es (q_of_sx p) sm)]
  | L [I 1; t; ends; p; ss; tg] =>
      let ty := to_string t in
      let es := map q_of_sx (to_list ends) in
      let sm := map tsample_of_sx (to_list ss) in
      let tgs := match tg with L [t] => Some (to_Zs t) | _ => None end in
      L [sx_of_rows (gain_from_samples ty es (q_of_sx p) sm tgs);
         sx_of_rows (spec_gain_from_samples es (q_of_sx p) sm tgs)]
  (* op 2: [n_parts ([] | [n]); unsuffixed sensor ([] | [samples]); suffixed sensors, each [] | [samples]] *)
  | L [I 2; np; raw; parts] =>
      let sub_of := fun o => match o with L [p] => Some (map sample_of_sx (to_list p)) | _ => None end in
      let lookup := fun k => match k with None => sub_of raw | Some i => nth i (map sub_of (to_list parts)) None end in
      match indirect_product lookup (match np with L [I n] => Some (Z.to_nat n) | _ => None end) with
      | Some l => L [L (map sx_of_sample l)]
      | None => L []
      end
  (* op 3: a product name -> [] (ValueError) | [stream; type] *)
  | L [I 3; s] =>
      match parse_cal_product (to_string s) with
      | Some (a, b) => L [of_string a; of_string b]
      | None => L []
      end
  | _ => sx_err
  end.
