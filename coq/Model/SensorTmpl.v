(* C12: virtual-sensor TEMPLATES.  SensorCache.get turns every key of `self.virtual` into a regular expression
   (re.sub(r'(\{[a-zA-Z_]\w*\})', '(?P<name>[^/]+)', pattern)) and tries the keys IN DICT ORDER with
   re.match(pattern, name) - anchored at the start of the sensor name only; the first template that matches wins and
   its function is called with the named groups as keyword arguments.  Definitions only.

   Regex subset modelled (the translator refuses registered templates outside it): literal characters
   [A-Za-z0-9_/], character classes [abc] of such characters, variables {ident}.  A variable is `[^/]+`: greedy,
   at least one character, never a slash; backtracking = shorter and shorter runs. *)
From Coq Require Import ZArith List Bool String Ascii Arith.
From KV Require Import Base.Sx Base.Str Gen.Generated.
Import ListNotations.

Inductive tseg := TLit (c : ascii) | TCls (cs : list ascii) | TVar (v : list ascii).
Definition bnd := list (list ascii * list ascii).      (* groupdict(): variable name -> matched text *)

Definition slash : ascii := "/"%char.
Definition is_slash (c : ascii) : bool := Ascii.eqb c slash.
Definition mem_ascii (c : ascii) (l : list ascii) : bool := existsb (Ascii.eqb c) l.

Definition in_range (c : ascii) (lo hi : nat) : bool :=
  let n := nat_of_ascii c in Nat.leb lo n && Nat.leb n hi.
Definition is_ident_start (c : ascii) : bool := in_range c 65 90 || in_range c 97 122 || Ascii.eqb c "_"%char.
Definition is_word (c : ascii) : bool := is_ident_start c || in_range c 48 57.
Definition is_lit (c : ascii) : bool := is_word c || is_slash c.

(* ------------------------------------------------------------------ parsing a template (inside the subset) *)
Fixpoint take_while (f : ascii -> bool) (s : list ascii) : list ascii * list ascii :=
  match s with
  | c :: t => if f c then let '(w, r) := take_while f t in (c :: w, r) else ([], s)
  | [] => ([], [])
  end.

Fixpoint parse_tmpl (fuel : nat) (s : list ascii) : option (list tseg) :=
  match fuel with
  | O => match s with [] => Some [] | _ => None end
  | S f =>
      match s with
      | [] => Some []
      | c :: t =>
          if Ascii.eqb c "{"%char then
            match t with
            | c1 :: _ =>
                if is_ident_start c1 then
                  let '(w, r) := take_while is_word t in
                  match r with
                  | c2 :: r' => if Ascii.eqb c2 "}"%char
                                then option_map (cons (TVar w)) (parse_tmpl f r') else None
                  | [] => None
                  end
                else None
            | [] => None
            end
          else if Ascii.eqb c "["%char then
            let '(w, r) := take_while (fun x => is_word x) t in
            match w, r with
            | _ :: _, c2 :: r' => if Ascii.eqb c2 "]"%char
                                  then option_map (cons (TCls w)) (parse_tmpl f r') else None
            | _, _ => None
            end
          else if is_lit c then option_map (cons (TLit c)) (parse_tmpl f t)
          else None
      end
  end.

Definition vars_of (segs : list tseg) : list (list ascii) :=
  flat_map (fun s => match s with TVar v => [v] | _ => [] end) segs.
Fixpoint distinct (l : list (list ascii)) : bool :=
  match l with
  | [] => true
  | v :: t => negb (existsb (fun w => String.eqb (string_of_list_ascii v) (string_of_list_ascii w)) t) && distinct t
  end.

(* None = outside the modelled subset (or a repeated group name: re.error) *)
Definition parse (t : string) : option (list tseg) :=
  let l := list_ascii_of_string t in
  match parse_tmpl (List.length l) l with
  | Some segs => if distinct (vars_of segs) then Some segs else None
  | None => None
  end.

(* ------------------------------------------------------------------ re.match *)
(* `[^/]+` followed by the continuation k: the LONGEST slash-free run after which k succeeds *)
Fixpoint var_go (k : list ascii -> option bnd) (s : list ascii) : option (list ascii * bnd) :=
  match s with
  | [] => None
  | c :: s' =>
      if is_slash c then None else
      match var_go k s' with
      | Some (w, b) => Some (c :: w, b)
      | None => match k s' with Some b => Some ([c], b) | None => None end
      end
  end.

Fixpoint tm (segs : list tseg) : list ascii -> option bnd :=
  match segs with
  | [] => fun _ => Some []                          (* re.match: whatever follows is ignored *)
  | TLit c :: r => fun s => match s with
                            | c' :: s' => if Ascii.eqb c c' then tm r s' else None
                            | [] => None
                            end
  | TCls cs :: r => fun s => match s with
                             | c' :: s' => if mem_ascii c' cs then tm r s' else None
                             | [] => None
                             end
  | TVar v :: r => fun s => match var_go (tm r) s with
                            | Some (w, b) => Some ((v, w) :: b)
                            | None => None
                            end
  end.

(* the variant anchored at the END as well (re.fullmatch) - what the code does NOT do; kept for the refutation *)
Fixpoint tm_full (segs : list tseg) : list ascii -> option bnd :=
  match segs with
  | [] => fun s => match s with [] => Some [] | _ => None end
  | TLit c :: r => fun s => match s with
                            | c' :: s' => if Ascii.eqb c c' then tm_full r s' else None
                            | [] => None
                            end
  | TCls cs :: r => fun s => match s with
                             | c' :: s' => if mem_ascii c' cs then tm_full r s' else None
                             | [] => None
                             end
  | TVar v :: r => fun s => match var_go (tm_full r) s with
                            | Some (w, b) => Some ((v, w) :: b)
                            | None => None
                            end
  end.

(* for pattern, create_sensor in self.virtual.items(): ... break *)
Fixpoint resolve_from (i : nat) (ts : list (list tseg)) (name : list ascii) : option (nat * bnd) :=
  match ts with
  | [] => None
  | t :: rest => match tm t name with
                 | Some b => Some (i, b)
                 | None => resolve_from (S i) rest name
                 end
  end.
Definition resolve (ts : list (list tseg)) (name : string) : option (nat * bnd) :=
  resolve_from O ts (list_ascii_of_string name).

(* ------------------------------------------------------------------ SPEC: what a template generates *)
(* `fits segs b p`: the text p is an instance of the template with the variables bound as in b *)
Inductive fits : list tseg -> bnd -> list ascii -> Prop :=
| fits_nil : fits [] [] []
| fits_lit : forall c r b p, fits r b p -> fits (TLit c :: r) b (c :: p)
| fits_cls : forall cs c r b p, mem_ascii c cs = true -> fits r b p -> fits (TCls cs :: r) b (c :: p)
| fits_var : forall v w r b p, w <> [] -> forallb (fun c => negb (is_slash c)) w = true ->
                               fits r b p -> fits (TVar v :: r) ((v, w) :: b) (w ++ p).

(* the registry of one format module, parsed (None when a template leaves the subset) *)
Fixpoint parse_all (l : list string) : option (list (list tseg)) :=
  match l with
  | [] => Some []
  | t :: r => match parse t, parse_all r with
              | Some a, Some b => Some (a :: b)
              | _, _ => None
              end
  end.
Definition registry_of (module : string) : list string :=
  match find (fun e => String.eqb (fst e) module) virtual_registries with
  | Some e => map fst (snd e)
  | None => []
  end.
Definition registry_funcs (module : string) : list string :=
  match find (fun e => String.eqb (fst e) module) virtual_registries with
  | Some e => map snd (snd e)
  | None => []
  end.

(* ------------------------------------------------------------------ wire *)
Definition of_ascii_list (l : list ascii) : sx := of_string (string_of_list_ascii l).
Definition of_bnd (b : bnd) : sx := L (map (fun vw => L [of_ascii_list (fst vw); of_ascii_list (snd vw)]) b).
(* (1 (templates...) name)  -> (0) a template is outside the subset | (1) no template matches | (2 index bindings)
   (2 module name)          -> the same on the registry of a format module, + the registered function name *)
Definition wire_123 (x : sx) : sx :=
  match x with
  | L [I 1%Z; ts; n] =>
      match parse_all (to_strings ts) with
      | None => L [I 0%Z]
      | Some segs => match resolve segs (to_string n) with
                     | None => L [I 1%Z]
                     | Some (i, b) => L [I 2%Z; of_nat i; of_bnd b]
                     end
      end
  | L [I 2%Z; m; n] =>
      match parse_all (registry_of (to_string m)) with
      | None => L [I 0%Z]
      | Some segs => match resolve segs (to_string n) with
                     | None => L [I 1%Z]
                     | Some (i, b) => L [I 2%Z; of_nat i; of_bnd b;
                                         of_string (nth i (registry_funcs (to_string m)) ""%string);
                                         of_string (nth i (registry_of (to_string m)) ""%string)]
                     end
      end
  | _ => sx_err
  end.
