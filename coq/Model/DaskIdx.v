(* C04: two-stage lazy indexing of dask arrays (katdal/lazy_indexer.py: _range_to_slice, _simplify_index,
   _dask_oindex, dask_getitem, DaskLazyIndexer) and the chunk read set (katdal/chunkstore.py).
   Self-contained: slices, per-axis index resolution and N-d outer indexing are defined here (prefix d_). *)
From Coq Require Import ZArith List Bool.
From KV Require Import Base.Sx.
Import ListNotations.
Open Scope Z_scope.

(* ------------------------------------------------------------------------------------------- *)
(* Python slices and CPython's slice.indices / range                                           *)
(* ------------------------------------------------------------------------------------------- *)
Record d_slice := DS { ds_start : option Z; ds_stop : option Z; ds_step : option Z }.

(* PySlice_AdjustIndices for one bound *)
Definition d_clamp (v : option Z) (n lower upper dflt : Z) : Z :=
  match v with
  | None => dflt
  | Some x => if x <? 0 then Z.max (x + n) lower else Z.min x upper
  end.

(* slice.indices(n): None = ValueError (zero step) *)
Definition d_indices (s : d_slice) (n : Z) : option (Z * Z * Z) :=
  let step := match ds_step s with None => 1 | Some k => k end in
  if step =? 0 then None else
  let lower := if step <? 0 then -1 else 0 in
  let upper := if step <? 0 then n - 1 else n in
  Some (d_clamp (ds_start s) n lower upper (if step <? 0 then upper else lower),
        d_clamp (ds_stop s) n lower upper (if step <? 0 then lower else upper),
        step).

Definition d_range_len (start stop step : Z) : Z :=
  if 0 <? step then (if start <? stop then (stop - start - 1) / step + 1 else 0)
  else (if stop <? start then (start - stop - 1) / (- step) + 1 else 0).

(* list(range(start, stop, step)) *)
Definition d_range (start stop step : Z) : list Z :=
  map (fun i => start + Z.of_nat i * step) (seq 0 (Z.to_nat (d_range_len start stop step))).

(* positions selected by a slice on an axis of length n *)
Definition d_slice_pos (s : d_slice) (n : Z) : option (list Z) :=
  match d_indices s n with
  | None => None
  | Some (a, b, c) => Some (d_range a b c)
  end.

(* ------------------------------------------------------------------------------------------- *)
(* Per-axis index expressions and their numpy meaning on one axis (the oracle)                 *)
(* ------------------------------------------------------------------------------------------- *)
Inductive d_aidx := DInt (z : Z) | DSlice (s : d_slice) | DMask (m : list bool) | DList (l : list Z).

Definition d_norm (n z : Z) : Z := if z <? 0 then z + n else z.
Definition d_inrange (n z : Z) : bool := (- n <=? z) && (z <? n).

Fixpoint d_mask_pos (m : list bool) (i : Z) : list Z :=
  match m with
  | [] => []
  | b :: r => if b then i :: d_mask_pos r (i + 1) else d_mask_pos r (i + 1)
  end.

(* what one index does to one axis: keep these positions (in this order), or drop the axis at a position *)
Inductive d_view := VKeep (ps : list Z) | VDrop (p : Z).

Definition d_resolve (n : Z) (ix : d_aidx) : option d_view :=
  match ix with
  | DInt z => if d_inrange n z then Some (VDrop (d_norm n z)) else None
  | DSlice s => match d_slice_pos s n with Some ps => Some (VKeep ps) | None => None end
  | DMask m => if Z.of_nat (List.length m) =? n then Some (VKeep (d_mask_pos m 0)) else None
  | DList l => if forallb (d_inrange n) l then Some (VKeep (map (d_norm n) l)) else None
  end.

(* ------------------------------------------------------------------------------------------- *)
(* N-d arrays (shape, dtype tag, element function) and numpy OUTER indexing: the SPEC          *)
(* ------------------------------------------------------------------------------------------- *)
Record d_arr := DA { d_shape : list Z; d_dtype : Z; d_get : list Z -> Z }.

Fixpoint d_remap (vs : list d_view) (idx : list Z) : list Z :=
  match vs with
  | [] => idx
  | VDrop p :: r => p :: d_remap r idx
  | VKeep ps :: r =>
      match idx with
      | [] => []
      | j :: idx' => nth (Z.to_nat j) ps 0 :: d_remap r idx'
      end
  end.

Fixpoint d_vshape (vs : list d_view) : list Z :=
  match vs with
  | [] => []
  | VDrop _ :: r => d_vshape r
  | VKeep ps :: r => Z.of_nat (List.length ps) :: d_vshape r
  end.

Fixpoint d_resolve_all (shape : list Z) (ixs : list d_aidx) : option (list d_view) :=
  match ixs with
  | [] => Some []
  | ix :: r =>
      match shape with
      | [] => None                       (* too many indices *)
      | n :: sh =>
          match d_resolve n ix, d_resolve_all sh r with
          | Some v, Some vs => Some (v :: vs)
          | _, _ => None
          end
      end
  end.

(* a[ix0, ix1, ...] under per-axis (outer) indexing; trailing axes are kept whole *)
Definition d_oindex (a : d_arr) (ixs : list d_aidx) : option d_arr :=
  match d_resolve_all (d_shape a) ixs with
  | None => None
  | Some vs => Some (DA (d_vshape vs ++ skipn (List.length ixs) (d_shape a)) (d_dtype a)
                        (fun idx => d_get a (d_remap vs idx)))
  end.

(* ------------------------------------------------------------------------------------------- *)
(* katdal: _range_to_slice (lazy_indexer.py:32-57)                                             *)
(* ------------------------------------------------------------------------------------------- *)
Fixpoint d_diff (l : list Z) : list Z :=
  match l with
  | a :: ((b :: _) as r) => (b - a) :: d_diff r
  | _ => []
  end.

(* None = ValueError.  set(np.diff(index)).pop() returns an arbitrary increment, but whenever the
   increments are not all equal the set is non-empty after the pop and the function raises. *)
Definition d_range_to_slice (l : list Z) : option d_slice :=
  match l with
  | [] => Some (DS None (Some 0) None)
  | x0 :: _ =>
      if existsb (fun i => i <? 0) l then None else
      let ds := d_diff l in
      let step := match ds with [] => 1 | d :: _ => d end in
      if (step =? 0) || negb (forallb (Z.eqb step) ds) then None else
      let stop := last l 0 + step in
      Some (DS (Some x0) (if 0 <=? stop then Some stop else None) (Some step))
  end.

(* ------------------------------------------------------------------------------------------- *)
(* dask: normalize_slice / normalize_index (modelled as installed, including its flaw F20)     *)
(* ------------------------------------------------------------------------------------------- *)
Definition d_normalize_slice (s : d_slice) (n : Z) : option d_slice :=
  match d_indices s n with
  | None => None
  | Some (start, stop, step) =>
      if 0 <? step then
        let start' := if start =? 0 then None else Some start in
        let stop' := if n <=? stop then None else Some stop in
        let step' := if step =? 1 then None else Some step in
        let stop'' := match stop', start' with
                      | Some b, Some a => if b <? a then Some a else Some b
                      | _, _ => stop'
                      end in
        Some (DS start' stop'' step')
      else
        Some (DS (if n - 1 <=? start then None else Some start)
                 (if stop <? 0 then None else Some stop) (Some step))
  end.

Definition d_full : d_aidx := DSlice (DS None None None).

(* check_index + sanitize_index + normalize_slice + posify_index on one axis *)
Definition d_normalize1 (n : Z) (ix : d_aidx) : option d_aidx :=
  match ix with
  | DInt z => if d_inrange n z then Some (DInt (d_norm n z)) else None
  | DSlice s => match d_normalize_slice s n with Some s' => Some (DSlice s') | None => None end
  | DMask m => if Z.of_nat (List.length m) =? n then Some (DList (d_mask_pos m 0)) else None
  | DList l => if forallb (d_inrange n) l then Some (DList (map (d_norm n) l)) else None
  end.

(* pads with full slices up to the number of axes; too many indices: IndexError *)
Fixpoint d_normalize_index (shape : list Z) (ixs : list d_aidx) : option (list d_aidx) :=
  match shape with
  | [] => match ixs with [] => Some [] | _ :: _ => None end
  | n :: sh =>
      let ix := match ixs with [] => d_full | i :: _ => i end in
      let r := match ixs with [] => [] | _ :: r => r end in
      match d_normalize1 n ix, d_normalize_index sh r with
      | Some i', Some r' => Some (i' :: r')
      | _, _ => None
      end
  end.

(* ------------------------------------------------------------------------------------------- *)
(* katdal: _simplify_index (lazy_indexer.py:60-92)                                             *)
(* ------------------------------------------------------------------------------------------- *)
Definition d_simplify1 (n : Z) (ix : d_aidx) : d_aidx :=
  match ix with
  | DList l =>
      match d_range_to_slice l with
      | None => ix                                   (* except ValueError: pass *)
      | Some s => match d_normalize_slice s n with Some s' => DSlice s' | None => ix end
      end
  | _ => ix
  end.

Fixpoint d_map2 {A B C} (f : A -> B -> C) (l : list A) (m : list B) : list C :=
  match l, m with
  | a :: l', b :: m' => f a b :: d_map2 f l' m'
  | _, _ => []
  end.

Definition d_simplify_index (ixs : list d_aidx) (shape : list Z) : option (list d_aidx) :=
  match d_normalize_index shape ixs with
  | None => None
  | Some nixs => Some (d_map2 d_simplify1 shape nixs)
  end.

(* ------------------------------------------------------------------------------------------- *)
(* katdal: _dask_oindex (lazy_indexer.py:95-106) over da.take                                  *)
(* ------------------------------------------------------------------------------------------- *)
(* da.take(x, index, axis) = x[(slice(None),) * axis + (index,)] : numpy semantics on ONE axis *)
Definition d_take (a : d_arr) (ix : d_aidx) (axis : nat) : option d_arr :=
  match nth_error (d_shape a) axis with
  | None => None
  | Some n =>
      match d_resolve n ix with
      | None => None
      | Some v => Some (DA (firstn axis (d_shape a) ++ d_vshape [v] ++ skipn (S axis) (d_shape a))
                           (d_dtype a)
                           (fun idx => d_get a (firstn axis idx ++ d_remap [v] (skipn axis idx))))
      end
  end.

Definition d_is_int (ix : d_aidx) : bool := match ix with DInt _ => true | _ => false end.

(* the loop: the axis counter is not advanced after a scalar index (that axis has disappeared) *)
Fixpoint d_oindex_seq (a : d_arr) (ixs : list d_aidx) (axis : nat) : option d_arr :=
  match ixs with
  | [] => Some a
  | ix :: r =>
      match d_take a ix axis with
      | None => None
      | Some a' => d_oindex_seq a' r (if d_is_int ix then axis else S axis)
      end
  end.

(* ------------------------------------------------------------------------------------------- *)
(* katdal: dask_getitem (lazy_indexer.py:109-141)                                              *)
(* ------------------------------------------------------------------------------------------- *)
Definition d_is_fancy (ix : d_aidx) : bool :=
  match ix with DList _ | DMask _ => true | _ => false end.
Definition d_nfancy (ixs : list d_aidx) : nat := List.length (filter d_is_fancy ixs).

(* x[indices] of dask raises NotImplementedError iff more than one axis carries a list; otherwise
   dask's own slicing is trusted to be numpy's (modelled by the oracle, see NV in design.d/C04.md).
   Graph culling does not change values. *)
Definition d_getitem (x : d_arr) (ixs : list d_aidx) : option d_arr :=
  match d_simplify_index ixs (d_shape x) with
  | None => None
  | Some ixs' => if (1 <? d_nfancy ixs')%nat then d_oindex_seq x ixs' 0 else d_oindex x ixs'
  end.

(* ------------------------------------------------------------------------------------------- *)
(* katdal: DaskLazyIndexer (lazy_indexer.py:467-622)                                           *)
(* ------------------------------------------------------------------------------------------- *)
(* keep is a value (the deep copy taken by __init__); transforms are functions on arrays *)
Inductive d_ind :=
  | DBase (a : d_arr) (keep : list d_aidx) (tr : list (d_arr -> d_arr))
  | DNest (src : d_ind) (keep : list d_aidx) (tr : list (d_arr -> d_arr)).

Definition d_apply_all (tr : list (d_arr -> d_arr)) (a : d_arr) : d_arr :=
  fold_left (fun x f => f x) tr a.

(* the .dataset property *)
Fixpoint d_dataset (i : d_ind) : option d_arr :=
  match i with
  | DBase a k tr => match d_getitem a k with Some b => Some (d_apply_all tr b) | None => None end
  | DNest j k tr =>
      match d_dataset j with
      | None => None
      | Some a => match d_getitem a k with Some b => Some (d_apply_all tr b) | None => None end
      end
  end.

(* .shape / .dtype : advertised before any read *)
Definition d_adv (i : d_ind) : option (list Z * Z) :=
  match d_dataset i with Some a => Some (d_shape a, d_dtype a) | None => None end.

(* __getitem__ *)
Definition d_index (i : d_ind) (k2 : list d_aidx) : option d_arr :=
  match d_dataset i with None => None | Some a => d_getitem a k2 end.

(* get(arrays, keep): kept = [dask_getitem(array.dataset, keep) for array in arrays]; da.store(kept, out) *)
Fixpoint d_get_joint (l : list d_ind) (k2 : list d_aidx) : option (list d_arr) :=
  match l with
  | [] => Some []
  | i :: r =>
      match d_index i k2 with
      | None => None
      | Some a => match d_get_joint r k2 with Some rs => Some (a :: rs) | None => None end
      end
  end.

(* ---------- SPEC of the two-stage indexer: transform(array[stage 1]) [stage 2], numpy outer indexing ---------- *)
Fixpoint d_spec_dataset (i : d_ind) : option d_arr :=
  match i with
  | DBase a k tr => match d_oindex a k with Some b => Some (d_apply_all tr b) | None => None end
  | DNest j k tr =>
      match d_spec_dataset j with
      | None => None
      | Some a => match d_oindex a k with Some b => Some (d_apply_all tr b) | None => None end
      end
  end.
Definition d_spec_index (i : d_ind) (k2 : list d_aidx) : option d_arr :=
  match d_spec_dataset i with None => None | Some a => d_oindex a k2 end.

(* ------------------------------------------------------------------------------------------- *)
(* Chunk read set for contiguous requests                                                      *)
(* ------------------------------------------------------------------------------------------- *)
(* One axis of a chunked array: pieces (id of the stored chunk, length of the piece), in order. *)
Definition d_grid := list (Z * Z).

Fixpoint d_base_grid (cs : list Z) (id : Z) : d_grid :=
  match cs with [] => [] | c :: r => (id, c) :: d_base_grid r (id + 1) end.

(* dask slicing of one axis by the contiguous region [lo, hi): the non-empty intersections survive *)
Fixpoint d_slice_grid (g : d_grid) (off lo hi : Z) : d_grid :=
  match g with
  | [] => []
  | (id, c) :: r =>
      let len := Z.min hi (off + c) - Z.max lo off in
      if 0 <? len then (id, len) :: d_slice_grid r (off + c) lo hi else d_slice_grid r (off + c) lo hi
  end.

(* contiguous request on one axis: a unit-step slice or an integer, as the region [lo, hi) of an axis of length n *)
Definition d_region (n : Z) (ix : d_aidx) : option (Z * Z) :=
  match ix with
  | DInt z => if d_inrange n z then Some (d_norm n z, d_norm n z + 1) else None
  | DSlice s =>
      match d_indices s n with
      | Some (a, b, 1) => Some (a, Z.max a b)
      | _ => None
      end
  | _ => None
  end.

Definition d_glen (g : d_grid) : Z := fold_right (fun p acc => snd p + acc) 0 g.

(* MODEL: every stage slices the grid left by the previous one (dask slicing of a sliced array);
   the chunks read are those of the surviving pieces.  ks = the indices that reach this axis, stage by stage
   (after an integer the axis is gone, so an integer can only be last). *)
Fixpoint d_reads_stages (g : d_grid) (ks : list d_aidx) : option (list Z) :=
  match ks with
  | [] => Some (map fst g)
  | k :: r =>
      match d_region (d_glen g) k with
      | None => None
      | Some (lo, hi) => d_reads_stages (d_slice_grid g 0 lo hi) r
      end
  end.
Definition d_reads_axis (cs : list Z) (ks : list d_aidx) : option (list Z) :=
  d_reads_stages (d_base_grid cs 0) ks.

(* SPEC: the stored chunks whose extent [b, e) meets the composed region, an interval of the stored axis *)
Fixpoint d_meeting (cs : list Z) (id off lo hi : Z) : list Z :=
  match cs with
  | [] => []
  | c :: r => if Z.max lo off <? Z.min hi (off + c) then id :: d_meeting r (id + 1) (off + c) lo hi
              else d_meeting r (id + 1) (off + c) lo hi
  end.

Fixpoint d_compose_region (lo hi : Z) (ks : list d_aidx) : option (Z * Z) :=
  match ks with
  | [] => Some (lo, hi)
  | k :: r =>
      match d_region (hi - lo) k with
      | None => None
      | Some (a, b) => d_compose_region (lo + a) (lo + b) r
      end
  end.

Definition d_spec_reads_axis (cs : list Z) (ks : list d_aidx) : option (list Z) :=
  match d_compose_region 0 (fold_right Z.add 0 cs) ks with
  | None => None
  | Some (lo, hi) => Some (d_meeting cs 0 0 lo hi)
  end.

(* ------------------------------------------------------------------------------------------- *)
(* Wire                                                                                        *)
(* ------------------------------------------------------------------------------------------- *)
Definition d_to_slice (x : sx) : d_slice :=
  match x with
  | L [a; b; c] => DS (to_optZ a) (to_optZ b) (to_optZ c)
  | _ => DS None None None
  end.
Definition d_of_slice (s : d_slice) : sx := L [of_optZ (ds_start s); of_optZ (ds_stop s); of_optZ (ds_step s)].

(* (0 z) | (1 (start stop step)) | (2 (bools)) | (3 (ints)) *)
Definition d_to_aidx (x : sx) : d_aidx :=
  match x with
  | L [I 0; I z] => DInt z
  | L [I 1; s] => DSlice (d_to_slice s)
  | L [I 2; m] => DMask (to_bools m)
  | L [I 3; l] => DList (to_Zs l)
  | _ => d_full
  end.
Definition d_of_aidx (ix : d_aidx) : sx :=
  match ix with
  | DInt z => L [I 0; I z]
  | DSlice s => L [I 1; d_of_slice s]
  | DMask m => L [I 2; of_bools m]
  | DList l => L [I 3; of_Zs l]
  end.
Definition d_to_aidxs (x : sx) : list d_aidx := map d_to_aidx (to_list x).

Fixpoint d_ravel (shape idx : list Z) (acc : Z) : Z :=
  match shape, idx with
  | n :: sh, i :: r => d_ravel sh r (acc * n + i)
  | _, _ => acc
  end.
(* base array of the correspondence: element = its C-order position *)
Definition d_label_arr (shape : list Z) : d_arr := DA shape 0 (fun idx => d_ravel shape idx 0).

Fixpoint d_all_idx (shape : list Z) : list (list Z) :=
  match shape with
  | [] => [[]]
  | n :: r => flat_map (fun i => map (cons (Z.of_nat i)) (d_all_idx r)) (seq 0 (Z.to_nat n))
  end.
Definition d_values (a : d_arr) : list Z := map (d_get a) (d_all_idx (d_shape a)).

(* transforms of the correspondence, by code:
   0: elementwise 2x+1 as dtype 1;  1: x[..., 0] (drops the last axis);  2: elementwise -x as dtype 2 *)
Definition d_transform (c : Z) (a : d_arr) : d_arr :=
  if c =? 0 then DA (d_shape a) 1 (fun idx => 2 * d_get a idx + 1)
  else if c =? 1 then DA (removelast (d_shape a)) (d_dtype a) (fun idx => d_get a (idx ++ [0]))
  else if c =? 2 then DA (d_shape a) 2 (fun idx => - d_get a idx)
  else a.

(* levels: ((keep transforms) ...) innermost first *)
Definition d_build (a : d_arr) (levels : list sx) : option d_ind :=
  match levels with
  | [] => None
  | L [k; t] :: r =>
      let first := DBase a (d_to_aidxs k) (map d_transform (to_Zs t)) in
      Some (fold_left (fun acc lv => match lv with
                                     | L [k'; t'] => DNest acc (d_to_aidxs k') (map d_transform (to_Zs t'))
                                     | _ => acc end) r first)
  | _ :: _ => None
  end.

Definition d_of_arr (o : option d_arr) : sx :=
  match o with
  | None => L [I 0]
  | Some a => L [I 1; of_Zs (d_shape a); I (d_dtype a); of_Zs (d_values a)]
  end.
Definition d_of_adv (o : option (list Z * Z)) : sx :=
  match o with None => L [I 0] | Some (s, t) => L [I 1; of_Zs s; I t] end.
Definition d_of_optZs (o : option (list Z)) : sx :=
  match o with None => L [I 0] | Some l => L [I 1; of_Zs l] end.

(* (shape levels k2) -> (advertised_model result_model advertised_spec result_spec) *)
Definition wire_4 (x : sx) : sx :=
  match x with
  | L [shape; L levels; k2] =>
      match d_build (d_label_arr (to_Zs shape)) levels with
      | None => sx_err
      | Some i =>
          let k := d_to_aidxs k2 in
          L [d_of_adv (d_adv i); d_of_arr (d_index i k);
             d_of_adv (match d_spec_dataset i with Some a => Some (d_shape a, d_dtype a) | None => None end);
             d_of_arr (d_spec_index i k)]
      end
  | _ => sx_err
  end.

(* (n (start stop step)) -> positions   : the slice.indices / range oracle itself *)
Definition wire_41 (x : sx) : sx :=
  match x with
  | L [I n; s] => d_of_optZs (d_slice_pos (d_to_slice s) n)
  | _ => sx_err
  end.

(* (ints) -> _range_to_slice *)
Definition wire_42 (x : sx) : sx :=
  match d_range_to_slice (to_Zs x) with
  | None => L [I 0]
  | Some s => L [I 1; d_of_slice s]
  end.

(* (shape ixs) -> _simplify_index(ixs, shape) *)
Definition wire_43 (x : sx) : sx :=
  match x with
  | L [shape; ixs] =>
      match d_simplify_index (d_to_aidxs ixs) (to_Zs shape) with
      | None => L [I 0]
      | Some l => L [I 1; L (map d_of_aidx l)]
      end
  | _ => sx_err
  end.

(* ((chunks (k ...)) per axis) -> (model spec), each (1 ((ids) per axis)) or (0) *)
Fixpoint d_sequence {A} (l : list (option A)) : option (list A) :=
  match l with
  | [] => Some []
  | None :: _ => None
  | Some a :: r => match d_sequence r with Some rs => Some (a :: rs) | None => None end
  end.
Definition wire_44 (x : sx) : sx :=
  let axes := to_list x in
  let run f := d_sequence (map (fun ax => match ax with
                                          | L [cs; ks] => f (to_Zs cs) (d_to_aidxs ks)
                                          | _ => None end) axes) in
  let enc o := match o with None => L [I 0] | Some ls => L [I 1; L (map of_Zs ls)] end in
  L [enc (run d_reads_axis); enc (run d_spec_reads_axis)].
