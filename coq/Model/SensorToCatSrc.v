(* C10: the model of katdal/categorical.py WRITTEN OVER THE DEFINITIONS REGENERATED FROM THE SOURCE
   (Gen/Generated.v, translator items harness/vh/items/c10.py): every constant, searchsorted side, comparison,
   default argument and small decision expression of _single_event_per_dump, sensor_to_categorical and
   CategoricalData._lookup is a `c10_*` definition; the statement skeleton around them is fixed by the translator.
   Model/SensorToCat.v holds the same algorithm in normal form (what the invariant proofs are about);
   Proofs/SensorToCatSrcP.v proves the two equal for the CURRENT values of the generated definitions, and
   Props/C10.v states every theorem about the `_src` functions of this file.  Definitions only. *)
From Coq Require Import ZArith List Bool.
From KV Require Import Base.Sx Gen.Generated Model.SensorToCat.
Import ListNotations.
Open Scope Z_scope.

(* a.searchsorted(v, side=...) on a sorted array *)
Definition ss_side (right : bool) (a : list Z) (v : Z) : nat := if right then ss_right a v else ss_left a v.

(* ---------- _single_event_per_dump ---------- *)
Definition gstep_src (greedy : list bool) (s : gst) (ce : nat) (cd : Z) : gst :=
  let s1 :=
    if c10_gen_new_dump cd (pd s) then
      let es := Z.to_nat (c10_gen_dump_start (Z.of_nat ce)) in
      let pw1 := if c10_gen_last_wins (nth (pw s) greedy false) then es else pw s in
      let wd := nth pw1 (evm s) 0 in
      let out1 := if c10_gen_yield_winner (pd s) wd cd then out s ++ [pw1] else out s in
      if c10_gen_loser (Z.of_nat es) (Z.of_nat pw1) then
        let e' := nth es (evm s) 0 + c10_gen_push_by in
        let evm2 := upd (evm s) es e' in
        let out2 := if c10_gen_yield_pushed cd e' then out1 ++ [es] else out1 in
        mk_gst es cd evm2 out2
      else mk_gst pw1 cd (evm s) out1
    else s in
  if c10_gen_greedy_now (Z.of_nat ce) (Z.of_nat (length greedy)) (nth ce greedy false)
  then mk_gst ce (pd s1) (evm s1) (out s1) else s1.

Fixpoint gen_loop_src (greedy : list bool) (s : gst) (ce : nat) (rest : list Z) : gst :=
  match rest with
  | [] => s
  | cd :: t => gen_loop_src greedy (gstep_src greedy s ce cd) (S ce) t
  end.

Definition single_event_per_dump_src (events : list Z) (greedy : list bool) : list nat * list Z :=
  let s := gen_loop_src greedy (mk_gst (Z.to_nat c10_gen_first_winner) c10_gen_first_dump events []) O events in
  (out s, evm s).

(* ---------- repeat removal: [n for n in range(len(values)) if <c10_changes_value n (values[n] != values[n-1])>] ----------
   values[-1] is the LAST value in Python (only looked at if the `n == 0 or` guard were removed) *)
Fixpoint changes_from_src (n : Z) (prev : Z) (l : list (Z * Z)) : list (Z * Z) :=
  match l with
  | [] => []
  | (v, d) :: t => if c10_changes_value n (negb (v =? prev)) then (v, d) :: changes_from_src (n + 1) v t
                   else changes_from_src (n + 1) v t
  end.
Definition remove_repeats_src (l : list (Z * Z)) : list (Z * Z) := changes_from_src 0 (last (map fst l) 0) l.

(* ---------- sensor_to_categorical ---------- *)
(* dump_endtimes = dump_midtimes + c * dump_period, c = c10_end_offset (an exact rational) *)
Definition ends_of_mids (mids : list Z) (P : Z) : list Z :=
  map (fun m => m + fst c10_end_offset * P / snd c10_end_offset) mids.

Definition none_id : Z := -1.    (* the id the harness gives to Python's None, should the code ever insert it *)

Definition s2c_prep_src (ts vals ends : list Z) (P : Z) (tr : option (list (Z * Z))) (init : option Z)
  : option (list Z * list Z) :=
  match ends with
  | [] => None                                                              (* dump_endtimes[0]: IndexError *)
  | e0 :: _ =>
    let num_dumps := Z.of_nat (length ends) in
    let ends' := c10_prior_end e0 P :: ends in
    let events := map (fun t => c10_event_dump (Z.of_nat (ss_side c10_events_side_right ends' t))) ts in
    let fp := Z.of_nat (ss_side c10_prior_side_right events c10_prior_dump) in
    let '(fp, events) :=
      if c10_has_prior fp
      then (fp - c10_prior_back, upd events (Z.to_nat (fp - c10_prior_back)) c10_prior_moved_to)
      else (fp, events) in
    let fp := Z.to_nat fp in
    let opl := ss_side c10_late_side_right events (c10_late_dump num_dumps) in
    let vals := slice fp opl vals in
    let events := slice fp opl events in
    let vals := map (app_tr tr) vals in                                     (* transform BEFORE the initial value *)
    let has_init := match init with Some _ => true | None => false end in
    let '(vals, events) :=
      if c10_need_initial (Z.of_nat (length events)) (hd 0 events) has_init
      then ((match init with Some i => i | None => none_id end) :: vals, c10_initial_dump :: events)
      else (vals, events) in
    match events with
    | [] => None                                                            (* events[0] = ...: IndexError *)
    | _ :: etl => Some (vals, c10_first_dump :: etl)
    end
  end.

Definition s2c_tail_src (vals events : list Z) (num_dumps : Z) (greedy : list Z) (allow_repeats : bool)
  : list Z * list Z :=
  let gflags := map (fun v => memZ v greedy) vals in
  let events := events ++ [c10_terminator num_dumps] in
  let '(cleaned, events) := single_event_per_dump_src events gflags in
  let pairs := map (fun i => (nth i vals 0, nth i events 0)) cleaned in
  let pairs := if c10_remove_repeats allow_repeats then remove_repeats_src pairs else pairs in
  (map fst pairs, map snd pairs ++ [c10_final_event num_dumps]).

Definition s2c_src (ts vals ends : list Z) (P : Z) (tr : option (list (Z * Z))) (init : option Z)
                   (greedy : list Z) (allow_repeats : bool) : res (list Z * list Z) :=
  match s2c_prep_src ts vals ends P tr init with
  | None => Err
  | Some (v, e) => Ok (s2c_tail_src v e (Z.of_nat (length ends)) greedy allow_repeats)
  end.

(* ---------- CategoricalData._lookup / data[:] ---------- *)
Definition cat_lookup_src (c : cat) (k : Z) : res Z :=
  let p := c10_lookup_event (Z.of_nat (ss_side c10_lookup_side_right (cevents c) k)) in
  if c10_lookup_before p || c10_lookup_after p (Z.of_nat (length (indices c))) then Err
  else Ok (nth (nth (Z.to_nat p) (indices c) O) (unique_values c) 0).
Definition cat_all_src (c : cat) : res (list Z) :=
  let n := Z.to_nat (last (cevents c) 0) in
  res_all (map (fun k => cat_lookup_src c (Z.of_nat k)) (seq 0 n)).

(* the public function: dump MID times and the dump period; allow_repeats may be left to its default *)
Definition allow_repeats_of (ar : option bool) : bool :=
  match ar with Some b => b | None => c10_default_allow_repeats end.
Definition sensor_to_categorical_src ts vals mids P tr init greedy (ar : option bool) : res cat :=
  match s2c_src ts vals (ends_of_mids mids P) P tr init greedy (allow_repeats_of ar) with
  | Ok (v, e) => Ok (cat_of v e)
  | Err => Err
  end.
Definition per_dump_src ts vals mids P tr init greedy ar : res (list Z) :=
  match sensor_to_categorical_src ts vals mids P tr init greedy ar with
  | Ok c => cat_all_src c
  | Err => Err
  end.

(* SPEC side: dump k ends half a period after its mid time *)
Definition dump_ends (mids : list Z) (P : Z) : list Z := map (fun m => m + P / 2) mids.

(* ---------- wire ---------- *)
Definition to_optbool (x : sx) : option bool := match x with L [b] => Some (to_bool b) | _ => None end.

(* (ts vals mids P tr init greedy allow_repeats?) ->
   ((ok events indices unique_values per_dump) (ok spec_per_dump) (ok spec with the initial value as coded)
    f14_situation f14_differs) *)
Definition wire_10 (x : sx) : sx :=
  match x with
  | L [ts; vals; mids; I P; tr; init; greedy; ar] =>
      let ts := to_Zs ts in let vals := to_Zs vals in let mids := to_Zs mids in
      let tr := to_tr tr in let init := to_optZ init in let greedy := to_Zs greedy in
      let ar := to_optbool ar in
      let ends := dump_ends mids P in
      let m := match sensor_to_categorical_src ts vals mids P tr init greedy ar with
               | Ok c => L [I 1; of_Zs (cevents c); of_nats (indices c); of_Zs (unique_values c);
                            of_res_list (cat_all_src c)]
               | Err => L [I 0]
               end in
      let sp := fun i => match spec_per_dump ts vals ends P tr i greedy with
                         | Some l => L [I 1; of_Zs l] | None => L [I 0] end in
      L [m; sp init; sp (init_as_coded ts ends P init);
         of_bool (f14_situation ts ends P init greedy); of_bool (f14_differs ts vals ends P tr init greedy)]
  | _ => sx_err
  end.

(* the generator alone: (events-with-terminator greedy-flags) -> (cleaned_up mutated-events) *)
Definition wire_101 (x : sx) : sx :=
  match x with
  | L [ev; g] =>
      let '(c, e) := single_event_per_dump_src (to_Zs ev) (to_bools g) in
      L [of_nats c; of_Zs e]
  | _ => sx_err
  end.

(* (dumps-with-terminator values greedy-values) -> ((value dump) pairs of the index-based generator,
                                                     (value dump) pairs of the cached-look-up generator) *)
Definition wire_102 (x : sx) : sx :=
  match x with
  | L [ev; vals; g] =>
      let ev := to_Zs ev in let vals := to_Zs vals in let g := to_Zs g in
      let isg := fun v => memZ v g in
      let '(c, e) := single_event_per_dump_src ev (map isg vals) in
      let p1 := map (fun i => L [I (nth i vals 0); I (nth i e 0)]) c in
      let p2 := match combine (removelast ev) vals with
                | (_, v0) :: t => map (fun p => L [I (fst p); I (snd p)]) (afinal isg v0 t (last ev 0))
                | [] => []
                end in
      L [L p1; L p2]
  | _ => sx_err
  end.
