(* C04: the `dataset` property of DaskLazyIndexer as a lazily cached computation over HISTORIES of accesses.

   The statement skeleton of the property is produced by the translator (Gen/Generated.v: c04_ds_code, one triple
   per source statement, harness/vh/items/c04.py).  This file gives it a semantics (z_exec) over a heap of
   indexer objects (fields _dataset and _orig_dataset; keep and transforms are fixed at construction) in which any
   transform call may raise (a fault plan per access), and states what the property demands as an atomic,
   all-or-nothing cached computation (z_spec_access): an access either raises and leaves nothing behind in the
   object, or returns transforms(stage1(source)) - the whole chain - and from then on every access returns that
   very array without calling anything again.  Objects may share parents (nested indexers). *)
From Coq Require Import ZArith List Bool Arith.
From KV Require Import Base.Sx Gen.Generated Model.DaskIdx.
Import ListNotations.

(* ------------------------------------------------------------------------------------------- *)
(* instruction set of the body of `dataset` (one instruction per source statement)             *)
(* variables: 0 = self._dataset, k >= 1 = the k-th local name                                  *)
Inductive z_instr :=
  | ZAcquire                   (* with self._lock:  (entry) *)
  | ZRelease                   (*                   (exit)  *)
  | ZIfUnset (n : nat)         (* if self._dataset is None:  -- otherwise skip the next n instructions *)
  | ZFastRet                   (* if self._dataset is not None: return self._dataset *)
  | ZResolve                   (* if isinstance(self._orig_dataset, DaskLazyIndexer):
                                      self._orig_dataset = self._orig_dataset.dataset *)
  | ZStage1 (d : nat)          (* d = dask_getitem(self._orig_dataset, self.keep) *)
  | ZTransforms (v : nat)      (* for transform in self.transforms: v = transform(v) *)
  | ZAssign (d s : nat)        (* d = s *)
  | ZClearOrig                 (* self._orig_dataset = None *)
  | ZReturn (v : nat).         (* return v *)

Definition z_decode1 (t : Z * Z * Z) : option z_instr :=
  let '(op, a, b) := t in
  if (a <? 0)%Z || (b <? 0)%Z then None else
  match op with
  | 0%Z => Some ZAcquire
  | 1%Z => Some ZRelease
  | 2%Z => Some (ZIfUnset (Z.to_nat a))
  | 3%Z => Some ZFastRet
  | 4%Z => Some ZResolve
  | 5%Z => Some (ZStage1 (Z.to_nat a))
  | 6%Z => Some (ZTransforms (Z.to_nat a))
  | 7%Z => Some (ZAssign (Z.to_nat a) (Z.to_nat b))
  | 8%Z => Some ZClearOrig
  | 9%Z => Some (ZReturn (Z.to_nat a))
  | _ => None
  end.
Fixpoint z_decode (l : list (Z * Z * Z)) : option (list z_instr) :=
  match l with
  | [] => Some []
  | t :: r => match z_decode1 t, z_decode r with
              | Some i, Some c => Some (i :: c)
              | _, _ => None
              end
  end.
(* the code of the real property, as translated at this run; an untranslatable triple leaves no code at all *)
Definition z_code : list z_instr := match z_decode c04_ds_code with Some c => c | None => [] end.

(* the body of seeded change C04-6 (lock-free fast path, graph accumulated in self._dataset, source dropped right
   after stage 1), written in the same instruction set: the counter-model of the refutation theorem *)
Definition z_code_inplace : list z_instr :=
  [ZFastRet; ZAcquire; ZIfUnset 4; ZResolve; ZStage1 0; ZClearOrig; ZTransforms 0; ZReturn 0; ZRelease].

Section Lazy.
(* V = arrays, K = index expressions; getitem = dask_getitem (None = it raises) *)
Variables (V K : Type) (getitem : V -> K -> option V).

Inductive z_par := ZPBase (a : V) | ZPInd (j : nat).
Record z_desc := ZD { zd_par : z_par; zd_keep : K; zd_tr : list (V -> V) }.
Definition z_world := list z_desc.                         (* object i = i-th constructor call *)

Inductive z_src := ZSArr (a : V) | ZSInd (j : nat) | ZSNone.
Record z_st := ZS { zs_cell : option V; zs_orig : z_src }.  (* _dataset, _orig_dataset *)
Definition z_heap := nat -> z_st.

Definition z_plan := nat -> nat -> bool.      (* plan i k: transform k of object i raises during this access *)
Definition z_log := list (nat * nat).         (* transform calls made, in order *)
Inductive z_out := ZRet (a : V) | ZRetNone | ZFault | ZErr.

Definition z_set (h : z_heap) (i : nat) (s : z_st) : z_heap := fun u => if Nat.eqb u i then s else h u.
Definition z_set_cell (h : z_heap) (i : nat) (c : option V) : z_heap := z_set h i (ZS c (zs_orig (h i))).
Definition z_set_orig (h : z_heap) (i : nat) (o : z_src) : z_heap := z_set h i (ZS (zs_cell (h i)) o).

Definition z_env := nat -> option V.          (* locals; unset and None are not distinguished *)
Definition z_read (h : z_heap) (i : nat) (e : z_env) (v : nat) : option V :=
  match v with O => zs_cell (h i) | _ => e v end.
Definition z_write_h (h : z_heap) (i : nat) (v : nat) (x : option V) : z_heap :=
  match v with O => z_set_cell h i x | _ => h end.
Definition z_write_e (e : z_env) (v : nat) (x : option V) : z_env :=
  match v with O => e | _ => fun u => if Nat.eqb u v then x else e u end.

(* the transform loop from value x on: (value reached, did a transform raise, calls made).  A transform that
   raises leaves the variable at the value reached before it (the assignment does not happen). *)
Fixpoint z_tr_loop (i : nat) (plan : z_plan) (tr : list (V -> V)) (k : nat) (x : V) : V * bool * z_log :=
  match tr with
  | [] => (x, false, [])
  | f :: r =>
      if plan i k then (x, true, [(i, k)])
      else let '(y, b, lg) := z_tr_loop i plan r (S k) (f x) in (y, b, (i, k) :: lg)
  end.

(* execution of the body for object i (descriptor d); acc = access to the `dataset` of another object *)
Fixpoint z_exec (acc : z_heap -> nat -> z_heap * z_out * z_log) (d : z_desc) (i : nat) (plan : z_plan)
    (code : list z_instr) (skip : nat) (h : z_heap) (e : z_env) (lg : z_log) : z_heap * z_out * z_log :=
  match code with
  | [] => (h, ZRetNone, lg)
  | ins :: r =>
      match skip with
      | S s => z_exec acc d i plan r s h e lg
      | O =>
          match ins with
          | ZAcquire | ZRelease => z_exec acc d i plan r O h e lg
          | ZIfUnset n =>
              match zs_cell (h i) with
              | Some _ => z_exec acc d i plan r n h e lg
              | None => z_exec acc d i plan r O h e lg
              end
          | ZFastRet =>
              match zs_cell (h i) with
              | Some a => (h, ZRet a, lg)
              | None => z_exec acc d i plan r O h e lg
              end
          | ZResolve =>
              match zs_orig (h i) with
              | ZSInd j =>
                  let '(h1, o, lg1) := acc h j in
                  match o with
                  | ZRet a => z_exec acc d i plan r O (z_set_orig h1 i (ZSArr a)) e (lg ++ lg1)
                  | ZRetNone => z_exec acc d i plan r O (z_set_orig h1 i ZSNone) e (lg ++ lg1)
                  | ZFault => (h1, ZFault, lg ++ lg1)
                  | ZErr => (h1, ZErr, lg ++ lg1)
                  end
              | _ => z_exec acc d i plan r O h e lg
              end
          | ZStage1 dst =>
              match zs_orig (h i) with
              | ZSArr a =>
                  match getitem a (zd_keep d) with
                  | Some b => z_exec acc d i plan r O (z_write_h h i dst (Some b)) (z_write_e e dst (Some b)) lg
                  | None => (h, ZErr, lg)
                  end
              | _ => (h, ZErr, lg)
              end
          | ZTransforms v =>
              match z_read h i e v with
              | None => match zd_tr d with [] => z_exec acc d i plan r O h e lg | _ => (h, ZErr, lg) end
              | Some x =>
                  let '(y, faulted, lg1) := z_tr_loop i plan (zd_tr d) O x in
                  let h' := z_write_h h i v (Some y) in
                  if faulted then (h', ZFault, lg ++ lg1)
                  else z_exec acc d i plan r O h' (z_write_e e v (Some y)) (lg ++ lg1)
              end
          | ZAssign dst s =>
              let x := z_read h i e s in
              z_exec acc d i plan r O (z_write_h h i dst x) (z_write_e e dst x) lg
          | ZClearOrig => z_exec acc d i plan r O (z_set_orig h i ZSNone) e lg
          | ZReturn v =>
              match z_read h i e v with
              | Some a => (h, ZRet a, lg)
              | None => (h, ZRetNone, lg)
              end
          end
      end
  end.

(* one access to object i; fuel bounds the depth of the chain of parents (length of the world suffices) *)
Fixpoint z_access (fuel : nat) (code : list z_instr) (w : z_world) (plan : z_plan) (h : z_heap) (i : nat)
    : z_heap * z_out * z_log :=
  match fuel with
  | O => (h, ZErr, [])
  | S f =>
      match nth_error w i with
      | None => (h, ZErr, [])
      | Some d => z_exec (z_access f code w plan) d i plan code O h (fun _ => None) []
      end
  end.

Definition z_init (w : z_world) : z_heap := fun i =>
  match nth_error w i with
  | Some d => ZS None (match zd_par d with ZPBase a => ZSArr a | ZPInd j => ZSInd j end)
  | None => ZS None ZSNone
  end.

(* ---------- SPEC: atomic, all-or-nothing, cached ---------- *)
Definition z_cache := nat -> option V.
Definition z_cset (c : z_cache) (i : nat) (a : V) : z_cache := fun u => if Nat.eqb u i then Some a else c u.

Fixpoint z_spec_access (fuel : nat) (w : z_world) (plan : z_plan) (c : z_cache) (i : nat)
    : z_cache * z_out * z_log :=
  match fuel with
  | O => (c, ZErr, [])
  | S f =>
      match nth_error w i with
      | None => (c, ZErr, [])
      | Some d =>
          match c i with
          | Some a => (c, ZRet a, [])                                    (* cached: nothing is called *)
          | None =>
              let '(c1, src, lg1) := match zd_par d with
                                     | ZPBase a => (c, ZRet a, [])
                                     | ZPInd j => z_spec_access f w plan c j
                                     end in
              match src with
              | ZRet a =>
                  match getitem a (zd_keep d) with
                  | None => (c1, ZErr, lg1)
                  | Some b =>
                      let '(y, faulted, lg2) := z_tr_loop i plan (zd_tr d) O b in
                      if faulted then (c1, ZFault, lg1 ++ lg2)           (* nothing of this object is kept *)
                      else (z_cset c1 i y, ZRet y, lg1 ++ lg2)           (* the whole chain, published at once *)
                  end
              | ZRetNone => (c1, ZErr, lg1)
              | ZFault => (c1, ZFault, lg1)
              | ZErr => (c1, ZErr, lg1)
              end
          end
      end
  end.

(* the value of the whole chain, as a pure function of the construction arguments *)
Fixpoint z_pure (fuel : nat) (w : z_world) (i : nat) : option V :=
  match fuel with
  | O => None
  | S f =>
      match nth_error w i with
      | None => None
      | Some d =>
          match (match zd_par d with ZPBase a => Some a | ZPInd j => z_pure f w j end) with
          | None => None
          | Some a => match getitem a (zd_keep d) with
                      | Some b => Some (fold_left (fun x g => g x) (zd_tr d) b)
                      | None => None
                      end
          end
      end
  end.

(* ---------- histories ---------- *)
(* one request = the objects whose `dataset` is taken in turn (one for .dataset/.shape/.dtype/indexer[k],
   several for DaskLazyIndexer.get([...], k)) under one fault plan; it stops at the first one that does not return *)
Fixpoint z_request (code : list z_instr) (w : z_world) (plan : z_plan) (h : z_heap) (objs : list nat)
    : z_heap * list (z_out * z_log) :=
  match objs with
  | [] => (h, [])
  | i :: r =>
      let '(h1, o, lg) := z_access (List.length w) code w plan h i in
      match o with
      | ZRet _ => let '(h2, rest) := z_request code w plan h1 r in (h2, (o, lg) :: rest)
      | _ => (h1, [(o, lg)])
      end
  end.
Fixpoint z_run (code : list z_instr) (w : z_world) (h : z_heap) (hist : list (list nat * z_plan))
    : list (list (z_out * z_log)) :=
  match hist with
  | [] => []
  | (objs, plan) :: r => let '(h1, res) := z_request code w plan h objs in res :: z_run code w h1 r
  end.

Fixpoint z_spec_request (w : z_world) (plan : z_plan) (c : z_cache) (objs : list nat)
    : z_cache * list (z_out * z_log) :=
  match objs with
  | [] => (c, [])
  | i :: r =>
      let '(c1, o, lg) := z_spec_access (List.length w) w plan c i in
      match o with
      | ZRet _ => let '(c2, rest) := z_spec_request w plan c1 r in (c2, (o, lg) :: rest)
      | _ => (c1, [(o, lg)])
      end
  end.
Fixpoint z_spec_run (w : z_world) (c : z_cache) (hist : list (list nat * z_plan)) : list (list (z_out * z_log)) :=
  match hist with
  | [] => []
  | (objs, plan) :: r => let '(c1, res) := z_spec_request w plan c objs in res :: z_spec_run w c1 r
  end.

(* ---------- the caller's index objects: __init__ keeps `copy.deepcopy(keep)` ---------- *)
(* An object is constructed from an index expression the CALLER still holds (cell r of the caller's store) and may
   overwrite at any time between requests.  zd_keep of the descriptor = (value at construction, caller's cell).  What
   stage 1 sees: the value at construction when __init__ deep-copied it (flag translated from the source), else
   whatever the caller's cell holds at the time of the access. *)
Definition z_keep_seen (deep : bool) (st : nat -> K) (kr : K * option nat) : K :=
  if deep then fst kr else match snd kr with Some r => st r | None => fst kr end.

Inductive z_event := ZMutate (r : nat) (v : K) | ZRequest (objs : list nat) (plan : z_plan).

Fixpoint z_run_events (deep : bool) (code : list z_instr) (w : list (z_par * (K * option nat) * list (V -> V)))
    (st : nat -> K) (h : z_heap) (evs : list z_event) : list (list (z_out * z_log)) :=
  match evs with
  | [] => []
  | ZMutate r v :: es => z_run_events deep code w (fun u => if Nat.eqb u r then v else st u) h es
  | ZRequest objs plan :: es =>
      let w' := map (fun d => match d with (p, kr, tr) => ZD p (z_keep_seen deep st kr) tr end) w in
      let '(h1, res) := z_request code w' plan h objs in
      res :: z_run_events deep code w st h1 es
  end.
Definition z_requests_of (evs : list z_event) : list (list nat * z_plan) :=
  flat_map (fun e => match e with ZRequest objs plan => [(objs, plan)] | ZMutate _ _ => [] end) evs.
Definition z_snapshot (w : list (z_par * (K * option nat) * list (V -> V))) : z_world :=
  map (fun d => match d with (p, kr, tr) => ZD p (fst kr) tr end) w.

End Lazy.

Arguments ZPBase {V} a. Arguments ZPInd {V} j.
Arguments ZD {V K} _ _ _. Arguments zd_par {V K} _. Arguments zd_keep {V K} _. Arguments zd_tr {V K} _.
Arguments ZSArr {V} a. Arguments ZSInd {V} j. Arguments ZSNone {V}.
Arguments ZS {V} _ _. Arguments zs_cell {V} _. Arguments zs_orig {V} _.
Arguments ZRet {V} a. Arguments ZRetNone {V}. Arguments ZFault {V}. Arguments ZErr {V}.
Arguments z_set {V} _ _ _ _. Arguments z_set_cell {V} _ _ _ _. Arguments z_set_orig {V} _ _ _ _.
Arguments z_read {V} _ _ _ _. Arguments z_write_h {V} _ _ _ _ _. Arguments z_write_e {V} _ _ _ _.
Arguments z_tr_loop {V} _ _ _ _ _.
Arguments z_exec {V K} _ _ _ _ _ _ _ _ _ _.
Arguments z_access {V K} _ _ _ _ _ _ _.
Arguments z_init {V K} _ _.
Arguments z_cset {V} _ _ _ _.
Arguments z_spec_access {V K} _ _ _ _ _ _.
Arguments z_pure {V K} _ _ _ _.
Arguments z_request {V K} _ _ _ _ _ _.
Arguments z_run {V K} _ _ _ _ _.
Arguments z_spec_request {V K} _ _ _ _ _.
Arguments z_spec_run {V K} _ _ _ _.
Arguments z_keep_seen {K} _ _ _.
Arguments ZMutate {K} _ _. Arguments ZRequest {K} _ _.
Arguments z_run_events {V K} _ _ _ _ _ _ _.
Arguments z_requests_of {K} _.
Arguments z_snapshot {V K} _.

(* ------------------------------------------------------------------------------------------- *)
(* instance: arrays of Model/DaskIdx.v, the linear chain of a d_ind, wire                      *)
(* ------------------------------------------------------------------------------------------- *)
Definition z_dworld := z_world d_arr (list d_aidx).

(* the objects of a (nested) d_ind, innermost first; the indexer itself is the last object *)
Fixpoint z_of_ind (i : d_ind) : z_dworld :=
  match i with
  | DBase a k tr => [ZD (ZPBase a) k tr]
  | DNest j k tr => let w := z_of_ind j in w ++ [ZD (ZPInd (List.length w - 1)) k tr]
  end.

Open Scope Z_scope.

Definition z_plan_of (pairs : list (Z * Z)) : z_plan :=
  fun i k => existsb (fun p => (fst p =? Z.of_nat i) && (snd p =? Z.of_nat k)) pairs.

(* objects on the wire: (parent keep transform-codes), parent = -1 for the base array, else an object number *)
Definition z_wire_world (a : d_arr) (objs : list sx) : z_dworld :=
  map (fun o => match o with
                | L [I p; k; t] => ZD (if p <? 0 then ZPBase a else ZPInd (Z.to_nat p)) (d_to_aidxs k)
                                      (map d_transform (to_Zs t))
                | _ => ZD (ZPBase a) [] []
                end) objs.
Definition z_wire_hist (hist : list sx) : list (list nat * z_plan) :=
  map (fun r => match r with
                | L [objs; L pairs] =>
                    (to_nats objs, z_plan_of (map (fun p => match p with L [I i; I k] => (i, k) | _ => (-1, -1) end) pairs))
                | _ => ([], fun _ _ => false)
                end) hist.
Definition z_of_out (o : z_out d_arr * z_log) : sx :=
  let lg := L (map (fun p => L [of_nat (fst p); of_nat (snd p)]) (snd o)) in
  match fst o with
  | ZRet a => L [I 1; of_Zs (d_shape a); I (d_dtype a); of_Zs (d_values a); lg]
  | ZRetNone => L [I 2; lg]
  | ZFault => L [I 3; lg]
  | ZErr => L [I 0; lg]
  end.
Definition z_of_runs (rs : list (list (z_out d_arr * z_log))) : sx := L (map (fun r => L (map z_of_out r)) rs).

(* (shape objects history) -> (translated-code model spec counter-model) ; each = per request, per object accessed:
   (class shape dtype values calls) *)
Definition wire_47 (x : sx) : sx :=
  match x with
  | L [shape; L objs; L hist] =>
      let w := z_wire_world (d_label_arr (to_Zs shape)) objs in
      let hs := z_wire_hist hist in
      L [L (map (fun t => match t with (op, a, b) => L [I op; I a; I b] end) c04_ds_code);
         z_of_runs (z_run d_getitem z_code w (z_init w) hs);
         z_of_runs (z_spec_run d_getitem w (fun _ => None) hs);
         z_of_runs (z_run d_getitem z_code_inplace w (z_init w) hs)]
  | _ => sx_err
  end.
