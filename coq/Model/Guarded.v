(* C20 (extension): a GENERIC guarded object.
   Any shared state Sh, any thread-local state Lo, and an ARBITRARY deterministic function
       line : Sh -> Lo -> act
   that says what the next source line of a critical section does (continue with a new shared/local state, leave
   the section with a result -- which may be a legitimate exception such as KeyError --, or crash with an
   unexpected error).  Threads (any number, named by nat; thread t enters with the local state `start t`, i.e. with
   its own arguments) each run   with self._lock: <lines>   one line at a time under an arbitrary schedule.  A crash
   inside the section releases the lock (Python's `with`), leaving the shared state as it is.
   `ustep` is the same machine WITHOUT mutual exclusion (sites that have no lock: S3ChunkStore._verified_buckets,
   ConcatenatedSensorCache.props before the repair; and "what if the lock were dropped" refutations).

   Used by Model/SharedSites.v for: the sensor cache with virtual sensors (a memoised DAG evaluated by a stack machine),
   the wildcard property map (_get_props: dict insertion + iteration), the verified-bucket set. *)
From Coq Require Import List Arith Bool.
Import ListNotations.

Section GM.
Variables (Sh Lo : Type).

Inductive act := Go (sh : Sh) (lo : Lo) | Fin (lo : Lo) | Crash.
Variable line : Sh -> Lo -> act.
Variable start : nat -> Lo.

Inductive gt := GIdle | GIn (lo : Lo) | GDone (lo : Lo) | GFail.
Record gcfg := mkG {
  g_sh : Sh;
  g_lock : option nat;          (* holder *)
  g_th : nat -> gt;
  g_hist : list nat             (* ghost: threads in the order in which they left their critical section *)
}.

Definition gupd (th : nat -> gt) (t : nat) (s : gt) : nat -> gt := fun u => if Nat.eqb u t then s else th u.

(* thread t executes one source line; a thread waiting for the lock does not move *)
Definition gstep (c : gcfg) (t : nat) : gcfg :=
  match g_th c t with
  | GIdle => match g_lock c with
             | None => mkG (g_sh c) (Some t) (gupd (g_th c) t (GIn (start t))) (g_hist c)
             | Some _ => c
             end
  | GIn lo => match line (g_sh c) lo with
              | Go sh' lo' => mkG sh' (g_lock c) (gupd (g_th c) t (GIn lo')) (g_hist c)
              | Fin lo' => mkG (g_sh c) None (gupd (g_th c) t (GDone lo')) (g_hist c ++ [t])
              | Crash => mkG (g_sh c) None (gupd (g_th c) t GFail) (g_hist c ++ [t])
              end
  | GDone _ => c
  | GFail => c
  end.
Definition ginit (sh : Sh) : gcfg := mkG sh None (fun _ => GIdle) [].
Definition gexec (sh : Sh) (schedule : list nat) : gcfg := fold_left gstep schedule (ginit sh).

(* no lock at all: every thread may be inside at once *)
Definition ustep (c : gcfg) (t : nat) : gcfg :=
  match g_th c t with
  | GIdle => mkG (g_sh c) None (gupd (g_th c) t (GIn (start t))) (g_hist c)
  | GIn lo => match line (g_sh c) lo with
              | Go sh' lo' => mkG sh' None (gupd (g_th c) t (GIn lo')) (g_hist c)
              | Fin lo' => mkG (g_sh c) None (gupd (g_th c) t (GDone lo')) (g_hist c ++ [t])
              | Crash => mkG (g_sh c) None (gupd (g_th c) t GFail) (g_hist c ++ [t])
              end
  | GDone _ => c
  | GFail => c
  end.
Definition uexec (sh : Sh) (schedule : list nat) : gcfg := fold_left ustep schedule (ginit sh).

(* ---------- what ONE thread does when it runs a section alone (the single-thread semantics) ---------- *)
Inductive outc := OFin (lo : Lo) | OCrash.
Inductive cs_run : Sh -> Lo -> Sh -> outc -> Prop :=
  | cs_go : forall sh lo sh1 lo1 sh' o, line sh lo = Go sh1 lo1 -> cs_run sh1 lo1 sh' o -> cs_run sh lo sh' o
  | cs_fin : forall sh lo lo', line sh lo = Fin lo' -> cs_run sh lo sh (OFin lo')
  | cs_crash : forall sh lo, line sh lo = Crash -> cs_run sh lo sh OCrash.
(* the sections of the threads of [hist] run one after the other *)
Inductive serial (sh0 : Sh) : list nat -> Sh -> Prop :=
  | ser_nil : serial sh0 [] sh0
  | ser_snoc : forall h s t s' o, serial sh0 h s -> cs_run s (start t) s' o -> serial sh0 (h ++ [t]) s'.

(* finitely many lines of one thread (no other thread moves) *)
Inductive lines : Sh -> Lo -> Sh -> Lo -> Prop :=
  | ln_refl : forall sh lo, lines sh lo sh lo
  | ln_step : forall sh lo sh1 lo1 sh2 lo2, line sh lo = Go sh1 lo1 -> lines sh1 lo1 sh2 lo2 -> lines sh lo sh2 lo2.

(* executable single-thread run with fuel (for the wire functions and the vm_compute witnesses) *)
Fixpoint run_cs (fuel : nat) (sh : Sh) (lo : Lo) : option (Sh * outc) :=
  match fuel with
  | O => None
  | S fu => match line sh lo with
            | Go sh' lo' => run_cs fu sh' lo'
            | Fin lo' => Some (sh, OFin lo')
            | Crash => Some (sh, OCrash)
            end
  end.

End GM.

Arguments Go {Sh Lo}. Arguments Fin {Sh Lo}. Arguments Crash {Sh Lo}.
Arguments GIdle {Lo}. Arguments GIn {Lo}. Arguments GDone {Lo}. Arguments GFail {Lo}.
Arguments mkG {Sh Lo}. Arguments g_sh {Sh Lo}. Arguments g_lock {Sh Lo}. Arguments g_th {Sh Lo}. Arguments g_hist {Sh Lo}.
Arguments OFin {Lo}. Arguments OCrash {Lo}.
