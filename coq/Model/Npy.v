(* C08: the .npy container as katdal's chunk stores read and write it.

   Model of
     - numpy.load(file, allow_pickle=False)            (numpy/lib/_npyio_impl.py: the 6-byte sniff, EOFError on
       an empty file, the zip and pickle branches) followed by numpy.lib.format.read_array (read_magic,
       _check_version, _read_array_header, the body read) -- used by NpyFileChunkStore.get_chunk;
     - katdal.chunkstore_s3.read_array over a _DetectTruncation wrapper (versions (1,0)/(2,0) only; every
       short read raises IncompleteRead instead of ValueError) -- used by S3ChunkStore.get_chunk;
     - the writer side npy_header_and_body / np.save: magic ++ version ++ header length ++ header ++ body.
   Bytes are [list Z]; the textual header (a Python dict literal) is parsed by a function that is a Section
   variable for the framing theorems and instantiated with a concrete parser of numpy's canonical header text
   for the executable model.  Definitions only. *)
From Coq Require Import ZArith List Bool Lia.
From KV Require Import Base.Sx.
Import ListNotations.
Open Scope Z_scope.

Definition bytes := list Z.

(* what the decoder can raise *)
Inductive npyerr :=
| EEOF          (* EOFError("No data left in file")             -- np.load on an empty file *)
| EValue        (* ValueError                                   -- every other failure inside numpy *)
| EIncomplete   (* urllib3 IncompleteRead from _DetectTruncation -- S3 path, data ran out *)
| EZip.         (* the file starts like a zip archive: np.load takes the NpzFile branch (no array comes back) *)

Inductive res (A : Type) := Ok (a : A) | Err (e : npyerr).
Arguments Ok {A} a.
Arguments Err {A} e.

Record hdr := mkhdr { h_descr : bytes; h_fortran : bool; h_shape : list nat }.

Definition magic_prefix : bytes := [147; 78; 85; 77; 80; 89].   (* b'\x93NUMPY' *)
Definition zip_prefix : bytes := [80; 75; 3; 4].                (* b'PK\x03\x04' *)
Definition zip_suffix : bytes := [80; 75; 5; 6].                (* b'PK\x05\x06' *)
Definition max_header_size : Z := 10000.                        (* numpy.lib.format._MAX_HEADER_SIZE *)

Fixpoint bytes_eqb (a b : bytes) : bool :=
  match a, b with
  | [], [] => true
  | x :: a', y :: b' => (x =? y) && bytes_eqb a' b'
  | _, _ => false
  end.
Definition starts_with (p bs : bytes) : bool := bytes_eqb (firstn (List.length p) bs) p.

(* numpy.lib.format._read_bytes(fp, n): all n bytes or failure; the file position advances *)
Definition read_bytes (n : nat) (bs : bytes) : option (bytes * bytes) :=
  if Nat.ltb (List.length bs) n then None else Some (firstn n bs, skipn n bs).

(* struct.unpack('<H' / '<I') and its inverse *)
Definition le_decode (l : bytes) : Z := fold_right (fun b acc => b + 256 * acc) 0 l.
Fixpoint le_encode (n : nat) (v : Z) : bytes :=
  match n with O => [] | S k => (v mod 256) :: le_encode k (v / 256) end.

Definition count (shape : list nat) : nat := fold_right Nat.mul 1%nat shape.

(* item size from a simple dtype descriptor such as "<c8", "|u1", "<f4": the decimal digits after the
   byte-order and kind characters.  Anything else (object, structured, datetime) is rejected. *)
Fixpoint digits_val (l : bytes) (acc : nat) : option nat :=
  match l with
  | [] => Some acc
  | c :: t => if (48 <=? c) && (c <=? 57) then digits_val t (10 * acc + Z.to_nat (c - 48)) else None
  end.
Definition itemsize (d : bytes) : option nat :=
  match d with
  | _ :: k :: _ :: _ => if k =? 79 (* 'O' *) then None else digits_val (skipn 2 d) 0
  | _ => None
  end.

(* size of the header-length field per format version ((1,0): '<H', (2,0) and (3,0): '<I') *)
Definition hlen_bytes (major : Z) : option nat :=
  if major =? 1 then Some 2%nat else if (major =? 2) || (major =? 3) then Some 4%nat else None.

Section Framing.
  Variable parse_hdr : bytes -> option hdr.

  (* format.read_array / katdal read_array.  [short] is what a read running out of data raises,
     [versions] the accepted major versions (minor must be 0). *)
  Definition read_array (short : npyerr) (versions : list Z) (bs : bytes) : res (hdr * bytes) :=
    match read_bytes 8 bs with
    | None => Err short
    | Some (mg, r1) =>
      if negb (bytes_eqb (firstn 6 mg) magic_prefix) then Err EValue else
      let major := nth 6 mg 0 in
      let minor := nth 7 mg 0 in
      if negb (existsb (Z.eqb major) versions && (minor =? 0)) then Err EValue else
      match hlen_bytes major with
      | None => Err EValue
      | Some nb =>
        match read_bytes nb r1 with
        | None => Err short
        | Some (hl, r2) =>
          let nz := le_decode hl in
          (* the length is compared as an integer first: a corrupt 4-byte length never becomes a unary number *)
          match (if Z.of_nat (List.length r2) <? nz then None else read_bytes (Z.to_nat nz) r2) with
          | None => Err short
          | Some (hb, r3) =>
            if max_header_size <? nz then Err EValue else
            match parse_hdr hb with
            | None => Err EValue
            | Some m =>
              match itemsize (h_descr m) with
              | None => Err EValue
              | Some isz =>
                match read_bytes (count (h_shape m) * isz) r3 with
                | None => Err short
                | Some (body, _) => Ok (m, body)
                end
              end
            end
          end
        end
      end
    end.

  (* numpy.load(filename, allow_pickle=False) *)
  Definition np_load (bs : bytes) : res (hdr * bytes) :=
    let m6 := firstn 6 bs in
    match m6 with
    | [] => Err EEOF
    | _ =>
      if starts_with zip_prefix m6 || starts_with zip_suffix m6 then Err EZip
      else if bytes_eqb m6 magic_prefix then read_array EValue [1; 2; 3] bs
      else Err EValue        (* "This file contains pickled (object) data" *)
    end.

  (* katdal.chunkstore_s3.read_array(_DetectTruncation(fp)) *)
  Definition s3_read_array (bs : bytes) : res (hdr * bytes) := read_array EIncomplete [1; 2] bs.
End Framing.

(* ---------- the writer: magic ++ version ++ header length ++ header ++ body ---------- *)
Section Writer.
  Variable print_hdr : hdr -> bytes.
  Definition encode (major : Z) (nb : nat) (m : hdr) (body : bytes) : bytes :=
    magic_prefix ++ [major; 0] ++ le_encode nb (Z.of_nat (List.length (print_hdr m))) ++ print_hdr m ++ body.

  (* a well-formed file: version known, header small enough for its length field and for numpy's reader,
     body exactly count * itemsize bytes *)
  Definition wf_file (major : Z) (nb : nat) (m : hdr) (body : bytes) : Prop :=
    hlen_bytes major = Some nb /\
    Z.of_nat (List.length (print_hdr m)) <= max_header_size /\
    exists isz, itemsize (h_descr m) = Some isz /\ List.length body = (count (h_shape m) * isz)%nat.
End Writer.

(* ---------- concrete parser of the header text numpy writes ----------
   "{'descr': '<u1', 'fortran_order': False, 'shape': (3, 4), }" ++ spaces ++ "\n"  *)
Definition s_descr : bytes := [123; 39; 100; 101; 115; 99; 114; 39; 58; 32; 39].          (* {'descr': ' *)
Definition s_fortran : bytes :=
  [39; 44; 32; 39; 102; 111; 114; 116; 114; 97; 110; 95; 111; 114; 100; 101; 114; 39; 58; 32]. (* ', 'fortran_order':  *)
Definition s_false : bytes := [70; 97; 108; 115; 101].
Definition s_true : bytes := [84; 114; 117; 101].
Definition s_shape : bytes := [44; 32; 39; 115; 104; 97; 112; 101; 39; 58; 32; 40].      (* , 'shape': ( *)
Definition s_close : bytes := [44; 32; 125].                                              (* , } *)

Definition expect (p bs : bytes) : option bytes :=
  if starts_with p bs then Some (skipn (List.length p) bs) else None.

Definition descr_char (c : Z) : bool := (32 <=? c) && (c <? 127) && negb (c =? 39) && negb (c =? 92).
Fixpoint take_descr (bs : bytes) : option (bytes * bytes) :=
  match bs with
  | [] => None
  | c :: t => if c =? 39 then Some ([], bs)
              else if descr_char c then
                match take_descr t with Some (a, r) => Some (c :: a, r) | None => None end
              else None
  end.

Definition is_digit (c : Z) : bool := (48 <=? c) && (c <=? 57).
Fixpoint take_digits (bs : bytes) : bytes * bytes :=
  match bs with
  | c :: t => if is_digit c then let (a, r) := take_digits t in (c :: a, r) else ([], bs)
  | [] => ([], [])
  end.
(* a Python int literal as repr() prints it: no sign, no leading zero unless it is "0" *)
Definition parse_nat (bs : bytes) : option (nat * bytes) :=
  let (ds, r) := take_digits bs in
  match ds with
  | [] => None
  | [d] => Some (Z.to_nat (d - 48), r)
  | d :: _ => if d =? 48 then None else
              match digits_val ds 0 with Some n => Some (n, r) | None => None end
  end.

Fixpoint parse_shape_rest (fuel : nat) (bs : bytes) : option (list nat * bytes) :=
  match fuel with
  | O => None
  | S f =>
    match bs with
    | 41 :: r => Some ([], r)
    | 44 :: 32 :: r =>
      match parse_nat r with
      | Some (n, r') =>
        match parse_shape_rest f r' with Some (l, r'') => Some (n :: l, r'') | None => None end
      | None => None
      end
    | _ => None
    end
  end.
(* after the opening parenthesis: "()", "(n,)", "(n, m)", "(n, m, k)", ... *)
Definition parse_shape (bs : bytes) : option (list nat * bytes) :=
  match bs with
  | 41 :: r => Some ([], r)
  | _ =>
    match parse_nat bs with
    | Some (n, 44 :: 41 :: r) => Some ([n], r)
    | Some (n, (44 :: 32 :: _) as r) =>
      match parse_shape_rest (List.length r) r with
      | Some ([], _) => None
      | Some (l, r') => Some (n :: l, r')
      | None => None
      end
    | _ => None
    end
  end.

Fixpoint only_spaces_then_nl (bs : bytes) : bool :=
  match bs with
  | [10] => true
  | 32 :: t => only_spaces_then_nl t
  | _ => false
  end.

Definition parse_hdr_c (hb : bytes) : option hdr :=
  match expect s_descr hb with
  | None => None
  | Some r0 =>
    match take_descr r0 with
    | None => None
    | Some (d, r1) =>
      match expect s_fortran r1 with
      | None => None
      | Some r2 =>
        let fo := if starts_with s_true r2 then Some (true, skipn 4 r2)
                  else if starts_with s_false r2 then Some (false, skipn 5 r2) else None in
        match fo with
        | None => None
        | Some (f, r3) =>
          match expect s_shape r3 with
          | None => None
          | Some r4 =>
            match parse_shape r4 with
            | None => None
            | Some (sh, r5) =>
              match expect s_close r5 with
              | None => None
              | Some r6 => if only_spaces_then_nl r6 then Some (mkhdr d f sh) else None
              end
            end
          end
        end
      end
    end
  end.

(* the matching printer (numpy's _write_array_header for a simple dtype; [pad] spaces before the newline) *)
Fixpoint nat_digits_aux (fuel n : nat) (acc : bytes) : bytes :=
  match fuel with
  | O => acc
  | S f => let acc' := (48 + Z.of_nat (n mod 10)) :: acc in
           if Nat.eqb (n / 10) 0 then acc' else nat_digits_aux f (n / 10) acc'
  end.
Definition nat_digits (n : nat) : bytes := nat_digits_aux (S n) n [].
Fixpoint print_shape_tail (l : list nat) : bytes :=
  match l with
  | [] => [41]
  | n :: t => [44; 32] ++ nat_digits n ++ print_shape_tail t
  end.
Definition print_shape (l : list nat) : bytes :=
  match l with
  | [] => [41]
  | [n] => nat_digits n ++ [44; 41]
  | n :: t => nat_digits n ++ print_shape_tail t
  end.
Definition print_hdr_c (pad : nat) (m : hdr) : bytes :=
  s_descr ++ h_descr m ++ s_fortran ++ (if h_fortran m then s_true else s_false) ++ s_shape
  ++ print_shape (h_shape m) ++ s_close ++ repeat 32 pad ++ [10].

(* ---------- wire ---------- *)
Definition of_err (e : npyerr) : Z := match e with EEOF => 1 | EValue => 2 | EIncomplete => 3 | EZip => 4 end.
Definition of_res (r : res (hdr * bytes)) : sx :=
  match r with
  | Ok (m, body) => L [I 0; of_Zs (h_descr m); of_bool (h_fortran m); of_nats (h_shape m); of_Zs body]
  | Err e => L [I (of_err e)]
  end.
Definition to_hdr (x : sx) : hdr :=
  match x with
  | L [d; f; s] => mkhdr (to_Zs d) (to_bool f) (to_nats s)
  | _ => mkhdr [] false []
  end.

(* (1 bytes)            -> np_load result            (NPY file store read path)
   (2 bytes)            -> s3_read_array result      (S3 store read path)
   (3 bytes k)          -> (np_load (firstn k bytes), s3_read_array (firstn k bytes))
   (4 (descr fo shape) pad) -> print_hdr_c bytes
   (5 bytes)            -> for every k in 0..|bytes|: (class of np_load (firstn k bytes), class of s3_read_array ...)
                           with class 0 = decoded, else the error code *)
Definition res_class (r : res (hdr * bytes)) : Z := match r with Ok _ => 0 | Err e => of_err e end.
Definition wire_8 (x : sx) : sx :=
  match x with
  | L [I 1; b] => of_res (np_load parse_hdr_c (to_Zs b))
  | L [I 2; b] => of_res (s3_read_array parse_hdr_c (to_Zs b))
  | L [I 3; b; k] =>
      let p := firstn (to_nat k) (to_Zs b) in
      L [of_res (np_load parse_hdr_c p); of_res (s3_read_array parse_hdr_c p)]
  | L [I 4; h; pad] => of_Zs (print_hdr_c (to_nat pad) (to_hdr h))
  | L [I 5; b] =>
      let bs := to_Zs b in
      L (map (fun k => L [I (res_class (np_load parse_hdr_c (firstn k bs)));
                          I (res_class (s3_read_array parse_hdr_c (firstn k bs)))])
             (seq 0 (S (List.length bs))))
  | _ => sx_err
  end.
