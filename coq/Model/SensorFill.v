(* C12: ConcatenatedSensorCache.get when the sensor is ABSENT from some parts - the dtype-aware slow path:
     dtype    = common_dtype(unselected present parts)            (np.result_type)
     dummy    = dummy_sensor_getter(name, value=props.get('initial_value'), dtype=dtype)
     as_array = not floating(dtype) and no present part is CategoricalData
     filler   = _extract(dummy, part timestamps, **props)         (categorical iff props['categorical'], default:
                                                                   the DUMMY VALUE is not a float)
     filler   = np.array(filler[:]) if as_array and filler is CategoricalData
     part[name] = filler                                          (written back), then re-read with the selection.
   Definitions only.  The order of these steps is regenerated from the source (Generated.concat_fill_steps); the
   per-dtype default values are the regenerated constants of dummy_sensor_getter. *)
From Coq Require Import ZArith QArith List Bool String.
From KV Require Import Base.Sx Base.Str Gen.Generated Model.Interp Model.SensorCache.
Import ListNotations.
Local Open Scope Q_scope.

(* an explicit initial_value, with its value *)
Inductive init := IFloat (q : Q) | IInt (z : Z) | IBool (b : bool) | IStr (empty : bool).
(* a filler value *)
Inductive fval := FNum (q : qn) | FInt (z : Z) | FBool (b : bool) | FStr (empty : bool) | FNone.

Definition init_dtype (i : init) : dtype :=
  match i with IFloat _ => DFloat | IInt _ => DInt | IBool _ => DBool | IStr _ => DStr end.
Definition init_fval (i : init) : fval :=
  match i with IFloat q => FNum (Some q) | IInt z => FInt z | IBool b => FBool b | IStr e => FStr e end.

(* dummy_sensor_getter(name, value, dtype): an explicit value wins and brings its own dtype (infer_dtype([value]));
   otherwise the per-dtype default, tested in the order floating / integer / string / bool *)
Definition fill_dummy (i : option init) (dt : dtype) : dtype * fval :=
  match i with
  | Some v => (init_dtype v, init_fval v)
  | None => match dt with
            | DFloat => (DFloat, FNum None)
            | DInt => (DInt, FInt sensor_dummy_int)
            | DStr => (DStr, FStr (String.eqb sensor_dummy_str ""))
            | DBool => (DBool, FBool sensor_dummy_bool)
            | DObj => (DObj, FNone)
            end
  end.

(* the number an array holds for a filler value (bool as 0/1; '' as 0 and any other string as 1, only to tell the
   two apart on the wire) *)
Definition fnum (f : fval) : qn :=
  match f with
  | FNum q => q
  | FInt z => Some (inject_Z z)
  | FBool b => Some (if b then 1 else 0)
  | FStr e => Some (if e then 0 else 1)
  | FNone => None
  end.
(* np.interp(timestamps, [t], [value]): numbers and bools convert to float, a string raises *)
Definition as_float (f : fval) : option qn :=
  match f with
  | FNum q => Some q
  | FInt z => Some (Some (inject_Z z))
  | FBool b => Some (Some (if b then 1 else 0))
  | FStr _ | FNone => None
  end.

(* np.result_type on the dtypes that occur: bool < int < float < str (NumPy promotes a number with a string to a
   string); object arrays are outside the model *)
Definition rank (d : dtype) : option nat :=
  match d with DBool => Some 0%nat | DInt => Some 1%nat | DFloat => Some 2%nat | DStr => Some 3%nat | DObj => None end.
Definition promote2 (a b : dtype) : option dtype :=
  match rank a, rank b with
  | Some x, Some y => Some (if Nat.leb x y then b else a)
  | _, _ => None
  end.
Fixpoint promote_all (l : list dtype) : option dtype :=
  match l with
  | [] => None
  | [d] => Some d
  | d :: t => match promote_all t with Some e => promote2 d e | None => None end
  end.

(* what one part holds / returns for the sensor *)
Inductive pstate :=
| SMissing                                   (* cache.get raises KeyError *)
| SArr (dt : dtype) (vals : list qn)         (* an array in the cache (assigned directly, or extracted earlier) *)
| SGet (dt : dtype) (v : Q).                 (* a getter whose usable samples all carry the value v *)
Inductive pres :=
| PMissing
| PArr (dt : dtype) (vals : list qn)
| PCat (dt : dtype) (fv : option fval)       (* CategoricalData; Some fv = the constant filler, None = C10's business *)
| PErr.

Record fprops := mkFP { f_cat : option bool; f_init : option init }.
Definition f_decide (p : fprops) (dt : dtype) : bool :=
  match f_cat p with Some b => b | None => negb (is_float dt) end.

(* cache.get(name, select=False, extract=True, **kwargs) of ONE part with n dumps *)
Definition part_get (n : nat) (s : pstate) (p : fprops) : pres :=
  match s with
  | SMissing => PMissing
  | SArr dt vals => PArr dt vals
  | SGet dt v => if f_decide p dt then PCat dt None
                 else match dt with
                      | DFloat | DInt | DBool => PArr DFloat (repeat (Some v) n)
                      | _ => PErr                      (* np.interp of strings raises *)
                      end
  end.

Definition pres_dtype (r : pres) : option dtype :=
  match r with PArr dt _ => Some dt | PCat dt _ => Some dt | _ => None end.
Definition is_pcat (r : pres) : bool := match r with PCat _ _ => true | _ => false end.
Definition is_pmissing (r : pres) : bool := match r with PMissing => true | _ => false end.
Definition is_perr (r : pres) : bool := match r with PErr => true | _ => false end.
Definition is_parr (r : pres) : bool := match r with PArr _ _ => true | _ => false end.

Fixpoint somes {A} (l : list (option A)) : list A :=
  match l with [] => [] | Some a :: t => a :: somes t | None :: t => somes t end.

(* filler for a part with n dumps *)
Definition fill_one (dtype : dtype) (anycat : bool) (p : fprops) (n : nat) : pres :=
  let '(dt', fv) := fill_dummy (f_init p) dtype in
  if f_decide p dt' then
    if negb (is_float dtype) && negb anycat then PArr dt' (repeat (fnum fv) n)   (* np.array(filler[:]) *)
    else PCat dt' (Some fv)
  else match as_float fv with
       | Some q => PArr DFloat (repeat q n)
       | None => PErr
       end.

Inductive cres :=
| CKey                                        (* KeyError: absent from every part *)
| CErr                                        (* a part raised *)
| CArr (dt : option dtype) (vals : list qn)   (* np.concatenate; None = an object array is involved *)
| CCat                                        (* concatenate_categorical of categorical parts (C10 / C11) *)
| CMixed.                                     (* arrays and categorical data mixed: concatenate_categorical raises *)

Fixpoint concat_arr (rs : list pres) : list qn :=
  match rs with
  | PArr _ v :: t => (v ++ concat_arr t)%list
  | _ :: t => concat_arr t
  | [] => []
  end.

(* parts: (number of dumps, state).  Returns the per-part results AFTER filling (= what is written back into the
   parts that lacked the sensor) and the concatenated result of get(name, select=False) *)
Definition cfill (parts : list (nat * pstate)) (p : fprops) : list pres * cres :=
  let rs := map (fun ns => part_get (fst ns) (snd ns) p) parts in
  if forallb is_pmissing rs then (rs, CKey) else
  if existsb is_perr rs then (rs, CErr) else
  let filled :=
    if existsb is_pmissing rs then
      match promote_all (somes (map pres_dtype rs)) with
      | None => map (fun r => if is_pmissing r then PErr else r) rs      (* np.result_type raises *)
      | Some dtype =>
          let anycat := existsb is_pcat rs in
          map (fun nr => if is_pmissing (snd nr) then fill_one dtype anycat p (fst nr) else snd nr)
              (combine (map fst parts) rs)
      end
    else rs in
  (filled,
   if existsb is_perr filled then CErr
   else if forallb is_parr filled then CArr (promote_all (somes (map pres_dtype filled))) (concat_arr filled)
   else if forallb is_pcat filled then CCat
   else CMixed).

(* ------------------------------------------------------------------ wire *)
Definition to_init (x : sx) : init :=
  match x with
  | L [I 0%Z; q] => IFloat (to_Q q)
  | L [I 1%Z; I z] => IInt z
  | L [I 2%Z; b] => IBool (to_bool b)
  | L [I 3%Z; e] => IStr (to_bool e)
  | _ => IStr true
  end.
Definition to_fprops (x : sx) : fprops :=
  match x with
  | L [c; i] => mkFP (to_opt to_bool c) (to_opt to_init i)
  | _ => mkFP None None
  end.
Definition to_pstate (x : sx) : nat * pstate :=
  match x with
  | L [n; I 0%Z] => (to_nat n, SMissing)
  | L [n; I 1%Z; d; l] => (to_nat n, SArr (to_dtype d) (map to_qn (to_list l)))
  | L [n; I 2%Z; d; v] => (to_nat n, SGet (to_dtype d) (to_Q v))
  | _ => (O, SMissing)
  end.
Definition of_fval (f : fval) : sx :=
  match f with
  | FNum q => L [I 0%Z; of_qn q]
  | FInt z => L [I 1%Z; I z]
  | FBool b => L [I 2%Z; of_bool b]
  | FStr e => L [I 3%Z; of_bool e]
  | FNone => L [I 4%Z]
  end.
Definition of_pres (r : pres) : sx :=
  match r with
  | PMissing => L [I 0%Z]
  | PArr dt v => L [I 1%Z; I (of_dtype dt); L (map of_qn v)]
  | PCat dt None => L [I 2%Z; I (of_dtype dt)]
  | PCat dt (Some f) => L [I 2%Z; I (of_dtype dt); of_fval f]
  | PErr => L [I 3%Z]
  end.
Definition of_cres (r : cres) : sx :=
  match r with
  | CKey => L [I 0%Z]
  | CErr => L [I 1%Z]
  | CArr None v => L [I 2%Z; L []; L (map of_qn v)]
  | CArr (Some dt) v => L [I 2%Z; L [I (of_dtype dt)]; L (map of_qn v)]
  | CCat => L [I 3%Z]
  | CMixed => L [I 4%Z]
  end.
(* (parts props) -> ((per-part results after the fill) result) *)
Definition wire_125 (x : sx) : sx :=
  match x with
  | L [ps; p] => let '(rs, r) := cfill (map to_pstate (to_list ps)) (to_fprops p) in L [L (map of_pres rs); of_cres r]
  | _ => sx_err
  end.

(* get(name, select=True) when every part ends up as an array: each part restricted to ITS segment of the mask *)
Fixpoint concat_sel (keeps : list (list bool)) (rs : list pres) : list qn :=
  match keeps, rs with
  | k :: kt, PArr _ v :: t => (select_mask k v ++ concat_sel kt t)%list
  | _ :: kt, _ :: t => concat_sel kt t
  | _, _ => []
  end.
(* (parts props keeps) -> selected concatenation, () when some part is not an array *)
Definition wire_126 (x : sx) : sx :=
  match x with
  | L [ps; p; ks] =>
      let '(rs, r) := cfill (map to_pstate (to_list ps)) (to_fprops p) in
      if forallb is_parr rs && negb (Nat.eqb (List.length rs) 0)
      then L [L (map of_qn (concat_sel (map to_bools (to_list ks)) rs))] else L []
  | _ => sx_err
  end.
