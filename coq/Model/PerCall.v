(* C20 (strengthening round): state that OUTLIVES A CALL at the sites reached by a multi-threaded load.

   A. Per-call state only.  A function whose lines never change the shared state (every write goes to objects the call
      made itself) computes, under EVERY interleaving with any other such calls and without any lock, exactly what it
      computes alone: `readonly line` is the hypothesis, the machine is Guarded.ustep.  Instance: the block function of
      the applycal corrections (_correction_block: one calc_correction_per_corrprod per dump of the block, all blocks
      sharing ONE CorrectionParams object that dask bakes into the graph).  The statement kinds of the real block
      functions come from the translator (Generated.c20_worker_fn_skeletons) and must satisfy percall_code_ok.
      What goes wrong otherwise: the same block function with a "same as last call" memo kept on the shared object
      (key and value written by separate lines, no lock) -- `memo_line`; a concrete schedule returns another call's
      value.  Under a lock (Guarded.gstep) the memo is harmless.

   B. The retry budget of an S3 request.  S3ChunkStore.request stores the Retry object of THIS request in
      `adapter.max_retries` of the adapter of the session it borrowed, and the adapter reads it when the attempt is sent.
      On top of the request-level pool machine (SharedSites.rstep: borrow / send / sleep / give back / lose) the
      event `BSet t v` writes v into the slot of the adapter of the session t holds, and a send by t compares the slot
      with what t stored.  `adapter : session -> adapter id`: the identity when every pooled session gets an adapter of
      its own (Generated.c20_adapter_per_session), a constant when all sessions share one. *)
From Coq Require Import List Arith Bool ZArith String.
From KV Require Import Base.Sx Gen.Generated Model.LazyInit Model.Guarded Model.SharedSites.
Import ListNotations.
Close Scope Z_scope.
Open Scope nat_scope.

(* ================================================================================================================ *)
(* A. per-call state                                                                                                  *)
(* ================================================================================================================ *)
Section ReadOnly.
Variables (Sh Lo : Type) (line : Sh -> Lo -> act Sh Lo).
(* no line changes the shared state *)
Definition readonly : Prop := forall sh lo sh' lo', line sh lo = Go sh' lo' -> sh' = sh.
End ReadOnly.

(* statement kinds of a worker function as TRANSLATED: 1 reads state that outlives the call, 3 returns a fresh object,
   4 call-local, 7 a write that is modelled elsewhere (output parameter of a caller that passes a fresh array, copy on
   first write), 8 returns an argument; 5 (returns part of a shared object) and 6 (writes to state that outlives the
   call) are what a per-call function must not contain *)
Definition percall_stmt_ok (c : Z) : bool := (Z.eqb c 1 || Z.eqb c 3 || Z.eqb c 4 || Z.eqb c 7 || Z.eqb c 8)%bool.
Definition percall_code_ok (code : list Z) : bool := forallb percall_stmt_ok code.

Section Blocks.
(* P: the CorrectionParams object; g p s c: the gains for solution interval s and channel chunk c (what
   calc_correction_per_corrprod computes: it depends on the dump only through the solutions that are valid at it);
   sol: dump -> solution interval *)
Variables (P V : Type) (g : P -> nat -> nat -> V) (sol : nat -> nat).
Record blocal := mkBL { bl_todo : list nat; bl_chan : nat; bl_out : list V }.
(* _correction_block, one line per dump: correction[n] = calc_correction_per_corrprod(dump, channels, params) *)
Definition bline (sh : P) (lo : blocal) : act P blocal :=
  match bl_todo lo with
  | [] => Fin lo
  | d :: r => Go sh (mkBL r (bl_chan lo) (bl_out lo ++ [g sh (sol d) (bl_chan lo)]))
  end.
Definition bstart (blocks : nat -> list nat * nat) (t : nat) : blocal := mkBL (fst (blocks t)) (snd (blocks t)) [].
Definition block_spec (p : P) (b : list nat * nat) : list V := map (fun d => g p (sol d) (snd b)) (fst b).

(* the same with a memo on the shared object: (what the last call was asked for, what it answered), two fields that are
   written by two lines; a call that finds its own key returns the stored answer (read by the NEXT line) *)
Record memo := mkMemo { mm_p : P; mm_key : option (nat * nat); mm_val : option V }.
Inductive mpc := MTest | MHit | MCompute | MStoreKey (v : V) | MStoreVal (v : V).
Record mlocal := mkMLo { ml_b : blocal; ml_pc : mpc }.
Definition key_eqb (a b : nat * nat) : bool := (Nat.eqb (fst a) (fst b) && Nat.eqb (snd a) (snd b))%bool.
Definition memo_line (sh : memo) (lo : mlocal) : act memo mlocal :=
  let b := ml_b lo in
  match bl_todo b with
  | [] => Fin lo
  | d :: r =>
      let k := (sol d, bl_chan b) in
      match ml_pc lo with
      | MTest => match mm_key sh with
                 | Some k' => if key_eqb k k' then Go sh (mkMLo b MHit) else Go sh (mkMLo b MCompute)
                 | None => Go sh (mkMLo b MCompute)
                 end
      | MHit => match mm_val sh with                       (* return params._last_gains *)
                | Some v => Go sh (mkMLo (mkBL r (bl_chan b) (bl_out b ++ [v])) MTest)
                | None => Crash
                end
      | MCompute => Go sh (mkMLo b (MStoreKey (g (mm_p sh) (sol d) (bl_chan b))))
      | MStoreKey v => Go (mkMemo (mm_p sh) (Some k) (mm_val sh)) (mkMLo b (MStoreVal v))
      | MStoreVal v => Go (mkMemo (mm_p sh) (mm_key sh) (Some v)) (mkMLo (mkBL r (bl_chan b) (bl_out b ++ [v])) MTest)
      end
  end.
Definition mstart_memo (blocks : nat -> list nat * nat) (t : nat) : mlocal := mkMLo (bstart blocks t) MTest.
(* a memo that can be trusted: the stored answer is the answer to the stored question *)
Definition memo_consistent (sh : memo) : Prop :=
  match mm_key sh with
  | Some k => mm_val sh = Some (g (mm_p sh) (fst k) (snd k))
  | None => True
  end.
End Blocks.
Arguments mkBL {V}. Arguments bl_todo {V}. Arguments bl_chan {V}. Arguments bl_out {V}.
Arguments mkMemo {P V}. Arguments mm_p {P V}. Arguments mm_key {P V}. Arguments mm_val {P V}.
Arguments MTest {V}. Arguments MHit {V}. Arguments MCompute {V}. Arguments MStoreKey {V}. Arguments MStoreVal {V}.
Arguments mkMLo {V}. Arguments ml_b {V}. Arguments ml_pc {V}.

(* ================================================================================================================ *)
(* B. the retry budget slot                                                                                           *)
(* ================================================================================================================ *)
Inductive bop := BR (o : rop) | BSet (t : nat) (v : Z).
Record bst := mkB {
  b_r : rpool;
  b_slot : nat -> Z;                (* adapter -> the Retry object in adapter.max_retries (named by a number) *)
  b_set : nat -> option Z;          (* thread -> what it has stored since it borrowed its session *)
  b_foreign : bool;                 (* an attempt went out with a budget that is not the one its request stored *)
  b_unset : bool                    (* an attempt went out before its request stored any budget *)
}.
Definition zupd (f : nat -> Z) (k : nat) (v : Z) : nat -> Z := fun j => if Nat.eqb j k then v else f j.
Definition oupd (f : nat -> option Z) (k : nat) (v : option Z) : nat -> option Z := fun j => if Nat.eqb j k then v else f j.
Section Budget.
Variable adapter : nat -> nat.
Definition bstep (b : bst) (o : bop) : bst :=
  match o with
  | BSet t v => match held_by t (r_pool (b_r b)) with
                | Some x => mkB (b_r b) (zupd (b_slot b) (adapter x) v) (oupd (b_set b) t (Some v)) (b_foreign b) (b_unset b)
                | None => b
                end
  | BR (RUse t) =>
      let r' := rstep (b_r b) (RUse t) in
      match held_by t (r_pool (b_r b)) with
      | Some x => match b_set b t with
                  | Some v => mkB r' (b_slot b) (b_set b) (b_foreign b || negb (Z.eqb (b_slot b (adapter x)) v)) (b_unset b)
                  | None => mkB r' (b_slot b) (b_set b) (b_foreign b) true
                  end
      | None => mkB r' (b_slot b) (b_set b) (b_foreign b) (b_unset b)
      end
  | BR (RSleep t) => b
  | BR o' => mkB (rstep (b_r b) o') (b_slot b) (oupd (b_set b) (rop_thread o') None) (b_foreign b) (b_unset b)
  end.
Definition binit : bst := mkB rinit (fun _ => 0%Z) (fun _ => None) false false.
Definition bexec (evs : list bop) : bst := fold_left bstep evs binit.
End Budget.

(* where the adapters come from, as TRANSLATED: one per session, or one for all *)
Definition adapter_of : nat -> nat := if c20_adapter_per_session then (fun x => x) else (fun _ => 0).

(* one request with budget v0 whose attempts end as `outs` says (as SharedSites.attempts); every retried attempt uses up
   one unit (Retry.increment gives a new object: v - 1); sets = the budget is stored before every attempt
   (Generated.c20_request_sets_budget_first) *)
Fixpoint battempts (fin sleep_in sets : bool) (t : nat) (v : Z) (outs : list Z) : list bop :=
  let set := if sets then [BSet t v] else [] in
  match outs with
  | [] => [BR (if fin then RPut t else RDrop t)]
  | 0%Z :: r => set ++ BR (RUse t) :: (if sleep_in then [BR (RSleep t)] else [BR (RPut t); BR (RSleep t); BR (RGet t)])
                ++ battempts fin sleep_in sets t (v - 1)%Z r
  | 1%Z :: _ => set ++ [BR (RUse t); BR (RPut t)]
  | _ :: _ => set ++ [BR (RUse t); BR (if fin then RPut t else RDrop t)]
  end.
Definition brequest (fin sleep_in sets : bool) (t : nat) (v : Z) (outs : list Z) : list bop :=
  BR (RGet t) :: battempts fin sleep_in sets t v outs.
Definition bthread_prog (fin sleep_in sets : bool) (t : nat) (reqs : list (Z * list Z)) : list bop :=
  flat_map (fun q => brequest fin sleep_in sets t (fst q) (snd q)) reqs.
(* threads RUNNING such programs: an interleaving is a schedule of thread ids *)
Record bcfg := mkBC { bc_st : bst; bc_rem : nat -> list bop }.
Definition bcupd (f : nat -> list bop) (t : nat) (x : list bop) : nat -> list bop := fun u => if Nat.eqb u t then x else f u.
Definition bcstep (adapter : nat -> nat) (c : bcfg) (t : nat) : bcfg :=
  match bc_rem c t with
  | [] => c
  | o :: r => mkBC (bstep adapter (bc_st c) o) (bcupd (bc_rem c) t r)
  end.
Definition bcexec (adapter : nat -> nat) (prog : nat -> list bop) (schedule : list nat) : bcfg :=
  fold_left (bcstep adapter) schedule (mkBC binit prog).
(* what a thread that holds h sessions and has (s) / has not stored its budget may still do *)
Fixpoint bok (t h : nat) (s : bool) (l : list bop) : bool :=
  match l with
  | [] => true
  | BSet u _ :: r => Nat.eqb u t && Nat.eqb h 1 && bok t h true r
  | BR (RGet u) :: r => Nat.eqb u t && Nat.eqb h 0 && bok t 1 false r
  | BR (RUse u) :: r => Nat.eqb u t && Nat.eqb h 1 && s && bok t 1 true r
  | BR (RSleep u) :: r => Nat.eqb u t && bok t h s r
  | BR (RPut u) :: r => Nat.eqb u t && Nat.eqb h 1 && bok t 0 false r
  | BR (RDrop u) :: r => Nat.eqb u t && Nat.eqb h 1 && bok t 0 false r
  end.

(* ================================================================================================================ *)
(* wire functions                                                                                                     *)
(* ================================================================================================================ *)
Open Scope Z_scope.
(* 211: the retry-budget machine.  (adapters events) with adapters = [] (the adapter map AS TRANSLATED) or a list
   session -> adapter id (the topology observed on the real store); events (kind thread value): kind 0 get 1 use 2 sleep
   3 put 4 drop 5 set -> (foreign, unset, clash, unheld, raised, per-session slot values of sessions 0..made-1) *)
Definition to_bop (x : sx) : bop :=
  match x with
  | L [I 5; I t; I v] => BSet (Z.to_nat t) v
  | L (I k :: I t :: _) => BR (to_rop (L [I k; I t]))
  | _ => BR (RSleep O)
  end.
Definition wire_211 (x : sx) : sx :=
  match x with
  | L [ads; evs] =>
      let adl := map Z.to_nat (to_Zs ads) in
      let ad := match adl with [] => adapter_of | _ => fun s => nth s adl s end in
      let b := bexec ad (map to_bop (to_list evs)) in
      L [of_bool (b_foreign b); of_bool (b_unset b); of_bool (r_clash (b_r b)); of_bool (r_unheld (b_r b));
         of_bool (p_err (r_pool (b_r b)));
         L (map (fun s => I (b_slot b (ad s))) (seq 0 (p_next (r_pool (b_r b)))))]
  | _ => sx_err
  end.
(* 212: the events of one request with its budget, as the TRANSLATED flags make them: (thread budget outcomes) -> events *)
Definition of_bop (o : bop) : sx :=
  match o with
  | BSet t v => L [I 5; of_nat t; I v]
  | BR o' => match of_rop o' with L l => L (l ++ [I 0]) | y => y end
  end.
Definition wire_212 (x : sx) : sx :=
  match x with
  | L [I t; I v; outs] =>
      L (map of_bop (brequest c20_pool_call_finally c20_request_sleep_in_borrow c20_request_sets_budget_first
                              (Z.to_nat t) v (to_Zs outs)))
  | _ => sx_err
  end.
(* 213: block functions over one shared parameter object.  (blocks schedule memo) with blocks = per thread (dumps chan),
   sol d = d / 2, g p s c = 1000 * s + c; memo 0: the per-call machine (bline), 1: with the unlocked memo, 2: the memo
   under a lock -> per thread (state, outputs), per thread the single-thread outputs *)
Definition g_wire (p : Z) (s c : nat) : Z := p + 1000 * Z.of_nat s + Z.of_nat c.
Definition sol_wire (d : nat) : nat := Nat.div d 2.
Definition blocks_of (x : sx) : nat -> list nat * nat :=
  let l := map (fun b => match b with L [ds; I c] => (map Z.to_nat (to_Zs ds), Z.to_nat c) | _ => ([], O) end) (to_list x) in
  fun t => nth t l ([], O).
Definition of_bthread (s : gt (@blocal Z)) : sx :=
  match s with
  | GIdle => L [I 0; L []] | GIn lo => L [I 1; of_Zs (bl_out lo)] | GDone lo => L [I 2; of_Zs (bl_out lo)] | GFail => L [I 4; L []]
  end.
Definition of_mthread_memo (s : gt (@mlocal Z)) : sx :=
  match s with
  | GIdle => L [I 0; L []] | GIn lo => L [I 1; of_Zs (bl_out (ml_b lo))] | GDone lo => L [I 2; of_Zs (bl_out (ml_b lo))]
  | GFail => L [I 4; L []]
  end.
Definition wire_213 (x : sx) : sx :=
  match x with
  | L [bs; sched; I memo] =>
      let blocks := blocks_of bs in
      let n := List.length (to_list bs) in
      let sch := map Z.to_nat (to_Zs sched) in
      let spec := L (map (fun t => of_Zs (block_spec Z Z g_wire sol_wire 7 (blocks t))) (seq 0 n)) in
      if Z.eqb memo 0 then
        let c := uexec _ _ (bline Z Z g_wire sol_wire) (@bstart Z blocks) 7 sch in
        L [L (map (fun t => of_bthread (g_th c t)) (seq 0 n)); spec]
      else
        let m0 := @mkMemo Z Z 7 None None in
        let c := (if Z.eqb memo 1 then uexec _ _ (memo_line Z Z g_wire sol_wire) (@mstart_memo Z blocks) m0 sch
                  else gexec _ _ (memo_line Z Z g_wire sol_wire) (@mstart_memo Z blocks) m0 sch) in
        L [L (map (fun t => of_mthread_memo (g_th c t)) (seq 0 n)); spec]
  | _ => sx_err
  end.
