(* C20: lazily initialised shared state under every thread interleaving.
   A small instruction set for the body of a lazily-initialising critical section, an interleaving semantics of
   any number of threads each running  Acquire; body; Release  at instruction (= source line) granularity, a
   session pool, and a re-entrant lock.  The bodies of the real sites are produced by the translator
   (Gen/Generated.v: site_dask, site_spw, site_sensor_get, pool ops). *)
From Coq Require Import List Arith Bool ZArith.
From KV Require Import Base.Sx Gen.Generated.
Import ListNotations.
Close Scope Z_scope.
Open Scope nat_scope.

Inductive instr :=
  | IfSetSkip (n : nat)   (* `if self._x is None:` -- when the cell is already set, skip the next n instructions *)
  | LoadSrc               (* read the source field(s) the computation starts from; error when cleared *)
  | Compute               (* local computation of the value from what was loaded *)
  | StoreCell             (* self._x = value *)
  | ClearSrc              (* self._orig = None *)
  | Return.               (* return self._x (must be set) *)

Section Machine.
Variables (S V : Type) (f : S -> V).

Record shared := mkSh { cell : option V; src : option S; ncomp : nat }.   (* ncomp: ghost count of initialisations *)
Record local := mkLo { ls : option S; lv : option V; lres : option V }.
Definition lo0 : local := mkLo None None None.

Inductive res (A : Type) := Ok (a : A) | Err.
Arguments Ok {A} a. Arguments Err {A}.

(* one instruction: new shared, new local, number of instructions to skip *)
Definition sem (i : instr) (sh : shared) (lo : local) : res (shared * local * nat) :=
  match i with
  | IfSetSkip n => Ok (sh, lo, match cell sh with Some _ => n | None => O end)
  | LoadSrc => match src sh with Some s => Ok (sh, mkLo (Some s) (lv lo) (lres lo), O) | None => Err end
  | Compute => match ls lo with
               | Some s => Ok (sh, mkLo (ls lo) (Some (f s)) (lres lo), O)
               | None => Err end
  | StoreCell => match lv lo with Some v => Ok (mkSh (Some v) (src sh) (Datatypes.S (ncomp sh)), lo, O) | None => Err end
  | ClearSrc => Ok (mkSh (cell sh) None (ncomp sh), lo, O)
  | Return => match cell sh with Some v => Ok (sh, mkLo (ls lo) (lv lo) (Some v), O) | None => Err end
  end.

(* sequential execution of (the rest of) the body; fuel = length of the rest suffices (it strictly shrinks) *)
Fixpoint run_rest (fuel : nat) (l : list instr) (sh : shared) (lo : local) : res (shared * local) :=
  match fuel with
  | O => Ok (sh, lo)
  | Datatypes.S fu =>
      match l with
      | [] => Ok (sh, lo)
      | i :: r => match sem i sh lo with
                  | Ok (sh', lo', sk) => run_rest fu (skipn sk r) sh' lo'
                  | Err => Err
                  end
      end
  end.
Definition run_body (body : list instr) (sh : shared) : res (shared * local) :=
  run_rest (length body) body sh lo0.

(* ---------- threads ---------- *)
(* a thread inside the critical section holds the instructions it still has to execute *)
Inductive tstate := Idle | InCS (rest : list instr) (lo : local) | Done (lo : local) | Failed.

Record config := mkCfg {
  c_sh : shared;
  c_lock : option nat;            (* holder *)
  c_th : nat -> tstate;
  c_hist : list nat               (* ghost: threads in the order they completed their critical section *)
}.

Definition upd (th : nat -> tstate) (t : nat) (s : tstate) : nat -> tstate :=
  fun u => if Nat.eqb u t then s else th u.

(* thread t takes one step (one source line); a thread waiting for the lock does not move *)
Definition step (body : list instr) (c : config) (t : nat) : config :=
  match c_th c t with
  | Idle => match c_lock c with
            | None => mkCfg (c_sh c) (Some t) (upd (c_th c) t (InCS body lo0)) (c_hist c)
            | Some _ => c
            end
  | InCS rest lo =>
      match rest with
      | [] => mkCfg (c_sh c) None (upd (c_th c) t (Done lo)) (c_hist c ++ [t])      (* release *)
      | i :: r => match sem i (c_sh c) lo with
                  | Ok (sh', lo', sk) => mkCfg sh' (c_lock c) (upd (c_th c) t (InCS (skipn sk r) lo')) (c_hist c)
                  | Err => mkCfg (c_sh c) (c_lock c) (upd (c_th c) t Failed) (c_hist c)
                  end
      end
  | Done _ => c
  | Failed => c
  end.

Definition init (sh : shared) : config := mkCfg sh None (fun _ => Idle) [].
Definition exec (body : list instr) (sh : shared) (schedule : list nat) : config :=
  fold_left (step body) schedule (init sh).

(* the same threads WITHOUT the lock: every thread may enter at once (what a mutant that drops the
   `with self._lock:` does) -- used by the failing-schedule search and for the refutation witness *)
Definition step_nolock (body : list instr) (c : config) (t : nat) : config :=
  match c_th c t with
  | Idle => mkCfg (c_sh c) None (upd (c_th c) t (InCS body lo0)) (c_hist c)
  | _ => step body c t
  end.
Definition exec_nolock (body : list instr) (sh : shared) (schedule : list nat) : config :=
  fold_left (step_nolock body) schedule (init sh).

End Machine.

Arguments Ok {A} a. Arguments Err {A}.
Arguments mkSh {S V}. Arguments cell {S V}. Arguments src {S V}. Arguments ncomp {S V}.
Arguments mkLo {S V}. Arguments lres {S V}. Arguments ls {S V}. Arguments lv {S V}.
Arguments Idle {S V}. Arguments InCS {S V}. Arguments Done {S V}. Arguments Failed {S V}.
Arguments c_sh {S V}. Arguments c_lock {S V}. Arguments c_th {S V}. Arguments c_hist {S V}.

(* ---------- re-entrant lock (SensorCache uses an RLock: a virtual sensor looks up other sensors) ---------- *)
Definition rlock := option (nat * nat).      (* holder, depth >= 1 *)
Definition r_acquire (l : rlock) (t : nat) : option rlock :=      (* None = would block *)
  match l with
  | None => Some (Some (t, 1))
  | Some (h, d) => if Nat.eqb h t then Some (Some (h, Datatypes.S d)) else None
  end.
Definition r_release (l : rlock) (t : nat) : option rlock :=
  match l with
  | Some (h, d) => if Nat.eqb h t then Some (match d with 1 => None | Datatypes.S d' => Some (h, d') | O => None end) else None
  | None => None
  end.

(* ---------- session pool (_Pool.get / put under a lock: each operation is one atomic step) ---------- *)
Record pool := mkPool { p_free : list nat; p_next : nat; p_held : list (nat * nat) }.   (* held: (thread, item) *)
Inductive pop := PGet (t : nat) | PPut (t : nat).
Fixpoint rm_held (t x : nat) (l : list (nat * nat)) : list (nat * nat) :=
  match l with
  | [] => []
  | h :: r => if (Nat.eqb (fst h) t && Nat.eqb (snd h) x)%bool then r else h :: rm_held t x r
  end.
Definition pool_step (p : pool) (o : pop) : pool :=
  match o with
  | PGet t => match rev (p_free p) with
              | [] => mkPool [] (Datatypes.S (p_next p)) ((t, p_next p) :: p_held p)          (* factory() *)
              | x :: r => mkPool (rev r) (p_next p) ((t, x) :: p_held p)                        (* pool.pop() *)
              end
  | PPut t => match find (fun h => Nat.eqb (fst h) t) (p_held p) with
              | Some (_, x) => mkPool (p_free p ++ [x]) (p_next p) (rm_held t x (p_held p))
              | None => p          (* a thread can only return what it borrowed *)
              end
  end.
Definition pool_init : pool := mkPool [] 0 [].

(* ---------- wire: run a schedule on a concrete instance (S = V = Z, f = successor) ---------- *)
(* instruction codes shared with the translator (harness/vh/items/c20.py) *)
Definition decode_instr (p : Z * Z) : instr :=
  match fst p with
  | 0%Z => IfSetSkip (Z.to_nat (snd p)) | 1%Z => LoadSrc | 2%Z => Compute
  | 3%Z => StoreCell | 4%Z => ClearSrc | _ => Return
  end.
Definition decode_body (l : list (Z * Z)) : list instr := map decode_instr l.
Definition site_dask : list instr := decode_body site_dask_code.
Definition site_spw : list instr := decode_body site_spw_code.
Definition site_sensor_get : list instr := decode_body site_sensor_get_code.

Definition zbody (x : sx) : list instr :=
  decode_body (map (fun i => match i with L [I c; I a] => (c, a) | _ => (5%Z, 0%Z) end) (to_list x)).
Definition of_tstate (s : tstate Z Z) : sx :=
  match s with
  | Idle => L [I 0] | InCS r _ => L [I 1; I (Z.of_nat (length r))]
  | Done lo => L [I 2; match lres lo with Some v => I v | None => I (-1) end] | Failed => L [I 3]
  end.
(* (body nthreads schedule locked?) -> (per-thread final states, ncomp) *)
Definition wire_20 (x : sx) : sx :=
  match x with
  | L [body; I n; sched; I locked] =>
      let b := zbody body in
      let sh0 := mkSh (@None Z) (Some 41%Z) 0 in
      let c := if (Z.eqb locked 1%Z) then exec Z Z Z.succ b sh0 (to_nats sched) else exec_nolock Z Z Z.succ b sh0 (to_nats sched) in
      L [L (map (fun t => of_tstate (c_th c t)) (seq 0 (Z.to_nat n))); I (Z.of_nat (ncomp (c_sh c)))]
  | _ => sx_err
  end.
