(* C20: lazily initialised shared state under every thread interleaving.
   A small instruction set for the body of a lazily-initialising critical section, an interleaving semantics of
   any number of threads each running  Acquire; body; Release  at instruction (= source line) granularity, a
   session pool, and a re-entrant lock.  The bodies of the real sites are produced by the translator
   (Gen/Generated.v: site_dask, site_spw, site_sensor_get, pool ops). *)
From Coq Require Import List Arith Bool ZArith String.
From KV Require Import Base.Sx Gen.Generated.
Import ListNotations.
Close Scope Z_scope.
Open Scope nat_scope.

Inductive instr :=
  | IfSetSkip (n : nat)   (* `if self._x is None:` -- when the cell is already set, skip the next n instructions *)
  | LoadSrc               (* read the source field(s) the computation starts from; error when cleared *)
  | Compute               (* local computation of the value from what was loaded *)
  | StoreCell             (* self._x = value *)
  | ClearSrc              (* self._orig = None *)
  | Return.               (* return self._x (must be set) *)

Section Machine.
Variables (S V : Type) (f : S -> V).

Record shared := mkSh { cell : option V; src : option S; ncomp : nat }.   (* ncomp: ghost count of initialisations *)
Record local := mkLo { ls : option S; lv : option V; lres : option V }.
Definition lo0 : local := mkLo None None None.

Inductive res (A : Type) := Ok (a : A) | Err.
Arguments Ok {A} a. Arguments Err {A}.

(* one instruction: new shared, new local, number of instructions to skip *)
Definition sem (i : instr) (sh : shared) (lo : local) : res (shared * local * nat) :=
  match i with
  | IfSetSkip n => Ok (sh, lo, match cell sh with Some _ => n | None => O end)
  | LoadSrc => match src sh with Some s => Ok (sh, mkLo (Some s) (lv lo) (lres lo), O) | None => Err end
  | Compute => match ls lo with
               | Some s => Ok (sh, mkLo (ls lo) (Some (f s)) (lres lo), O)
               | None => Err end
  | StoreCell => match lv lo with Some v => Ok (mkSh (Some v) (src sh) (Datatypes.S (ncomp sh)), lo, O) | None => Err end
  | ClearSrc => Ok (mkSh (cell sh) None (ncomp sh), lo, O)
  | Return => match cell sh with Some v => Ok (sh, mkLo (ls lo) (lv lo) (Some v), O) | None => Err end
  end.

(* sequential execution of (the rest of) the body; fuel = length of the rest suffices (it strictly shrinks) *)
Fixpoint run_rest (fuel : nat) (l : list instr) (sh : shared) (lo : local) : res (shared * local) :=
  match fuel with
  | O => Ok (sh, lo)
  | Datatypes.S fu =>
      match l with
      | [] => Ok (sh, lo)
      | i :: r => match sem i sh lo with
                  | Ok (sh', lo', sk) => run_rest fu (skipn sk r) sh' lo'
                  | Err => Err
                  end
      end
  end.
Definition run_body (body : list instr) (sh : shared) : res (shared * local) :=
  run_rest (List.length body) body sh lo0.

(* ---------- threads ---------- *)
(* a thread inside the critical section holds the instructions it still has to execute *)
Inductive tstate := Idle | InCS (rest : list instr) (lo : local) | Done (lo : local) | Failed.

Record config := mkCfg {
  c_sh : shared;
  c_lock : option nat;            (* holder *)
  c_th : nat -> tstate;
  c_hist : list nat               (* ghost: threads in the order they completed their critical section *)
}.

Definition upd (th : nat -> tstate) (t : nat) (s : tstate) : nat -> tstate :=
  fun u => if Nat.eqb u t then s else th u.

(* thread t takes one step (one source line); a thread waiting for the lock does not move *)
Definition step (body : list instr) (c : config) (t : nat) : config :=
  match c_th c t with
  | Idle => match c_lock c with
            | None => mkCfg (c_sh c) (Some t) (upd (c_th c) t (InCS body lo0)) (c_hist c)
            | Some _ => c
            end
  | InCS rest lo =>
      match rest with
      | [] => mkCfg (c_sh c) None (upd (c_th c) t (Done lo)) (c_hist c ++ [t])      (* release *)
      | i :: r => match sem i (c_sh c) lo with
                  | Ok (sh', lo', sk) => mkCfg sh' (c_lock c) (upd (c_th c) t (InCS (skipn sk r) lo')) (c_hist c)
                  | Err => mkCfg (c_sh c) (c_lock c) (upd (c_th c) t Failed) (c_hist c)
                  end
      end
  | Done _ => c
  | Failed => c
  end.

Definition init (sh : shared) : config := mkCfg sh None (fun _ => Idle) [].
Definition exec (body : list instr) (sh : shared) (schedule : list nat) : config :=
  fold_left (step body) schedule (init sh).

(* the same threads WITHOUT the lock: every thread may enter at once (what a mutant that drops the
   `with self._lock:` does) -- used by the failing-schedule search and for the refutation witness *)
Definition step_nolock (body : list instr) (c : config) (t : nat) : config :=
  match c_th c t with
  | Idle => mkCfg (c_sh c) None (upd (c_th c) t (InCS body lo0)) (c_hist c)
  | _ => step body c t
  end.
Definition exec_nolock (body : list instr) (sh : shared) (schedule : list nat) : config :=
  fold_left (step_nolock body) schedule (init sh).

End Machine.

Arguments Ok {A} a. Arguments Err {A}.
Arguments mkSh {S V}. Arguments cell {S V}. Arguments src {S V}. Arguments ncomp {S V}.
Arguments mkLo {S V}. Arguments lres {S V}. Arguments ls {S V}. Arguments lv {S V}.
Arguments Idle {S V}. Arguments InCS {S V}. Arguments Done {S V}. Arguments Failed {S V}.
Arguments c_sh {S V}. Arguments c_lock {S V}. Arguments c_th {S V}. Arguments c_hist {S V}.

(* ---------- re-entrant lock (SensorCache uses an RLock: a virtual sensor looks up other sensors) ---------- *)
Definition rlock := option (nat * nat).      (* holder, depth >= 1 *)
Definition r_acquire (l : rlock) (t : nat) : option rlock :=      (* None = would block *)
  match l with
  | None => Some (Some (t, 1))
  | Some (h, d) => if Nat.eqb h t then Some (Some (h, Datatypes.S d)) else None
  end.
Definition r_release (l : rlock) (t : nat) : option rlock :=
  match l with
  | Some (h, d) => if Nat.eqb h t then Some (match d with 1 => None | Datatypes.S d' => Some (h, d') | O => None end) else None
  | None => None
  end.

(* nested use of the sensor-cache lock by ONE thread (SensorCache.get -> virtual sensor function -> cache.get /
   cache[name] = ...): true = enter a `with self._lock:`, false = leave it.  kind = the lock kind found in
   SensorCache.__init__ (Generated.sensor_lock_kind: 1 = threading.Lock(), 2 = threading.RLock()); a plain lock blocks
   for ever (None) when its holder asks for it again *)
Definition acquire_k (kind : Z) (l : rlock) (t : nat) : option rlock :=
  if Z.eqb kind 2 then r_acquire l t
  else match l with None => Some (Some (t, 1)) | Some _ => None end.
Fixpoint run_nest (kind : Z) (l : rlock) (t : nat) (prog : list bool) : option rlock :=
  match prog with
  | [] => Some l
  | true :: r => match acquire_k kind l t with Some l' => run_nest kind l' t r | None => None end
  | false :: r => match r_release l t with Some l' => run_nest kind l' t r | None => None end
  end.
(* well bracketed from depth d: never leaves more often than it entered, ends at depth 0 *)
Fixpoint bracketed (d : nat) (prog : list bool) : bool :=
  match prog with
  | [] => Nat.eqb d 0
  | true :: r => bracketed (Datatypes.S d) r
  | false :: r => match d with O => false | Datatypes.S d' => bracketed d' r end
  end.
Definition held_at (t d : nat) : rlock := match d with O => None | _ => Some (t, d) end.

(* ---------- session pool (_Pool.get / put under a lock: each operation is one atomic step) ---------- *)
(* The way get obtains an item and put returns it is TRANSLATED from the source (Generated.pool_get_empty_code,
   pool_get_nonempty_code, pool_put_code): 0 factory(), 1 pop(), 2 pop(0), 3 [-1] (no removal), 4 [0] (no removal);
   put: 0 append, 1 insert(0, .).  Obtaining an item from an empty list raises (p_err). *)
Record pool := mkPool { p_free : list nat; p_next : nat; p_held : list (nat * nat); p_err : bool }.   (* held: (thread, item) *)
Inductive pop := PGet (t : nat) | PPut (t : nat).
Fixpoint rm_held (t x : nat) (l : list (nat * nat)) : list (nat * nat) :=
  match l with
  | [] => []
  | h :: r => if (Nat.eqb (fst h) t && Nat.eqb (snd h) x)%bool then r else h :: rm_held t x r
  end.
Inductive took := TRaise | TNew | TItem (x : nat) (rest : list nat).
Definition take_item (code : Z) (free : list nat) : took :=
  match code with
  | 0%Z => TNew
  | 1%Z => match rev free with [] => TRaise | x :: r => TItem x (rev r) end
  | 2%Z => match free with [] => TRaise | x :: r => TItem x r end
  | 3%Z => match rev free with [] => TRaise | x :: _ => TItem x free end
  | 4%Z => match free with [] => TRaise | x :: _ => TItem x free end
  | _ => TRaise
  end.
Definition give_back (code : Z) (free : list nat) (x : nat) : list nat :=
  match code with 0%Z => free ++ [x] | _ => x :: free end.
Definition pool_step_c (ce cn cp : Z) (p : pool) (o : pop) : pool :=
  match o with
  | PGet t => match take_item (match p_free p with [] => ce | _ => cn end) (p_free p) with
              | TRaise => mkPool (p_free p) (p_next p) (p_held p) true
              | TNew => mkPool (p_free p) (Datatypes.S (p_next p)) ((t, p_next p) :: p_held p) (p_err p)
              | TItem x r => mkPool r (p_next p) ((t, x) :: p_held p) (p_err p)
              end
  | PPut t => match find (fun h => Nat.eqb (fst h) t) (p_held p) with
              | Some (_, x) => mkPool (give_back cp (p_free p) x) (p_next p) (rm_held t x (p_held p)) (p_err p)
              | None => p          (* a thread can only return what it borrowed *)
              end
  end.
Definition pool_step : pool -> pop -> pool := pool_step_c pool_get_empty_code pool_get_nonempty_code pool_put_code.
Definition pool_init : pool := mkPool [] 0 [] false.
Definition pool_codes_safe (ce cn cp : Z) : bool :=
  (Z.eqb ce 0 && (Z.eqb cn 0 || Z.eqb cn 1 || Z.eqb cn 2) && (Z.eqb cp 0 || Z.eqb cp 1))%bool.
(* `with pool() as item:` = get, the caller's block, put -- in this order *)
Definition pool_call_ok : bool :=
  match pool_call_code with [0%Z; 1%Z; 2%Z] => true | _ => false end.

(* methods that touch a guarded field outside its lock: only construction may (the object is not shared yet);
   for SensorCache also add_aliases (run at construction), __iter__ and __len__ (reads of the dict object itself;
   not among the first-time accesses the property lists -- see design.d/C20.md, not-verified list) *)
Definition only_init (l : list string) : bool :=
  match l with ["__init__"%string] => true | _ => false end.
Definition sensor_unlocked_allowed : list string :=
  ["__init__"%string; "add_aliases"%string; "__iter__"%string; "__len__"%string].
Definition all_allowed (l : list string) : bool :=
  forallb (fun m => existsb (String.eqb m) sensor_unlocked_allowed) l.

(* ---------- wire: run a schedule on a concrete instance (S = V = Z, f = successor) ---------- *)
(* instruction codes shared with the translator (harness/vh/items/c20.py) *)
Definition decode_instr (p : Z * Z) : instr :=
  match fst p with
  | 0%Z => IfSetSkip (Z.to_nat (snd p)) | 1%Z => LoadSrc | 2%Z => Compute
  | 3%Z => StoreCell | 4%Z => ClearSrc | _ => Return
  end.
Definition decode_body (l : list (Z * Z)) : list instr := map decode_instr l.
Definition site_dask : list instr := decode_body site_dask_code.
Definition site_spw : list instr := decode_body site_spw_code.
Definition site_sensor_get : list instr := decode_body site_sensor_get_code.

Definition zbody (x : sx) : list instr :=
  decode_body (map (fun i => match i with L [I c; I a] => (c, a) | _ => (5%Z, 0%Z) end) (to_list x)).
Definition of_tstate (s : tstate Z Z) : sx :=
  match s with
  | Idle => L [I 0] | InCS r _ => L [I 1; I (Z.of_nat (List.length r))]
  | Done lo => L [I 2; match lres lo with Some v => I v | None => I (-1) end] | Failed => L [I 3]
  end.
(* (body nthreads schedule locked?) -> (per-thread final states, ncomp) *)
Definition wire_20 (x : sx) : sx :=
  match x with
  | L [body; I n; sched; I locked] =>
      let b := zbody body in
      let sh0 := mkSh (@None Z) (Some 41%Z) 0 in
      let c := if (Z.eqb locked 1%Z) then exec Z Z Z.succ b sh0 (to_nats sched) else exec_nolock Z Z Z.succ b sh0 (to_nats sched) in
      L [L (map (fun t => of_tstate (c_th c t)) (seq 0 (Z.to_nat n))); I (Z.of_nat (ncomp (c_sh c)))]
  | _ => sx_err
  end.

(* the translated bodies, for the harness (it runs the SAME bodies the theorems are about) *)
Definition of_code (l : list (Z * Z)) : sx := L (map (fun p => L [I (fst p); I (snd p)]) l).
Definition wire_201 (x : sx) : sx := L [of_code site_dask_code; of_code site_spw_code; of_code site_sensor_get_code].

(* a get/put history ((kind thread) ...) -> per operation: the item obtained / returned (-1 none, -2 raised), then the
   free list and the error flag *)
Definition pool_trace (ops : list pop) : list Z * pool :=
  fold_left (fun acc o =>
     let p := snd acc in
     let p' := pool_step p o in
     let out := match o with
                | PGet t => if (negb (p_err p) && p_err p')%bool then (-2)%Z
                            else match p_held p' with (_, x) :: _ => Z.of_nat x | [] => (-1)%Z end
                | PPut t => match find (fun h => Nat.eqb (fst h) t) (p_held p) with
                            | Some (_, x) => Z.of_nat x | None => (-1)%Z end
                end in
     (fst acc ++ [out], p')) ops ([], pool_init).
Definition wire_202 (x : sx) : sx :=
  let ops := map (fun o => match o with L [I 0; I t] => PGet (Z.to_nat t) | L [_; I t] => PPut (Z.to_nat t) | _ => PPut O end)
                 (to_list x) in
  let r := pool_trace ops in
  L [of_Zs (fst r); of_nats (p_free (snd r)); of_bool (p_err (snd r));
     of_nats (map snd (p_held (snd r)))].
