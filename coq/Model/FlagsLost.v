(* C16 (v4 part, round 3): "v4 raw_flags expose the stored byte with data_lost (and postproc) added WHERE APPLICABLE
   regardless of the selection" with `where applicable` computed exactly from the chunk layout.

   Model/FlagsV4.v takes, per sample, three booleans "the flags / vis / weights chunk of this sample is lost" as
   INPUTS.  Here they are derived: a v4 data set is a LostMap.cfg (C06's model, imported unchanged: the chunkings of
   the four stored arrays - drawn independently per array, any boundaries -, the set of chunks absent from the store,
   the stored flag bytes) plus the set of samples whose calibration correction is invalid.

   MODEL side: source.data.flags is LostMap.model_flags - what ChunkStoreVisFlagsWeights.__init__ builds: dask's
   intersect_chunks of the flags chunking with every other array's, the lost map, and _apply_data_lost run per FLAGS
   CHUNK over the pieces listed for it (`flags[slices] |= DATA_LOST` for every piece whose source chunk is a
   placeholder) - followed by apply_flags_correction and the indexer / transform chain of VisibilityDataV4._set_keep
   exactly as in Model/FlagsV4.v (regenerated attribute chain, mask after the history, AND short cut, bool view).
   SPEC side: the per-sample record of Model/FlagsV4.v filled with the EXACT lost sets: element p has lost its
   flags / vis / weights iff the chunk of that array that covers p (in that array's own chunking) is absent. *)
From Coq Require Import ZArith List Bool String.
From KV Require Import Base.Sx Base.Str Gen.Generated Model.Prune Model.LostMap Model.Flags Model.FlagsV4.
Import ListNotations.
Open Scope Z_scope.

(* ---------- MODEL: flags of the data set at element p (time, channel, product) of the loaded window ---------- *)
(* source.data.flags (ChunkStoreVisFlagsWeights.flags), lost-map entries computed once *)
Definition lx_source_flags_with (ents : list entry) (c : cfg) (p : list Z) : Z := model_flags_with ents c p.
Definition lx_source_flags (c : cfg) (p : list Z) : Z := model_flags c p.

(* _corrected.flags : apply_flags_correction ORs <cal flag> in where the correction is invalid *)
Definition lx_corrected_flags_with (ents : list entry) (c : cfg) (calok : list Z -> bool) (p : list Z) : Z :=
  Z.lor (lx_source_flags_with ents c p) (if calok p then 0 else lookup_mask v4_cal_flag_name).

(* the array the raw_flags indexer is built on, by the REGENERATED attribute chain of _set_keep *)
Definition lx_flags_array_with (ents : list entry) (src : string) (c : cfg) (calok : list Z -> bool) (p : list Z) : Z :=
  if String.eqb src "_corrected.flags" then lx_corrected_flags_with ents c calok p
  else if String.eqb src "source.data.flags" then lx_source_flags_with ents c p
  else -1.

Definition lx_raw_with (ents : list entry) (c : cfg) (calok : list Z -> bool) (p : list Z) : Z :=
  lx_flags_array_with ents (assoc "raw_flags" v4_indexer_src) c calok p.
(* d.raw_flags at p *)
Definition lx_raw (c : cfg) (calok : list Z -> bool) (p : list Z) : Z := lx_raw_with (the_entries c) c calok p.
(* d.flags at p after the history h of select() calls *)
Definition lx_flag (known : list string) (h : list (option selarg)) (c : cfg) (calok : list Z -> bool) (p : list Z) : bool :=
  v4_flag (lx_raw c calok p) (hist_mask known h).

(* ---------- SPEC: the sample at p with the exact lost sets ---------- *)
Definition lx_lostw (c : cfg) (p : list Z) : bool := lost_in c A_W p || lost_in c A_WC p.
Definition lx_sample (c : cfg) (calok : list Z -> bool) (p : list Z) : v4s :=
  mk_v4s (stored c A_FLAGS p) (lost_in c A_FLAGS p) (lost_in c A_VIS p) (lx_lostw c p)
         (if calok p then Some 0 else None) 0 0 0 0.
(* something covering p was lost *)
Definition lx_any_lost (c : cfg) (p : list Z) : bool :=
  lost_in c A_FLAGS p || lost_in c A_VIS p || lost_in c A_W p || lost_in c A_WC p.

Definition spec_lx_raw (c : cfg) (calok : list Z -> bool) (p : list Z) : Z := spec_v4_raw (lx_sample c calok p).
Definition spec_lx_flag (h : list (option selarg)) (c : cfg) (calok : list Z -> bool) (p : list Z) : bool :=
  spec_v4_flag h (lx_sample c calok p).

(* ---------- a configuration as the harness writes it ---------- *)
(* chunkings as written (arrays 0..3 = correlator_data, flags, weights, weights_channel), preselect windows, the
   start coordinates of the deleted chunks per array, the flat stored flag bytes and the flat "correction valid" map
   (both in C order over the shape of the stored flags array) *)
Definition lx_cfg (orig : list (list (list Z))) (win : list (option (Z * Z))) (lost : list (list (list Z)))
                  (flagdata : list Z) : cfg :=
  mk_cfg orig win lost [[]; flagdata; []; []].
Definition lx_calok (orig : list (list (list Z))) (c : cfg) (calflat : list Z) (p : list Z) : bool :=
  negb (dat_of (map zsum (nth A_FLAGS orig [])) calflat (gpos c p) =? 0).

(* the straddling layout of the demo of seeded change C16-7: 6 dumps x 4 channels x 2 products, flags in time chunks
   (2,2,2), correlator_data in (1,2,2,1), the correlator_data chunk of dumps 1-2 deleted, stored flag byte 1 + the
   linear index, nothing else lost, no calibration *)
Definition ex_straddle : cfg :=
  lx_cfg [ [[1;2;2;1]; [4]; [2]]; [[2;2;2]; [4]; [2]]; [[2;2;2]; [4]; [2]]; [[2;2;2]; [4]] ] []
         [ [[1;0;0]]; []; []; [] ] (map (fun i => 1 + Z.of_nat i mod 7) (seq 0 48)).

(* ---------- wire ---------- *)
(* (1 hists chunks win lost flagdata calok) ->
   (shape raw spec_raw lostf lostv lostw ((mask spec_mask flags spec_flags) per history))
   raw .. lostw and the flag lists in C order over the loaded window *)
Definition wire_163 (x : sx) : sx :=
  match x with
  | L [I 1; L hists; chunks; win; lost; flagdata; calflat] =>
      let orig := to_chunks3 chunks in
      let c := lx_cfg orig (to_win win) (to_chunks3 lost) (to_Zs flagdata) in
      let calok := lx_calok orig c (to_Zs calflat) in
      let shape := map zsum (chunks_of (darr c A_FLAGS)) in
      let ps := product (map zrange shape) in
      let ents := the_entries c in
      let raws := map (lx_raw_with ents c calok) ps in
      let sraws := map (spec_lx_raw c calok) ps in
      L [of_Zs shape; of_Zs raws; of_Zs sraws;
         of_bools (map (lost_in c A_FLAGS) ps); of_bools (map (lost_in c A_VIS) ps); of_bools (map (lx_lostw c) ps);
         L (map (fun hx => let h := map to_step (to_list hx) in
                           let m := hist_mask flag_names h in
                           let sm := spec_hist_mask h in
                           L [I m; I sm; of_bools (map (fun r => v4_flag r m) raws);
                              of_bools (map (fun r => spec_flag_bool r sm) sraws)]) hists)]
  | _ => sx_err
  end.
