(* C20 (round 4): a check made OUTSIDE a lock on state that is written UNDER it (test-outside-lock).

   The instantiation of a virtual sensor by SensorCache.get, with a recursion guard: the names that are busy being
   instantiated are kept in a set `busy` that is filled and emptied under the cache lock.  Where is the set TESTED?
     GNone    -- there is no such test (the code as it is),
     GInside  -- after the lock has been taken: "being instantiated" then means "by me" (the lock is held by the tester),
     GOutside -- before the lock is taken: the tester may be ANOTHER thread, for which the name is simply not ready yet.
   One source line per step, any number of threads, thread t asks for name `want t`, the creation of name n takes `len n`
   lines.  A thread that asks for the lock while another holds it does not move.
   Theorem (GuardTestP.guard_safe): with no test or the test inside the lock no thread ever gets the KeyError, under any
   schedule, and a finished thread finds its name cached; with the test outside, a concrete 2-thread schedule raises in a
   thread that would have been served had it run alone.  Which of the three the source is comes from the translator
   (Generated.c20_sensor_get_pretests: the fields written under the cache lock that SensorCache.get mentions before its
   `with self._lock:`). *)
From Coq Require Import List Arith Bool ZArith String.
From KV Require Import Base.Sx Gen.Generated.
Import ListNotations.
Close Scope Z_scope.
Open Scope nat_scope.

Inductive gpos := GNone | GInside | GOutside.
Inductive gst := TStart | TWait | TIn | TCreate (n : nat) | TStore | TDiscard | TRelease | TDone | TRaised.
Definition inside (s : gst) : bool :=
  match s with TIn | TCreate _ | TStore | TDiscard | TRelease => true | _ => false end.

Section G.
Variable pos : gpos.
Variable want : nat -> nat.
Variable len : nat -> nat.

Record gconf := mkG { g_busy : list nat; g_cached : list nat; g_holder : option nat; g_th : nat -> gst }.
Definition g_init : gconf := mkG [] [] None (fun _ => TStart).
Definition memb (x : nat) (l : list nat) : bool := existsb (Nat.eqb x) l.
Definition rm (x : nat) (l : list nat) : list nat := filter (fun y => negb (y =? x)) l.
Definition set_th (c : gconf) (t : nat) (s : gst) : nat -> gst := fun u => if u =? t then s else g_th c u.
Definition is_outside : bool := match pos with GOutside => true | _ => false end.
Definition is_inside : bool := match pos with GInside => true | _ => false end.
Definition has_guard : bool := match pos with GNone => false | _ => true end.

Definition gstep (c : gconf) (t : nat) : gconf :=
  let w := want t in
  match g_th c t with
  | TStart => if is_outside && memb w (g_busy c) then mkG (g_busy c) (g_cached c) (g_holder c) (set_th c t TRaised)
              else mkG (g_busy c) (g_cached c) (g_holder c) (set_th c t TWait)
  | TWait => match g_holder c with
             | None => mkG (g_busy c) (g_cached c) (Some t) (set_th c t TIn)
             | Some _ => c
             end
  | TIn => if is_inside && memb w (g_busy c) then mkG (g_busy c) (g_cached c) None (set_th c t TRaised)
           else if memb w (g_cached c) then mkG (g_busy c) (g_cached c) (g_holder c) (set_th c t TRelease)
           else mkG (if has_guard then w :: g_busy c else g_busy c) (g_cached c) (g_holder c) (set_th c t (TCreate (len w)))
  | TCreate (S n) => mkG (g_busy c) (g_cached c) (g_holder c) (set_th c t (TCreate n))
  | TCreate 0 => mkG (g_busy c) (g_cached c) (g_holder c) (set_th c t TStore)
  | TStore => mkG (g_busy c) (w :: g_cached c) (g_holder c) (set_th c t TDiscard)
  | TDiscard => mkG (rm w (g_busy c)) (g_cached c) (g_holder c) (set_th c t TRelease)
  | TRelease => mkG (g_busy c) (g_cached c) None (set_th c t TDone)
  | TDone | TRaised => c
  end.
Definition gexec (sched : list nat) : gconf := fold_left gstep sched g_init.
End G.

(* which of the three the source is *)
Definition sensor_guard_pos : gpos := match c20_sensor_get_pretests with [] => GNone | _ => GOutside end.

Definition of_gst (s : gst) : sx :=
  match s with TStart => I 0 | TWait => I 1 | TIn => I 2 | TCreate n => L [I 3; of_nat n] | TStore => I 4 | TDiscard => I 5
             | TRelease => I 6 | TDone => I 7 | TRaised => I 8 end.
(* wire_215: (pos wants lens schedule) -> per thread its state, busy, cached *)
Definition wire_215 (x : sx) : sx :=
  match x with
  | L [I p; ws; ls; sched] =>
      let pos := if Z.eqb p 0 then GNone else if Z.eqb p 1 then GInside else GOutside in
      let wl := to_nats ws in let ll := to_nats ls in
      let c := gexec pos (fun t => nth t wl 0) (fun n => nth n ll 0) (to_nats sched) in
      L [L (map (fun t => of_gst (g_th c t)) (seq 0 (List.length wl))); of_nats (g_busy c); of_nats (g_cached c)]
  | _ => sx_err
  end.
