(* C20, last clause: "Loading data with the multi-threaded scheduler returns the same arrays as a single-threaded load".

   A dask-style task graph: task i is a PURE function of the results of the tasks it depends on (leaf tasks = chunk
   reads from the store: functions of nothing, i.e. idempotent).  Two evaluators:
     seq_run  the single-threaded scheduler: tasks one after the other in topological (index) order;
     crun     any number of workers, driven by an arbitrary list of events  Start w i / Finish w  exactly as
              dask.local.get_async does it: Start hands the task together with the results of its dependencies as
              they are in the cache at that moment to worker w (pretask), Finish publishes the worker's result into the
              cache (posttask).  Events that are not enabled (worker busy, task already started, a dependency not yet
              finished, unknown task, idle worker) leave the state unchanged, so EVERY event list is a schedule.
   plus the unsynchronised output stage of DaskLazyIndexer.get (da.store(..., lock=False)): every chunk task writes its
   own cells of the target array, in any element-level interleaving. *)
From Coq Require Import List Arith Bool ZArith.
From KV Require Import Base.Sx.
Import ListNotations.
Close Scope Z_scope.
Open Scope nat_scope.

Section TG.
Variable V : Type.

Record task := mkTask { t_deps : list nat; t_fn : list V -> V }.
Definition graph := list task.
Definition vmap := nat -> option V.
Definition vempty : vmap := fun _ => None.
Definition vset (m : vmap) (i : nat) (v : V) : vmap := fun j => if Nat.eqb j i then Some v else m j.

Fixpoint lookup_all (m : vmap) (ds : list nat) : option (list V) :=
  match ds with
  | [] => Some []
  | d :: r => match m d, lookup_all m r with
              | Some v, Some vs => Some (v :: vs)
              | _, _ => None
              end
  end.

(* the graph is listed in a topological order: every dependency of task i has a smaller index *)
Definition deps_below (i : nat) (t : task) : bool := forallb (fun d => Nat.ltb d i) (t_deps t).
Fixpoint wf_from (i : nat) (g : graph) : bool :=
  match g with
  | [] => true
  | t :: r => deps_below i t && wf_from (S i) r
  end.
Definition wf (g : graph) : bool := wf_from 0 g.

(* ---------- the single-threaded scheduler ---------- *)
Definition run_task (g : graph) (m : vmap) (i : nat) : vmap :=
  match nth_error g i with
  | Some t => match lookup_all m (t_deps t) with
              | Some args => vset m i (t_fn t args)
              | None => m
              end
  | None => m
  end.
Definition seq_upto (g : graph) (k : nat) : vmap := fold_left (run_task g) (seq 0 k) vempty.
Definition seq_run (g : graph) : vmap := seq_upto g (length g).

(* ---------- the multi-threaded scheduler ---------- *)
Inductive event := Start (w i : nat) | Finish (w : nat).

Record cstate := mkC {
  c_done : vmap;                               (* the scheduler's cache of published results *)
  c_running : list (nat * (nat * list V));     (* worker, task, the dependency values it was handed *)
  c_started : list nat                         (* every task handed out so far, most recent first *)
}.
Definition c_init : cstate := mkC vempty [] [].

Definition on_worker (w : nat) (x : nat * (nat * list V)) : bool := Nat.eqb (fst x) w.
Definition busy (r : list (nat * (nat * list V))) (w : nat) : bool := existsb (on_worker w) r.
Definition was_started (s : cstate) (i : nat) : bool := existsb (Nat.eqb i) (c_started s).
(* the job worker w is running (first match), and the other jobs *)
Fixpoint take_worker (w : nat) (r : list (nat * (nat * list V)))
  : option ((nat * list V) * list (nat * (nat * list V))) :=
  match r with
  | [] => None
  | x :: r' => if on_worker w x then Some (snd x, r')
               else match take_worker w r' with
                    | Some (y, r'') => Some (y, x :: r'')
                    | None => None
                    end
  end.

(* what an event does when it is enabled; None = not enabled *)
Definition fire (g : graph) (s : cstate) (e : event) : option cstate :=
  match e with
  | Start w i =>
      if busy (c_running s) w || was_started s i then None else
      match nth_error g i with
      | Some t => match lookup_all (c_done s) (t_deps t) with
                  | Some args => Some (mkC (c_done s) ((w, (i, args)) :: c_running s) (i :: c_started s))
                  | None => None
                  end
      | None => None
      end
  | Finish w =>
      match take_worker w (c_running s) with
      | Some ((i, args), rest) =>
          match nth_error g i with
          | Some t => Some (mkC (vset (c_done s) i (t_fn t args)) rest (c_started s))
          | None => None
          end
      | None => None
      end
  end.
Definition cstep (g : graph) (s : cstate) (e : event) : cstate :=
  match fire g s e with Some s' => s' | None => s end.
Definition crun (g : graph) (es : list event) : cstate := fold_left (cstep g) es c_init.

(* the single-threaded scheduler as a schedule of the same machine: one worker, one task at a time, in index order *)
Definition sync_events (k : nat) : list event := flat_map (fun i => [Start 0 i; Finish 0]) (seq 0 k).

(* was every event of the list enabled when its turn came?  (the harness checks this for the event lists it records
   from the real dask schedulers: they are schedules in the sense of the theorems, with no ignored event) *)
Fixpoint all_enabled (g : graph) (s : cstate) (es : list event) : bool :=
  match es with
  | [] => true
  | e :: r => match fire g s e with Some s' => all_enabled g s' r | None => false end
  end.

Definition all_done (g : graph) (s : cstate) : bool :=
  forallb (fun i => match c_done s i with Some _ => true | None => false end) (seq 0 (length g)).

(* ---------- unsynchronised writes into the output array (da.store(..., lock=False)) ---------- *)
(* a cell write (position, value); a chunk task performs the cell writes of its region; threads interleave at will *)
Definition apply_writes (ws : list (nat * V)) (t : vmap) : vmap :=
  fold_left (fun m w => vset m (fst w) (snd w)) ws t.
Fixpoint nodupb (l : list nat) : bool :=
  match l with
  | [] => true
  | x :: r => negb (existsb (Nat.eqb x) r) && nodupb r
  end.

End TG.

Arguments mkTask {V}. Arguments t_deps {V}. Arguments t_fn {V}.
Arguments mkC {V}. Arguments c_done {V}. Arguments c_running {V}. Arguments c_started {V}.

(* ---------- wire: concrete instance V = Z ---------- *)
Open Scope Z_scope.
(* a task function that depends on its identity, on every argument and on the argument order *)
Definition zmix (fid : Z) (args : list Z) : Z :=
  fold_left (fun a v => (a * 131 + v + 1) mod 1000003) args ((fid * 31 + 7) mod 1000003).
Definition ztask (x : sx) : task Z :=
  match x with
  | L [deps; I fid] => mkTask (to_nats deps) (zmix fid)
  | _ => mkTask [] (zmix 0)
  end.
Definition zevent (x : sx) : event :=
  match x with
  | L [I 0; I w; I i] => Start (Z.to_nat w) (Z.to_nat i)
  | L [I 1; I w] => Finish (Z.to_nat w)
  | _ => Finish 0
  end.
Definition of_vmap (n : nat) (m : vmap Z) : sx :=
  L (map (fun i => of_optZ (m i)) (seq 0 n)).

(* (graph events) -> (wf, every event enabled, all done, cache agrees with the single-threaded run wherever it is
   defined, the cache, the single-threaded results) *)
Definition wire_203 (x : sx) : sx :=
  match x with
  | L [gx; ex] =>
      let g := map ztask (to_list gx) in
      let es := map zevent (to_list ex) in
      let s := crun Z g es in
      let n := length g in
      let sq := seq_run Z g in
      L [of_bool (wf Z g); of_bool (all_enabled Z g (c_init Z) es); of_bool (all_done Z g s);
         of_bool (forallb (fun i => match c_done s i with
                                    | Some v => match sq i with Some u => Z.eqb u v | None => false end
                                    | None => true end) (seq 0 n));
         of_vmap n (c_done s); of_vmap n sq]
  | _ => sx_err
  end.

(* (cell writes as (pos val), permutation as index list) -> (positions distinct, target after the writes in the given
   order, target after the writes in the permuted order) over positions 0..maxpos *)
Definition wire_204 (x : sx) : sx :=
  match x with
  | L [wx; px; I npos] =>
      let ws := map (fun w => match w with L [I p; I v] => (Z.to_nat p, v) | _ => (O, 0) end) (to_list wx) in
      let ws' := map (fun i => nth i ws (O, 0)) (to_nats px) in
      let n := Z.to_nat npos in
      L [of_bool (nodupb (map fst ws));
         of_vmap n (apply_writes Z ws (vempty Z)); of_vmap n (apply_writes Z ws' (vempty Z))]
  | _ => sx_err
  end.
