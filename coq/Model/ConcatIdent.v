(* C19: what makes two subarrays / spectral windows "identical" (the values that concatenate_categorical merges when
   ConcatenatedDataSet.__init__ concatenates Observation/subarray and Observation/spw), and the dummy value per
   type that fills the parts lacking a sensor.  Definitions only.

   katdal/dataset.py:Subarray compares (__eq__, __hash__) by _description = the full descriptions of its antennas in
   order, followed by its correlation products (pairs of input labels) in order; katdal/spectral_window.py:
   SpectralWindow by the tuple _description of its attributes.  The translator re-reads both (fail-closed) into
   [subarray_description_parts] / [spw_description_fields]; the model below compares exactly the components
   listed there, so a description that leaves out a component (or is not read as an ordered list) no longer proves
   [sub_eqb_eq] / [spw_eqb_eq].  The joined STRING of the implementation is abstracted to the list of its components
   (antenna descriptions do not contain newlines, input labels neither blanks nor commas).

   The harness gives every unique value of every part's subarray / spw sensor as a STRUCTURE (antenna description
   ids, products as pairs of (antenna-name id, polarisation); attribute value ids), one table entry per occurrence,
   without comparing them itself; [intern_ids] gives each entry the position of the first entry identical to it, and
   these positions are the value ids the parts of Model/Concat.v carry. *)
From Coq Require Import ZArith List Bool String.
From KV Require Import Base.Sx Gen.Generated.
From KV Require Model.SensorCache.
Import ListNotations.
Open Scope Z_scope.

Definition input := (Z * Z)%type.            (* (antenna name id, polarisation): C02's representation *)
Definition cprod := (input * input)%type.

Record subarray := mkSub {
  sa_ants : list Z;            (* ids of the full antenna descriptions, in the order of Subarray.ants *)
  sa_cps : list cprod          (* corr_products in order = the columns of vis / flags / weights *)
}.
Record spwin := mkSpw {
  w_centre_freq : Z; w_channel_width : Z; w_num_chans : Z; w_sideband : Z; w_band : Z; w_product : Z; w_bandwidth : Z
}.                             (* ids of the attribute values (floats and strings via the harness tables) *)

Fixpoint list_eqb {A} (eqb : A -> A -> bool) (a b : list A) : bool :=
  match a, b with
  | [], [] => true
  | x :: a', y :: b' => eqb x y && list_eqb eqb a' b'
  | _, _ => false
  end.

(* ---------- Subarray._description ---------- *)
Definition flat_cp (c : cprod) : list Z := [fst (fst c); snd (fst c); fst (snd c); snd (snd c)].
(* one component of the description, by what the translator found it to be; anything else contributes nothing *)
Definition sub_component (s : subarray) (k : string * string) : list (list Z) :=
  if String.eqb (fst k) "ants" then
    (if String.eqb (snd k) "description" then map (fun a => [a]) (sa_ants s) else [])
  else if String.eqb (fst k) "corr_products" then
    (if String.eqb (snd k) "inpA,inpB" then map flat_cp (sa_cps s) else [])
  else [].
Definition sub_description (s : subarray) : list (list (list Z)) := map (sub_component s) subarray_description_parts.
(* Subarray.__eq__ : self._description == other._description *)
Definition sub_eqb (a b : subarray) : bool :=
  list_eqb (list_eqb (list_eqb Z.eqb)) (sub_description a) (sub_description b).

(* ---------- SpectralWindow._description ---------- *)
Definition spw_field (w : spwin) (f : string) : Z :=
  if String.eqb f "centre_freq" then w_centre_freq w
  else if String.eqb f "channel_width" then w_channel_width w
  else if String.eqb f "num_chans" then w_num_chans w
  else if String.eqb f "sideband" then w_sideband w
  else if String.eqb f "band" then w_band w
  else if String.eqb f "product" then w_product w
  else if String.eqb f "bandwidth" then w_bandwidth w
  else 0.
Definition spw_description (w : spwin) : list Z := map (spw_field w) spw_description_fields.
Definition spw_eqb (a b : spwin) : bool := list_eqb Z.eqb (spw_description a) (spw_description b).

(* ---------- value ids: position of the first identical entry ---------- *)
Fixpoint find_first {A} (eqb : A -> A -> bool) (x : A) (l : list A) (i : nat) : nat :=
  match l with
  | [] => i
  | y :: t => if eqb y x then i else find_first eqb x t (S i)
  end.
Definition intern_ids {A} (eqb : A -> A -> bool) (tbl : list A) : list nat :=
  map (fun x => find_first eqb x tbl 0) tbl.

(* ---------- the dummy value per type, from the if-chain of sensordata.dummy_sensor_getter ---------- *)
(* np.issubdtype(dtype, np.<class>) for the sensor types of C12's model *)
Definition in_class (dt : SensorCache.dtype) (cls : string) : bool :=
  match dt with
  | SensorCache.DFloat => String.eqb cls "floating" || String.eqb cls "inexact" || String.eqb cls "number"
  | SensorCache.DInt => String.eqb cls "integer" || String.eqb cls "signedinteger" || String.eqb cls "number"
  | SensorCache.DStr => String.eqb cls "bytes_" || String.eqb cls "str_" || String.eqb cls "character" || String.eqb cls "flexible"
  | SensorCache.DBool => String.eqb cls "bool_"
  | SensorCache.DObj => String.eqb cls "object_"
  end.
Definition nan_id : Z := -7777.        (* = Concat.nan_code *)
Definition filler_code (f : string) : Z :=
  if String.eqb f "nan" then nan_id else if String.eqb f "-1" then -1
  else if String.eqb f "empty" then 0 else if String.eqb f "False" then 0 else -9999.
Fixpoint dummy_of_table (tbl : list (string * string)) (dt : SensorCache.dtype) : Z :=
  match tbl with
  | [] => -8888                                   (* value stays None *)
  | (cls, f) :: t => if in_class dt cls then filler_code f else dummy_of_table t dt
  end.

(* unsigned integer types (ubits = width > 0; 0 = one of C12's types): np.issubdtype(np.uint8, np.integer) holds, so they
   take the integer branch; its filler np.array(k).astype(dtype)[()] ([cast] = the translator found that form) is k CAST
   into the type: k modulo 2^ubits *)
Definition in_class_u (ubits : Z) (dt : SensorCache.dtype) (cls : string) : bool :=
  match dt with
  | SensorCache.DInt => if ubits <=? 0 then in_class dt cls
                        else String.eqb cls "integer" || String.eqb cls "unsignedinteger" || String.eqb cls "number"
  | _ => in_class dt cls
  end.
Definition cast_filler (cast : bool) (ubits k : Z) : Z := if cast && (0 <? ubits) then k mod 2 ^ ubits else k.
Fixpoint dummy_of_table_u (tbl : list (string * string)) (cast : bool) (ubits : Z) (dt : SensorCache.dtype) : Z :=
  match tbl with
  | [] => -8888
  | (cls, f) :: t => if in_class_u ubits dt cls
                     then match dt with
                          | SensorCache.DInt => cast_filler cast ubits (filler_code f)
                          | _ => filler_code f
                          end
                     else dummy_of_table_u t cast ubits dt
  end.
(* (the extracted driver computes with 63-bit OCaml integers: 2^64 - 1 cannot cross the wire; the theorems cover any width) *)
Definition unsigned_widths : list Z := [8; 16; 32].

(* ---------- wire: (subarray-table spw-table) -> (subarray ids, spw ids, dummy codes by dtype code 0..4,
                                                  dummy codes of uint8 / 16 / 32) ---------- *)
Definition to_input (x : sx) : input := match x with L [I a; I p] => (a, p) | _ => (-1, -1) end.
Definition to_cprod (x : sx) : cprod :=
  match x with L [I a; I pa; I b; I pb] => ((a, pa), (b, pb)) | _ => ((-1, -1), (-1, -1)) end.
Definition to_sub (x : sx) : subarray :=
  match x with L [ants; cps] => mkSub (to_Zs ants) (map to_cprod (to_list cps)) | _ => mkSub [] [] end.
Definition to_spw (x : sx) : spwin :=
  match x with
  | L [I a; I b; I c; I d; I e; I f; I g] => mkSpw a b c d e f g
  | _ => mkSpw 0 0 0 0 0 0 0
  end.
Definition all_dtypes : list SensorCache.dtype :=
  [SensorCache.DFloat; SensorCache.DInt; SensorCache.DStr; SensorCache.DBool; SensorCache.DObj].
Definition wire_194 (x : sx) : sx :=
  match x with
  | L [subs; spws] =>
      L [of_nats (intern_ids sub_eqb (map to_sub (to_list subs)));
         of_nats (intern_ids spw_eqb (map to_spw (to_list spws)));
         of_Zs (map (dummy_of_table dummy_value_table) all_dtypes);
         of_Zs (map (fun b => dummy_of_table_u dummy_value_table dummy_int_is_cast_into_type b SensorCache.DInt) unsigned_widths)]
  | _ => sx_err
  end.
