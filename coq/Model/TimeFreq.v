(* C17: v4 time and frequency axes; preselection vs selection.
   Model of visdatav4.py (timestamps, SR-1625 one-CBF-dump fix, start/end time, spectral window creation
   with preselect), datasources.py (timestamp synthesis, preselect validation) and spectral_window.py
   (channel_freqs, subrange, rechannelise).  All quantities are exact rationals. *)
From Coq Require Import ZArith QArith List Bool String.
From KV Require Import Base.Sx Base.Str Gen.Generated.
Import ListNotations.
Open Scope Q_scope.

Definition Qltb (x y : Q) : bool := negb (Qle_bool y x).

(* ---------------- timestamps ---------------- *)
Record timing := mkTiming {
  t_sync : Q; t_first : Q; t_int : Q; t_off : Q;     (* sync_time, first_timestamp, int_time, time_offset *)
  t_cbf : option Q;                                   (* CBF dump period; None for a "lite" RDB *)
  t_cmc2 : bool; t_cbf4k : bool }.

(* datasources.py: timestamps = t0 + arange(n) * int_time, then [preselect dumps a:b];
   visdatav4.py: source.timestamps += time_offset *)
Definition raw_stamp (tm : timing) (k : Z) : Q :=
  t_sync tm + t_first tm + inject_Z k * t_int tm + t_off tm.

(* visdatav4.py (after the repair of F21): _before(date) looks at capture_start = first timestamp of the CAPTURE
   (recorded by TelstateDataSource before the dump preselection) + time_offset, whatever dumps are preselected.
   [needs_fix_pre] is the decision as it was before the repair (first PRESELECTED timestamp), kept for the record. *)
Definition needs_fix (tm : timing) (a : Z) : bool :=
  fix_rule (fun d => Qltb (raw_stamp tm 0) (inject_Z d)) (t_cmc2 tm) (t_cbf4k tm).
Definition needs_fix_pre (tm : timing) (a : Z) : bool :=
  fix_rule (fun d => Qltb (raw_stamp tm a) (inject_Z d)) (t_cmc2 tm) (t_cbf4k tm).
Definition model_timestamp_pre (tm : timing) (a i : Z) : Q :=
  raw_stamp tm (a + i) - (if needs_fix_pre tm a then match t_cbf tm with Some c => c | None => 0 end else 0).

Definition fix_amount (tm : timing) (a : Z) : Q :=
  if needs_fix tm a then match t_cbf tm with Some c => c | None => 0 end else 0.

(* timestamp of dump i of a data set opened with preselect dumps = a:b (a = 0 when not preselected) *)
Definition model_timestamp (tm : timing) (a i : Z) : Q := raw_stamp tm (a + i) - fix_amount tm a.
Definition model_start_time (tm : timing) (a : Z) : Q := model_timestamp tm a 0 - (1#2) * t_int tm.
Definition model_end_time (tm : timing) (a n : Z) : Q := model_timestamp tm a (n - 1) + (1#2) * t_int tm.
(* effective time_offset attribute after the workaround *)
Definition model_time_offset (tm : timing) (a : Z) : Q := t_off tm - fix_amount tm a.

(* ---- SPEC (documented): captures made before the fix date of their correlator lose one CBF dump ---- *)
Definition doc_fix_date (cmc2 cbf4k : bool) : Z :=
  if cmc2 then (if cbf4k then 1549843200 (* 2019-02-11 *) else 1551571200 (* 2019-03-03 *))
  else 1552608000 (* 2019-03-15 *).
Definition spec_needs_fix (tm : timing) : bool :=
  Qltb (raw_stamp tm 0) (inject_Z (doc_fix_date (t_cmc2 tm) (t_cbf4k tm))).
Definition spec_timestamp (tm : timing) (k : Z) : Q :=
  raw_stamp tm k - (if spec_needs_fix tm then match t_cbf tm with Some c => c | None => 0 end else 0).

(* ---------------- spectral windows ---------------- *)
Record spw := mkSpw { s_centre : Q; s_bw : Q; s_n : Z; s_side : Z }.   (* sideband = +1 / -1 *)

Definition chan_freq (w : spw) (k : Z) : Q :=
  s_centre w + inject_Z (s_side w) * s_bw w * inject_Z (k - s_n w / 2) / inject_Z (s_n w).
Definition chan_width (w : spw) : Q := s_bw w / inject_Z (s_n w).

Definition subrange (w : spw) (first last : Z) : option spw :=
  if ((0 <=? first) && (first <? last) && (last <=? s_n w))%Z then
    let shift := ((first + last) / 2 - s_n w / 2)%Z in
    let n' := (last - first)%Z in
    Some (mkSpw (s_centre w + inject_Z shift * s_bw w * inject_Z (s_side w) / inject_Z (s_n w))
                (s_bw w * inject_Z n' / inject_Z (s_n w)) n' (s_side w))
  else None.

Definition rechannelise (w : spw) (m : Z) : spw :=
  if (m =? s_n w)%Z then w else
  let c1 := if (s_n w mod 2 =? 0)%Z then s_centre w - inject_Z (s_side w) * (1#2) * chan_width w else s_centre w in
  let cw := s_bw w / inject_Z m in
  let c2 := if (m mod 2 =? 0)%Z then c1 + inject_Z (s_side w) * (1#2) * cw else c1 in
  mkSpw c2 (s_bw w) m (s_side w).

(* band edges: outer edges of the first and last channel *)
Definition band_lo (w : spw) : Q := chan_freq w 0 - inject_Z (s_side w) * (1#2) * chan_width w.
Definition band_hi (w : spw) : Q := chan_freq w (s_n w - 1) + inject_Z (s_side w) * (1#2) * chan_width w.

(* ---------------- preselect validation (datasources.py) ---------------- *)
Definition step_ok (s : option Z) : bool := match s with None => true | Some z => (z =? 1)%Z end.
Definition preselect_ok (keys : list string) (steps : list (option Z)) : bool :=
  forallb (fun k => mem_string k preselect_keys) keys && forallb step_ok steps.

(* ---------------- slices of lists (unit step, normalised 0 <= a <= b <= n) ---------------- *)
Definition slice {A} (a b : nat) (l : list A) : list A := firstn (b - a) (skipn a l).
Fixpoint zrange (start : Z) (n : nat) : list Z :=
  match n with O => [] | S n' => start :: zrange (start + 1) n' end.

Definition timestamps_full (tm : timing) (n : nat) : list Q := map (model_timestamp tm 0) (zrange 0 n).
Definition timestamps_pre (tm : timing) (a b : nat) : list Q :=
  map (model_timestamp tm (Z.of_nat a)) (zrange 0 (b - a)).
Definition freqs_full (w : spw) : list Q := map (chan_freq w) (zrange 0 (Z.to_nat (s_n w))).

(* ---------------- wire ---------------- *)
Definition to_Q (x : sx) : Q :=
  match x with L [I n; I d] => n # (Z.to_pos d) | _ => 0 end.
Definition of_Q (q : Q) : sx := let r := Qred q in L [I (Qnum r); I (Zpos (Qden r))].
Definition to_optQ (x : sx) : option Q := match x with L [q] => Some (to_Q q) | _ => None end.
Definition to_timing (x : sx) : timing :=
  match x with
  | L [s; f; i; o; c; m2; k4] => mkTiming (to_Q s) (to_Q f) (to_Q i) (to_Q o) (to_optQ c) (to_bool m2) (to_bool k4)
  | _ => mkTiming 0 0 1 0 None false false
  end.
Definition to_spw (x : sx) : spw :=
  match x with L [c; b; I n; I s] => mkSpw (to_Q c) (to_Q b) n s | _ => mkSpw 0 1 1 1 end.
Definition of_spw (w : spw) : sx := L [of_Q (s_centre w); of_Q (s_bw w); I (s_n w); I (s_side w)].

(* (1 timing a n)     -> (model timestamps (n of them), spec timestamps for dumps a..a+n-1, start, end, time_offset, needs_fix, spec_needs_fix)
   (2 spw)            -> channel freqs
   (3 spw first last) -> () | (subrange spw, its freqs)
   (4 spw m)          -> (rechannelised spw, its freqs, band_lo, band_hi, band_lo orig, band_hi orig)
   (5 keys steps)     -> preselect_ok *)
Definition wire_17 (x : sx) : sx :=
  match x with
  | L [I 1; tm; I a; I n] =>
      let tm := to_timing tm in
      let ks := zrange 0 (Z.to_nat n) in
      L [L (map (fun i => of_Q (model_timestamp tm a i)) ks);
         L (map (fun i => of_Q (spec_timestamp tm (a + i))) ks);
         of_Q (model_start_time tm a); of_Q (model_end_time tm a n); of_Q (model_time_offset tm a);
         of_bool (needs_fix tm a); of_bool (spec_needs_fix tm)]
  | L [I 2; w] => L (map of_Q (freqs_full (to_spw w)))
  | L [I 3; w; I f; I l] =>
      match subrange (to_spw w) f l with
      | Some w' => L [of_spw w'; L (map of_Q (freqs_full w'))]
      | None => L []
      end
  | L [I 4; w; I m] =>
      let w := to_spw w in let w' := rechannelise w m in
      L [of_spw w'; L (map of_Q (freqs_full w')); of_Q (band_lo w'); of_Q (band_hi w'); of_Q (band_lo w); of_Q (band_hi w)]
  | L [I 5; keys; steps] => of_bool (preselect_ok (to_strings keys) (map to_optZ (to_list steps)))
  | _ => sx_err
  end.
