(* C17: v4 time and frequency axes; preselection vs selection.
   MODEL: what the katdal code does.  Every expression, sign, statement order and constant below that the katdal
   source determines comes from Gen/Generated.v (harness/vh/items/c17.py re-translates it on every run):
     datasources.py  TelstateDataSource.__init__  gen_ds_prog, gen_ds_t0, gen_ds_timestamp, preselect_keys/steps
     visdatav4.py    VisibilityDataV4.__init__    fix_rule, gen_v4_time_prog, gen_v4_half_dump, gen_v4_channel_width,
                                                  gen_v4_sideband
     spectral_window.py SpectralWindow            gen_spw_init_*, gen_spw_channel_freq, gen_spw_subrange,
                                                  gen_spw_rechannelise
   The generated code is abstract in its number type; here it is run over exact rationals.
   SPEC: the documented formulas, written by hand and independent of Generated.v (raw_stamp, doc_fix_date,
   spec_timestamp, spec_chan_freq). *)
From Coq Require Import ZArith QArith List Bool String.
From KV Require Import Base.Sx Base.Str Gen.Generated.
Import ListNotations.
Open Scope Q_scope.

Definition Qltb (x y : Q) : bool := negb (Qle_bool y x).

(* ---- the generated code over Q ---- *)
Definition q_ds_t0 := @gen_ds_t0 Q Qplus Qminus Qmult Qdiv inject_Z.
Definition q_ds_timestamp := @gen_ds_timestamp Q Qplus Qminus Qmult Qdiv inject_Z.
Definition q_half_dump := @gen_v4_half_dump Q Qplus Qminus Qmult Qdiv inject_Z.
Definition q_v4_channel_width := @gen_v4_channel_width Q Qplus Qminus Qmult Qdiv inject_Z.
Definition q_init_bandwidth := @gen_spw_init_bandwidth Q Qplus Qminus Qmult Qdiv inject_Z.
Definition q_init_width := @gen_spw_init_width Q Qplus Qminus Qmult Qdiv inject_Z.
Definition q_channel_freq := @gen_spw_channel_freq Q Qplus Qminus Qmult Qdiv inject_Z.
Definition q_subrange := @gen_spw_subrange Q Qplus Qminus Qmult Qdiv inject_Z.
Definition q_rechannelise := @gen_spw_rechannelise Q Qplus Qminus Qmult Qdiv inject_Z.

(* ---------------- timestamps ---------------- *)
Record timing := mkTiming {
  t_sync : Q; t_first : Q; t_int : Q; t_off : Q;     (* sync_time, first_timestamp, int_time, time_offset *)
  t_cbf : option Q;                                   (* CBF dump period; None for a "lite" RDB *)
  t_cmc2 : bool; t_cbf4k : bool }.

(* datasources.py: timestamps = t0 + arange(n) * int_time *)
Definition synth (tm : timing) (k : Z) : Q := q_ds_timestamp (q_ds_t0 (t_sync tm) (t_first tm)) (t_int tm) k.

(* TelstateDataSource.__init__ with preselect dumps = a:b (a = 0 when there is none), statement by statement in the
   order of the source: the kept dumps start at capture index d_base; d_capvar is the local capture_start;
   d_src_base / d_src_cap are what the DataSource ends up with (source.timestamps[j] = synth (base + j),
   source.capture_start). *)
Record dstate := mkD { d_base : Z; d_capvar : option Q; d_src_base : option Z; d_src_cap : option Q }.
Definition ds_step (tm : timing) (a : Z) (st : dstate) (op : Z) : dstate :=
  match op with
  | 2%Z => mkD (d_base st) (Some (synth tm (d_base st))) (d_src_base st) (d_src_cap st)
  | 3%Z => mkD (d_base st + a) (d_capvar st) (d_src_base st) (d_src_cap st)
  | 4%Z => mkD (d_base st) (d_capvar st) (Some (d_base st)) (d_src_cap st)
  | 5%Z => mkD (d_base st) (d_capvar st) (d_src_base st) (d_capvar st)
  | _ => st
  end.
Definition run_ds (tm : timing) (a : Z) : dstate := fold_left (ds_step tm a) gen_ds_prog (mkD 0 None None None).
Definition src_base (tm : timing) (a : Z) : Z := match d_src_base (run_ds tm a) with Some b => b | None => 0%Z end.

(* VisibilityDataV4.__init__: the statements that touch the time axis, in source order.  source.timestamps[j] is
   synth (base + j) + v_shift (the array is only ever shifted in place); v_off is self.time_offset; v_cap the local
   capture_start; v_start / v_end the start_time / end_time attributes. *)
Record vstate := mkV { v_shift : Q; v_off : Q; v_cap : option Q; v_start : option Q; v_end : option Q }.
Definition v_fix (tm : timing) (cap : option Q) : option Q :=
  match cap, t_cbf tm with
  | Some c, Some p => if fix_rule (fun d => Qltb c (inject_Z d)) (t_cmc2 tm) (t_cbf4k tm) then Some p else None
  | _, _ => None
  end.
Definition v_step (tm : timing) (src_cap : option Q) (ts0 tsl : Q) (st : vstate) (ins : Z * Z) : vstate :=
  let s := inject_Z (snd ins) in
  match fst ins with
  | 1%Z => mkV (v_shift st + s * v_off st) (v_off st) (v_cap st) (v_start st) (v_end st)
  | 7%Z => mkV (v_shift st) (v_off st) src_cap (v_start st) (v_end st)
  | 2%Z => mkV (v_shift st) (v_off st)
               (Some (match v_cap st with None => ts0 + v_shift st | Some c => c + s * v_off st end))
               (v_start st) (v_end st)
  | 3%Z => match v_fix tm (v_cap st) with
           | Some p => mkV (v_shift st + s * p) (v_off st) (v_cap st) (v_start st) (v_end st)
           | None => st end
  | 6%Z => match v_fix tm (v_cap st) with
           | Some p => mkV (v_shift st) (v_off st + s * p) (v_cap st) (v_start st) (v_end st)
           | None => st end
  | 4%Z => mkV (v_shift st) (v_off st) (v_cap st) (Some (ts0 + v_shift st + s * q_half_dump (t_int tm))) (v_end st)
  | 5%Z => mkV (v_shift st) (v_off st) (v_cap st) (v_start st) (Some (tsl + v_shift st + s * q_half_dump (t_int tm)))
  | _ => st
  end.
(* a data set of n dumps opened with preselect dumps = a:a+n *)
Definition run_v4 (tm : timing) (a n : Z) : vstate :=
  let b := src_base tm a in
  fold_left (v_step tm (d_src_cap (run_ds tm a)) (synth tm b) (synth tm (b + n - 1)))
            gen_v4_time_prog (mkV 0 (t_off tm) None None None).

Definition optQ (o : option Q) : Q := match o with Some x => x | None => 0 end.
(* timestamp of dump i of a data set opened with preselect dumps = a:a+n (a = 0 when not preselected) *)
Definition model_timestamp (tm : timing) (a i : Z) : Q := synth tm (src_base tm a + i) + v_shift (run_v4 tm a 1).
Definition model_start_time (tm : timing) (a n : Z) : Q := optQ (v_start (run_v4 tm a n)).
Definition model_end_time (tm : timing) (a n : Z) : Q := optQ (v_end (run_v4 tm a n)).
(* effective time_offset attribute after the workaround *)
Definition model_time_offset (tm : timing) (a : Z) : Q := v_off (run_v4 tm a 1).

(* the decision as it was before the repair of F21 (first PRESELECTED timestamp), kept for the record *)
Definition raw_stamp (tm : timing) (k : Z) : Q :=
  t_sync tm + t_first tm + inject_Z k * t_int tm + t_off tm.
Definition needs_fix_pre (tm : timing) (a : Z) : bool :=
  fix_rule (fun d => Qltb (raw_stamp tm a) (inject_Z d)) (t_cmc2 tm) (t_cbf4k tm).
Definition model_timestamp_pre (tm : timing) (a i : Z) : Q :=
  raw_stamp tm (a + i) - (if needs_fix_pre tm a then match t_cbf tm with Some c => c | None => 0 end else 0).

(* ---- SPEC (documented): captures made before the fix date of their correlator lose one CBF dump ---- *)
Definition doc_fix_date (cmc2 cbf4k : bool) : Z :=
  if cmc2 then (if cbf4k then 1549843200 (* 2019-02-11 *) else 1551571200 (* 2019-03-03 *))
  else 1552608000 (* 2019-03-15 *).
Definition spec_needs_fix (tm : timing) : bool :=
  Qltb (raw_stamp tm 0) (inject_Z (doc_fix_date (t_cmc2 tm) (t_cbf4k tm))).
Definition spec_fix_amount (tm : timing) : Q :=
  if spec_needs_fix tm then match t_cbf tm with Some c => c | None => 0 end else 0.
Definition spec_timestamp (tm : timing) (k : Z) : Q := raw_stamp tm k - spec_fix_amount tm.

(* ---------------- spectral windows ---------------- *)
(* a SpectralWindow object: centre_freq, bandwidth, num_chans, sideband; its channel_width attribute is always
   bandwidth / num_chans (TimeFreqP.init_width_consistent: that is what __init__ stores on both of its paths) *)
Record spw := mkSpw { s_centre : Q; s_bw : Q; s_n : Z; s_side : Z }.   (* sideband = +1 / -1 *)
Definition chan_width (w : spw) : Q := s_bw w / inject_Z (s_n w).

Definition ctor_args : Type := (Q * Q * Z * Z * option Q)%type.   (* centre_freq, channel_width, num_chans, sideband, bandwidth= *)
Definition spw_init (r : ctor_args) : spw :=
  let '(c, cw, n, sd, bw) := r in
  mkSpw c (match bw with Some b => b | None => q_init_bandwidth cw n end) n sd.
Definition init_width_attr (r : ctor_args) : Q :=
  let '(c, cw, n, sd, bw) := r in match bw with Some b => q_init_width b n | None => cw end.

Definition chan_freq (w : spw) (k : Z) : Q :=
  q_channel_freq (s_centre w) (chan_width w) (s_bw w) (s_n w) (s_side w) k.
Definition subrange (w : spw) (first last : Z) : option spw :=
  option_map spw_init (q_subrange (s_centre w) (chan_width w) (s_bw w) (s_n w) (s_side w) first last).
Definition rechannelise (w : spw) (m : Z) : spw :=
  spw_init (q_rechannelise (s_centre w) (chan_width w) (s_bw w) (s_n w) (s_side w) m).

(* VisibilityDataV4: the window built from the telstate attributes center_freq, bandwidth, n_chans *)
Definition v4_spw (centre bw : Q) (n : Z) : spw :=
  spw_init (centre, q_v4_channel_width bw n, n, gen_v4_sideband, None).

(* SPEC: channel k of N is at centre + sideband * (k - N//2) * bandwidth / N *)
Definition spec_chan_freq (centre bw : Q) (n side k : Z) : Q :=
  centre + inject_Z side * (inject_Z (k - n / 2) * bw / inject_Z n).

(* edges: outer edges of channel k, of the first and of the last channel *)
Definition chan_lo (w : spw) (k : Z) : Q := chan_freq w k - inject_Z (s_side w) * (1#2) * chan_width w.
Definition band_lo (w : spw) : Q := chan_lo w 0.
Definition band_hi (w : spw) : Q := chan_freq w (s_n w - 1) + inject_Z (s_side w) * (1#2) * chan_width w.

(* ---------------- preselect validation (datasources.py) ---------------- *)
Definition optZ_eqb (x y : option Z) : bool :=
  match x, y with None, None => true | Some a, Some b => (a =? b)%Z | _, _ => false end.
Definition step_ok (s : option Z) : bool := existsb (optZ_eqb s) preselect_steps.
Definition preselect_ok (keys : list string) (steps : list (option Z)) : bool :=
  forallb (fun k => mem_string k preselect_keys) keys && forallb step_ok steps.

(* ---------------- slices of lists (unit step, normalised 0 <= a <= b <= n) ---------------- *)
Definition slice {A} (a b : nat) (l : list A) : list A := firstn (b - a) (skipn a l).
Definition slice2 {A} (a b c d : nat) (m : list (list A)) : list (list A) := map (slice c d) (slice a b m).
Fixpoint zrange (start : Z) (n : nat) : list Z :=
  match n with O => [] | S n' => start :: zrange (start + 1) n' end.

Definition timestamps_full (tm : timing) (n : nat) : list Q := map (model_timestamp tm 0) (zrange 0 n).
Definition timestamps_pre (tm : timing) (a b : nat) : list Q :=
  map (model_timestamp tm (Z.of_nat a)) (zrange 0 (b - a)).
Definition freqs_full (w : spw) : list Q := map (chan_freq w) (zrange 0 (Z.to_nat (s_n w))).

(* ---------------- wire ---------------- *)
Definition to_Q (x : sx) : Q :=
  match x with L [I n; I d] => n # (Z.to_pos d) | _ => 0 end.
Definition of_Q (q : Q) : sx := let r := Qred q in L [I (Qnum r); I (Zpos (Qden r))].
Definition to_optQ (x : sx) : option Q := match x with L [q] => Some (to_Q q) | _ => None end.
Definition to_timing (x : sx) : timing :=
  match x with
  | L [s; f; i; o; c; m2; k4] => mkTiming (to_Q s) (to_Q f) (to_Q i) (to_Q o) (to_optQ c) (to_bool m2) (to_bool k4)
  | _ => mkTiming 0 0 1 0 None false false
  end.
Definition to_spw (x : sx) : spw :=
  match x with L [c; b; I n; I s] => mkSpw (to_Q c) (to_Q b) n s | _ => mkSpw 0 1 1 1 end.
Definition of_spw (w : spw) : sx :=
  L [of_Q (s_centre w); of_Q (s_bw w); I (s_n w); I (s_side w); of_Q (chan_width w)].

(* (1 timing a n)     -> (model timestamps (n of them), spec timestamps for dumps a..a+n-1, start, end, time_offset,
                          spec start, spec end)
   (2 spw)            -> (channel freqs, spec channel freqs)
   (3 spw first last) -> () | (subrange spw, its freqs)
   (4 spw m)          -> (rechannelised spw, its freqs, band_lo, band_hi, band_lo orig, band_hi orig)
   (5 keys steps)     -> preselect_ok
   (6 centre bw N c d) -> (v4 spw, its freqs, spec freqs, () | (subrange c d, its freqs)) *)
Definition wire_17 (x : sx) : sx :=
  match x with
  | L [I 1; tm; I a; I n] =>
      let tm := to_timing tm in
      let ks := zrange 0 (Z.to_nat n) in
      L [L (map (fun i => of_Q (model_timestamp tm a i)) ks);
         L (map (fun i => of_Q (spec_timestamp tm (a + i))) ks);
         of_Q (model_start_time tm a n); of_Q (model_end_time tm a n); of_Q (model_time_offset tm a);
         of_Q (spec_timestamp tm a - (1#2) * t_int tm); of_Q (spec_timestamp tm (a + n - 1) + (1#2) * t_int tm)]
  | L [I 2; w] =>
      let w := to_spw w in
      L [L (map of_Q (freqs_full w));
         L (map (fun k => of_Q (spec_chan_freq (s_centre w) (s_bw w) (s_n w) (s_side w) k)) (zrange 0 (Z.to_nat (s_n w))))]
  | L [I 3; w; I f; I l] =>
      match subrange (to_spw w) f l with
      | Some w' => L [of_spw w'; L (map of_Q (freqs_full w'))]
      | None => L []
      end
  | L [I 4; w; I m] =>
      let w := to_spw w in let w' := rechannelise w m in
      L [of_spw w'; L (map of_Q (freqs_full w')); of_Q (band_lo w'); of_Q (band_hi w'); of_Q (band_lo w); of_Q (band_hi w)]
  | L [I 5; keys; steps] => of_bool (preselect_ok (to_strings keys) (map to_optZ (to_list steps)))
  | L [I 6; c; b; I n; I c0; I d0] =>
      let w := v4_spw (to_Q c) (to_Q b) n in
      L [of_spw w; L (map of_Q (freqs_full w));
         L (map (fun k => of_Q (spec_chan_freq (to_Q c) (to_Q b) n 1 k)) (zrange 0 (Z.to_nat n)));
         match subrange w c0 d0 with
         | Some w' => L [of_spw w'; L (map of_Q (freqs_full w'))]
         | None => L []
         end]
  | _ => sx_err
  end.
