(* C19, selection clause: select() on the concatenated data set versus select() on the parts.

   The concatenated data set runs the inherited DataSet.select (model: Model/Select.v, C02) on the merged
   observation: the sensors of ConcatenatedSensorCache (Model/Concat.v) and the merged catalogue.  Each part, taken
   as a data set of its own, runs the same select on its own observation: its own scan / compscan numbering from 0,
   its own catalogue (the unique values of its own target sensor).  [tr_kwargs] translates a call on the whole into
   the call on part i that the property statement speaks of ("the same criteria once indices are translated"):
   dumps -> the part's slice of the global dump mask, scan / compscan indices minus the part's running offset,
   target indices of the merged catalogue -> indices of the same targets in the part's catalogue (dropped when the
   part does not have the target), everything else unchanged.  Definitions only. *)
From Coq Require Import ZArith List Bool String.
From KV Require Import Base.Sx Base.Str Base.SelSlice Model.Select.
From KV Require Model.Categorical Model.Concat.
Import ListNotations.
Open Scope Z_scope.

(* what all parts share (single spectral window / subarray) and the table of targets by global id *)
Record env := mkEnv {
  e_targets : list target;     (* names / tags of the target with global id i *)
  e_half : Z; e_freqs : list Z; e_halfw : Z; e_cps : list cprod
}.
Definition tgt_of (e : env) (id : Z) : target :=
  nth (Z.to_nat id) (e_targets e) {| t_names := []; t_tags := [] |}.

Fixpoint zip_dumps (ts scan state cscan label tgt : list Z) : list dump :=
  match ts, scan, state, cscan, label, tgt with
  | a :: ts', b :: scan', c :: state', d :: cscan', x :: label', f :: tgt' =>
      {| d_ts := a; d_scan := b; d_state := c; d_cscan := d; d_label := x; d_target := f |}
      :: zip_dumps ts' scan' state' cscan' label' tgt'
  | _, _, _, _, _, _ => []
  end.

(* a part as a data set: its own sensors, its own catalogue *)
Definition part_obs (e : env) (p : Concat.part) : obs :=
  {| o_dumps := zip_dumps (Concat.p_ts p) (Concat.zexpand (Concat.p_scan p)) (Concat.zexpand (Concat.p_state p))
                          (Concat.zexpand (Concat.p_cscan p)) (Concat.zexpand (Concat.p_label p))
                          (Concat.zexpand (Concat.index_cd (Concat.p_tgt p)));
     o_half := e_half e; o_targets := map (tgt_of e) (Categorical.uv (Concat.p_tgt p));
     o_freqs := e_freqs e; o_halfw := e_halfw e; o_cps := e_cps e |}.

(* the concatenated data set: sensors of the concatenated cache, merged catalogue *)
Definition merged_obs (e : env) (m : Concat.merged) : option obs :=
  match Concat.m_scan m, Concat.m_state m, Concat.m_cscan m, Concat.m_label m, Concat.m_tgt_index m with
  | Some sc, Some st, Some cs, Some lb, Some ti =>
      Some {| o_dumps := zip_dumps (Concat.m_ts m) (Concat.zexpand sc) (Concat.zexpand st) (Concat.zexpand cs)
                                   (Concat.zexpand lb) (Concat.zexpand ti);
              o_half := e_half e; o_targets := map (tgt_of e) (Concat.m_cat m);
              o_freqs := e_freqs e; o_halfw := e_halfw e; o_cps := e_cps e |}
  | _, _, _, _, _ => None
  end.

(* ---------- translation of a call on the whole to part i ---------- *)
Record tr := mkTr {
  tr_n : nat;              (* number of dumps of the whole *)
  tr_lo : nat; tr_len : nat;   (* the part's segment *)
  tr_so : Z; tr_co : Z;    (* running scan / compscan offsets of the part *)
  tr_cat : list Z;         (* merged catalogue (global target ids) *)
  tr_uv : list Z           (* the part's own catalogue *)
}.

Definition tr_sitem (off : Z) (it : sitem) : sitem :=
  match it with SIdx z => SIdx (z - off) | _ => it end.
Definition tr_titem (t : tr) (it : titem) : list titem :=
  match it with
  | TIdx g =>
      if g <? 0 then [] else
      match nth_error (tr_cat t) (Z.to_nat g) with
      | Some v => match Categorical.index_of Z.eqb v (tr_uv t) with
                  | Some j => [TIdx (Z.of_nat j)]
                  | None => []
                  end
      | None => []
      end
  | TName id => [TName id]
  end.
Definition seg {A} (t : tr) (l : list A) : list A := firstn (tr_len t) (skipn (tr_lo t) l).

Definition tr_value (t : tr) (k : string) (v : value) : value :=
  if String.eqb k "dumps" then
    match v with
    | VIdx ix => match index_mask (tr_n t) ix with Some m => VIdx (IxMask (seg t m)) | None => v end
    | _ => v
    end
  else if String.eqb k "scans" then
    match v with VScans l => VScans (map (tr_sitem (tr_so t)) l) | _ => v end
  else if String.eqb k "compscans" then
    match v with VScans l => VScans (map (tr_sitem (tr_co t)) l) | _ => v end
  else if String.eqb k "targets" then
    match v with VTargets l => VTargets (flat_map (tr_titem t) l) | _ => v end
  else v.
Definition tr_kwargs (t : tr) (kw : kwargs) : kwargs := map (fun kv => (fst kv, tr_value t (fst kv) (snd kv))) kw.

(* the translations of the parts of an opened concatenation, from the ORIGINAL parts in time order *)
Fixpoint trs_from (n : nat) (cat : list Z) (ps : list Concat.part) (lo so co : nat) : list tr :=
  match ps with
  | [] => []
  | p :: r =>
      mkTr n lo (Concat.nT p) (Z.of_nat so) (Z.of_nat co) cat (Categorical.uv (Concat.p_tgt p))
      :: trs_from n cat r (lo + Concat.nT p)%nat (so + List.length (Categorical.uv (Concat.p_scan p)))%nat
                  (co + List.length (Categorical.uv (Concat.p_cscan p)))%nat
  end.
Definition trs_of (cat : list Z) (ps : list Concat.part) : list tr :=
  trs_from (list_sum (map Concat.nT ps)) cat ps 0 0 0.

(* ---------- wire ---------- *)
Definition to_env (x : sx) : env :=
  match x with
  | L [ts; I h; fs; I hw; cps] => mkEnv (map to_target (to_list ts)) h (to_Zs fs) hw (map to_cprod (to_list cps))
  | _ => mkEnv [] 0 [] 0 []
  end.

(* the chronological order of the input, as the model's own sort gives it *)
Definition sorted_input (input : list Concat.part) : list Concat.part :=
  match Concat.sort_parts input with Some s => s | None => [] end.

Definition masks_sx (r : res st) : sx :=
  match r with
  | Ok s => L [I 0; of_bools (tk s); of_bools (fk s); of_bools (bk s)]
  | Err ETypeError => L [I 1]
  | Err EFail => L [I 2]
  end.

Fixpoint zip_res (rs : list (res st)) : option (list st) :=
  match rs with
  | [] => Some []
  | Ok s :: t => option_map (cons s) (zip_res t)
  | Err _ :: _ => None
  end.

(* one history: the whole follows its chain, every part its own chain of translated calls *)
Fixpoint run_both (mo : obs) (pos : list (obs * tr)) (s : st) (ss : list st) (calls : list kwargs) : list sx :=
  match calls with
  | [] => []
  | c :: rest =>
      let r := select mo s c in
      let rs := map (fun x => select (fst (fst x)) (snd x) (tr_kwargs (snd (fst x)) c)) (combine pos ss) in
      L [L (of_model r); L (map masks_sx rs);
         L (map (fun x => L (map (fun kv => L [of_string (fst kv);
                                               match snd kv with
                                               | VIdx (IxMask m) => of_bools m
                                               | VScans l => L (map (fun it => match it with SIdx z => L [I 0; I z] | SName z => L [I 1; I z]
                                                                               | SNot z => L [I 2; I z] end) l)
                                               | VTargets l => L (map (fun it => match it with TIdx z => L [I 0; I z]
                                                                                 | TName z => L [I 1; I z] end) l)
                                               | _ => L []
                                               end]) (tr_kwargs (snd x) c))) pos)] ::
      match r, zip_res rs with
      | Ok s', Some ss' => run_both mo pos s' ss' rest
      | Err ETypeError, _ => run_both mo pos s ss rest
      | _, _ => []
      end
  end.

(* (parts env calls) -> (status (merged-model (part-masks ...) (translated-calls ...)) ...) *)
Definition wire_191 (x : sx) : sx :=
  match x with
  | L [parts; envx; calls] =>
      let input := map Concat.to_part (to_list parts) in
      let e := to_env envx in
      match Concat.concat_open input with
      | Concat.CErr c => L [I (Concat.err_code c)]
      | Concat.COk m =>
          match merged_obs e m with
          | None => L [I 9]
          | Some mo =>
              let orig := sorted_input input in
              let pos := combine (map (part_obs e) orig) (trs_of (Concat.m_cat m) orig) in
              L [I 0; L (run_both mo pos (init mo) (map (fun x => init (fst x)) pos) (map to_kwargs (to_list calls)))]
          end
      end
  | _ => sx_err
  end.
