(* C07: chunk store round trip and chunk addressing.
   Model of katdal/chunkstore.py (chunk_id_str, chunk_metadata, join, _add_offset_to_slices, _put_map_blocks /
   put_dask_array, get_dask_array, _prune_chunks, generate_chunks, _floor_power_of_two), of the object naming of
   chunkstore_npy.py / chunkstore_s3.py (key = chunk name + extension, completion marker) and of
   chunkstore_s3._normalise_bucket_name.  Strings are lists of character codes.  Definitions only. *)
From Coq Require Import ZArith List Bool.
From KV Require Import Base.Sx Gen.Generated.
Import ListNotations.
Open Scope Z_scope.

Definition str := list Z.
Definition str_eq_dec : forall a b : str, {a = b} + {a <> b} := list_eq_dec Z.eq_dec.
Definition zs_eq_dec : forall a b : list Z, {a = b} + {a <> b} := list_eq_dec Z.eq_dec.

(* ------------------------------------------------------------------------------------------------ *)
(* Decimal printing: "{:0{w}d}".format(z, w=width)                                                     *)

Fixpoint digits_fuel (fuel : nat) (n : Z) : list Z :=
  match fuel with
  | O => []
  | S f => if n <? 10 then [48 + n] else digits_fuel f (n / 10) ++ [48 + n mod 10]
  end.
(* fuel = number of binary digits, an upper bound of the number of decimal digits *)
Definition digits (n : Z) : list Z := digits_fuel (S (Z.to_nat (Z.log2 n))) n.

Definition pad (w : Z) (l : list Z) : list Z := repeat 48 (Z.to_nat (w - Z.of_nat (List.length l))) ++ l.

(* sign-aware zero padding: the sign counts in the width; longer numbers are printed in full *)
Definition fmt_index (w z : Z) : str :=
  if z <? 0 then 45 :: pad (w - 1) (digits (- z)) else pad w (digits z).

(* reading a printed index back (used by the injectivity proof and exposed on the wire) *)
Definition horner (l : list Z) : Z := fold_left (fun a c => 10 * a + (c - 48)) l 0.
Definition parse_index (s : str) : Z :=
  match s with
  | c :: t => if c =? 45 then - horner t else horner s
  | [] => 0
  end.

Fixpoint join (sep : Z) (l : list str) : str :=
  match l with
  | [] => []
  | x :: t => match t with [] => x | _ => x ++ sep :: join sep t end
  end.

Definition chunk_id_str_w (w : Z) (starts : list Z) : str := join cs_id_sep (map (fmt_index w) starts).
Definition chunk_id_str (starts : list Z) : str := chunk_id_str_w cs_name_index_width starts.
(* ChunkStore.join(array_name, id) *)
Definition join_name (a b : str) : str := a ++ cs_name_sep :: b.
Definition chunk_name (arr : str) (starts : list Z) : str := join_name arr (chunk_id_str starts).

(* ------------------------------------------------------------------------------------------------ *)
(* chunk_metadata                                                                                      *)

Inductive err := ETypeError | EBadChunk | ENotFound | EIndex.
Inductive res (T : Type) := Ok (t : T) | Err (e : err).
Arguments Ok {T} t.
Arguments Err {T} e.

Definition slices := list (Z * Z).
Definition slice_shape (sl : slices) : list Z := map (fun se => snd se - fst se) sl.
Definition step_ok (o : option Z) : bool := match o with None => true | Some s => s =? 1 end.

(* steps: the step attributes of the slices; cshape / cobj: shape and dtype.hasobject of the chunk if given;
   dobj: hasobject of the dtype if given *)
Definition chunk_metadata (arr : str) (sl : slices) (steps : list (option Z))
           (cshape : option (list Z)) (cobj dobj : bool) : res (str * list Z) :=
  let shape := slice_shape sl in
  if negb (forallb step_ok steps) then Err ETypeError else
  let name := chunk_name arr (map fst sl) in
  match cshape with
  | Some cs => if zs_eq_dec cs shape then (if cobj || dobj then Err EBadChunk else Ok (name, shape)) else Err EBadChunk
  | None => if dobj then Err EBadChunk else Ok (name, shape)
  end.

(* ------------------------------------------------------------------------------------------------ *)
(* Index spaces, C order                                                                               *)

Definition zrange (s len : Z) : list Z := map (fun i => s + Z.of_nat i) (seq 0 (Z.to_nat len)).

Fixpoint cart {T} (ls : list (list T)) : list (list T) :=
  match ls with
  | [] => [[]]
  | l :: t => flat_map (fun x => map (cons x) (cart t)) l
  end.

Definition region_points (sl : slices) : list (list Z) := cart (map (fun se => zrange (fst se) (snd se - fst se)) sl).
Definition enumerate (shape : list Z) : list (list Z) := cart (map (zrange 0) shape).

Fixpoint index_of (p : list Z) (l : list (list Z)) : nat :=
  match l with
  | [] => O
  | q :: t => if zs_eq_dec p q then O else S (index_of p t)
  end.

(* per-axis chunk sizes -> per-axis (start, stop) intervals *)
Fixpoint intervals (start : Z) (cs : list Z) : list (Z * Z) :=
  match cs with
  | [] => []
  | c :: t => (start, start + c) :: intervals (start + c) t
  end.
Definition sumZ (l : list Z) : Z := fold_right Z.add 0 l.
Definition prodZ (l : list Z) : Z := fold_right Z.mul 1 l.

(* the blocks of a dask chunk specification, in C order of the block index (np.indices order) *)
Definition blocks (chunks : list (list Z)) : list slices := cart (map (intervals 0) chunks).
Definition chunks_shape (chunks : list (list Z)) : list Z := map sumZ chunks.

Definition in_slice (se : Z * Z) (x : Z) : bool := (fst se <=? x) && (x <? snd se).
Fixpoint contains (sl : slices) (p : list Z) : bool :=
  match sl, p with
  | [], [] => true
  | se :: t, x :: q => in_slice se x && contains t q
  | _, _ => false
  end.
Fixpoint sub_point (p : list Z) (sl : slices) : list Z :=
  match p, sl with
  | x :: q, se :: t => (x - fst se) :: sub_point q t
  | _, _ => []
  end.

(* _add_offset_to_slices: zip(slices, offset) truncates to the shorter of the two *)
Fixpoint add_offset (sl : slices) (off : list Z) : slices :=
  match sl, off with
  | (s, e) :: t, o :: u => (s + o, e + o) :: add_offset t u
  | _, _ => []
  end.

(* ------------------------------------------------------------------------------------------------ *)
(* Store: object key -> object.  Chunk objects carry dtype id, shape and the C-order buffer.          *)

Section Store.
Context {A : Type}.

Inductive obj := OChunk (dt : Z) (shape : list Z) (data : list A) | OMarker.
Definition store := list (str * obj).

Fixpoint lookup (k : str) (st : store) : option obj :=
  match st with
  | [] => None
  | (k', v) :: t => if str_eq_dec k k' then Some v else lookup k t
  end.
Fixpoint remove_key (k : str) (st : store) : store :=
  match st with
  | [] => []
  | (k', v) :: t => if str_eq_dec k k' then remove_key k t else (k', v) :: remove_key k t
  end.
Definition upd (k : str) (v : obj) (st : store) : store := (k, v) :: remove_key k st.

Definition chunk_key (name : str) : str := name ++ cs_chunk_ext.
Definition marker_key (arr : str) : str := join_name arr cs_complete.

(* put_chunk(array_name, slices, chunk): chunk = (dtype id, hasobject, shape, buffer) *)
Definition put_chunk (st : store) (arr : str) (sl : slices) (dt : Z) (hasobj : bool) (cshape : list Z) (data : list A)
  : res store :=
  match chunk_metadata arr sl [] (Some cshape) hasobj false with
  | Err e => Err e
  | Ok (name, _) => Ok (upd (chunk_key name) (OChunk dt cshape data) st)
  end.

Definition get_chunk (st : store) (arr : str) (sl : slices) (dt : Z) (hasobj : bool) : res (list Z * list A) :=
  match chunk_metadata arr sl [] None false hasobj with
  | Err e => Err e
  | Ok (name, shape) =>
      match lookup (chunk_key name) st with
      | None => Err ENotFound
      | Some OMarker => Err EBadChunk
      | Some (OChunk dt' shape' data) =>
          if zs_eq_dec shape' shape then (if Z.eq_dec dt' dt then Ok (shape', data) else Err EBadChunk) else Err EBadChunk
      end
  end.

Definition mark_complete (st : store) (arr : str) : store := upd (marker_key arr) OMarker st.
Definition is_complete (st : store) (arr : str) : bool :=
  match lookup (marker_key arr) st with Some _ => true | None => false end.

(* ---------------- whole arrays: an array is its shape and an element function on global indices ------------- *)

Definition extract (f : list Z -> A) (sl : slices) : list A := map f (region_points sl).

(* element q (local index) of a chunk buffer of the given shape: position of q in the C-order enumeration *)
Definition chunk_at (d : A) (shape : list Z) (data : list A) (q : list Z) : A :=
  nth (index_of q (enumerate shape)) data d.

(* _put_map_blocks for one block: the offset shim is only installed for a non-empty offset *)
Definition put_block (f : list Z -> A) (arr : str) (dt : Z) (off : list Z) (st : store) (sl : slices) : store * option err :=
  let sl' := match off with [] => sl | _ => add_offset sl off end in
  match put_chunk st arr sl' dt false (slice_shape sl) (extract f sl) with
  | Ok st' => (st', None)
  | Err e => (st, Some e)          (* put_chunk_noraise *)
  end.

Fixpoint put_blocks (f : list Z -> A) (arr : str) (dt : Z) (off : list Z) (st : store) (bl : list slices)
  : store * list (option err) :=
  match bl with
  | [] => (st, [])
  | b :: t => let '(st1, r) := put_block f arr dt off st b in
              let '(st2, rs) := put_blocks f arr dt off st1 t in (st2, r :: rs)
  end.

(* put_dask_array(array_name, array, offset) with array = (f, chunks) *)
Definition put_array (st : store) (arr : str) (dt : Z) (f : list Z -> A) (chunks : list (list Z)) (off : list Z) :=
  put_blocks f arr dt off st (blocks chunks).

(* the getter shim is only installed if any(offset) *)
Definition get_slices (off : list Z) (sl : slices) : slices :=
  if existsb (fun o => negb (o =? 0)) off then add_offset sl off else sl.

(* errors='raise' (miss = None): get_chunk; errors=<value> (miss = Some v): get_chunk_or_default, which
   absorbs ChunkNotFound only *)
Definition get_chunk_or (miss : option A) (st : store) (arr : str) (sl : slices) (dt : Z) : res (list Z * list A) :=
  match get_chunk st arr sl dt false, miss with
  | Err ENotFound, Some v => Ok (slice_shape sl, repeat v (Z.to_nat (prodZ (slice_shape sl))))
  | r, _ => r
  end.

(* fetch a list of blocks (the first failure is the result) *)
Fixpoint fetch (miss : option A) (st : store) (arr : str) (dt : Z) (off : list Z) (bl : list slices)
  : res (list (slices * (list Z * list A))) :=
  match bl with
  | [] => Ok []
  | b :: t => match get_chunk_or miss st arr (get_slices off b) dt with
              | Err e => Err e
              | Ok c => match fetch miss st arr dt off t with Err e => Err e | Ok r => Ok ((b, c) :: r) end
              end
  end.

(* dask assembles the blocks: element p comes from the block containing p *)
Definition read_point (d : A) (fetched : list (slices * (list Z * list A))) (p : list Z) : A :=
  match find (fun bc => contains (fst bc) p) fetched with
  | Some (b, (shape, data)) => chunk_at d shape data (sub_point p b)
  | None => d
  end.

(* get_dask_array(array_name, chunks, dtype, offset).compute(): C-order buffer of the whole array *)
Definition get_array (d : A) (miss : option A) (st : store) (arr : str) (dt : Z) (chunks : list (list Z)) (off : list Z)
  : res (list A) :=
  match fetch miss st arr dt off (blocks chunks) with
  | Err e => Err e
  | Ok fetched => Ok (map (read_point d fetched) (enumerate (chunks_shape chunks)))
  end.

End Store.
Arguments obj A : clear implicits.
Arguments store A : clear implicits.

(* ------------------------------------------------------------------------------------------------ *)
(* Histories of chunk-level operations on a name-addressed store (NPY files, S3 objects)               *)

Section Hist.
Context {A : Type}.

Inductive hop := HPut (arr : str) (sl : slices) (dt : Z) (cshape : list Z) (data : list A) | HMark (arr : str).

(* put_chunk_noraise / mark_complete *)
Definition apply_hop (st : store A) (op : hop) : store A :=
  match op with
  | HPut arr sl dt cshape data =>
      match put_chunk st arr sl dt false cshape data with Ok st' => st' | Err _ => st end
  | HMark arr => mark_complete st arr
  end.
Definition run_hist (st : store A) (ops : list hop) : store A := fold_left apply_hop ops st.

(* SPEC: the last put_chunk in the history that was accepted (chunk shape = slice shape) and addressed the chunk name
   of (arr, starts) *)
Definition last_put_step (arr : str) (starts : list Z) (acc : option (Z * list Z * list A)) (op : hop)
  : option (Z * list Z * list A) :=
  match op with
  | HPut a s dt cshape data =>
      if zs_eq_dec cshape (slice_shape s)
      then (if str_eq_dec a arr then (if zs_eq_dec (map fst s) starts then Some (dt, cshape, data) else acc) else acc)
      else acc
  | HMark _ => acc
  end.
Definition last_put (arr : str) (starts : list Z) (ops : list hop) : option (Z * list Z * list A) :=
  fold_left (last_put_step arr starts) ops None.
(* what get_chunk(arr, sl, dt) must answer given that witness: shape and dtype of the request are checked against it *)
Definition hist_answer (dt : Z) (sl : slices) (w : option (Z * list Z * list A)) (dflt : res (list Z * list A))
  : res (list Z * list A) :=
  match w with
  | Some (dt', sh, data) =>
      if zs_eq_dec sh (slice_shape sl) then (if Z.eq_dec dt' dt then Ok (sh, data) else Err EBadChunk) else Err EBadChunk
  | None => dflt
  end.
Definition marked (arr : str) (ops : list hop) : bool :=
  existsb (fun op => match op with HMark a => if str_eq_dec a arr then true else false | HPut _ _ _ _ _ => false end) ops.

End Hist.

(* ------------------------------------------------------------------------------------------------ *)
(* _prune_chunks (per axis) and the pruned read                                                        *)

(* slice(start, stop).indices(n) for a unit step, followed by dask's normalize_index (stop := max start stop) *)
Definition norm_bound (n : Z) (o : option Z) (dflt : Z) : Z :=
  match o with
  | None => dflt
  | Some s => if s <? 0 then Z.max (s + n) 0 else Z.min s n
  end.
Definition norm_slice (n : Z) (ix : option Z * option Z) : Z * Z :=
  let s := norm_bound n (fst ix) 0 in (s, Z.max s (norm_bound n (snd ix) n)).

(* The two drop conditions cs_prune_front_drops / cs_prune_back_drops are re-translated from the while conditions of the
   source at every run (translator item item_prune_and_shims, which pins the rest of the body).
   first while loop: returns remaining chunks, start, stop, shape, offset.  `start_chunk < len(chunks[axis]) - 1`:
   the last remaining chunk is never dropped (katdal fix d72167c, finding C07-F2) *)
Fixpoint drop_front (cs : list Z) (start stop shape off : Z) : list Z * (Z * Z * Z * Z) :=
  match cs with
  | c :: ((_ :: _) as t) => if cs_prune_front_drops c start then drop_front t (start - c) (stop - c) (shape - c) (off + c)
                            else (cs, (start, stop, shape, off))
  | _ => (cs, (start, stop, shape, off))
  end.
(* second while loop, on the reversed list; `stop_chunk > start_chunk + 1`: at least one chunk is retained *)
Fixpoint drop_back (rcs : list Z) (stop shape : Z) : list Z :=
  match rcs with
  | c :: ((_ :: _) as t) => if cs_prune_back_drops c shape stop then drop_back t stop (shape - c) else rcs
  | _ => rcs
  end.

(* one axis: (chunks', (start', stop'), offset'); a full slice is skipped as in the source *)
Definition prune_axis (cs : list Z) (ix : Z * Z) : list Z * (Z * Z) * Z :=
  let n := sumZ cs in
  if (fst ix =? 0) && (snd ix =? n) then (cs, ix, 0) else
  let '(cs1, (start, stop, shape, off)) := drop_front cs (fst ix) (snd ix) n 0 in
  let cs2 := rev (drop_back (rev cs1) stop shape) in
  ((match cs2 with [] => [0] | _ => cs2 end), (start, stop), off).

Fixpoint prune (chunks : list (list Z)) (index : list (Z * Z)) : list (list Z * (Z * Z) * Z) :=
  match chunks, index with
  | cs :: t, ix :: u => prune_axis cs ix :: prune t u
  | cs :: t, [] => (cs, (0, sumZ cs), 0) :: prune t []
  | [], _ => []
  end.

(* normalize_index: missing trailing slices are full slices *)
Fixpoint norm_index (shape : list Z) (index : list (option Z * option Z)) : list (Z * Z) :=
  match shape, index with
  | n :: t, ix :: u => norm_slice n ix :: norm_index t u
  | n :: t, [] => (0, n) :: norm_index t []
  | [], _ => []
  end.

Definition overlaps (ix se : Z * Z) : bool := (fst se <? snd ix) && (fst ix <? snd se).

(* dask slicing of one axis: the blocks overlapping the slice; an empty selection still takes block 0 *)
Definition needed_axis (cs : list Z) (ix : Z * Z) : list (Z * Z) :=
  match filter (fun se => (fst se <? snd se) && overlaps ix se) (intervals 0 cs) with
  | [] => firstn 1 (intervals 0 cs)
  | l => l
  end.

Section PrunedRead.
Context {A : Type}.

(* get_dask_array(array_name, chunks, dtype, index=index).compute(): (requested slices, result buffer) *)
Definition get_array_index (d : A) (miss : option A) (st : store A) (arr : str) (dt : Z) (chunks : list (list Z))
           (index : list (option Z * option Z)) : list slices * res (list A) :=
  let pr := prune chunks (norm_index (chunks_shape chunks) index) in
  let chunks' := map (fun x => fst (fst x)) pr in
  let index' := map (fun x => snd (fst x)) pr in
  let off := map snd pr in
  let needed := cart (map (fun x => needed_axis (fst (fst x)) (snd (fst x))) pr) in
  (map (get_slices off) needed,
   match fetch miss st arr dt off needed with
   | Err e => Err e
   | Ok fetched => Ok (map (read_point d fetched) (region_points index'))
   end).

End PrunedRead.

(* SPEC of the pruned read: the selected elements and the blocks of the ORIGINAL chunking that overlap the selection *)
Definition spec_index_points (chunks : list (list Z)) (index : list (option Z * option Z)) : list (list Z) :=
  region_points (norm_index (chunks_shape chunks) index).
Fixpoint overlaps_all (ix sl : slices) : bool :=
  match ix, sl with
  | i :: t, s :: u => overlaps i s && overlaps_all t u
  | _, _ => true
  end.
Definition spec_requested (chunks : list (list Z)) (index : list (option Z * option Z)) : list slices :=
  filter (overlaps_all (norm_index (chunks_shape chunks) index)) (blocks chunks).

(* ------------------------------------------------------------------------------------------------ *)
(* generate_chunks.  max_elements = max_chunk_size / itemsize is the fraction mn / md (md > 0).        *)

Fixpoint set_nth (l : list Z) (i : nat) (v : Z) : list Z :=
  match l, i with
  | [], _ => []
  | _ :: t, O => v :: t
  | h :: t, S j => h :: set_nth t j v
  end.
Fixpoint lookup_nat (i : nat) (m : list (nat * Z)) : option Z :=
  match m with
  | [] => None
  | (k, v) :: t => if Nat.eqb i k then Some v else lookup_nat i t
  end.

(* _floor_power_of_two of a value whose floor is n >= 1 *)
Definition floor_pow2 (n : Z) : Z := 2 ^ Z.log2 n.

Definition cap_step (shape : list Z) (pow2 : bool) (mde : list (nat * Z)) (de : list Z) (i : nat) : list Z :=
  match lookup_nat i mde with
  | Some m => if m <? nth i shape 0 then set_nth de i (if pow2 then floor_pow2 m else m) else de
  | None => de
  end.
Definition cap_dims (shape : list Z) (dims : list nat) (pow2 : bool) (mde : list (nat * Z)) : list Z :=
  fold_left (cap_step shape pow2 mde) dims shape.

Definition target (shape de : list Z) (mn md : Z) (pow2 : bool) (d : nat) : Z :=
  let cur := prodZ de in
  let n := nth d de 0 * mn in         (* trg_elements_real = n / dn *)
  let dn := cur * md in
  if n <? dn then 1
  else if pow2 then floor_pow2 (n / dn)
  else let s := nth d shape 0 in
       let pieces := - ((- (s * dn)) / n) in      (* ceil(shape[dim] / trg_elements_real) *)
       s / pieces.

Fixpoint split_loop (shape de : list Z) (mn md : Z) (pow2 : bool) (dims : list nat) : list Z :=
  match dims with
  | [] => de
  | d :: t => if prodZ de * md <=? mn then de
              else split_loop shape (set_nth de d (target shape de mn md pow2 d)) mn md pow2 t
  end.

(* da.core.blockdims_from_blockshape for one axis *)
Definition blockdim (d bd : Z) : list Z :=
  if d =? 0 then [0] else
  repeat bd (Z.to_nat (d / bd)) ++ (if d mod bd =? 0 then [] else [d mod bd]).

Definition final_dim_elements (shape : list Z) (mn md : Z) (dims : list nat) (pow2 : bool) (mde : list (nat * Z)) : list Z :=
  split_loop shape (cap_dims shape dims pow2 mde) mn md pow2 dims.

Definition generate_chunks (shape : list Z) (mn md : Z) (dims : list nat) (pow2 : bool) (mde : list (nat * Z))
  : list (list Z) :=
  map (fun p => blockdim (fst p) (snd p)) (combine shape (final_dim_elements shape mn md dims pow2 mde)).

(* SPEC: the relation the property demands of a chunking scheme *)
Definition is_pow2 (x : Z) : bool := (0 <? x) && (x =? 2 ^ Z.log2 x).
Definition maxZ (l : list Z) : Z := fold_right Z.max 0 l.
Definition all_but_last {T} (l : list T) : list T := removelast l.
Definition mem_nat (i : nat) (l : list nat) : bool := existsb (Nat.eqb i) l.

Definition tiles_ok (shape : list Z) (out : list (list Z)) : bool :=
  (Nat.eqb (List.length out) (List.length shape))
  && forallb (fun p => (sumZ (snd p) =? fst p) && forallb (fun c => 0 <? c) (snd p)) (combine shape out).
Definition caps_ok (dims : list nat) (mde : list (nat * Z)) (out : list (list Z)) : bool :=
  forallb (fun i => match lookup_nat i mde with
                    | Some m => forallb (fun c => c <=? m) (nth i out [])
                    | None => true end) dims.
Definition pow2_ok (pow2 : bool) (out : list (list Z)) : bool :=
  negb pow2 || forallb (fun cs => forallb is_pow2 (all_but_last cs)) out.
Definition budget_ok (mn md : Z) (dims : list nat) (out : list (list Z)) : bool :=
  (prodZ (map maxZ out) * md <=? mn) || forallb (fun i => maxZ (nth i out []) =? 1) dims.
Definition unsplit_ok (dims : list nat) (out : list (list Z)) : bool :=
  forallb (fun i => mem_nat i dims || (List.length (nth i out []) <=? 1)%nat) (seq 0 (List.length out)).

Definition chunks_ok (shape : list Z) (mn md : Z) (dims : list nat) (pow2 : bool) (mde : list (nat * Z))
           (out : list (list Z)) : bool :=
  tiles_ok shape out && caps_ok dims mde out && pow2_ok pow2 out && budget_ok mn md dims out && unsplit_ok dims out.

(* domain of generate_chunks *)
Definition gc_domain (shape : list Z) (mn md : Z) (dims : list nat) (mde : list (nat * Z)) : bool :=
  forallb (fun s => 0 <? s) shape && (0 <? mn) && (0 <? md)
  && forallb (fun i => (i <? List.length shape)%nat) dims
  && forallb (fun kv => 0 <? snd kv) mde.

(* ------------------------------------------------------------------------------------------------ *)
(* _normalise_bucket_name on the path component of the URL                                             *)

Fixpoint lstrip_c (c : Z) (s : str) : str :=
  match s with
  | x :: t => if x =? c then lstrip_c c t else s
  | [] => []
  end.
(* s.split(c, 1): (first, Some rest) or (s, None) *)
Fixpoint split1 (c : Z) (s : str) : str * option str :=
  match s with
  | [] => ([], None)
  | x :: t => if x =? c then ([], Some t)
              else let '(a, r) := split1 c t in (x :: a, r)
  end.
Definition replace_c (a b : Z) (s : str) : str := map (fun x => if x =? a then b else x) s.
Definition normalise_path (p : str) : str :=
  let '(bucket, rest) := split1 47 (lstrip_c 47 p) in
  47 :: replace_c cs_bucket_from cs_bucket_to bucket ++ match rest with Some r => 47 :: r | None => [] end.
(* the key part of a path: everything after the bucket component *)
Definition path_key (p : str) : option str := snd (split1 47 (lstrip_c 47 p)).
Definition path_bucket (p : str) : str := fst (split1 47 (lstrip_c 47 p)).

(* ------------------------------------------------------------------------------------------------ *)
(* wire                                                                                                *)

Definition of_str (s : str) : sx := of_Zs s.
Definition err_code (e : err) : Z :=
  match e with ETypeError => 1 | EBadChunk => 2 | ENotFound => 3 | EIndex => 4 end.
Definition to_pairs (x : sx) : list (Z * Z) :=
  map (fun y => match y with L [I a; I b] => (a, b) | _ => (0, 0) end) (to_list x).
Definition of_pairs (l : list (Z * Z)) : sx := L (map (fun p => L [I (fst p); I (snd p)]) l).
Definition to_optpairs (x : sx) : list (option Z * option Z) :=
  map (fun y => match y with L [a; b] => (to_optZ a, to_optZ b) | _ => (None, None) end) (to_list x).
Definition to_Zss (x : sx) : list (list Z) := map to_Zs (to_list x).
Definition of_Zss (l : list (list Z)) : sx := L (map of_Zs l).
Definition to_mde (x : sx) : list (nat * Z) :=
  map (fun y => match y with L [I a; I b] => (Z.to_nat a, b) | _ => (O, 1) end) (to_list x).

(* label arrays: element value = C-order position *)
Fixpoint ravel (shape p : list Z) : Z :=
  match shape, p with
  | _ :: t, i :: q => i * prodZ t + ravel t q
  | _, _ => 0
  end.

Definition of_res_data (r : res (list Z)) : sx :=
  match r with Ok l => L [I 0; of_Zs l] | Err e => L [I (err_code e)] end.
Definition of_opt_err (o : option err) : sx := I (match o with None => 0 | Some e => err_code e end).

Definition store_keys (st : store Z) : sx := L (map (fun kv => of_str (fst kv)) st).

(* (1 arr slices steps cshape_opt cobj dobj)     -> (0 name shape) | (err)
   (2 arr chunks off_put off_get miss)            -> (put_results keys get_result)     full round trip
   (3 arr chunks index miss)                      -> (requested names result spec_requested spec_points_labels)
   (4 shape mn md dims pow2 mde out)              -> (model_chunks chunks_ok(out) chunks_ok(model) domain)
   (5 path)                                       -> (normalised  normalised_twice  key_before key_after)
   (6 w z)                                        -> (printed parsed)
   (7 arr ops) ops: (0 slices base) put_chunk of labels base+i | (1 slices) get | (2 name) mark | (3 name) is_complete
                                                  -> outputs and final keys *)
Definition to_miss (x : sx) : option Z := if to_bool x then Some (-1) else None.
Definition wire_rt (arr : str) (chunks : list (list Z)) (offp offg : list Z) (miss : option Z) : sx :=
  let shape := chunks_shape chunks in
  let f := ravel shape in
  let '(st, rs) := put_array [] arr 7 f chunks offp in
  L [L (map of_opt_err rs); store_keys st; of_res_data (get_array (-1) miss st arr 7 chunks offg)].

Definition wire_idx (arr : str) (chunks : list (list Z)) (index : list (option Z * option Z)) (miss : option Z) : sx :=
  let shape := chunks_shape chunks in
  let f := ravel shape in
  let '(st, _) := put_array [] arr 7 f chunks [] in
  let '(req, r) := get_array_index (-1) miss st arr 7 chunks index in
  L [L (map of_pairs req); L (map (fun sl => of_str (chunk_name arr (map fst sl))) req); of_res_data r;
     L (map of_pairs (spec_requested chunks index)); of_Zs (map f (spec_index_points chunks index))].

Fixpoint run_ops (st : store Z) (arr : str) (ops : list sx) : list sx * store Z :=
  match ops with
  | [] => ([], st)
  | op :: t =>
      let '(o, st') :=
        match op with
        | L [I 0; sl; cshape; I base] =>
            let n := Z.to_nat (prodZ (to_Zs cshape)) in
            match put_chunk st arr (to_pairs sl) 7 false (to_Zs cshape) (map (fun i => base + Z.of_nat i) (seq 0 n)) with
            | Ok st' => (L [I 0], st')
            | Err e => (L [I (err_code e)], st)
            end
        | L [I 1; sl] =>
            (match get_chunk st arr (to_pairs sl) 7 false with
             | Ok (shape, data) => L [I 0; of_Zs shape; of_Zs data]
             | Err e => L [I (err_code e)] end, st)
        | L [I 2; nm] => (L [I 0], mark_complete st (to_Zs nm))
        | L [I 3; nm] => (L [I 0; of_bool (is_complete st (to_Zs nm))], st)
        | _ => (sx_err, st)
        end in
      let '(os, st2) := run_ops st' arr t in (o :: os, st2)
  end.

Definition wire_7 (x : sx) : sx :=
  match x with
  | L [I 1; arr; sl; steps; cshape; cobj; dobj] =>
      match chunk_metadata (to_Zs arr) (to_pairs sl) (map to_optZ (to_list steps))
                           (match cshape with L [c] => Some (to_Zs c) | _ => None end) (to_bool cobj) (to_bool dobj) with
      | Ok (name, shape) => L [I 0; of_str name; of_Zs shape]
      | Err e => L [I (err_code e)]
      end
  | L [I 2; arr; chunks; offp; offg; miss] => wire_rt (to_Zs arr) (to_Zss chunks) (to_Zs offp) (to_Zs offg) (to_miss miss)
  | L [I 3; arr; chunks; index; miss] => wire_idx (to_Zs arr) (to_Zss chunks) (to_optpairs index) (to_miss miss)
  | L [I 4; shape; I mn; I md; dims; pow2; mde; out] =>
      let shape := to_Zs shape in let dims := to_nats dims in let pow2 := to_bool pow2 in let mde := to_mde mde in
      let m := generate_chunks shape mn md dims pow2 mde in
      L [of_Zss m; of_bool (chunks_ok shape mn md dims pow2 mde (to_Zss out));
         of_bool (chunks_ok shape mn md dims pow2 mde m); of_bool (gc_domain shape mn md dims mde)]
  | L [I 5; p] =>
      let p := to_Zs p in
      L [of_str (normalise_path p); of_str (normalise_path (normalise_path p));
         of_optZ None; L (match path_key p with Some k => [of_str k] | None => [] end);
         L (match path_key (normalise_path p) with Some k => [of_str k] | None => [] end)]
  | L [I 6; I w; I z] => L [of_str (fmt_index w z); I (parse_index (fmt_index w z))]
  | L [I 7; arr; ops] => let '(os, st) := run_ops [] (to_Zs arr) (to_list ops) in L [L os; store_keys st]
  | _ => sx_err
  end.
