(* C09: bearer tokens.  Model of chunkstore_s3.py: decode_jwt, _BearerAuth.__init__/__call__, _auth_factory, as a
   decision over the features of a token string that the code looks at, and of a token-authenticated request. *)
From Coq Require Import ZArith List Bool String.
From KV Require Import Base.Sx Base.Str Gen.Generated Model.S3Retry.
Import ListNotations.
Open Scope Z_scope.

Inductive expclaim :=
| ExpAbsent                (* no 'exp' claim: never expires *)
| ExpInt (v : Z)           (* int(claims['exp']) = v *)
| ExpInvalid.              (* int(...) raises ValueError / OverflowError *)

Record token := mkToken {
  t_nseg : Z;              (* len(token.split('.')) *)
  t_header_ok : bool;      (* jwt.get_unverified_header succeeds (base64url JSON object) *)
  t_alg : string;          (* header.get('alg'), "" if absent *)
  t_siglen : Z;            (* len(encoded_signature) *)
  t_claims_ok : bool;      (* jwt.decode(..., verify_signature=False) succeeds: payload and signature decodable *)
  t_exp : expclaim;
  t_has_prefix : bool;     (* 'prefix' in claims *)
  t_prefixes : list (list Z)   (* claims['prefix'] as lists of character codes *)
}.

Inductive reject :=
| NotThreeSegments | BadHeader | BadSigLength | BadClaims | BadExp | Expired | NoPrefix | NotHttps | OutOfScope.

(* decode_jwt: the checks in the order of the code; None = the claims are returned *)
Definition decode_jwt (t : token) (now : Z) : option reject :=
  if negb (t_nseg t =? 3) then Some NotThreeSegments
  else if negb (t_header_ok t) then Some BadHeader
  else if String.eqb (t_alg t) jwt_sig_alg && negb (t_siglen t =? jwt_sig_len) then Some BadSigLength
  else if negb (t_claims_ok t) then Some BadClaims
  else match t_exp t with
       | ExpInvalid => Some BadExp
       | ExpInt v => if now >? v then Some Expired else None
       | ExpAbsent => None
       end.

(* _BearerAuth.__init__ *)
Definition bearer_init (t : token) (now : Z) : option reject :=
  match decode_jwt t now with
  | Some r => Some r
  | None => if t_has_prefix t then None else Some NoPrefix
  end.

(* _auth_factory(url, token) *)
Definition auth_factory (scheme host : string) (t : token) (now : Z) : option reject :=
  if negb (String.eqb scheme jwt_scheme) && negb (String.eqb host jwt_host_exception) then Some NotHttps
  else bearer_init t now.

Fixpoint starts_with (pre s : list Z) : bool :=
  match pre, s with
  | [], _ => true
  | a :: p', b :: s' => (a =? b) && starts_with p' s'
  | _ :: _, [] => false
  end.
(* _BearerAuth.__call__ : run by requests while it prepares the request, before anything is sent *)
Definition bearer_call (t : token) (path : list Z) : option reject :=
  if existsb (fun pre => starts_with pre path) (t_prefixes t) then None else Some OutOfScope.

Definition reject_class (r : reject) : err := match r with NotHttps => Auth | _ => InvalidTok end.

(* S3ChunkStore(url, token=...).request(...) : store construction, then the request with the auth hook *)
Definition token_request (scheme host : string) (t : token) (now : Z) (path : list Z)
           (cfg : config) (p : proc) (len : nat) (fs : list outcome) : result * nat :=
  match auth_factory scheme host t now with
  | Some r => (Err (reject_class r), O)                 (* no store, nothing sent *)
  | None => match bearer_call t path with
            | Some r => (Err (reject_class r), O)       (* raised while preparing the request *)
            | None => request cfg p len [] fs
            end
  end.

(* ---------- SPEC: the tokens the property wants rejected ---------- *)
Definition bad_token (scheme host : string) (t : token) (now : Z) (path : list Z) : bool :=
  negb (t_nseg t =? 3)                                                   (* malformed / truncated: not three segments *)
  || negb (t_header_ok t) || negb (t_claims_ok t)                         (* malformed / corrupted *)
  || (String.eqb (t_alg t) "ES256" && negb (t_siglen t =? 86))            (* signature too short or too long *)
  || match t_exp t with ExpInvalid => true | ExpInt v => now >? v | ExpAbsent => false end   (* expired *)
  || negb (t_has_prefix t)                                                (* no scope at all *)
  || (negb (String.eqb scheme "https") && negb (String.eqb host "127.0.0.1"))   (* not over https *)
  || negb (existsb (fun pre => starts_with pre path) (t_prefixes t)).     (* out of scope *)


(* token.split(<sep>) on a token given as character codes; the separator is the one of the source (jwt_sep = 46 = '.') *)
Fixpoint split_dots (s : list Z) : list (list Z) :=
  match s with
  | [] => [[]]
  | c :: t => if c =? jwt_sep then [] :: split_dots t
              else match split_dots t with [] => [[c]] | x :: r => (c :: x) :: r end
  end.
Definition nodot (s : list Z) : bool := forallb (fun c => negb (c =? jwt_sep)) s.

(* ---------- wire ---------- *)
Definition to_exp (x : sx) : expclaim :=
  match x with L [] => ExpAbsent | L (I v :: _) => ExpInt v | _ => ExpInvalid end.
Definition to_token (x : sx) : token :=
  match x with
  | L [I n; h; alg; I sl; c; e; hp; pres] =>
      mkToken n (to_bool h) (to_string alg) sl (to_bool c) (to_exp e) (to_bool hp) (map to_Zs (to_list pres))
  | _ => mkToken 0 false "" 0 false ExpAbsent false []
  end.
Definition of_reject (r : option reject) : Z :=
  match r with
  | None => 0
  | Some NotThreeSegments => 1 | Some BadHeader => 2 | Some BadSigLength => 3 | Some BadClaims => 4
  | Some BadExp => 5 | Some Expired => 6 | Some NoPrefix => 7 | Some NotHttps => 8 | Some OutOfScope => 9
  end.

(* (scheme host token now path cfg segs fs) -> (model_result requests bad_token reject_code) *)
Definition wire_91 (x : sx) : sx :=
  match x with
  | L [sch; host; tok; I now; path; cfg; segs; fs] =>
      let sch := to_string sch in
      let host := to_string host in
      let t := to_token tok in
      let segs := to_nats segs in
      let len := fold_right Nat.add O segs in
      let '(res, n) := token_request sch host t now (to_Zs path) (to_config cfg) (PChunk segs) len (to_outcomes fs) in
      L [of_result res; of_nat n; of_bool (bad_token sch host t now (to_Zs path));
         I (of_reject (match auth_factory sch host t now with Some r => Some r | None => bearer_call t (to_Zs path) end))]
  | _ => sx_err
  end.
