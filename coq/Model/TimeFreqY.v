(* C17 (third round): three more paths from the public API down to the modelled core.
   (1) THE DATES OF THE FIX RULE.  `_before(date)` of VisibilityDataV4.__init__ reads its date with
       calendar.timegm(time.strptime(date, '%Y-%m-%d')) (generated: fix_date_texts, fix_date_format; the translator
       refuses any other reading).  MODEL: parse_date (strptime for the all-digit form YYYY-MM-DD), days_from_civil
       (the proleptic Gregorian day count timegm uses), utc_midnight.  The reading through katpoint.Timestamp(<string>) the code
       used before the repair of C17-F2 (ephem date -> time.mktime(fields) - time.timezone) is kept as legacy_midnight: it is
       UTC midnight only while the zone of the process has TODAY the standard offset it had ON THAT DATE.
   (2) NUMERIC SENSORS OF A PRESELECTED DATA SET, on top of C12's extraction model (Model/Interp.v, Model/SensorCache.v,
       imported unchanged): the getter holds the history telstate returns for get_range(name, st = gen_sensor_range_start)
       (nothing of the preselection reaches it: translator item_v4_sensors), and SensorCache interpolates it onto
       source.timestamps as __init__ left them (gen_v4_sensor_cache_args), i.e. onto model_timestamp tm a i.
   (3) katdal.open([file, ...], preselect=...): the key test of the list branch (open_concat_keys), then the SAME keyword
       arguments handed to every file in order (item_open fixes that loop); the first refusing file ends the open. *)
From Coq Require Import ZArith QArith List Bool String Ascii.
From KV Require Import Base.Sx Base.Str Gen.Generated Model.Interp Model.SensorCache
                       Model.TimeFreq Model.TimeFreqPre Model.TimeFreqX.
Import ListNotations.
Open Scope Q_scope.

(* ================================================================ (1) dates *)
Definition digit (c : ascii) : option Z :=
  let n := Z.of_N (N_of_ascii c) in if ((48 <=? n) && (n <=? 57))%Z then Some (n - 48)%Z else None.
Fixpoint digits (l : list ascii) (acc : Z) : option Z :=
  match l with
  | [] => Some acc
  | c :: r => match digit c with Some d => digits r (10 * acc + d)%Z | None => None end
  end.
Definition leap (y : Z) : bool := ((y mod 4 =? 0) && (negb (y mod 100 =? 0) || (y mod 400 =? 0)))%Z.
Definition days_in_month (y m : Z) : Z :=
  if (m =? 2)%Z then (if leap y then 29 else 28)%Z
  else if ((m =? 4) || (m =? 6) || (m =? 9) || (m =? 11))%Z then 30%Z else 31%Z.
Definition valid_date (y m d : Z) : bool :=
  ((1 <=? y) && (1 <=? m) && (m <=? 12) && (1 <=? d) && (d <=? days_in_month y m))%Z.
(* time.strptime(s, '%Y-%m-%d') for a text of the form DDDD-DD-DD; ValueError (None) for an impossible date *)
Definition parse_date (s : string) : option (Z * Z * Z) :=
  match list_ascii_of_string s with
  | [y1; y2; y3; y4; h1; m1; m2; h2; d1; d2] =>
      if (Ascii.eqb h1 "-" && Ascii.eqb h2 "-")%bool then
        match digits [y1; y2; y3; y4] 0, digits [m1; m2] 0, digits [d1; d2] 0 with
        | Some y, Some m, Some d => if valid_date y m d then Some (y, m, d) else None
        | _, _, _ => None
        end
      else None
  | _ => None
  end.
(* days since 1970-01-01 in the proleptic Gregorian calendar (what calendar.timegm counts) *)
Definition days_from_civil (y m d : Z) : Z :=
  (let y' := if m <=? 2 then y - 1 else y in
   let era := y' / 400 in
   let yoe := y' - era * 400 in
   let mp := (m + 9) mod 12 in
   let doy := (153 * mp + 2) / 5 + d - 1 in
   let doe := yoe * 365 + yoe / 4 - yoe / 100 + doy in
   era * 146097 + doe - 719468)%Z.
Definition timegm_date (ymd : Z * Z * Z) : Z := let '(y, m, d) := ymd in (86400 * days_from_civil y m d)%Z.
(* calendar.timegm(time.strptime(text, '%Y-%m-%d')) *)
Definition utc_midnight (s : string) : option Z := option_map timegm_date (parse_date s).

(* SPEC of the calendar, independent of days_from_civil: the day after (y, m, d) *)
Definition next_day (ymd : Z * Z * Z) : Z * Z * Z :=
  let '(y, m, d) := ymd in
  if (d <? days_in_month y m)%Z then (y, m, d + 1)%Z else if (m <? 12)%Z then (y, m + 1, 1)%Z else (y + 1, 1, 1)%Z.

(* katpoint.Timestamp(text).secs as the code read the dates before C17-F2 was repaired: time.mktime(fields, isdst = 0)
   - time.timezone.  west_then = seconds west of UTC of the zone's standard time ON THE DATE, west_now = time.timezone
   (the standard offset of the CURRENT year) *)
Definition legacy_midnight (west_then west_now : Z) (s : string) : option Z :=
  option_map (fun u => u + west_then - west_now)%Z (utc_midnight s).
(* the decision of the rule with the dates moved by what such a reading adds *)
Definition legacy_rule (west_then west_now : Z) (c : Q) (cmc2 cbf4k : bool) : bool :=
  fix_rule (fun d => Qltb c (inject_Z (d + west_then - west_now))) cmc2 cbf4k.
Definition utc_rule (c : Q) (cmc2 cbf4k : bool) : bool := fix_rule (fun d => Qltb c (inject_Z d)) cmc2 cbf4k.

(* the correction a data set receives (what is subtracted from every one of its timestamps) *)
Definition model_correction (tm : timing) (a : Z) : Q := t_off tm - model_time_offset tm a.

(* ================================================================ (2) sensors *)
Definition q_range_start : Q := inject_Z gen_sensor_range_start.
(* telstate.get_range(name, st): every record at or after st (include_previous is False when st is given) *)
Definition fetch_history (st : Q) (h : list sample) : list sample := filter (fun s => Qle_bool st (s_t s)) h.
Definition v4_getter (dt : dtype) (status : bool) (h : list sample) : getter :=
  mkG dt status (fetch_history q_range_start h).
(* source.timestamps of a data set opened with preselect dumps = a:a+n *)
Definition ds_stamps (tm : timing) (a n : Z) : list Q := map (model_timestamp tm a) (zrange 0 (Z.to_nat n)).
Definition v4_sensor (tm : timing) (a n : Z) (g : getter) (p : props) : xres := extract_sensor g (ds_stamps tm a n) p.
(* select(dumps = slice(a, a + n)) on the values of the whole data set *)
Definition xres_cut (a n : nat) (r : xres) : xres :=
  match r with XVals l => XVals (slice a (a + n) l) | _ => r end.
(* what a getter restricted to the preselected time range would hold (NOT what the code does) *)
Definition v4_getter_cut (dt : dtype) (status : bool) (from : Q) (h : list sample) : getter :=
  mkG dt status (fetch_history from h).

(* ================================================================ (3) a list of files *)
Inductive opened_list := LErr (code : Z) | LOk (ds : list v4ds).
Fixpoint open_each (srcs : list v4src) (po : option presel) : opened_list :=
  match srcs with
  | [] => LOk []
  | s :: r => match open_v4 s po with
              | OErr c => LErr c
              | ODs d => match open_each r po with LErr c => LErr c | LOk l => LOk (d :: l) end
              end
  end.
(* code 4: IndexError of katdal.open itself, before any file is opened *)
Definition open_list (srcs : list v4src) (po : option presel) : opened_list :=
  if forallb (key_ok open_concat_keys) (the_dict po) then open_each srcs po else LErr 4.

(* ================================================================ wire *)
Definition of_qn' (o : qn) : sx := match o with Some q => L [TimeFreq.of_Q q] | None => L [] end.
Definition of_xres' (r : xres) : sx :=
  match r with XVals l => L [I 0%Z; L (map of_qn' l)] | XCat _ => L [I 1%Z] | XErr => L [I 2%Z] end.
Definition to_sample (x : sx) : sample :=
  match x with L [t; v] => mkS (TimeFreq.to_Q t) (TimeFreq.to_Q v) "" | _ => mkS 0 0 "" end.
Definition of_oZ (o : option Z) : sx := match o with Some z => L [I z] | None => L [] end.
Definition of_ds (s : v4src) (d : v4ds) : sx :=
  L [I (o_a d); I (o_n d); of_spw (o_spw d); of_bool (o_fallback d); L (map of_win (o_index d));
     L (map TimeFreq.of_Q (freqs_full (o_spw d)));
     L (map (fun i => TimeFreq.of_Q (model_timestamp (x_tm s) (o_a d) i)) (zrange 0 (Z.to_nat (o_n d))))].

(* (1 timing a n T history offset?) -> (sensor of the preselected data set, cut a:a+n of the sensor of the whole one,
                                         sensor from a history fetched from the first preselected timestamp only)
   (2 text west_then west_now)     -> (utc_midnight, legacy_midnight)
   (3 (src ...) preselect)         -> (code) | ((a n spw fallback index freqs timestamps) per file) *)
Definition wire_175 (x : sx) : sx :=
  match x with
  | L [I 1; tm; I a; I n; I T; hist; off] =>
      let tm := to_timing tm in
      let h := map to_sample (to_list hist) in
      let p := mkP (TimeFreq.to_optQ off) None None in
      let g := v4_getter DFloat false h in
      L [of_xres' (v4_sensor tm a n g p);
         of_xres' (xres_cut (Z.to_nat a) (Z.to_nat n) (v4_sensor tm 0 T g p));
         of_xres' (v4_sensor tm a n (v4_getter_cut DFloat false (model_timestamp tm a 0) h) p)]
  | L [I 2; s; I wt; I wn] =>
      L [of_oZ (utc_midnight (to_string s)); of_oZ (legacy_midnight wt wn (to_string s))]
  | L [I 3; srcs; p] =>
      let ss := map to_src (to_list srcs) in
      match open_list ss (to_opresel p) with
      | LErr c => L [I c]
      | LOk ds => L (map (fun sd => of_ds (fst sd) (snd sd)) (combine ss ds))
      end
  | _ => sx_err
  end.
