(* C06: model of katdal/chunkstore.py:_prune_chunks (one axis at a time) and of the unit-step slicing that
   ChunkStore.get_dask_array applies afterwards (`array[index]`).

   _prune_chunks, per axis with a non-trivial slice (start, stop) (already normalised by slice.indices):

        start_chunk = 0
        while start_chunk < len(chunks) - 1 and chunks[start_chunk] <= start:
            c = chunks[start_chunk]; offset += c; start -= c; stop -= c; shape -= c; start_chunk += 1
        stop_chunk = len(chunks)
        while stop_chunk > start_chunk + 1 and chunks[stop_chunk - 1] <= shape - stop:
            stop_chunk -= 1; c = chunks[stop_chunk]; shape -= c
        chunks = chunks[start_chunk:stop_chunk]
        if not chunks: chunks = (0,)
        index = slice(start, stop)

   (the loop guards keep the last remaining chunk: fix of finding C06-F1; before the fix they were
   `start_chunk < len(chunks)` and `stop_chunk > start_chunk`.)
   The index-walking loops become structural recursion over the chunk list (front loop) and over the
   reversed remaining list (back loop): one step per loop iteration, at most len(chunks) steps each. *)
From Coq Require Import ZArith List Bool.
Import ListNotations.
Open Scope Z_scope.

Definition zsum (l : list Z) : Z := fold_right Z.add 0 l.

(* first while loop; returns (remaining chunks, start, stop, shape, offset) *)
Definition more (t : list Z) : bool := match t with [] => false | _ => true end.   (* guard: not the last chunk left *)

Fixpoint prune_front (cs : list Z) (start stop shape off : Z) : list Z * Z * Z * Z * Z :=
  match cs with
  | c :: t => if more t && (c <=? start) then prune_front t (start - c) (stop - c) (shape - c) (off + c)
              else (cs, start, stop, shape, off)
  | [] => ([], start, stop, shape, off)
  end.

(* second while loop, walking the reversed list; returns (remaining reversed chunks, shape) *)
Fixpoint prune_back (rcs : list Z) (stop shape : Z) : list Z * Z :=
  match rcs with
  | c :: t => if more t && (c <=? shape - stop) then prune_back t stop (shape - c) else (rcs, shape)
  | [] => ([], shape)
  end.

(* the loops proper: (kept chunks (possibly empty), start', stop', offset) *)
Definition prune_core (cs : list Z) (start stop : Z) : list Z * Z * Z * Z :=
  let '(cs1, start1, stop1, shape1, off) := prune_front cs start stop (zsum cs) 0 in
  let '(rcs2, _) := prune_back (rev cs1) stop1 shape1 in
  (rev rcs2, start1, stop1, off).

(* an axis whose index is slice(None) is skipped (`continue`) *)
Definition prune_axis (cs : list Z) (w : option (Z * Z)) : list Z * Z * Z * Z :=
  match w with
  | None => (cs, 0, zsum cs, 0)
  | Some (start, stop) =>
      let '(cs2, start1, stop1, off) := prune_core cs start stop in
      (match cs2 with [] => [0] | _ => cs2 end, start1, stop1, off)
  end.

(* dask's `array[slice(start, stop)]` on one axis: the blocks that overlap the slice, each as
   (index of the block in the unsliced array, first kept local position, kept size). *)
Fixpoint slice_axis (cs : list Z) (k : nat) (start stop : Z) : list (nat * Z * Z) :=
  match cs with
  | [] => []
  | c :: t =>
      let lo := Z.max 0 start in
      let hi := Z.min c stop in
      (if lo <? hi then [(k, lo, hi - lo)] else []) ++ slice_axis t (S k) (start - c) (stop - c)
  end.

(* start coordinate of chunk number k *)
Definition cstart (cs : list Z) (k : nat) : Z := zsum (firstn k cs).

(* (chunk number, local position) of element x; counting chunks from i *)
Fixpoint loc (l : list Z) (i : nat) (x : Z) : nat * Z :=
  match l with
  | [] => (i, x)
  | c :: t => if x <? c then (i, x) else loc t (S i) (x - c)
  end.

(* what ChunkStore.get_dask_array(name, chunks, index=(slice(lo,hi),...)) builds on one axis *)
Record axis := { ax_chunks : list Z;                 (* pruned chunk spec handed to da.from_array *)
                 ax_off : Z;                         (* offset added when addressing the store *)
                 ax_blocks : list (nat * Z * Z) }.   (* blocks of the sliced dask array *)

Definition mk_axis (cs : list Z) (w : option (Z * Z)) : axis :=
  let '(cs', start', stop', off) := prune_axis cs w in
  {| ax_chunks := cs'; ax_off := off; ax_blocks := slice_axis cs' 0 start' stop' |}.

Definition blk_size (b : nat * Z * Z) : Z := snd b.
Definition ax_sizes (a : axis) : list Z := map blk_size (ax_blocks a).     (* = darray.chunks[axis] *)
Definition dflt_blk : nat * Z * Z := (0%nat, 0, 0).
(* start coordinate (in the stored array) of the stored chunk behind block j: this is the chunk's identity *)
Definition ax_id (a : axis) (j : nat) : Z :=
  let '(k, _, _) := nth j (ax_blocks a) dflt_blk in ax_off a + cstart (ax_chunks a) k.
(* stored coordinate of local element q of block j *)
Definition ax_src (a : axis) (jq : nat * Z) : Z :=
  let '(k, lo, _) := nth (fst jq) (ax_blocks a) dflt_blk in ax_off a + cstart (ax_chunks a) k + lo + snd jq.

(* spec side: first coordinate of a window, and start coordinate of the chunk that covers element x *)
Definition wlo (w : option (Z * Z)) : Z := match w with Some (lo, _) => lo | None => 0 end.
Definition chunk_start (cs : list Z) (x : Z) : Z := cstart cs (fst (loc cs 0 x)).
(* a normalised, non-empty window of an axis with chunks cs, and its size *)
Definition win_ok (cs : list Z) (w : option (Z * Z)) : Prop :=
  match w with None => True | Some (lo, hi) => 0 <= lo /\ lo < hi /\ hi <= zsum cs end.
Definition wsize (cs : list Z) (w : option (Z * Z)) : Z :=
  match w with None => zsum cs | Some (lo, hi) => hi - lo end.
