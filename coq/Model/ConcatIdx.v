(* C05: model of katdal.concatdata.ConcatenatedLazyIndexer (fix-C05 branch) and the spec
   "the same index applied to the concatenation of the parts".

   Parts are LazyIndexers without transforms of their own (each with its own dataset, dtype and
   first-stage selection); the concatenated indexer may carry a transform chain.
   __init__     -> [c_mk]: parts with no data on the first axis are dropped (the first is kept
                   when all are empty), tail shapes must agree and the dtypes must be all equal or all
                   byte strings (then the widest), ConcatenationError otherwise ([c_initial_dtype] =
                   LazyDType.common_dtype)
   dtypes       -> every part answers in its own dtype; the result is delivered in _initial_dtype [dt]
                   (fix-C05r: the integer-sequence buffer is np.empty(..., dtype=self._initial_dtype) and the
                   other branches end in .astype(self._initial_dtype)).  The model casts every part's answer
                   to [dt] where it enters the result ([part_get dt], [astype]); np.concatenate's own
                   promotion of the visited chunks followed by that astype is one such cast per chunk
                   (both are value-preserving widenings, LazyDType.promote_cast_id / cast_widen).
   __getitem__  -> [c_getitem]: scalar head (normalised, range-checked, routed with
                   find_indexer), slice head (per-part chunk_start with the
                   (start - offset) mod stride phase, stop = max(start, stop), chunk_stop = stop - offset,
                   reshape to the explicit chunk length, np.concatenate; negative strides rejected), boolean-mask head (mask partitioned over the parts),
                   integer-sequence head (negatives normalised, rows scattered into a
                   pre-allocated output part by part).
   Python's negative list index on `self.indexers[ind]` (reachable with negative strides) is
   modelled by [py_nth]. *)
From Coq Require Import ZArith List Bool.
From KV Require Import Base.Sx Base.PySlice Base.AxisIndex Base.NdArray Base.LazyDType Gen.Generated Model.LazyIdx.
Import ListNotations.
Open Scope Z_scope.

Record craw := mk_craw { r_shape : list Z; r_keep : list aidx; r_ds : tree; r_dt : Z }.
Record cpart := mk_cpart { cp_li : lazyidx; cp_ds : tree }.
Record concat := mk_concat { c_parts : list cpart; c_ts : list tr }.

Definition part_len (p : cpart) : Z := hd 0 (initial_shape (cp_li p)).
Definition part_tail (p : cpart) : list Z := tl (initial_shape (cp_li p)).

Fixpoint list_eqb (a b : list Z) : bool :=
  match a, b with
  | [], [] => true
  | x :: a', y :: b' => (x =? y) && list_eqb a' b'
  | _, _ => false
  end.

Definition zsum (l : list Z) : Z := fold_right Z.add 0 l.

(* _initial_shape / _initial_dtype of the concatenation *)
Definition c_initial_shape (ps : list cpart) : res (list Z) :=
  match ps with
  | [] => Err
  | p :: r => if forallb (fun q => list_eqb (part_tail q) (part_tail p)) r
              then Ok (zsum (map part_len ps) :: part_tail p) else Err
  end.
Definition part_dtype (p : cpart) : Z := li_dtype0 (cp_li p).
Definition c_initial_dtype (ps : list cpart) : res Z := common_dtype (map part_dtype ps).

Definition c_shape (c : concat) : res (list Z) :=
  init <- c_initial_shape (c_parts c) ;;
  let new := fold_left (fun sh t => tr_new_shape t sh) (c_ts c) init in
  let head := firstn (List.length init) new in
  if negb (Nat.eqb (List.length head) 0) && is_prefix head init then Ok new else Err.
Definition c_dtype (c : concat) : res Z :=
  d <- c_initial_dtype (c_parts c) ;; Ok (fold_left (fun dt t => tr_dtype t dt) (c_ts c) d).

Definition c_mk (raws : list craw) (ts : list tr) : res concat :=
  ps <- mapM (fun r => li <- mk_lazy (r_shape r) (r_keep r) [] (r_dt r) ;; Ok (mk_cpart li (r_ds r))) raws ;;
  let ne := filter (fun p => concat_part_kept (part_len p)) ps in     (* `if indexer.shape[0]` (generated) *)
  let used := match ne with [] => firstn 1 ps | _ => ne end in
  let c := mk_concat used ts in
  _ <- c_shape c ;; _ <- c_dtype c ;; Ok c.

(* indexer_starts = cumsum([0] + lens[:-1]) *)
Fixpoint starts_from (off : Z) (lens : list Z) : list Z :=
  match lens with [] => [] | n :: r => off :: starts_from (off + n) r end.
(* indexer_starts.searchsorted(index, side='right') - 1: the side and the adjustment are generated from the source *)
Definition find_indexer (starts : list Z) (index : Z) : Z :=
  concat_find_indexer (zlen (filter (fun s => concat_searchsorted_before s index) starts)).

(* Python list indexing with a possibly negative integer *)
Definition py_nth {A} (l : list A) (i : Z) : res A :=
  match wrap (zlen l) i with
  | Some p => match nth_error l (Z.to_nat p) with Some x => Ok x | None => Err end
  | None => Err
  end.

Definition is_scalar (ix : aidx) : bool := match ix with AInt _ => true | _ => false end.

(* before the repair of F10b: .reshape([-1] + shape_tails), the identity, impossible when a tail dimension is empty
   (numpy cannot infer the -1).  Kept for C05_concat_empty_tail_refuted_before_fix only. *)
Definition reshape_chunk_before_fix (shape_tails : list Z) (x : arr) : res arr :=
  if existsb (fun d => d =? 0) shape_tails then Err else Ok x.

(* chunk.reshape([len(chunk)] + shape_tails) (repair of F10b: the explicit number of rows instead of -1): the identity
   on the answer of a part, which has the shape [rows] + shape_tails (parts of the model carry no chain of their own) *)
Definition reshape_chunk (shape_tails : list Z) (x : arr) : res arr := Ok x.

(* np.concatenate(chunks) *)
Definition concat_chunks (dt : Z) (shape_tails : list Z) (chunks : list arr) : res arr :=
  match chunks with
  | [] => Err                                 (* need at least one array to concatenate *)
  | _ => Ok (mk_arr dt (mk_nd (zsum (map (fun x => hd 0 (nd_shape (a_nd x))) chunks) :: shape_tails)
                              (cat (map (fun x => nd_body (a_nd x)) chunks))))
  end.

(* x.astype(dt) / assignment of x into an array of dtype dt *)
Definition astype (dt : Z) (x : arr) : arr :=
  mk_arr dt (mk_nd (nd_shape (a_nd x)) (tree_map (cast_val (a_dtype x) dt) (nd_body (a_nd x)))).

(* the answer of one part (in its own dtype) and the same as it enters the result of dtype [dt] *)
Definition part_get0 (p : cpart) (ixs : list aidx) : res arr := getitem (cp_li p) (cp_ds p) ixs.
Definition part_get (dt : Z) (p : cpart) (ixs : list aidx) : res arr := sub <- part_get0 p ixs ;; Ok (astype dt sub).

Definition zslice {A} (l : list A) (a b : Z) : list A := firstn (Z.to_nat (b - a)) (skipn (Z.to_nat a) l).

(* rows scattered into the pre-allocated output of the integer-sequence branch *)
Fixpoint scatter (out : list (option tree)) (inds : list Z) (ind : Z) (rows : list tree) : res (list (option tree)) :=
  match out, inds with
  | o :: out', i :: inds' =>
      if i =? ind then
        match rows with
        | [] => Err
        | r :: rows' => t <- scatter out' inds' ind rows' ;; Ok (Some r :: t)
        end
      else t <- scatter out' inds' ind rows ;; Ok (o :: t)
  | [], [] => match rows with [] => Ok [] | _ => Err end
  | _, _ => Err
  end.

Fixpoint scatter_parts (dt : Z) (ps : list cpart) (ind : Z) (starts : list Z) (head : list Z) (inds : list Z)
         (tail : list aidx) (out : list (option tree)) : res (list (option tree)) :=
  match ps, starts with
  | p :: ps', off :: starts' =>
      let mask := map (fun i => i =? ind) inds in
      out' <- (if existsb (fun b => b) mask
               then sub <- part_get dt p (AList (map (fun z => concat_local_list z off) (select mask head)) :: tail) ;;
                    scatter out inds ind (children (nd_body (a_nd sub)))
               else Ok out) ;;
      scatter_parts dt ps' (ind + 1) starts' head inds tail out'
  | _, _ => Ok out
  end.

(* one chunk of the slice branch: indexer [ind] asked for slice(chunk_start, chunk_stop, stride); chunk_start and
   chunk_stop are the expressions of the source (generated) *)
Definition slice_chunk (dt : Z) (ps : list cpart) (starts : list Z) (tail : list aidx) (shape_tails : list Z)
           (start stop stride : Z) (ind : Z) : res arr :=
  p <- py_nth ps ind ;; off <- py_nth starts ind ;;
  let cs := concat_chunk_start start stop off stride in
  sub <- part_get dt p (ASlice (Some cs) (Some (concat_chunk_stop start stop off stride)) (Some stride) :: tail) ;;
  reshape_chunk shape_tails sub.

(* the loop over the indexers that overlap the slice: an indexer from which nothing is selected is skipped once a
   chunk exists (`if chunks and chunk_start >= chunk_stop: continue`, generated) *)
Fixpoint slice_chunks (dt : Z) (ps : list cpart) (starts : list Z) (tail : list aidx) (shape_tails : list Z)
         (start stop stride : Z) (have_chunks : bool) (inds : list Z) : res (list arr) :=
  match inds with
  | [] => Ok []
  | ind :: r =>
      off <- py_nth starts ind ;;
      if concat_chunk_skipped have_chunks (concat_chunk_start start stop off stride) (concat_chunk_stop start stop off stride)
      then slice_chunks dt ps starts tail shape_tails start stop stride have_chunks r
      else c <- slice_chunk dt ps starts tail shape_tails start stop stride ind ;;
           rest <- slice_chunks dt ps starts tail shape_tails start stop stride true r ;;
           Ok (c :: rest)
  end.

(* one chunk of the mask branch: the part of the mask that covers indexer (p, off, len) *)
Definition mask_chunk (dt : Z) (m : list bool) (tail : list aidx) (shape_tails : list Z) (q : cpart * Z * Z) : res arr :=
  sub <- part_get dt (fst (fst q)) (AMask (zslice m (snd (fst q)) (snd (fst q) + snd q)) :: tail) ;;
  reshape_chunk shape_tails sub.

Definition c_head (ps : list cpart) (dt total : Z) (S : list sel) (head : aidx) (tail : list aidx) : res arr :=
  let shape_tails := take_shape S in
  let lens := map part_len ps in
  let starts := starts_from 0 lens in
  match head with
  | AInt z =>
      let z' := concat_norm_scalar total z in
      if concat_scalar_rejected total z' then Err else
        let ind := find_indexer starts z' in
        p <- py_nth ps ind ;; off <- py_nth starts ind ;;
        part_get dt p (AInt (concat_local_scalar z' off) :: tail)
  | ASlice a b cc =>
      match slice_indices total a b cc with
      | None => Err
      | Some (start, stop, stride) =>
          if concat_stride_rejected stride then Err else
          (* repair of F10: `stop = max(start, stop)` (generated) - a slice that ends before it starts is the empty
             slice [start:start], so the range of indexers below is never empty *)
          let stop := concat_slice_stop start stop in
          chunks <- slice_chunks dt ps starts tail shape_tails start stop stride false
                      (py_range (concat_first_indexer (find_indexer starts start) (find_indexer starts stop))
                                (concat_end_indexer (find_indexer starts start) (find_indexer starts stop)) 1) ;;
          concat_chunks dt shape_tails chunks
      end
  | AMask m =>
      if zlen m =? total then
        chunks <- mapM (mask_chunk dt m tail shape_tails) (combine (combine ps starts) lens) ;;
        concat_chunks dt shape_tails chunks
      else Err
  | AList l =>
      _ <- mapM (wrap_res total) l ;;                           (* final_shape: np.arange(total)[l] *)
      let l' := map (concat_norm_list total) l in
      let inds := map (find_indexer starts) l' in
      rows <- scatter_parts dt ps 0 starts l' inds tail (repeat None (List.length l)) ;;
      rows' <- mapM (fun o => match o with Some t => Ok t | None => Err end) rows ;;
      Ok (mk_arr dt (mk_nd (zlen l :: shape_tails) (Node rows')))
  end.

Definition c_getitem (c : concat) (ixs : list aidx) : res arr :=
  let ps := c_parts c in
  init <- c_initial_shape ps ;;
  dt <- c_initial_dtype ps ;;
  match pad_to (List.length init) ixs, init with
  | head :: tail, total :: tdims =>
      (* shape_tails: every tail index is evaluated on its axis, scalar-indexed axes are then dropped *)
      S <- mapM (fun p => resolve (fst p) (snd p)) (combine tdims tail) ;;
      out <- c_head ps dt total S head tail ;;
      apply_transforms (c_ts c) out
  | _, _ => Err
  end.

(* ---------------------------------------------------------------- SPEC *)

(* np.concatenate (first axis) of the parts' first-stage results, indexed once, transformed.
   Parts without rows contribute neither rows, tail shape nor dtype (convention of the indexer: they are dropped
   at construction).  The dtype is numpy's promotion of the dtypes of the parts with rows ([promote_all]); the
   values need no cast because every cast to a promoted dtype keeps the value (LazyDType.promote_cast_id). *)
Definition spec_concat (raws : list craw) (ts : list tr) (ixs : list aidx) : res arr :=
  fulls <- mapM (fun r => oindex_keep (mk_nd (r_shape r) (r_ds r)) (r_keep r)) raws ;;
  let fd := combine fulls (map r_dt raws) in
  let ne := filter (fun q : nd * Z => negb (hd 0 (nd_shape (fst q)) =? 0)) fd in
  match (match ne with [] => firstn 1 fd | _ => ne end) with
  | [] => Err
  | (a, d) :: rest =>
      dt <- promote_all (d :: map snd rest) ;;
      let whole := mk_nd (zsum (map (fun a => hd 0 (nd_shape a)) fulls) :: tl (nd_shape a))
                         (cat (map nd_body fulls)) in
      r <- oindex whole ixs ;;
      apply_transforms ts (mk_arr dt r)
  end.

(* ---------------------------------------------------------------- wire *)

(* part = (shape keep base dtype): dataset = elements of that dtype with C-order labels arange shape base
   (labels disjoint between parts); without a dtype the part has the common dtype dt *)
Definition to_craw (dt : Z) (x : sx) : craw :=
  match x with
  | L [shape; keep; I base; I pdt] =>
      mk_craw (to_Zs shape) (map to_aidx (to_list keep)) (tree_map (enc_val pdt) (arange (to_Zs shape) base)) pdt
  | L [shape; keep; I base] =>
      mk_craw (to_Zs shape) (map to_aidx (to_list keep)) (tree_map (enc_val dt) (arange (to_Zs shape) base)) dt
  | _ => mk_craw [] [] (Leaf 0) dt
  end.

(* (parts ts dt ix) -> (model spec shape-property dtype-property) *)
Definition wire_52 (x : sx) : sx :=
  match x with
  | L [parts; ts; I dt; ix] =>
      let raws := map (to_craw dt) (to_list parts) in
      let ts := map to_tr (to_list ts) in let ix := map to_aidx (to_list ix) in
      let spec := of_arr (spec_concat raws ts ix) in
      match c_mk raws ts with
      | Err => L [L [I 0]; spec; L [I 0]; I 0]
      | Ok c => L [of_arr (c_getitem c ix); spec; of_shape (c_shape c);
                   match c_dtype c with Ok d => I d | Err => I (-1) end]
      end
  | _ => sx_err
  end.
