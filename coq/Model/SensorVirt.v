(* C12: the built-in virtual sensors (katdal/dataset.py _calc_mjd/_calc_lst/_calc_radec/_calc_parangle/
   _calc_target_coords/_calc_uvw_*, _calc_azel of the format modules) as POINTWISE functions of the dump.
   Definitions only.

   The documented function of a virtual sensor is a function of ONE dump: value[i] = f(timestamps[i], sources[.][i]).
   `pw f vals ts` applies such an f dump by dump; `vf_pw pf` turns a family of per-dump functions into the
   vector-level function table `vf` the cache model (Model/SensorCache.v) is parameterised by.  The per-dump function
   stays uninterpreted (katpoint / ephem are not modelled) except for Timestamps/mjd, whose documented function
   MJD(t) = t / 86400 + 40587 is exact in Q.  Nothing here can see the dump period or a neighbouring dump. *)
From Coq Require Import ZArith QArith List Bool String.
From KV Require Import Base.Sx Base.Str Gen.Generated Model.Interp Model.SensorCache.
Import ListNotations.
Open Scope Q_scope.

Definition hd_qn (l : list qn) : qn := match l with x :: _ => x | [] => None end.

(* value of every source sensor at dump i (NaN when the source is too short) *)
Definition at_dump (i : nat) (vals : list (list qn)) : list qn := map (fun v => nth i v None) vals.

(* apply the per-dump function f to every dump: timestamps[i] and the i-th value of every source *)
Fixpoint pw (f : Q -> list qn -> qn) (vals : list (list qn)) (ts : list Q) : list qn :=
  match ts with
  | [] => []
  | t :: ts' => f t (map hd_qn vals) :: pw f (map (@tl qn) vals) ts'
  end.

(* function table of the cache model built from per-dump functions: id, index of the produced name *)
Definition vf_pw (pf : Z -> nat -> Q -> list qn -> qn) : Z -> nat -> list (list qn) -> list Q -> list qn :=
  fun fid k vals ts => pw (pf fid k) vals ts.

(* concatenation of the source values of two parts of a concatenated data set, sensor by sensor *)
Definition zip_app (a b : list (list qn)) : list (list qn) := map (fun xy => fst xy ++ snd xy)%list (combine a b).

(* ------------------------------------------------------------------ Timestamps/mjd *)
(* Unix epoch = MJD 40587.0, 86400 s per day *)
Definition mjd_q (t : Q) : Q := t / 86400 + 40587.
Definition mjd_pf (t : Q) (_ : list qn) : qn := Some (mjd_q t).

(* The seeded change C12-4 ("convert the first dump only and step the rest along at the dump period"), kept to show
   that the statements discriminate: MJD of dump i := MJD(timestamps[0]) + i * dump_period / 86400. *)
Fixpoint steps (m0 d : Q) (i : Z) (n : nat) : list Q :=
  match n with
  | O => []
  | S n' => (m0 + inject_Z i * d) :: steps m0 d (i + 1) n'
  end.
Definition mjd_stepped (period : Q) (ts : list Q) : list Q :=
  match ts with
  | [] => []
  | t0 :: _ => steps (mjd_q t0) (period / 86400) 0 (List.length ts)
  end.
(* a perfectly regular dump grid: t0 + i * period *)
Fixpoint grid (t0 p : Q) (i : Z) (n : nat) : list Q :=
  match n with
  | O => []
  | S n' => (t0 + inject_Z i * p) :: grid t0 p (i + 1) n'
  end.

(* a perfectly regular grid of n + 1 dumps *)
Definition regular (t0 p : Q) (n : nat) : list Q := t0 :: grid t0 p 1 n.

(* ------------------------------------------------------------------ what the registered functions may read *)
(* Generated.v: virtual_cache_attrs = the ways the `cache` argument is used by the functions registered in
   dataset.DEFAULT_VIRTUAL_SENSORS and in VIRTUAL_SENSORS of h5datav1/2/3 and visdatav4.  Reading source sensors
   (cache.get), the dump timestamps, and storing the produced sensors (cache[name] = ..., cache.update) is what the
   model's function table `vf fid k source_values timestamps` stands for; in particular NOT cache.dump_period / keep. *)
Definition virtual_cache_allowed : list string := ["get"; "setitem"; "timestamps"; "update"]%string.

(* ------------------------------------------------------------------ wire *)
(* The per-dump functions used by the correspondence: fid 0 = the documented MJD function; any other id = the finite
   graph of the per-dump function on the dumps of the case (computed by the harness with one scalar katpoint call per
   dump), looked up by (fid, produced-name index, timestamp); a dump that is not in the graph is NaN. *)
Definition vtable := list (Z * nat * list (Q * qn)).

Fixpoint t_lookup (t : Q) (l : list (Q * qn)) : qn :=
  match l with
  | [] => None
  | (u, v) :: r => if Qeq_bool t u then v else t_lookup t r
  end.
Fixpoint tbl_lookup (tbl : vtable) (fid : Z) (k : nat) (t : Q) : qn :=
  match tbl with
  | [] => None
  | (f, j, l) :: r => if Z.eqb f fid && Nat.eqb j k then t_lookup t l else tbl_lookup r fid k t
  end.
Definition tbl_pf (tbl : vtable) (fid : Z) (k : nat) (t : Q) (_ : list qn) : qn :=
  if Z.eqb fid 0 then mjd_pf t [] else tbl_lookup tbl fid k t.

Definition to_vtable (x : sx) : vtable :=
  map (fun e => match e with
                | L [I f; k; l] => (f, to_nat k, map (fun p => match p with
                                                               | L [t; v] => (to_Q t, to_qn v)
                                                               | _ => (0, None)
                                                               end) (to_list l))
                | _ => (0%Z, O, [])
                end) (to_list x).

(* (1 table cache ops)                 -> ((results...) final_store final_raw_kinds)
   (3 table (caches...) ccprops cops)  -> ((results...) (final stores...))
   (4 period (ts...))                  -> ((documented mjd...) (stepped mjd...))           *)
Definition wire_122 (x : sx) : sx :=
  match x with
  | L [I 1; tbl; c; ops] =>
      let '(c', rs) := run_ops (vf_pw (tbl_pf (to_vtable tbl))) false (to_cache c) (map to_op (to_list ops)) in
      L [L (map of_res rs); of_store (c_store c'); of_rawkeys c']
  | L [I 3; tbl; cs; pm; ops] =>
      let '(cc', rs) := crun (vf_pw (tbl_pf (to_vtable tbl))) false (mkCC (map to_cache (to_list cs)) (to_pmap pm))
                             (map to_cop (to_list ops)) in
      L [L (map of_res rs); L (map (fun c => of_store (c_store c)) (cc_parts cc'))]
  | L [I 4; p; ts] =>
      let tq := map to_Q (to_list ts) in
      L [L (map (fun t => of_Q (mjd_q t)) tq); L (map of_Q (mjd_stepped (to_Q p) tq))]
  | _ => sx_err
  end.
