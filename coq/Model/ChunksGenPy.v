(* C07: generate_chunks at the level of its PUBLIC arguments (katdal/chunkstore.py).
   Model/Chunks.v models the greedy split on already-normalised arguments (dims_to_split : list nat in range,
   max_dim_elements : nat -> Z).  This file models the code around it, statement by statement:
     - the defaults  dims_to_split=None -> range(len(shape)),  max_dim_elements=None -> {}
     - the normalisation of negative (NumPy-style) axis numbers in dims_to_split and in the KEYS of max_dim_elements
       (several spellings of one axis: the strictest limit wins)
     - Python list / tuple indexing with an axis number that is out of range: IndexError, raised exactly where the
       source evaluates shape[i] / dim_elements[dim] (an out-of-range entry that is never reached is harmless)
     - the `break` of the split loop once the budget is met.
   Every comparison operator, the axis normalisation, the merge of limits and the two rounding directions are the
   definitions cs_gc_* of Gen/Generated.v, re-translated from the source at every run (harness/vh/items/c07.py,
   item_generate_chunks, which also pins the statement order).  Definitions only. *)
From Coq Require Import ZArith List Bool.
From KV Require Import Base.Sx Gen.Generated Model.Chunks.
Import ListNotations.
Open Scope Z_scope.

(* seq[i] of a Python list / tuple of length n: position, or IndexError *)
Definition py_index (n : nat) (i : Z) : option nat :=
  if (0 <=? i) && (i <? Z.of_nat n) then Some (Z.to_nat i)
  else if (- Z.of_nat n <=? i) && (i <? 0) then Some (Z.to_nat (i + Z.of_nat n))
  else None.

Fixpoint lookupZ (k : Z) (m : list (Z * Z)) : option Z :=
  match m with
  | [] => None
  | (k', v) :: t => if k =? k' then Some v else lookupZ k t
  end.
(* d[k] = v on an insertion-ordered dict *)
Fixpoint dict_set (k v : Z) (m : list (Z * Z)) : list (Z * Z) :=
  match m with
  | [] => [(k, v)]
  | (k', v') :: t => if k =? k' then (k, v) :: t else (k', v') :: dict_set k v t
  end.

(* dims_to_split = [dim + ndim if -ndim <= dim < 0 else dim for dim in dims_to_split] *)
Definition norm_dims (n : nat) (dims : list Z) : list Z := map (cs_gc_norm_axis (Z.of_nat n)) dims.

(* for dim, limit in max_dim_elements.items(): dim = <norm>; limits[dim] = min(limit, limits.get(dim, limit)) *)
Definition norm_limits_step (n : nat) (acc : list (Z * Z)) (kv : Z * Z) : list (Z * Z) :=
  let k := cs_gc_norm_axis (Z.of_nat n) (fst kv) in
  dict_set k (cs_gc_merge_limit (snd kv) (match lookupZ k acc with Some old => old | None => snd kv end)) acc.
Definition norm_limits (n : nat) (mde : list (Z * Z)) : list (Z * Z) := fold_left (norm_limits_step n) mde [].

(* for i in dims_to_split: if i in max_dim_elements and max_dim_elements[i] < shape[i]: dim_elements[i] = ... *)
Definition cap_step_py (shape : list Z) (pow2 : bool) (lim : list (Z * Z)) (acc : res (list Z)) (i : Z) : res (list Z) :=
  match acc with
  | Err e => Err e
  | Ok de =>
      match lookupZ i lim with
      | None => Ok de                                      (* `and` short-circuits: shape[i] is not evaluated *)
      | Some m =>
          match py_index (List.length shape) i with
          | None => Err EIndex
          | Some k => if cs_gc_cap_applies m (nth k shape 0)
                      then Ok (set_nth de k (if pow2 then floor_pow2 m else m)) else Ok de
          end
      end
  end.

(* ceil / floor of a / b for b > 0 *)
Definition div_round (ceil : bool) (a b : Z) : Z := if ceil then - ((- a) / b) else a / b.

(* the body of the split loop after the budget test, trg_elements_real = n / dn *)
Definition target_py (shape de : list Z) (mn md : Z) (pow2 : bool) (k : nat) : Z :=
  let cur := prodZ de in
  let n := nth k de 0 * mn in
  let dn := cur * md in
  if cs_gc_trg_small n dn then 1
  else if pow2 then floor_pow2 (n / dn)
  else let s := nth k shape 0 in
       let pieces := div_round cs_gc_pieces_ceil (s * dn) n in        (* shape[dim] / trg_elements_real *)
       div_round cs_gc_trg_ceil s pieces.

Fixpoint split_loop_py (shape de : list Z) (mn md : Z) (pow2 : bool) (dims : list Z) : res (list Z) :=
  match dims with
  | [] => Ok de
  | d :: t =>
      if cs_gc_budget_met (prodZ de * md) mn then Ok de                 (* break *)
      else match py_index (List.length de) d with
           | None => Err EIndex                                          (* dim_elements[dim] *)
           | Some k => split_loop_py shape (set_nth de k (target_py shape de mn md pow2 k)) mn md pow2 t
           end
  end.

Definition default_dims (n : nat) : list Z := map Z.of_nat (seq 0 n).     (* range(len(shape)) *)

(* generate_chunks(shape, dtype, max_chunk_size, dims_to_split, power_of_two, max_dim_elements) with
   max_chunk_size / itemsize = mn / md *)
Definition gen_chunks_py (shape : list Z) (mn md : Z) (dims : option (list Z)) (pow2 : bool)
           (mde : option (list (Z * Z))) : res (list (list Z)) :=
  let n := List.length shape in
  let dims0 := match dims with None => default_dims n | Some l => l end in
  let mde0 := match mde with None => [] | Some m => m end in
  let dims1 := norm_dims n dims0 in
  let lim := norm_limits n mde0 in
  match fold_left (cap_step_py shape pow2 lim) dims1 (Ok shape) with
  | Err e => Err e
  | Ok de0 =>
      match split_loop_py shape de0 mn md pow2 dims1 with
      | Err e => Err e
      | Ok de => Ok (map (fun p => blockdim (fst p) (snd p)) (combine shape de))
      end
  end.

(* ------------------------------------------------------------------------------------------------ *)
(* SPEC at the level of the public arguments: axis numbers are read the NumPy way                      *)

(* the axes nominated by dims_to_split (entries that name no axis nominate nothing) *)
Definition nominated (n : nat) (dims : list Z) : list nat :=
  flat_map (fun i => match py_index n i with Some k => [k] | None => [] end) dims.
Definition effective_dims (n : nat) (dims : option (list Z)) : list nat :=
  match dims with None => seq 0 n | Some l => nominated n l end.

(* every limit whose key names a nominated axis is respected by every chunk of that axis, whichever way the axis is
   spelled in dims_to_split and in the key *)
Definition caps_ok_py (n : nat) (dims : list nat) (mde : list (Z * Z)) (out : list (list Z)) : bool :=
  forallb (fun kv => match py_index n (fst kv) with
                     | Some k => negb (mem_nat k dims) || forallb (fun c => c <=? snd kv) (nth k out [])
                     | None => true
                     end) mde.

Definition chunks_ok_py (shape : list Z) (mn md : Z) (dims : option (list Z)) (pow2 : bool) (mde : option (list (Z * Z)))
           (out : list (list Z)) : bool :=
  let n := List.length shape in
  let ed := effective_dims n dims in
  tiles_ok shape out && caps_ok_py n ed (match mde with None => [] | Some m => m end) out
  && pow2_ok pow2 out && budget_ok mn md ed out && unsplit_ok ed out.

(* domain of the arguments proper (axis numbers are unrestricted) *)
Definition gc_domain_py (shape : list Z) (mn md : Z) (mde : option (list (Z * Z))) : bool :=
  forallb (fun s => 0 <? s) shape && (0 <? mn) && (0 <? md)
  && forallb (fun kv => 0 <? snd kv) (match mde with None => [] | Some m => m end).

Definition all_axes_valid (n : nat) (dims : option (list Z)) : bool :=
  match dims with None => true | Some l => forallb (fun i => match py_index n i with Some _ => true | None => false end) l end.

(* ------------------------------------------------------------------------------------------------ *)
(* wire 73: (shape mn md dims_opt pow2 mde_opt out)
     -> ((0 model_chunks) | (err)   chunks_ok_py(out)   chunks_ok_py(model) or 1 if the model raises   domain  all_axes_valid) *)

Definition to_optZs (x : sx) : option (list Z) := match x with L [l] => Some (to_Zs l) | _ => None end.
Definition to_optpairsZ (x : sx) : option (list (Z * Z)) := match x with L [l] => Some (to_pairs l) | _ => None end.

Definition wire_73 (x : sx) : sx :=
  match x with
  | L [shape; I mn; I md; dims; pow2; mde; out] =>
      let shape := to_Zs shape in let dims := to_optZs dims in let pow2 := to_bool pow2 in let mde := to_optpairsZ mde in
      let r := gen_chunks_py shape mn md dims pow2 mde in
      L [match r with Ok m => L [I 0; of_Zss m] | Err e => L [I (err_code e)] end;
         of_bool (chunks_ok_py shape mn md dims pow2 mde (to_Zss out));
         of_bool (match r with Ok m => chunks_ok_py shape mn md dims pow2 mde m | Err _ => true end);
         of_bool (gc_domain_py shape mn md mde);
         of_bool (all_axes_valid (List.length shape) dims)]
  | _ => sx_err
  end.
