(* C05: LazyIndexer as an object with STATE, read many times, and the requests it sends to its dataset.

   Part 1 - memory.  `keep = [dkeep if dlookup is None else dlookup[dkeep] ...]` does not always make new arrays:
     dlookup[slice]       basic indexing of an ndarray: a VIEW of self._lookup[axis]      -> [OLookup positions]
     dkeep (lookup None)  the caller's own index array (np.atleast_1d of an ndarray is that array) -> [OCaller]
     dlookup[mask / list], np.nonzero(...)[0]            advanced indexing / new arrays                 -> [OFresh]
   The dense read strategy evaluates the post-selection offsets `dim_keep - dim_keep[0]` on exactly that array.  The
   expression is regenerated from the source ([lazy_post_offset]) together with the flag [lazy_post_inplace]: whether
   the source computes it inside the memory of dim_keep (`np.subtract(dim_keep, dim_keep[0], out=dim_keep)`).
   [axes_effect] is what one __getitem__ does to the lookup arrays and to the caller's index arrays, axis by axis in
   the order of the `for dim_keep, dim_len in zip(keep, self.dataset.shape)` loop (an axis that raises stops it);
   [read_st] = answer + memory afterwards; [run_history] = any sequence of reads, between which the caller may
   overwrite the array it was handed ([EScribble]; the answer is the np.empty buffer or one element of the dataset
   - [lazy_result_sources], regenerated - never a view of the dataset).

   Part 2 - requests.  `chunk = self.dataset[dataset_select]`: [requests] lists every dataset_select of one
   __getitem__, in loop order ([req]: an integer, a slice(start, stop, step), or - never produced, but part of what a
   dataset can be asked - an index list).  [h5_accepts] is h5py's rule for one request (integers in [-n, n), slice
   steps >= 1, at most ONE index list and that strictly increasing and in range; checked against the real h5py on
   every small request by the harness, wire 56); [getitem_h5] is the indexer on a dataset that refuses the rest. *)
From Coq Require Import ZArith List Bool.
From KV Require Import Base.Sx Base.PySlice Base.AxisIndex Base.NdArray Base.LazyDType Gen.Generated Model.LazyIdx
  Model.LazyNd.
Import ListNotations.
Open Scope Z_scope.

(* ---------------------------------------------------------------- Part 1: memory *)

Inductive origin := OLookup (ps : list Z) | OCaller | OFresh.

Definition map_origin (lk : lookup) (ix : aidx) : origin :=
  match lk, ix with
  | None, AList _ => OCaller
  | Some l, ASlice a b c => match slice_positions (zlen l) a b c with Some ps => OLookup ps | None => OFresh end
  | _, _ => OFresh
  end.

(* the integer array on which the dense strategy evaluates `dim_keep - dim_keep[0]`, and the result *)
Definition dense_offsets (n : Z) (m : mapped) : option (list Z) :=
  match m with
  | MArr (x :: r) =>
      let l := x :: r in
      if sorted_ok l && negb (lazy_out_of_range x (last l 0) n) && dense (zlen l) n (zlen (segments l))
      then Some (map (fun v => lazy_post_offset v x) l) else None
  | _ => None
  end.

Fixpoint upd (l : list Z) (i : nat) (v : Z) : list Z :=
  match l, i with
  | [], _ => []
  | _ :: t, O => v :: t
  | h :: t, S k => h :: upd t k v
  end.

(* l[ps] = vals *)
Fixpoint scatter (l ps vals : list Z) : list Z :=
  match ps, vals with
  | p :: ps', v :: vals' => scatter (upd l (Z.to_nat p) v) ps' vals'
  | _, _ => l
  end.

Record axis_mem := mk_axis_mem { am_lookup : lookup; am_index : aidx }.

Definition write_back (o : origin) (a : axis_mem) (vals : list Z) : axis_mem :=
  match o with
  | OFresh => a
  | OCaller => mk_axis_mem (am_lookup a) (AList vals)
  | OLookup ps => match am_lookup a with
                  | Some l => mk_axis_mem (Some (scatter l ps vals)) (am_index a)
                  | None => a
                  end
  end.

Definition axis_effect (inplace : bool) (n : Z) (a : axis_mem) : axis_mem :=
  match map_stage2 (am_lookup a) (am_index a) with
  | Ok m => match dense_offsets n m with
            | Some offs => if inplace then write_back (map_origin (am_lookup a) (am_index a)) a offs else a
            | None => a
            end
  | Err => a
  end.

Definition axis_plan_of (n : Z) (lk : lookup) (ix : aidx) : res plan := m <- map_stage2 lk ix ;; axis_plan n m.

Fixpoint axes_effect (inplace : bool) (shape : list Z) (lks : list lookup) (ixs : list aidx) : list lookup * list aidx :=
  match shape, lks, ixs with
  | n :: shape', lk :: lks', ix :: ixs' =>
      match axis_plan_of n lk ix with
      | Err => (lks, ixs)                        (* this axis raises: the later ones are never looked at *)
      | Ok _ => let a := axis_effect inplace n (mk_axis_mem lk ix) in
                let r := axes_effect inplace shape' lks' ixs' in
                (am_lookup a :: fst r, am_index a :: snd r)
      end
  | _, _, _ => (lks, ixs)
  end.

Fixpoint all_mapped (lks : list lookup) (ixs : list aidx) : bool :=
  match lks, ixs with
  | lk :: lks', ix :: ixs' => match map_stage2 lk ix with Ok _ => all_mapped lks' ixs' | Err => false end
  | _, _ => true
  end.

Definition set_lookup (li : lazyidx) (lks : list lookup) : lazyidx :=
  mk_lazyidx (li_shape li) lks (li_ts li) (li_dtype0 li).

(* one __getitem__: the answer, the indexer afterwards, the caller's index objects afterwards (padded to ndim) *)
Definition read_st (inplace : bool) (garbage : list Z -> tree) (li : lazyidx) (ds : tree) (ixs : list aidx)
  : res arr * lazyidx * list aidx :=
  let padded := pad_to (List.length (li_shape li)) ixs in
  let r := if all_mapped (li_lookup li) padded    (* the list comprehension `dlookup[dkeep]` runs before the loop *)
           then axes_effect inplace (li_shape li) (li_lookup li) padded else (li_lookup li, padded) in
  (getitem_nd garbage li ds ixs, set_lookup li (fst r), snd r).

Inductive event := ERead (ixs : list aidx) | EScribble (v : Z).

Definition result_fresh : bool := forallb (fun c => c <=? 1) lazy_result_sources.

Fixpoint run_history (inplace fresh : bool) (garbage : list Z -> tree) (li : lazyidx) (ds : tree) (evs : list event)
  : list (res arr) * (lazyidx * tree) :=
  match evs with
  | [] => ([], (li, ds))
  | ERead ixs :: r =>
      let x := read_st inplace garbage li ds ixs in
      let y := run_history inplace fresh garbage (snd (fst x)) ds r in
      (fst (fst x) :: fst y, snd y)
  | EScribble v :: r =>
      (* the caller overwrites the array it received; had that been a view of the dataset, the dataset would change *)
      run_history inplace fresh garbage li (if fresh then ds else tree_map (fun _ => v) ds) r
  end.

Fixpoint reads_of (evs : list event) : list (list aidx) :=
  match evs with [] => [] | ERead ixs :: r => ixs :: reads_of r | EScribble _ :: r => reads_of r end.

(* ---------------------------------------------------------------- Part 2: requests *)

Inductive req := RInt (z : Z) | RSlice (s e st : Z) | RList (l : list Z).

Definition cseg_req (c : cseg) : req :=
  match c with CScalar z => RInt z | CSeg s => RSlice (sg_start s) (sg_stop s) (sg_step s) end.

(* all dataset_select tuples of one __getitem__, in order *)
Definition requests (plans : list plan) : list (list req) :=
  if forallb plan_is_scalar plans
  then [map (fun p => cseg_req (hd (CScalar 0) (plan_csegs p))) plans]        (* select[0][0] for select in selection *)
  else map (map cseg_req) (product (map plan_csegs plans)).

Definition lazy_requests (li : lazyidx) (ixs : list aidx) : res (list (list req)) :=
  plans <- lazy_plans li ixs ;; Ok (requests plans).

Definition h5_item_ok (n : Z) (r : req) : bool :=
  match r with
  | RInt z => (- n <=? z) && (z <? n)
  | RSlice _ _ st => 1 <=? st
  | RList l => increasing l && forallb (fun x => (0 <=? x) && (x <? n)) l
  end.

Definition is_fancy (r : req) : bool := match r with RList _ => true | _ => false end.

Fixpoint items_ok (shape : list Z) (rq : list req) : bool :=
  match shape, rq with
  | [], [] => true
  | n :: s', r :: rq' => h5_item_ok n r && items_ok s' rq'
  | _, _ => false
  end.

Definition fancy_count (rq : list req) : Z := zlen (filter is_fancy rq).

Definition h5_accepts (shape : list Z) (rq : list req) : bool := items_ok shape rq && (fancy_count rq <=? 1).

(* what h5py returns for one axis of one request: positions of the axis, Err = it raises *)
Definition h5_read (n : Z) (r : req) : res (list Z) :=
  if h5_item_ok n r then
    match r with
    | RInt z => q <- wrap_res n z ;; Ok [q]
    | RSlice s e st => ds_read n s e st
    | RList l => Ok l
    end
  else Err.

(* LazyIndexer on a dataset with h5py's restrictions *)
Definition getitem_h5 (garbage : list Z -> tree) (li : lazyidx) (ds : tree) (ixs : list aidx) : res arr :=
  plans <- lazy_plans li ixs ;;
  if forallb (h5_accepts (li_shape li)) (requests plans) then getitem_nd garbage li ds ixs else Err.

Definition seg_pos_step (s : seg) : Prop := 1 <= sg_step s.
Definition plan_pos_step (p : plan) : Prop := match p with PScalar _ => True | PSegs l => Forall seg_pos_step l end.
(* second-stage index items without a negative slice step (those are finding F30) *)
Definition ix_pos_step (ix : aidx) : Prop := match ix with ASlice _ _ (Some c) => 0 < c | _ => True end.

(* ---------------------------------------------------------------- wire *)

Definition of_req (r : req) : sx :=
  match r with
  | RInt z => L [I 0; I z]
  | RSlice s e st => L [I 1; I s; I e; I st]
  | RList l => L [I 2; of_Zs l]
  end.

(* (shape k1 k2) -> (ok, requests in loop order, every request accepted by h5py?, memory unchanged by the read?) *)
Definition wire_55 (x : sx) : sx :=
  match x with
  | L [shape; k1; k2] =>
      let shape := to_Zs shape in let k1 := map to_aidx (to_list k1) in let k2 := map to_aidx (to_list k2) in
      match mk_lazy shape k1 [] 0 with
      | Err => L [I 0]
      | Ok li =>
          match lazy_requests li k2 with
          | Err => L [I 0]
          | Ok rqs => L [I 1; L (map (fun rq => L (map of_req rq)) rqs);
                         I (if forallb (h5_accepts shape) rqs then 1 else 0)]
          end
      end
  | _ => sx_err
  end.

(* one request item on an axis of length n: (n item) -> (1 positions) | (0) *)
Definition wire_56 (x : sx) : sx :=
  match x with
  | L [I n; it] =>
      let r := match it with
               | L [I 0; I z] => RInt z
               | L [I 1; I s; I e; I st] => RSlice s e st
               | L [I 2; l] => RList (to_Zs l)
               | _ => RList [-1]
               end in
      match h5_read n r with Ok ps => L [I 1; of_Zs ps] | Err => L [I 0] end
  | _ => sx_err
  end.
