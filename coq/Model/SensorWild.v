(* C12: the wildcard property merge of SensorCache._get_props, stated independently of the executable `glob`.
   Definitions only.  The executable model is Model/SensorCache.v (`glob`, `key_matches`, `merge_wild`, `get_props`);
   here is what the documentation says: "sensor names in prop_map may contain * wildcard characters; all matching
   entries are merged" -- a key  p0*p1*...*pn  matches a sensor name iff the WHOLE name is
   p0 ++ g1 ++ p1 ++ ... ++ gn ++ pn  for some (possibly empty) gaps g1..gn. *)
From Coq Require Import ZArith QArith List Bool String Ascii.
From KV Require Import Base.Sx Base.Str Gen.Generated Model.SensorCache.
Import ListNotations.

(* Python's key.split('*'): always at least one part *)
Fixpoint split_star (k : list ascii) : list (list ascii) :=
  match k with
  | [] => [[]]
  | c :: t => if Ascii.eqb c star then [] :: split_star t
              else match split_star t with
                   | p :: ps => (c :: p) :: ps
                   | [] => [[c]]
                   end
  end.

(* the whole name is the literal parts in order, separated by arbitrary gaps *)
Fixpoint wild_spec (parts : list (list ascii)) (s : list ascii) : Prop :=
  match parts with
  | [] => False
  | p :: ps => match ps with
               | [] => s = p
               | _ :: _ => exists g rest, s = p ++ g ++ rest /\ wild_spec ps rest
               end
  end.

(* the wildcard entries of the map that apply to `name` and set field f, LAST in dict order first *)
Definition is_some {A} (o : option A) : bool := match o with Some _ => true | None => false end.
Definition last_wild {A} (f : props -> option A) (name : string) (pm : pmap) : option (string * props) :=
  find (fun kv => key_matches (fst kv) name && is_some (f (snd kv))) (rev pm).
(* documented precedence for one field: keyword argument, else the last matching wildcard entry that sets it,
   else the name-specific entry *)
Definition effective {A} (f : props -> option A) (name : string) (pm : pmap) (kw : props) : option A :=
  orelse (f kw)
         (match last_wild f name pm with
          | Some kv => f (snd kv)
          | None => match pm_lookup name pm with Some b => f b | None => None end
          end).

(* ------------------------------------------------------------------ wire *)
Definition of_pmap (pm : pmap) : sx := L (map (fun kv => L [of_string (fst kv); of_props (snd kv)]) pm).

(* (1 name pmap kw) -> (merged (pmap after the write-back) (effective off cat init per the documented precedence))
   (2 key name)     -> key_matches *)
Definition wire_121 (x : sx) : sx :=
  match x with
  | L [I 1; n; pm; kw] =>
      let name := to_string n in
      let m := to_pmap pm in
      let k := to_props kw in
      let '(p, pm') := get_props name m k in
      L [of_props p; of_pmap pm';
         of_props (mkP (effective p_off name m k) (effective p_cat name m k) (effective p_init name m k))]
  | L [I 2; k; n] => of_bool (key_matches (to_string k) (to_string n))
  | _ => sx_err
  end.
