(* C19: katdal/concatdata.py:ConcatenatedDataSet.__init__ (chronological sort, dump-period check, merged
   subarray / spectral-window / target sensors partitioned back into the parts, running scan / compscan
   indices) and ConcatenatedSensorCache.get (concatenation of the parts' sensors, dummy fill for the parts
   that lack a sensor).  Definitions only (model, spec, wire).

   A part is one opened data set as the constructor sees it: start time, dump period, one timestamp per dump
   and its extracted sensors.  Categorical sensors are [cd] containers of Model/Categorical.v (C11) over
   value ids: for Observation/target, spw and subarray the ids name the description (katpoint.Target,
   SpectralWindow and Subarray compare by description), for scan_state / label the state / label string, for
   scan_index / compscan_index the integers themselves.  The index sensors target_index / spw_index /
   subarray_index are not stored: every loader and the constructor create them as
   CategoricalData(sensor.indices, sensor.events) = [index_cd sensor].

   The model follows the code: Python's sort of (start_time, data set) tuples is an insertion sort that fails
   on equal start times (the tuple comparison falls through to the data set objects: TypeError);
   ConcatenatedSensorCache.get = concatenate_categorical (allow_repeats only for Observation/label and
   Observation/scan_state, cf. dataset.DEFAULT_SENSOR_PROPS, re-read by the translator) resp. np.concatenate;
   CategoricalData.partition cuts the merged sensor at the cumulative dump counts. *)
From Coq Require Import ZArith List Bool Arith.
From KV Require Import Base.Sx Gen.Generated Model.Categorical.
From KV Require Model.SensorCache.
Import ListNotations.
Open Scope nat_scope.

Definition cdz : Type := @cd Z.
Definition zexpand (c : cdz) : list Z := expand zd c.
Definition zcat (cs : list cdz) (allow_repeats : bool) : option cdz := concatenate Z.eqb zd cs allow_repeats.

(* other sensors of a part: a float / int array with one value per dump, or a categorical container *)
Inductive sens := SNum (isfloat : bool) (l : list Z) | SCat (dt : SensorCache.dtype) (c : cdz).

Record part := mkPart {
  p_start : Z;                 (* start time *)
  p_dp : Z;                    (* dump period *)
  p_ts : list Z;               (* timestamps, one per dump *)
  p_sub : cdz; p_spw : cdz; p_tgt : cdz;       (* Observation/subarray, spw, target *)
  p_state : cdz; p_label : cdz;                (* Observation/scan_state, label *)
  p_scan : cdz; p_cscan : cdz;                 (* Observation/scan_index, compscan_index *)
  p_sens : list (Z * sens)                     (* every other sensor the part has, by name id *)
}.
Definition nT (p : part) : nat := length (p_ts p).

(* CategoricalData(sensor.indices, sensor.events) *)
Definition index_cd (c : cdz) : cdz := make Z.eqb (map Z.of_nat (idx c)) (ev c).

(* ---------- decorated_datasets.sort() ---------- *)
Fixpoint insert_p (a : part) (l : list part) : option (list part) :=
  match l with
  | [] => Some [a]
  | b :: t => if (p_start a <? p_start b)%Z then Some (a :: l)
              else if (p_start a =? p_start b)%Z then None          (* compares the data set objects: TypeError *)
              else option_map (cons b) (insert_p a t)
  end.
Fixpoint sort_parts (l : list part) : option (list part) :=
  match l with
  | [] => Some []
  | a :: t => match sort_parts t with Some s => insert_p a s | None => None end
  end.

(* np.cumsum([0] + lens) *)
Fixpoint offs_from (o : nat) (ns : list nat) : list nat :=
  match ns with [] => [] | n :: r => o :: offs_from (o + n) r end.
Definition segs_of (ns : list nat) : list nat := offs_from 0 ns ++ [list_sum ns].

(* scan_index.unique_values = [index + scan_start for index in scan_index.unique_values] *)
Definition shift_index (off : nat) (c : cdz) : cdz :=
  mk (map (fun v => (v + Z.of_nat off)%Z) (uv c)) (idx c) (ev c).

Definition set_cats (p : part) (sub spw tgt scan cscan : cdz) : part :=
  mkPart (p_start p) (p_dp p) (p_ts p) sub spw tgt (p_state p) (p_label p) scan cscan (p_sens p).

(* the loop `for n, d in enumerate(datasets)` *)
Fixpoint rewrite (ps : list part) (subs spws tgts : list cdz) (so co : nat) : list part :=
  match ps, subs, spws, tgts with
  | p :: ps', a :: subs', b :: spws', c :: tgts' =>
      set_cats p a b c (shift_index so (p_scan p)) (shift_index co (p_cscan p))
      :: rewrite ps' subs' spws' tgts' (so + length (uv (p_scan p))) (co + length (uv (p_cscan p)))
  | _, _, _, _ => []
  end.

Inductive cerr := ETie | EEmpty | EPeriod | ECat.
Inductive cres (A : Type) := COk (a : A) | CErr (e : cerr).
Arguments COk {A} a.
Arguments CErr {A} e.

Record merged := mkMerged {
  m_parts : list part;          (* chronological order, index sensors rewritten *)
  m_segs : list nat;            (* _segments *)
  m_dp : Z;
  m_subs : list Z; m_spws : list Z; m_cat : list Z      (* subarrays, spectral_windows, catalogue *)
}.

Definition concat_open (input : list part) : cres merged :=
  match input with
  | [] => CErr EEmpty                                             (* datasets[0]: IndexError *)
  | _ =>
  match sort_parts input with
  | None => CErr ETie
  | Some ps =>
      match unique_in_order Z.eqb (map p_dp ps) with
      | [dp] =>
          let segs := segs_of (map nT ps) in
          match zcat (map p_sub ps) false, zcat (map p_spw ps) false, zcat (map p_tgt ps) false with
          | Some sub, Some spw, Some tgt =>
              COk (mkMerged (rewrite ps (partition sub segs) (partition spw segs) (partition tgt segs) 0 0)
                            segs dp (uv sub) (uv spw) (uv tgt))
          | _, _, _ => CErr ECat
          end
      | _ => CErr EPeriod                                         (* ConcatenationError *)
      end
  end
  end.

(* ---------- the merged observation sensors, as ConcatenatedSensorCache.get returns them ---------- *)
Definition m_ts (m : merged) : list Z := concat (map p_ts (m_parts m)).
Definition m_get (f : part -> cdz) (allow_repeats : bool) (m : merged) : option cdz :=
  zcat (map f (m_parts m)) allow_repeats.
Definition m_sub m := m_get p_sub false m.
Definition m_spw m := m_get p_spw false m.
Definition m_tgt m := m_get p_tgt false m.
Definition m_state m := m_get p_state obs_scan_state_allow_repeats m.
Definition m_label m := m_get p_label obs_label_allow_repeats m.
Definition m_scan m := m_get p_scan false m.
Definition m_cscan m := m_get p_cscan false m.
Definition m_tgt_index m := m_get (fun p => index_cd (p_tgt p)) false m.
Definition m_spw_index m := m_get (fun p => index_cd (p_spw p)) false m.
Definition m_sub_index m := m_get (fun p => index_cd (p_sub p)) false m.

(* self.select(spw=0, subarray=0): _time_keep &= (spw_index == 0); _time_keep &= (subarray_index == 0) *)
Definition band (a b : list bool) : list bool := map (fun p => andb (fst p) (snd p)) (combine a b).
Definition m_keep0 (m : merged) : option (list bool) :=
  match m_spw_index m, m_sub_index m with
  | Some w, Some s => Some (band (cmp w (fun v => (v =? 0)%Z)) (cmp s (fun v => (v =? 0)%Z)))
  | _, _ => None
  end.

(* ---------- ConcatenatedSensorCache.get for any other sensor ---------- *)
Definition nan_code : Z := (-7777)%Z.
(* the filler of dummy_sensor_getter for a dtype (C12: SensorCache.dummy_value), as a value id:
   NaN -> nan_code, -1, '' -> 0, False -> 0 *)
Definition dummy_code (dt : SensorCache.dtype) : Z :=
  match snd (SensorCache.dummy_value None dt) with
  | SensorCache.VNum None => nan_code
  | SensorCache.VInt z => z
  | SensorCache.VEmptyStr => 0%Z
  | SensorCache.VFalse => 0%Z
  | _ => (-8888)%Z
  end.

Fixpoint find_sens (name : Z) (l : list (Z * sens)) : option sens :=
  match l with
  | [] => None
  | (k, s) :: t => if (k =? name)%Z then Some s else find_sens name t
  end.

Definition is_cat (o : option sens) : bool := match o with Some (SCat _ _) => true | _ => false end.
Definition is_num (o : option sens) : bool := match o with Some (SNum _ _) => true | _ => false end.
Definition is_floatnum (o : option sens) : bool := match o with Some (SNum true _) => true | _ => false end.
Definition is_absent (o : option sens) : bool := match o with None => true | _ => false end.

(* np.result_type of the present categorical dtypes: all equal (other mixtures are not modelled) *)
Definition cat_dtype (xs : list (option sens)) : option SensorCache.dtype :=
  match flat_map (fun o => match o with Some (SCat dt _) => [dt] | _ => [] end) xs with
  | [] => None
  | dt :: _ => Some dt
  end.

Inductive sres := RNum (l : list Z) | RCat (c : cdz) | RKeyError | RFail.

(* one part's contribution (n = its number of dumps) to a numeric sensor *)
Definition num_piece (dummy : Z) (n : nat) (o : option sens) : list Z :=
  match o with Some (SNum _ l) => l | _ => repeat dummy n end.
(* one part's contribution to a categorical sensor: its own container, or _extract(dummy) = one event *)
Definition cat_piece (dummy : Z) (n : nat) (o : option sens) : cdz :=
  match o with Some (SCat _ c) => c | _ => make Z.eqb [dummy] [0; n] end.

(* [dc] = the filler per type.  ConcatenatedSensorCache.get with the filler of dummy_sensor_getter: [dc := dummy_code]
   for the sensor types of C12's model; [dummy_code_u ubits] when the common dtype is an unsigned integer type (below) *)
Definition get_sensor_w (dc : SensorCache.dtype -> Z) (ps : list part) (name : Z) (allow_repeats : bool) : sres :=
  let xs := map (fun p => find_sens name (p_sens p)) ps in
  let nxs := combine (map nT ps) xs in
  if forallb is_absent xs then RKeyError
  else if existsb is_cat xs then
    if existsb is_num xs then RFail                     (* concatenate_categorical on an ndarray *)
    else match cat_dtype xs with
         | Some dt =>
             match zcat (map (fun nx => cat_piece (dc dt) (fst nx) (snd nx)) nxs) allow_repeats with
             | Some c => RCat c
             | None => RFail
             end
         | None => RFail
         end
  else
    (* common_dtype: float64 as soon as one part has floats, else the integer type; the filler of a plain array
       is an array of the dummy value of that type *)
    let dt := if existsb is_floatnum xs then SensorCache.DFloat else SensorCache.DInt in
    RNum (concat (map (fun nx => num_piece (dc dt) (fst nx) (snd nx)) nxs)).
Definition get_sensor (ps : list part) (name : Z) (allow_repeats : bool) : sres :=
  get_sensor_w dummy_code ps name allow_repeats.

(* Unsigned integer sensors.  [ubits] = 0: the common dtype of the parts that have the sensor is one of the types of
   C12's model; [ubits] = b > 0: it is the unsigned integer type of b bits (uint8, uint16, ...).  Since the repair of
   finding C19-F4 dummy_sensor_getter computes the integer dummy as np.array(-1).astype(dtype)[()]: the documented
   dummy -1 CAST into the type - -1 itself for a signed type, -1 modulo 2^b (all bits set) for an unsigned one. *)
Definition int_dummy (ubits : Z) : Z :=
  if (ubits <=? 0)%Z then dummy_code SensorCache.DInt else (dummy_code SensorCache.DInt mod 2 ^ ubits)%Z.
Definition dummy_code_u (ubits : Z) (dt : SensorCache.dtype) : Z :=
  match dt with SensorCache.DInt => int_dummy ubits | _ => dummy_code dt end.
Definition lacks_some (ps : list part) (name : Z) : bool :=
  let xs := map (fun p => find_sens name (p_sens p)) ps in existsb is_absent xs && negb (forallb is_absent xs).
Definition get_sensor_u (ps : list part) (name : Z) (allow_repeats : bool) (ubits : Z) : sres :=
  get_sensor_w (dummy_code_u ubits) ps name allow_repeats.
(* BEFORE the repair (np.dtype(dtype).type(-1): OverflowError under NumPy >= 2 for an unsigned type): a sensor of an
   unsigned type that some part lacks could not be read at all.  Kept for C19_unsigned_sensor_refuted_before_fix. *)
Definition get_sensor_u_before_fix (ps : list part) (name : Z) (allow_repeats uns : bool) : sres :=
  if uns && lacks_some ps name then RFail else get_sensor ps name allow_repeats.

(* cache[name] with the time selection: every part applies its own slice view of the global mask *)
Fixpoint mask_sel {A} (m : list bool) (l : list A) : list A :=
  match m, l with
  | b :: m', x :: l' => if b then x :: mask_sel m' l' else mask_sel m' l'
  | _, _ => []
  end.
Fixpoint cut {A} (lens : list nat) (l : list A) : list (list A) :=
  match lens with
  | [] => []
  | n :: r => firstn n l :: cut r (skipn n l)
  end.
Definition selected_pieces (ps : list part) (keep : list bool) (pieces : list (list Z)) : list Z :=
  concat (map (fun mp => mask_sel (fst mp) (snd mp)) (combine (cut (map nT ps) keep) pieces)).

(* ---------------------------------------------------------------- SPEC *)
(* what the property says, on the explicit per-dump lists of the parts in time order *)

(* chronological order: the parts sorted by start time, by selection of the minimum *)
Fixpoint min_start (a : part) (l : list part) : part :=
  match l with [] => a | b :: t => if (p_start b <? p_start a)%Z then min_start b t else min_start a t end.

Definition spec_ts (ps : list part) : list Z := concat (map p_ts ps).
Definition spec_plain (f : part -> cdz) (ps : list part) : list Z := concat (map (fun p => zexpand (f p)) ps).
(* identical values merged: distinct values in order of first appearance *)
Definition spec_uniq (f : part -> cdz) (ps : list part) : list Z := unique_in_order Z.eqb (flat_map (fun p => uv (f p)) ps).
(* per-dump index into the merged list *)
Definition zindex (u : list Z) (v : Z) : Z :=
  match index_of Z.eqb v u with Some i => Z.of_nat i | None => (-1)%Z end.
Definition spec_index (f : part -> cdz) (ps : list part) : list Z := map (zindex (spec_uniq f ps)) (spec_plain f ps).
(* scan / compscan indices continue: part k adds the number of scans of the earlier parts *)
Definition spec_running (f : part -> cdz) (ps : list part) : list Z :=
  concat (map (fun po => map (fun v => (v + Z.of_nat (snd po))%Z) (zexpand (f (fst po))))
              (combine ps (offs_from 0 (map (fun p => length (uv (f p))) ps)))).
Definition spec_keep0 (ps : list part) : list bool :=
  map (fun ab => andb (fst ab =? 0)%Z (snd ab =? 0)%Z) (combine (spec_index p_spw ps) (spec_index p_sub ps)).

(* [sd] = the dummy value per type the property names *)
Definition spec_sensor_w (sd : SensorCache.dtype -> Z) (ps : list part) (name : Z) : option (list Z) :=
  let xs := map (fun p => find_sens name (p_sens p)) ps in
  if forallb is_absent xs then None
  else
    let dummy := if existsb is_cat xs
                 then match cat_dtype xs with Some dt => sd dt | None => 0%Z end
                 else sd (if existsb is_floatnum xs then SensorCache.DFloat else SensorCache.DInt) in
    Some (concat (map (fun nx => match snd nx with
                                 | Some (SNum _ l) => l
                                 | Some (SCat _ c) => zexpand c
                                 | None => repeat dummy (fst nx)
                                 end) (combine (map nT ps) xs))).
Definition spec_sensor (ps : list part) (name : Z) : option (list Z) := spec_sensor_w dummy_code ps name.
(* the dummy value of an unsigned integer type of b bits: the documented integer dummy -1 does not exist there; it is
   the value -1 is stored as, the LARGEST value of the type (what NumPy < 2 produced for np.uint8(-1)) *)
Definition spec_dummy_u (ubits : Z) (dt : SensorCache.dtype) : Z :=
  match dt with
  | SensorCache.DInt => if (ubits <=? 0)%Z then (-1)%Z else (2 ^ ubits - 1)%Z
  | _ => dummy_code dt
  end.
Definition spec_sensor_u (ubits : Z) (ps : list part) (name : Z) : option (list Z) :=
  spec_sensor_w (spec_dummy_u ubits) ps name.

(* ---------------------------------------------------------------- wire *)
Definition to_cd (x : sx) : cdz :=
  match x with
  | L [u; i; e] => mk (to_Zs u) (to_nats i) (to_nats e)
  | _ => mk [] [] []
  end.
Definition to_dtype (z : Z) : SensorCache.dtype :=
  match z with
  | 0%Z => SensorCache.DFloat | 1%Z => SensorCache.DInt | 2%Z => SensorCache.DStr
  | 3%Z => SensorCache.DBool | _ => SensorCache.DObj
  end.
Definition to_sens (x : sx) : Z * sens :=
  match x with
  | L [I name; I 0%Z; I fl; l] => (name, SNum (negb (fl =? 0)%Z) (to_Zs l))
  | L [I name; I 1%Z; I dt; c] => (name, SCat (to_dtype dt) (to_cd c))
  | _ => ((-1)%Z, SNum false [])
  end.
Definition to_part (x : sx) : part :=
  match x with
  | L [I st; I dp; ts; sub; spw; tgt; state; label; scan; cscan; sens] =>
      mkPart st dp (to_Zs ts) (to_cd sub) (to_cd spw) (to_cd tgt) (to_cd state) (to_cd label) (to_cd scan) (to_cd cscan)
             (map to_sens (to_list sens))
  | _ => mkPart 0 0 [] (mk [] [] []) (mk [] [] []) (mk [] [] []) (mk [] [] []) (mk [] [] []) (mk [] [] []) (mk [] [] []) []
  end.

Definition of_ocd (o : option cdz) : sx := match o with Some c => of_cd c | None => L [] end.
Definition of_sres (r : sres) : sx :=
  match r with
  | RNum l => L [I 0%Z; of_Zs l]
  | RCat c => L [I 1%Z; of_cd c]
  | RKeyError => L [I 2%Z]
  | RFail => L [I 3%Z]
  end.
Definition of_part (p : part) : sx :=
  L [I (p_start p); of_cd (p_sub p); of_cd (p_spw p); of_cd (p_tgt p); of_cd (index_cd (p_tgt p));
     of_cd (p_scan p); of_cd (p_cscan p)].

Definition err_code (e : cerr) : Z :=
  match e with ETie => 1%Z | EEmpty => 2%Z | EPeriod => 3%Z | ECat => 4%Z end.

(* sorted input for the spec side, independent of the model's insertion sort *)
Fixpoint remove_first (a : Z) (l : list part) : list part :=
  match l with [] => [] | b :: t => if (p_start b =? a)%Z then t else b :: remove_first a t end.
Fixpoint spec_sort (fuel : nat) (l : list part) : list part :=
  match fuel, l with
  | S f, a :: t => let m := min_start a t in m :: spec_sort f (remove_first (p_start m) l)
  | _, _ => []
  end.
Definition spec_order (l : list part) : list part := spec_sort (length l) l.
Definition has_tie (l : list part) : bool := negb (length (nodup Z.eq_dec (map p_start l)) =? length l).
Definition periods_differ (l : list part) : bool := negb (length (nodup Z.eq_dec (map p_dp l)) <=? 1).

(* (parts names keep) ->      [keep] is ANDed with the default selection (spw 0, subarray 0), as select(dumps=keep) does
   (status  model  spec)   status 0 = opened, otherwise the error code
   model = (starts segs dp subs spws cat keep0 ts (merged sensors...) (rewritten parts...) (other sensors...) (selected...))
   spec  = (refused? starts ts subs spws cat sub_index spw_index tgt tgt_index state label scan cscan keep0 (other...)) *)
Definition wire_19 (x : sx) : sx :=
  match x with
  | L [parts; names; keep] =>
      let input := map to_part (to_list parts) in
      let unss := map (fun n => match n with L [I k; ar; I u] => u | _ => 0%Z end) (to_list names) in
      let names := map (fun n => match n with L [I k; ar] => (k, to_bool ar) | L [I k; ar; u] => (k, to_bool ar)
                                 | _ => (0%Z, false) end) (to_list names) in
      let keep := to_bools keep in
      let so := spec_order input in
      let skeep := band keep (spec_keep0 so) in
      let spec :=
        L [of_bool (has_tie input || periods_differ input || (length input =? 0));
           of_Zs (map p_start so); of_Zs (spec_ts so);
           of_Zs (spec_uniq p_sub so); of_Zs (spec_uniq p_spw so); of_Zs (spec_uniq p_tgt so);
           of_Zs (spec_index p_sub so); of_Zs (spec_index p_spw so);
           of_Zs (spec_plain p_tgt so); of_Zs (spec_index p_tgt so);
           of_Zs (spec_plain p_state so); of_Zs (spec_plain p_label so);
           of_Zs (spec_running p_scan so); of_Zs (spec_running p_cscan so);
           of_bools (spec_keep0 so);
           L (map (fun nu => match spec_sensor_u (snd nu) so (fst (fst nu)) with
                             | Some l => L [of_Zs l; of_Zs (mask_sel skeep l)] | None => L [] end) (combine names unss))] in
      match concat_open input with
      | CErr e => L [I (err_code e); L []; spec]
      | COk m =>
          let ps := m_parts m in
          let keep := match m_keep0 m with Some k => band keep k | None => keep end in
          L [I 0%Z;
             L [of_Zs (map p_start ps); of_nats (m_segs m); I (m_dp m);
                of_Zs (m_subs m); of_Zs (m_spws m); of_Zs (m_cat m);
                match m_keep0 m with Some k => of_bools k | None => L [] end;
                of_Zs (m_ts m);
                L [of_ocd (m_sub m); of_ocd (m_spw m); of_ocd (m_tgt m); of_ocd (m_sub_index m); of_ocd (m_spw_index m);
                   of_ocd (m_tgt_index m); of_ocd (m_state m); of_ocd (m_label m); of_ocd (m_scan m); of_ocd (m_cscan m)];
                L (map of_part ps);
                L (map (fun nu => of_sres (get_sensor_u ps (fst (fst nu)) (snd (fst nu)) (snd nu))) (combine names unss));
                L (map (fun nu => match get_sensor_u ps (fst (fst nu)) (snd (fst nu)) (snd nu) with
                                  | RNum l => of_Zs (selected_pieces ps keep (cut (map nT ps) l))
                                  | RCat c => of_Zs (selected_pieces ps keep (cut (map nT ps) (zexpand c)))
                                  | _ => L [] end) (combine names unss))];
             spec]
      end
  | _ => sx_err
  end.
