(* C09: bearer tokens over TIME.  One Python process uses token strings again and again while the clock moves on:
   decode_jwt(tok) called directly, S3ChunkStore(url, token=tok) followed by a request (a chunk, or the RDB file that
   TelstateDataSource.from_url downloads with the token taken from the URL query), and further requests on a store
   object that was constructed earlier.  The model threads through the history everything a validating layer could
   remember from one use to the next (a memo of tokens that were decoded successfully - empty for ever unless the
   source says otherwise, Generated.jwt_decode_memo - and the store objects that are alive), and decode_jwt,
   _BearerAuth.__init__ and _BearerAuth.__call__ are modelled by INTERPRETING their statements in source order
   (Generated.jwt_decode_steps / jwt_init_steps / jwt_call_steps), the clock comparison being Generated.jwt_exp_cmp.
   The spec has no state at all: every use is judged by the token and the clock of that moment. *)
From Coq Require Import ZArith List Bool String.
From KV Require Import Base.Sx Base.Str Gen.Generated Model.S3Retry Model.Jwt.
Import ListNotations.
Open Scope Z_scope.

(* ---------- decode_jwt, statement by statement ---------- *)
Inductive dres := DOk | DRej (r : reject) | DRaw.     (* DRaw: NameError / AttributeError / None returned *)

Definition cmpZ (op : string) (a b : Z) : bool :=
  if String.eqb op "Gt" then a >? b else if String.eqb op "GtE" then a >=? b
  else if String.eqb op "Lt" then a <? b else if String.eqb op "LtE" then a <=? b
  else if String.eqb op "Eq" then a =? b else negb (a =? b).
(* `time.time() <op> np.inf` *)
Definition cmp_inf (op : string) : bool :=
  negb (String.eqb op "Gt" || String.eqb op "GtE" || String.eqb op "Eq").

(* which locals of decode_jwt are bound *)
Record dstate := mkD { d_split : bool; d_nosig : bool; d_header : bool; d_claims : bool; d_exp : option expclaim }.
Definition d0 : dstate := mkD false false false false None.

Definition sig_bad (t : token) : bool := String.eqb (t_alg t) jwt_sig_alg && negb (t_siglen t =? jwt_sig_len).

Fixpoint run_decode (steps : list string) (t : token) (now : Z) (d : dstate) : dres :=
  match steps with
  | [] => DRaw                                   (* falls off the end: None instead of the claims *)
  | s :: rest =>
      if String.eqb s "split" then
        if t_nseg t =? jwt_nseg
        then run_decode rest t now (mkD true (d_nosig d) (d_header d) (d_claims d) (d_exp d))
        else DRej NotThreeSegments
      else if String.eqb s "strip_sig" then
        if d_split d then run_decode rest t now (mkD true true (d_header d) (d_claims d) (d_exp d)) else DRaw
      else if String.eqb s "header" then
        if d_nosig d then
          if t_header_ok t then run_decode rest t now (mkD (d_split d) true true (d_claims d) (d_exp d))
          else DRej BadHeader
        else DRaw
      else if String.eqb s "siglen" then
        if d_header d && d_split d then
          if sig_bad t then DRej BadSigLength
          else run_decode rest t now d
        else DRaw
      else if String.eqb s "claims" then
        if t_claims_ok t then run_decode rest t now (mkD (d_split d) (d_nosig d) (d_header d) true (d_exp d))
        else DRej BadClaims
      else if String.eqb s "exp" then
        if d_claims d then
          match t_exp t with
          | ExpInvalid => DRej BadExp
          | e => run_decode rest t now (mkD (d_split d) (d_nosig d) (d_header d) true (Some e))
          end
        else DRaw
      else if String.eqb s "expired" then
        match d_exp d with
        | None => DRaw
        | Some (ExpInt v) => if cmpZ jwt_exp_cmp now v then DRej Expired else run_decode rest t now d
        | Some _ => if cmp_inf jwt_exp_cmp then DRej Expired else run_decode rest t now d
        end
      else if String.eqb s "return" then (if d_claims d then DOk else DRaw)
      else DRaw
  end.

(* ---------- what a process may remember between validations ---------- *)
Definition memT (n : nat) (l : list nat) : bool := existsb (Nat.eqb n) l.
Definition trim (cap : Z) (l : list nat) : list nat := if cap <? 0 then l else firstn (Z.to_nat cap) l.

(* decode_jwt(token id) under a memo policy: None = a plain function; Some cap = functools cache of `cap` entries
   (cap < 0: unbounded) keyed by the token string, successful results only (exceptions are not cached) *)
Definition decode_memo (policy : option Z) (memo : list nat) (id : nat) (t : token) (now : Z) : dres * list nat :=
  match policy with
  | None => (run_decode jwt_decode_steps t now d0, memo)
  | Some cap =>
      if memT id memo then (DOk, trim cap (id :: filter (fun j => negb (Nat.eqb j id)) memo))
      else match run_decode jwt_decode_steps t now d0 with
           | DOk => (DOk, trim cap (id :: memo))
           | r => (r, memo)
           end
  end.

(* _BearerAuth.__init__ *)
Fixpoint run_init (steps : list string) (policy : option Z) (memo : list nat) (id : nat) (t : token) (now : Z)
         (claims : bool) : dres * list nat :=
  match steps with
  | [] => (DOk, memo)
  | s :: rest =>
      if String.eqb s "decode" then
        match decode_memo policy memo id t now with
        | (DOk, m) => run_init rest policy m id t now true
        | (r, m) => (r, m)
        end
      else if String.eqb s "need_prefix" then
        if claims then (if t_has_prefix t then run_init rest policy memo id t now claims else (DRej NoPrefix, memo))
        else (DRaw, memo)
      else if String.eqb s "keep_token" then run_init rest policy memo id t now claims
      else (DRaw, memo)
  end.

(* _auth_factory(url, token) *)
Definition factory (policy : option Z) (memo : list nat) (scheme host : string) (id : nat) (t : token) (now : Z)
  : dres * list nat :=
  if negb (String.eqb scheme jwt_scheme) && negb (String.eqb host jwt_host_exception) then (DRej NotHttps, memo)
  else run_init jwt_init_steps policy memo id t now false.

(* _BearerAuth.__call__ : run by requests while it prepares a request, before anything is sent.
   Flags: path / valid_prefixes bound, Authorization header set. *)
Fixpoint run_call (steps : list string) (policy : option Z) (memo : list nat) (id : nat) (t : token) (now : Z)
         (path : list Z) (hp hv hh : bool) : dres * list nat :=
  match steps with
  | [] => (DRaw, memo)                            (* returns None instead of the request *)
  | s :: rest =>
      if String.eqb s "decode" then
        match decode_memo policy memo id t now with
        | (DOk, m) => run_call rest policy m id t now path hp hv hh
        | (r, m) => (r, m)
        end
      else if String.eqb s "path" then run_call rest policy memo id t now path true hv hh
      else if String.eqb s "prefixes" then run_call rest policy memo id t now path hp true hh
      else if String.eqb s "scope" then
        if hp && hv then
          if existsb (fun pre => starts_with pre path) (t_prefixes t) then run_call rest policy memo id t now path hp hv hh
          else (DRej OutOfScope, memo)
        else (DRaw, memo)
      else if String.eqb s "set_header" then run_call rest policy memo id t now path hp hv true
      else if String.eqb s "return" then (if hh then (DOk, memo) else (DRaw, memo))
      else (DRaw, memo)
  end.

(* ---------- uses of tokens in one process ---------- *)
Inductive entry :=
| EDecode              (* decode_jwt(tok) *)
| EOpen                (* S3ChunkStore(url, token=tok) and one request through it (get_chunk / the RDB file of from_url) *)
| ECall (k : nat).     (* one more request on the k-th store object constructed so far *)

Record use := mkUse { u_entry : entry; u_tok : nat; u_now : Z; u_scheme : string; u_host : string;
                      u_path : list Z; u_proc : proc; u_len : nat; u_fs : list outcome }.

(* memo of decode_jwt; token ids of the store objects alive, in order of construction *)
Record pstate := mkP { p_memo : list nat; p_stores : list nat }.
Definition p0 : pstate := mkP [] [].

Definition no_token : token := mkToken 0 false "" 0 false ExpAbsent false [].
Definition tok (toks : list token) (id : nat) : token := nth id toks no_token.

Definition class_of (d : dres) : err := match d with DRej r => reject_class r | _ => Raw end.

(* a request through the auth hook of a store whose token is id *)
Definition send (policy : option Z) (cfg : config) (memo : list nat) (id : nat) (t : token) (u : use)
  : (result * nat) * dres * list nat :=
  match run_call jwt_call_steps policy memo id t (u_now u) (u_path u) false false false with
  | (DOk, m) => (request cfg (u_proc u) (u_len u) [] (u_fs u), DOk, m)
  | (d, m) => ((Err (class_of d), O), d, m)
  end.

(* one use: (what the caller sees, requests that reached the server), the decision, the process state afterwards *)
Definition use_step (policy : option Z) (cfg : config) (toks : list token) (st : pstate) (u : use)
  : (result * nat) * dres * pstate :=
  match u_entry u with
  | EDecode =>
      match decode_memo policy (p_memo st) (u_tok u) (tok toks (u_tok u)) (u_now u) with
      | (DOk, m) => ((Ok O, O), DOk, mkP m (p_stores st))
      | (d, m) => ((Err (class_of d), O), d, mkP m (p_stores st))
      end
  | EOpen =>
      match factory policy (p_memo st) (u_scheme u) (u_host u) (u_tok u) (tok toks (u_tok u)) (u_now u) with
      | (DOk, m) =>
          let '(r, d, m') := send policy cfg m (u_tok u) (tok toks (u_tok u)) u in
          (r, d, mkP m' (p_stores st ++ [u_tok u]))
      | (d, m) => ((Err (class_of d), O), d, mkP m (p_stores st))      (* no store object, nothing sent *)
      end
  | ECall k =>
      match nth_error (p_stores st) k with
      | Some id => let '(r, d, m') := send policy cfg (p_memo st) id (tok toks id) u in (r, d, mkP m' (p_stores st))
      | None => ((Err Raw, O), DRaw, st)
      end
  end.

Fixpoint run_hist_p (policy : option Z) (cfg : config) (toks : list token) (st : pstate) (us : list use)
  : list (result * nat) * pstate :=
  match us with
  | [] => ([], st)
  | u :: rest => let '(r, _, st') := use_step policy cfg toks st u in
                 let '(rs, st'') := run_hist_p policy cfg toks st' rest in (r :: rs, st'')
  end.
(* the code as it stands *)
Definition run_hist := run_hist_p jwt_decode_memo.

(* =====================================================================================
   SPEC: no state.  A use is judged by the token, the clock at that moment, the URL and the path.
   ===================================================================================== *)
Definition expired_at (t : token) (now : Z) : bool :=
  match t_exp t with ExpInt v => now >? v | _ => false end.
(* what decode_jwt must refuse *)
Definition decode_bad (t : token) (now : Z) : bool :=
  negb (t_nseg t =? 3) || negb (t_header_ok t) || negb (t_claims_ok t)
  || (String.eqb (t_alg t) "ES256" && negb (t_siglen t =? 86))
  || match t_exp t with ExpInvalid => true | ExpInt v => now >? v | ExpAbsent => false end.
Definition not_https (scheme host : string) : bool :=
  negb (String.eqb scheme "https") && negb (String.eqb host "127.0.0.1").
(* what store construction must refuse *)
Definition open_bad (scheme host : string) (t : token) (now : Z) : bool :=
  not_https scheme host || decode_bad t now || negb (t_has_prefix t).

Definition spec_class (scheme host : string) : err := if not_https scheme host then Auth else InvalidTok.
Definition spec_token_use (scheme host : string) (t : token) (now : Z) (path : list Z) (cfg : config) (len : nat)
           (fs : list outcome) : result * nat :=
  if bad_token scheme host t now path then (Err (spec_class scheme host), O) else spec_request cfg len fs.

(* `stores` = the uses that constructed the store objects alive (they tell the URL and the token of each store) *)
Definition spec_use (cfg : config) (toks : list token) (stores : list use) (u : use) : result * nat :=
  match u_entry u with
  | EDecode => (if decode_bad (tok toks (u_tok u)) (u_now u) then Err InvalidTok else Ok O, O)
  | EOpen => spec_token_use (u_scheme u) (u_host u) (tok toks (u_tok u)) (u_now u) (u_path u) cfg (u_len u) (u_fs u)
  | ECall k =>
      match nth_error stores k with
      | Some u0 => spec_token_use (u_scheme u0) (u_host u0) (tok toks (u_tok u0)) (u_now u) (u_path u) cfg (u_len u) (u_fs u)
      | None => (Err Raw, O)
      end
  end.
Definition spec_stores (toks : list token) (stores : list use) (u : use) : list use :=
  match u_entry u with
  | EOpen => if open_bad (u_scheme u) (u_host u) (tok toks (u_tok u)) (u_now u) then stores else stores ++ [u]
  | _ => stores
  end.
Fixpoint spec_hist (cfg : config) (toks : list token) (stores : list use) (us : list use) : list (result * nat) :=
  match us with
  | [] => []
  | u :: rest => spec_use cfg toks stores u :: spec_hist cfg toks (spec_stores toks stores u) rest
  end.

Definition is_call (u : use) : bool := match u_entry u with ECall _ => true | _ => false end.
(* the token a use puts on the wire: its own, or the one of the store it calls *)
Definition used_token (toks : list token) (st : pstate) (u : use) : option token :=
  match u_entry u with
  | ECall k => match nth_error (p_stores st) k with Some id => Some (tok toks id) | None => None end
  | _ => Some (tok toks (u_tok u))
  end.

(* =====================================================================================
   wire
   ===================================================================================== *)
Definition to_proc (x : sx) : proc * nat :=
  match x with
  | L [I 0; segs] => let s := to_nats segs in (PChunk s, fold_right Nat.add O s)
  | L [I 1; I len] => (PObject, Z.to_nat len)
  | _ => (PObject, O)
  end.
(* use = (entry k tok now scheme host path proc fs), entry: 0 decode, 1 open, 2 call k *)
Definition to_use (x : sx) : use :=
  match x with
  | L [I e; I k; I id; I now; sch; host; path; p; fs] =>
      let '(pr, len) := to_proc p in
      mkUse (if e =? 0 then EDecode else if e =? 1 then EOpen else ECall (Z.to_nat k)) (Z.to_nat id) now
            (to_string sch) (to_string host) (to_Zs path) pr len (to_outcomes fs)
  | _ => mkUse EDecode O 0 "" "" [] PObject O []
  end.
Definition of_dres (d : dres) : Z :=
  match d with DOk => 0 | DRej r => of_reject (Some r) | DRaw => 99 end.
Definition of_res2 (r : result * nat) : sx := L [of_result (fst r); of_nat (snd r)].

(* per use: (model (result requests) decision memo_after stores_after spec (result requests) token_expired_now) *)
Fixpoint hist_wire (cfg : config) (toks : list token) (st : pstate) (stores : list use) (us : list use) : list sx :=
  match us with
  | [] => []
  | u :: rest =>
      let '(r, d, st') := use_step jwt_decode_memo cfg toks st u in
      L [of_res2 r; I (of_dres d); of_nats (p_memo st'); of_nat (List.length (p_stores st'));
         of_res2 (spec_use cfg toks stores u);
         of_bool (match used_token toks st u with Some t => expired_at t (u_now u) | None => false end)]
      :: hist_wire cfg toks st' (spec_stores toks stores u) rest
  end.

(* (cfg tokens uses) -> one entry per use *)
Definition wire_93 (x : sx) : sx :=
  match x with
  | L [cfg; toks; us] => L (hist_wire (to_config cfg) (map to_token (to_list toks)) p0 [] (map to_use (to_list us)))
  | _ => sx_err
  end.
