(* C06 round 3: three pieces of glue between the public entry points and the modelled core.

   1. DTYPES.  What dtype every block has on its way from the getter (get_chunk / get_chunk_or_placeholder /
      get_chunk_or_default) through the `array[index]` of get_dask_array (PlaceholderChunk.__getitem__), _default_zero,
      _apply_data_lost and weights * weights_channel[..., newaxis], and what dask delivers when it assembles the blocks
      (dask.array.core.concatenate3: the result takes the dtype of the FIRST block and every other block is cast into it).
   2. GRAPH KEYS.  The name get_dask_array gives a dask array (out_name = f'{array_name}-{offset}-{token}', token =
      tokenize(self, chunks, dtype, index)), the merged task graph as a dictionary from (name, block index) to a block
      of one array, and the look-up `_apply_data_lost` / `_default_zero` tasks perform through these keys.
   3. PREFIXES.  Where the chunks of each array are looked for: 'prefix' of the chunk_info entry, or (legacy layout)
      chunk_name as seen through the telstate view in which the chunk_info was found - the L0 view for the L0 arrays,
      the view of the flags capture stream for an attached flags stream (_ensure_prefix_is_set, _upgrade_flags,
      view_capture_stream without `inherit`).
   The decision expressions are the ones regenerated from the source (the gen_ definitions of Gen.Generated). *)
From Coq Require Import ZArith List Bool String.
From KV Require Import Base.Sx Model.Prune Model.LostMap Model.LostIO.

Import ListNotations.
Open Scope Z_scope.

(* ------------------------------------------------------------------------------------------------ *)
(* 1. dtypes: 0 uint8, 1 float32, 2 float64, 3 complex64, 4 complex128 *)
Definition DT_U8 : Z := 0.
Definition DT_F32 : Z := 1.
Definition DT_F64 : Z := 2.
Definition DT_C64 : Z := 3.
Definition DT_C128 : Z := 4.
Definition is_complex (d : Z) : bool := 3 <=? d.

(* numpy.result_type on this set *)
Definition promote (a b : Z) : Z :=
  if a =? b then a
  else if (Z.max a b =? 3) && (Z.min a b =? 2) then 4 else Z.max a b.

Inductive dblk := DArr (d : Z) | DPh (d : Z) | DRaise.

(* the getter, for a chunk of an array declared with dtype `declared`: a stored chunk has the declared dtype (the
   stores refuse any other as BadChunk), PlaceholderChunk(shape, dtype, chunk_name), np.full(shape, default_value, dtype) *)
Definition fetch_dt (g : getter) (present : bool) (declared : Z) : dblk :=
  match read_block g present with
  | BData => DArr declared
  | BPlaceholder => DPh (Generated.gen_placeholder_ctor_dtype declared)
  | BFill _ => DArr (Generated.gen_default_chunk_dtype declared)
  | BRaise => DRaise
  end.

(* block[index] inside get_dask_array's `array[index]`: ndarray slicing keeps the dtype, a placeholder answers with
   PlaceholderChunk.__getitem__; slice_fn is what that method passes on as dtype *)
Definition slice_dt_with (slice_fn : Z -> Z) (b : dblk) : dblk :=
  match b with DPh d => DPh (slice_fn d) | x => x end.
Definition slice_dt : dblk -> dblk := slice_dt_with Generated.gen_placeholder_slice_dtype.

(* _default_zero *)
Definition default_zero_dt (b : dblk) : dblk :=
  match b with DPh d => DArr (Generated.gen_default_zero_dtype d) | x => x end.

(* one block of darray[a] as ChunkStoreVisFlagsWeights consumes it (a <> flags: through _default_zero; flags: the
   DATA_LOST-filled default chunk, then _apply_data_lost = a copy ORed in place, dtype unchanged) *)
Definition vfw_block_dt_with (slice_fn : Z -> Z) (a : nat) (present sliced : bool) (declared : Z) : dblk :=
  let b := fetch_dt (getter_of (vfw_errors a)) present declared in
  let b := if sliced then slice_dt_with slice_fn b else b in
  if Nat.eqb a A_FLAGS then b else default_zero_dt b.
Definition vfw_block_dt : nat -> bool -> bool -> Z -> dblk := vfw_block_dt_with Generated.gen_placeholder_slice_dtype.

Definition dt_of (b : dblk) : option Z := match b with DArr d => Some d | _ => None end.

(* values are (re, im); a cast to a real dtype discards the imaginary part (numpy: ComplexWarning, not an error) *)
Definition cval := (Z * Z)%type.
Definition cast (to : Z) (v : cval) : cval := if is_complex to then v else (fst v, 0).
Definition well_typed (d : Z) (v : cval) : Prop := is_complex d = true \/ snd v = 0.

(* dask concatenate3 over the blocks in C order: np.empty(shape, dtype = dtype of the first block); result[idx] = arr *)
Definition deliver (blocks : list (Z * list cval)) : option (Z * list (list cval)) :=
  match blocks with
  | [] => None
  | (d, _) :: _ => Some (d, map (fun b => map (cast d) (snd b)) blocks)
  end.

(* the blocks of one array: (present?, cut by the window?, values the block holds after _default_zero) *)
Definition blockspec := (bool * bool * list cval)%type.
Definition vfw_blocks_with (slice_fn : Z -> Z) (a : nat) (declared : Z) (bs : list blockspec) : option (list (Z * list cval)) :=
  fold_right (fun b acc =>
                match dt_of (vfw_block_dt_with slice_fn a (fst (fst b)) (snd (fst b)) declared), acc with
                | Some d, Some l => Some ((d, snd b) :: l)
                | _, _ => None
                end) (Some []) bs.
Definition vfw_blocks : nat -> Z -> list blockspec -> option (list (Z * list cval)) :=
  vfw_blocks_with Generated.gen_placeholder_slice_dtype.

Definition delivered_with (slice_fn : Z -> Z) (a : nat) (declared : Z) (bs : list blockspec) : option (Z * list (list cval)) :=
  match vfw_blocks_with slice_fn a declared bs with Some l => deliver l | None => None end.
Definition delivered : nat -> Z -> list blockspec -> option (Z * list (list cval)) :=
  delivered_with Generated.gen_placeholder_slice_dtype.

(* weights * weights_channel[..., np.newaxis]: blockwise product of two zero-filled arrays *)
Definition weights_dt (dw dwc : Z) : Z := promote dw dwc.

(* ------------------------------------------------------------------------------------------------ *)
(* 2. graph keys *)
Fixpoint zss_eqb (a b : list (list Z)) : bool :=
  match a, b with
  | [], [] => true
  | x :: a', y :: b' => zs_eqb x y && zss_eqb a' b'
  | _, _ => false
  end.

(* a component of a name: tag + content.  0 array_name = store.join(prefix, array) as (prefix id, array key id),
   1 offset, 20 the store, 21 chunks (after pruning), 22 dtype, 23 index (after pruning), 9 a later getitem *)
Definition ncomp := (Z * list (list Z))%type.
Definition ncomp_eqb (a b : ncomp) : bool := (fst a =? fst b) && zss_eqb (snd a) (snd b).
Fixpoint name_eqb (a b : list ncomp) : bool :=
  match a, b with
  | [], [] => true
  | x :: a', y :: b' => ncomp_eqb x y && name_eqb a' b'
  | _, _ => false
  end.

Record gda_req := { r_prefix : Z; r_key : Z;               (* array_name = store.join(info['prefix'], array) *)
                    r_store : Z;
                    r_chunks : list (list Z); r_dtype : Z;  (* chunks, index, offset as _prune_chunks returns them *)
                    r_index : list (option (Z * Z)); r_offset : list Z }.

Definition enc_index (idx : list (option (Z * Z))) : list (list Z) :=
  map (fun w => match w with Some (a, b) => [a; b] | None => [] end) idx.

Definition token_with (args : list string) (r : gda_req) : list ncomp :=
  map (fun arg => if String.eqb arg "self" then (20, [[r_store r]])
                  else if String.eqb arg "chunks" then (21, r_chunks r)
                  else if String.eqb arg "dtype" then (22, [[r_dtype r]])
                  else if String.eqb arg "index" then (23, enc_index (r_index r))
                  else (29, [])) args.

Definition out_name_with (fields args : list string) (r : gda_req) : list ncomp :=
  flat_map (fun f => if String.eqb f "array_name" then [(0, [[r_prefix r; r_key r]])]
                     else if String.eqb f "offset" then [(1, [r_offset r])]
                     else if String.eqb f "token" then token_with args r
                     else [(8, [])]) fields.

(* array[index]: dask returns the array itself for an all-[:] index, else a new array named after (array, index) *)
Definition getitem_name (n : list ncomp) (idx : list (option (Z * Z))) : list ncomp :=
  if forallb (fun w => match w with None => true | Some _ => false end) idx then n else (9, enc_index idx) :: n.

Definition dask_name_with (fields args : list string) (r : gda_req) : list ncomp :=
  getitem_name (out_name_with fields args r) (r_index r).
Definition dask_name : gda_req -> list ncomp := dask_name_with Generated.gen_out_name_fields Generated.gen_token_args.

(* the merged graph: for every array (number a in the list) and block index J of it, key (name, J) -> block J of
   array a.  A Python dict: of two entries with equal keys the LATER one is what a look-up finds. *)
Definition gkey := (list ncomp * list nat)%type.
Definition gkey_eqb (a b : gkey) : bool := name_eqb (fst a) (fst b) && nats_eqb (snd a) (snd b).

Fixpoint graph_from (namef : gda_req -> list ncomp) (a : nat) (arrs : list (gda_req * list (list nat)))
  : list (gkey * (nat * list nat)) :=
  match arrs with
  | [] => []
  | (r, blocks) :: rest => map (fun J => ((namef r, J), (a, J))) blocks ++ graph_from namef (S a) rest
  end.

Definition graph_lookup (g : list (gkey * (nat * list nat))) (k : gkey) : option (nat * list nat) :=
  match find (fun e => gkey_eqb (fst e) k) (rev g) with Some e => Some (snd e) | None => None end.

(* the block a task that names (array.name,) + J as its argument receives *)
Definition resolve_with (namef : gda_req -> list ncomp) (arrs : list (gda_req * list (list nat))) (r : gda_req)
           (J : list nat) : option (nat * list nat) :=
  graph_lookup (graph_from namef 0 arrs) (namef r, J).
Definition resolve := resolve_with dask_name.

Definition array_id (r : gda_req) : Z * Z := (r_prefix r, r_key r).

(* isinstance(chunk, PlaceholderChunk) as _apply_data_lost sees it: the chunk is what the graph holds under the key *)
Definition placeholder_via_graph (c : cfg) (arrs : list (gda_req * list (list nat))) (a : nat) (J : list nat) : bool :=
  match nth_error arrs a with
  | Some (r, _) => match resolve arrs r J with Some (b, J') => placeholder c b J' | None => false end
  | None => false
  end.

(* ------------------------------------------------------------------------------------------------ *)
(* 3. prefixes.  A telstate namespace: (0, s) = <cbid>_<s>, (1, 0) = <cbid>, (2, s) = <s>, (3, 0) = the root *)
Definition ns := (Z * Z)%type.
Definition pentry := (Z * option Z * ainfo)%type.        (* array key, 'prefix' if the entry has one, shape + chunks *)
Definition pe_key (e : pentry) : Z := fst (fst e).
Definition pe_prefix (e : pentry) : option Z := snd (fst e).
Definition pe_info (e : pentry) : ainfo := snd e.

Record telstate := { t_chunk_name : ns -> option Z;
                     t_stream_type : ns -> option Z;          (* 1 = 'sdp.flags', 0 = 'sdp.vis', other = anything else *)
                     t_src_streams : ns -> option (list Z);
                     t_chunk_info : ns -> option (list pentry);
                     t_archived : option (list Z) }.         (* sdp_archived_streams (root namespace) *)

(* telstate[key] through a view: the first prefix that has the key *)
Definition vget {A : Type} (f : ns -> option A) (view : list ns) : option A :=
  fold_right (fun n acc => match f n with Some v => Some v | None => acc end) None view.

Definition ns_of (s : Z) (what : string) : ns :=
  if String.eqb what "capture_stream" then (0, s)
  else if String.eqb what "capture_block" then (1, 0)
  else if String.eqb what "stream" then (2, s) else (3, 0).

(* view_capture_stream(telstate, cbid, s) for a stream without `inherit`: the namespaces searched first, most specific
   first (the order is regenerated from the sequence of telstate.view() calls), then whatever the given view had *)
Definition view_capture_stream (base : list ns) (s : Z) : list ns := map (ns_of s) Generated.gen_view_order ++ base.
Definition root_view : list ns := [(3, 0)].

(* _ensure_prefix_is_set(chunk_info, telstate): None = KeyError (an entry without prefix and no chunk_name in view) *)
Definition ensure_prefix (ci : list pentry) (chunk_name : option Z) : option (list pentry) :=
  fold_right (fun e acc =>
                match acc with
                | None => None
                | Some l =>
                    match pe_prefix e with
                    | Some _ => Some (e :: l)
                    | None => match chunk_name with
                              | Some p => Some ((pe_key e, Some p, pe_info e) :: l)
                              | None => None
                              end
                    end
                end) (Some []) ci.

Definition pfind (k : Z) (ci : list pentry) : option pentry := find (fun e => pe_key e =? k) ci.
Fixpoint pupd (e : pentry) (ci : list pentry) : list pentry :=
  match ci with
  | [] => [e]
  | x :: t => if pe_key x =? pe_key e then e :: t else x :: pupd e t
  end.

(* _upgrade_chunk_info(chunk_info, improved): None = ValueError *)
Fixpoint upgrade_entries (ci : list pentry) (improved : list pentry) : option (list pentry) :=
  match improved with
  | [] => Some ci
  | e :: rest =>
      let orig := match pfind (pe_key e) ci with Some o => o | None => e end in
      if zs_eqb (skipn Generated.gen_upgrade_compares_shape_from (i_shape (pe_info e)))
                (skipn Generated.gen_upgrade_compares_shape_from (i_shape (pe_info orig)))
      then upgrade_entries (pupd e ci) rest else None
  end.

(* does stream s qualify in the loop of _upgrade_flags?  None = KeyError (a flags stream without src_streams) *)
Definition qualifies (ts : telstate) (view0 : list ns) (l0 : Z) (s : Z) : option bool :=
  let cs := view_capture_stream view0 s in
  match vget (t_stream_type ts) cs with
  | Some 1 => match vget (t_src_streams ts) cs with
              | Some src => Some (existsb (Z.eqb l0) src)
              | None => None
              end
  | _ => Some false
  end.

(* one iteration of `for s in archived_streams` for a qualifying stream; flags_view says through which view the
   missing prefix is filled (true: telstate_cs, the stream's own view; false: the L0 view) *)
Definition upgrade_by_stream (ts : telstate) (view0 : list ns) (s : Z) (ci : list pentry) : option (list pentry) :=
  let cs := view_capture_stream view0 s in
  match vget (t_chunk_info ts) cs with
  | None => None
  | Some fi =>
      match ensure_prefix fi (vget (t_chunk_name ts)
                                   (if Generated.gen_flags_prefix_from_stream_view then cs else view0)) with
      | None => None
      | Some fi' => upgrade_entries ci fi'
      end
  end.

Fixpoint upgrade_flags_loop (ts : telstate) (view0 : list ns) (l0 : Z) (streams : list Z) (ci : list pentry)
  : option (list pentry) :=
  match streams with
  | [] => Some ci
  | s :: rest =>
      match qualifies ts view0 l0 s with
      | None => None
      | Some false => upgrade_flags_loop ts view0 l0 rest ci
      | Some true => match upgrade_by_stream ts view0 s ci with
                     | Some ci' => upgrade_flags_loop ts view0 l0 rest ci'
                     | None => None
                     end
      end
  end.

(* the chunk_info TelstateDataSource hands to ChunkStoreVisFlagsWeights, as far as keys and prefixes go
   (_align_chunk_info does not touch them) *)
Definition source_entries (ts : telstate) (l0 : Z) (upgrade_flags : bool) : option (list pentry) :=
  let view0 := view_capture_stream root_view l0 in
  match vget (t_chunk_info ts) view0 with
  | None => None
  | Some ci =>
      match ensure_prefix ci (vget (t_chunk_name ts) view0) with
      | None => None
      | Some ci' =>
          if upgrade_flags then
            match t_archived ts with
            | None => Some ci'
            | Some streams => upgrade_flags_loop ts view0 l0 streams ci'
            end
          else Some ci'
      end
  end.

(* ------------------------------------------------------------------------------------------------ *)
(* wires *)
Definition to_cval (x : sx) : cval := match x with L [I a; I b] => (a, b) | _ => (0, 0) end.
Definition of_cval (v : cval) : sx := L [I (fst v); I (snd v)].
Definition to_blockspec (x : sx) : blockspec :=
  match x with L [p; s; vs] => (to_bool p, to_bool s, map to_cval (to_list vs)) | _ => (false, false, []) end.

(* (array-number declared-dtype ((present sliced values) ...)) -> (dtype ((values) ...)) delivered, or the error value *)
Definition wire_602 (x : sx) : sx :=
  match x with
  | L [I a; I d; bs] =>
      match delivered (Z.to_nat a) d (map to_blockspec (to_list bs)) with
      | Some (dt, vals) => L [I dt; L (map (fun b => L (map of_cval b)) vals)]
      | None => sx_err
      end
  | _ => sx_err
  end.

(* (dtype-of-weights dtype-of-weights_channel) -> dtype of weights * weights_channel[..., newaxis] *)
Definition wire_605 (x : sx) : sx :=
  match x with L [I a; I b] => I (weights_dt a b) | _ => sx_err end.

Definition to_req (x : sx) : gda_req * list (list nat) :=
  match x with
  | L [I p; I k; I st; chunks; I d; index; off; blocks] =>
      ({| r_prefix := p; r_key := k; r_store := st; r_chunks := map to_Zs (to_list chunks); r_dtype := d;
          r_index := to_win index; r_offset := to_Zs off |}, map to_nats (to_list blocks))
  | _ => ({| r_prefix := 0; r_key := 0; r_store := 0; r_chunks := []; r_dtype := 0; r_index := []; r_offset := [] |}, [])
  end.

(* ((prefix key store chunks dtype index offset blocks) ...) -> per array and block: the (array number, block) the key
   resolves to; and which pairs of arrays carry the same dask name *)
Definition wire_603 (x : sx) : sx :=
  let arrs := map to_req (to_list x) in
  L [L (map (fun rb => L (map (fun J => match resolve arrs (fst rb) J with
                                        | Some (b, J') => L [of_nat b; of_nats J']
                                        | None => L []
                                        end) (snd rb))) arrs);
     L (map (fun rb => L (map (fun rb' => of_bool (name_eqb (dask_name (fst rb)) (dask_name (fst rb')))) arrs)) arrs)].

Definition to_pentry (x : sx) : pentry :=
  match x with
  | L [I k; p; inf] => (k, to_optZ p, to_ainfo inf)
  | _ => (0, None, to_ainfo (L []))
  end.
Definition of_pentry (e : pentry) : sx := L [I (pe_key e); of_optZ (pe_prefix e); of_ainfo (pe_info e)].

Definition assoc {A : Type} (l : list (ns * A)) (n : ns) : option A :=
  match find (fun e => (fst (fst e) =? fst n) && (snd (fst e) =? snd n)) l with Some e => Some (snd e) | None => None end.
Definition to_ns (x : sx) : ns := match x with L [I a; I b] => (a, b) | _ => (9, 9) end.

(* (chunk_names stream_types src_streams chunk_infos archived-or-() l0 upgrade_flags), each table ((ns value) ...)
   -> the entries (key prefix info), or the error value *)
Definition wire_604 (x : sx) : sx :=
  match x with
  | L [cn; st; src; ci; arch; I l0; uf] =>
      let tab {A} (conv : sx -> A) (t : sx) : list (ns * A) :=
        map (fun e => match e with L [n; v] => (to_ns n, conv v) | _ => ((9, 9), conv (L [])) end) (to_list t) in
      let ts := {| t_chunk_name := assoc (tab to_Z cn); t_stream_type := assoc (tab to_Z st);
                   t_src_streams := assoc (tab to_Zs src);
                   t_chunk_info := assoc (tab (fun v => map to_pentry (to_list v)) ci);
                   t_archived := match arch with L [a] => Some (to_Zs a) | _ => None end |} in
      match source_entries ts l0 (to_bool uf) with
      | Some r => L (map of_pentry r)
      | None => sx_err
      end
  | _ => sx_err
  end.
