(* C15, round 2: katdal/averager.py as called.
     _average_visibilities processes the baselines in blocks of bl_step (35, 50-80): five accumulator buffers of
     bl_step cells, (re-)initialised for every block, filled by the (t, c, b) loops, then finished cell by cell;
     average_visibilities' default factors (timeav=10, chanav=8, flagav=False).
   bl_step, where the buffers are initialised and the defaults are regenerated from the source. *)
From Coq Require Import ZArith QArith Qcanon List Bool Arith.
From KV Require Import Base.Sx Gen.Generated Model.Averager.
Import ListNotations.
Close Scope Q_scope.
Open Scope nat_scope.

(* range(0, n_bl, step) for step > 0 *)
Definition block_starts (n_bl step : nat) : list nat := map (fun i => i * step) (seq 0 ((n_bl + step - 1) / step)).

Definition imapa {A B} (f : nat -> A -> B) (l : list A) : list B :=
  map (fun p => f (fst p) (snd p)) (combine (seq 0 (List.length l)) l).

(* the t / c / b loops of one block: buffers st (bl_step cells), n = bstop - bstart cells in use *)
Definition acc_block (a : arr3 sample) (pos : list (nat * nat)) (bstart n : nat) (st : list acc) : list acc :=
  fold_left (fun st tc => imapa (fun b x => if b <? n then step x (get3 a sample0 (fst tc) (snd tc) (b + bstart)) else x) st)
            pos st.

(* one output bin (all baselines): the `for bstart` loop.  init_per_block = the five `[:] = ...` statements are
   inside that loop (else: only once per bin, before it) *)
Definition bin_blocked (init_per_block : bool) (bl_step : nat) (a : arr3 sample) (pos : list (nat * nat))
           (n_bl count : nat) (flagav : bool) : list sample :=
  snd (fold_left (fun (so : list acc * list sample) bstart =>
                    let n := Nat.min n_bl (bstart + bl_step) - bstart in
                    let st0 := if init_per_block then repeat acc0 bl_step else fst so in
                    let st1 := acc_block a pos bstart n st0 in
                    (st1, snd so ++ map (fun b => finish count flagav (nth b st1 acc0)) (seq 0 n)))
                 (block_starts n_bl bl_step) (repeat acc0 bl_step, [])).

Definition average_kernel_blocked (ipb : bool) (bl_step : nat) (a : arr3 sample)
           (n_time n_chans n_bl timeav chanav : nat) (flagav : bool) : arr3 sample :=
  map (fun i => map (fun j => bin_blocked ipb bl_step a (bin_positions timeav chanav i j) n_bl (timeav * chanav) flagav)
                    (seq 0 (n_chans / chanav))) (seq 0 (n_time / timeav)).

(* average_visibilities with the blocked kernel; None = ZeroDivisionError (a factor is 0 after clamping) or
   range() with a zero step *)
Definition average_api_gen (ct cc fm ipb : bool) (bl_step : nat) (a : arr3 sample) (T F B timeav chanav : nat)
           (flagav : bool) : option (arr3 sample) :=
  let timeav := if ct then Nat.min timeav T else timeav in
  let chanav := if cc then Nat.min chanav F else chanav in
  let flagav := if fm then negb (Nat.eqb (Nat.min (if flagav then 1 else 0) F) 0) else flagav in
  if Nat.eqb timeav 0 || Nat.eqb chanav 0 || Nat.eqb bl_step 0 then None
  else
    let n_time := T / timeav * timeav in
    let n_chans := F / chanav * chanav in
    Some (average_kernel_blocked ipb bl_step (trim a n_time n_chans) n_time n_chans B timeav chanav flagav).
Definition average_api :=
  average_api_gen averager_clamp_timeav averager_clamp_chanav averager_flagav_min averager_init_per_block averager_bl_step.

(* the call with the averaging options left out *)
Definition average_default (a : arr3 sample) (T F B : nat) : option (arr3 sample) :=
  average_api a T F B averager_default_timeav averager_default_chanav averager_default_flagav.

(* ------------------------------------------------------------------ wire *)
(* (T F B (timeav chanav flagav)|() samples) -> (1 (n_time n_chans n_bl of the result) model (timeav chanav)) |
   (0 (timeav chanav));  () = the defaults; (timeav chanav) = the factors the call asked for *)
Definition wire_1510 (x : sx) : sx :=
  match x with
  | L [T; F; B; opts; a] =>
      let T := to_nat T in let F := to_nat F in let B := to_nat B in
      let a := to_arr3 to_sample a in
      let '(timeav, chanav, flagav) :=
          match opts with
          | L [timeav; chanav; flagav] => (to_nat timeav, to_nat chanav, to_bool flagav)
          | _ => (averager_default_timeav, averager_default_chanav, averager_default_flagav)
          end in
      let r := match opts with
               | L [_; _; _] => average_api a T F B timeav chanav flagav
               | _ => average_default a T F B
               end in
      let ta := if averager_clamp_timeav then Nat.min timeav T else timeav in
      let ca := if averager_clamp_chanav then Nat.min chanav F else chanav in
      match r with
      | None => L [I 0; of_nats [timeav; chanav]]
      | Some r => L [I 1; of_nats [T / ta; F / ca; B]; of_arr3 of_sample r; of_nats [timeav; chanav]]
      end
  | _ => sx_err
  end.
