(* C02, extended model of DataSet.select (katdal/dataset.py) on top of Model/Select.v:

   * several spectral windows and subarrays: the `spw=` / `subarray=` keywords with their range check, what a
     change of window / subarray resets, the time base mask `spw_index == spw & subarray_index == subarray`,
     masks re-created with the length of the NEW window / subarray;
   * the surface forms of the name criteria (scans, compscans, target_tags, ants, inputs, pol) as the STRINGS /
     sequences the caller passes: _selection_to_list (comma splitting, stripping, '' -> []), the `~` prefix,
     _is_deselection with its short-circuit, lower-casing and doubling of polarisation letters, and the items that
     make the real code raise (an empty string where `x[0]` is taken, a non-string where `.lower()` is called);
   * the state a call leaves behind in EVERY case, also when it raises part-way: outcome + state, with the public
     attributes (shape, dumps, channels, corr_products, inputs, ants, freqs, scan / compscan / target indices) as
     part of the state - they are only recomputed at the end of a successful call;
   * the constructor path: the initial state is the result of select(spw=0, subarray=0) on the attribute values
     set by DataSet.__init__.

   Decision constants (range comparison operators, change letters, time-base sensors, negation / separator
   characters) are read from Gen/Generated.v (translator item item_select_decisions). *)
From Coq Require Import ZArith List Bool String Ascii.
From KV Require Import Base.Sx Base.Str Base.SelSlice Gen.Generated Model.Select.
Import ListNotations.
Open Scope Z_scope.

(* ------------------------------------------------------------------------------------------------ *)
(* Python helpers                                                                                    *)

(* l[z] with Python's negative indices; None = IndexError *)
Definition py_nth {A : Type} (l : list A) (z : Z) : option A :=
  let n := Z.of_nat (List.length l) in
  if (z <? - n) || (n <=? z) then None else nth_error l (Z.to_nat (if z <? 0 then z + n else z)).

(* comparison operators on integers by the name of their ast class *)
Definition py_cmp (op : string) (a b : Z) : bool :=
  if String.eqb op "Eq" then a =? b
  else if String.eqb op "NotEq" then negb (a =? b)
  else if String.eqb op "Lt" then a <? b
  else if String.eqb op "LtE" then a <=? b
  else if String.eqb op "Gt" then b <? a
  else if String.eqb op "GtE" then b <=? a
  else false.

(* lo <op1> z <op2> n *)
Definition in_range (r : Z * (string * string)) (z n : Z) : bool :=
  py_cmp (fst (snd r)) (fst r) z && py_cmp (snd (snd r)) z n.

Definition code (a : ascii) : Z := Z.of_N (N_of_ascii a).
Definition lower_ascii (a : ascii) : ascii :=
  let n := N_of_ascii a in if (N.leb 65 n && N.leb n 90)%bool then ascii_of_N (n + 32) else a.
Fixpoint lower (s : string) : string :=
  match s with EmptyString => EmptyString | String a t => String (lower_ascii a) (lower t) end.

(* s.split(sep) for a one-character separator: always at least one field *)
Fixpoint split_on_aux (sep : Z) (s : string) (cur : string) : list string :=
  match s with
  | EmptyString => [srev cur]
  | String a t => if code a =? sep then srev cur :: split_on_aux sep t EmptyString
                  else split_on_aux sep t (String a cur)
  end.
Definition split_on (sep : Z) (s : string) : list string := split_on_aux sep s EmptyString.

Fixpoint mapM {A B : Type} (f : A -> option B) (l : list A) : option (list B) :=
  match l with
  | [] => Some []
  | x :: t => match f x, mapM f t with Some y, Some r => Some (y :: r) | _, _ => None end
  end.

(* ------------------------------------------------------------------------------------------------ *)
(* Observation with several spectral windows and subarrays                                           *)

Record xdump := { xd_core : dump; xd_spw : Z; xd_sub : Z }.   (* + Observation/spw_index, subarray_index *)
Record spwin := { w_freqs : list Z; w_halfw : Z }.
Record subarr := { sa_ants : list Z; sa_cps : list cprod }.
(* the names the real code compares strings with: scan states, compscan labels, tags of the catalogue, antenna
   names, input labels; a string outside a table is unknown (matches nothing) *)
Record vocab := {
  v_states : list (string * Z); v_labels : list (string * Z); v_tags : list (string * Z);
  v_ants : list (string * Z); v_inputs : list (string * input)
}.
Record xobs := {
  x_dumps : list xdump; x_half : Z; x_targets : list target;
  x_spws : list spwin; x_subs : list subarr; x_vocab : vocab
}.

(* what select() sees once a window and a subarray are chosen *)
Definition view_of (xo : xobs) (w : spwin) (sa : subarr) : obs :=
  {| o_dumps := map xd_core (x_dumps xo); o_half := x_half xo; o_targets := x_targets xo;
     o_freqs := w_freqs w; o_halfw := w_halfw w; o_cps := sa_cps sa |}.

Definition sensor_val (name : string) (d : xdump) : Z :=
  if String.eqb name "Observation/spw_index" then xd_spw d
  else if String.eqb name "Observation/subarray_index" then xd_sub d
  else -2.

(* self._time_keep[:] = True; self._time_keep &= (sensor == spw); self._time_keep &= (sensor == subarray) *)
Definition window_mask (xo : xobs) (spw sub : Z) : list bool :=
  map (fun d => forallb (fun row => py_cmp (fst (snd row)) (sensor_val (fst row) d)
                                           (if String.eqb (snd (snd row)) "spw" then spw else sub))
                        sel_time_base) (x_dumps xo).

(* ------------------------------------------------------------------------------------------------ *)
(* Surface values: what the caller passes                                                             *)

Inductive sarg := AStr (s : string) | AInt (z : Z) | AObj (id : Z).   (* 'track' | 3 | Antenna / other object *)
Inductive xvalue :=
| XCore (v : value)          (* forms without string processing: index forms, ranges, targets (resolved by katpoint),
                                'auto' / 'cross' / pairs, reset, opaque values *)
| XBare (a : sarg)           (* a single string / integer / object *)
| XSeq (l : list sarg).      (* a list or tuple of them *)
Definition xkwargs := list (string * xvalue).

(* _selection_to_list(names) without groups *)
Definition sel_to_list (x : xvalue) : option (list sarg) :=
  match x with
  | XBare (AStr s) => Some (match s with
                            | EmptyString => []
                            | _ => map (fun f => AStr (strip f)) (split_on sel_list_sep s)
                            end)
  | XBare a => Some [a]
  | XSeq l => Some l
  | XCore _ => None
  end.

Fixpoint lookup_str {A : Type} (tbl : list (string * A)) (s : string) : option A :=
  match tbl with
  | [] => None
  | (k, v) :: t => if String.eqb s k then Some v else lookup_str t s
  end.
Definition unknown_id : Z := -1.
Definition id_of (tbl : list (string * Z)) (s : string) : Z :=
  match lookup_str tbl s with Some i => i | None => unknown_id end.

(* scans / compscans: isinstance(scan, Integral) | scan[0] == '~' | name *)
Definition elab_scan (tbl : list (string * Z)) (a : sarg) : option sitem :=
  match a with
  | AInt z => Some (SIdx z)
  | AStr EmptyString => None                                  (* ''[0]: IndexError *)
  | AStr (String c r) => if py_cmp (fst sel_scan_negation) (code c) (snd sel_scan_negation)
                         then Some (SNot (id_of tbl r)) else Some (SName (id_of tbl (String c r)))
  | AObj _ => None                                            (* not subscriptable *)
  end.

(* target_tags: `tag in known_tags`, never raises *)
Definition elab_tag (tbl : list (string * Z)) (a : sarg) : Z :=
  match a with AStr s => id_of tbl s | _ => unknown_id end.

(* _is_deselection(ant_names): stops at the first name without tilde; None = IndexError / TypeError *)
Fixpoint ants_desel (l : list sarg) : option bool :=
  match l with
  | [] => Some true
  | AStr EmptyString :: _ => None
  | AStr (String c _) :: t => if py_cmp (fst sel_deselection) (code c) (snd sel_deselection) then Some false
                              else ants_desel t
  | AObj _ :: _ => Some false                                 (* ant.name of a katpoint.Antenna: no tilde *)
  | AInt _ :: _ => None
  end.
(* one antenna item -> (carries a tilde, id of the name without it) *)
Definition elab_ant (tbl : list (string * Z)) (a : sarg) : bool * Z :=
  match a with
  | AStr (String c r) => if code c =? snd sel_deselection then (true, id_of tbl r) else (false, id_of tbl (String c r))
  | AStr EmptyString => (false, unknown_id)
  | AObj id => (false, id)
  | AInt _ => (false, unknown_id)
  end.
Definition elab_ants (tbl : list (string * Z)) (l : list sarg) : option (list (bool * Z)) :=
  match ants_desel l with Some _ => Some (map (elab_ant tbl) l) | None => None end.

Definition elab_input (tbl : list (string * input)) (a : sarg) : input :=
  match a with
  | AStr s => match lookup_str tbl s with Some i => i | None => (unknown_id, unknown_id) end
  | _ => (unknown_id, unknown_id)
  end.

(* pol: [i.lower() for i in pols if i]; 'h' = 0, 'v' = 1, another letter c = 2 + its code *)
Definition pol_code (a : ascii) : Z :=
  let c := code a in
  match sel_pol_single with
  | [h; v] => if c =? h then 0 else if c =? v then 1 else 2 + c
  | _ => 2 + c
  end.
Definition elab_pol (a : sarg) : option pitem :=
  match a with
  | AStr s => Some (match lower s with
                    | EmptyString => PEmpty
                    | String c EmptyString => POne (pol_code c)
                    | String c (String c' _) => PTwo (pol_code c) (pol_code c')
                    end)
  | AInt 0 => Some PEmpty                                     (* falsy: dropped by `if i` *)
  | _ => None                                                 (* no .lower() *)
  end.

Definition names_key (k : string) : bool :=
  mem_string k ["scans"; "compscans"; "target_tags"; "ants"; "inputs"; "pol"]%string.

(* surface value of keyword k -> the value evaluated by the loop branch; None = the branch raises *)
Definition elab (vc : vocab) (k : string) (x : xvalue) : option value :=
  if names_key k then
    match sel_to_list x with
    | None => None
    | Some l =>
        if String.eqb k "scans" then option_map VScans (mapM (elab_scan (v_states vc)) l)
        else if String.eqb k "compscans" then option_map VScans (mapM (elab_scan (v_labels vc)) l)
        else if String.eqb k "target_tags" then Some (VIds (map (elab_tag (v_tags vc)) l))
        else if String.eqb k "ants" then option_map VAnts (elab_ants (v_ants vc) l)
        else if String.eqb k "inputs" then Some (VInputs (map (elab_input (v_inputs vc)) l))
        else option_map VPols (mapM elab_pol l)
    end
  else match x with XCore v => Some v | _ => Some (VAtom 0) end.

(* a value on which every branch of the loop raises *)
Definition poison : value := VStr EmptyString.
Definition elab_total (vc : vocab) (k : string) (x : xvalue) : value :=
  match elab vc k x with Some v => v | None => poison end.
Definition elab_kw (vc : vocab) (xkw : xkwargs) : kwargs :=
  map (fun p => (fst p, elab_total vc (fst p) (snd p))) xkw.

(* ------------------------------------------------------------------------------------------------ *)
(* The comparisons of the loop branches as READ FROM THE SOURCE (operators, margins, indices), interpreted
   generically; Proofs/SelectXP.v shows that they are the masks of Model/Select.v (`gen_agrees`), so an edit
   of an operator or a margin in dataset.py changes these definitions and breaks that theorem. *)

Definition py_bool (op : string) (a b : bool) : bool :=
  if String.eqb op "And" then a && b else if String.eqb op "Or" then a || b else false.
Definition py_inZ (op : string) (x : Z) (l : list Z) : bool :=
  if String.eqb op "In" then memZ x l else if String.eqb op "NotIn" then negb (memZ x l) else false.
Definition py_in_input (op : string) (x : input) (l : list input) : bool :=
  if String.eqb op "In" then mem_input x l else if String.eqb op "NotIn" then negb (mem_input x l) else false.

(* v[index] +/- num/den * period *)
Definition range_bound (row : Z * (string * ((Z * Z) * string))) (lo hi period : Z) : Z :=
  let v := if fst row =? 0 then lo else hi in
  let margin := (fst (fst (snd (snd row))) * period) / snd (fst (snd (snd row))) in
  if String.eqb (fst (snd row)) "Add" then v + margin
  else if String.eqb (fst (snd row)) "Sub" then v - margin else v.
Definition gen_range_keep (tbl : list (Z * (string * ((Z * Z) * string)))) (lo hi period x : Z) : bool :=
  forallb (fun row => py_cmp (snd (snd (snd row))) x (range_bound row lo hi period)) tbl.
Definition gen_timerange_mask (o : obs) (lo hi : Z) : list bool :=
  map (fun d => gen_range_keep sel_timerange lo hi (2 * o_half o) (d_ts d)) (o_dumps o).
Definition gen_freqrange_mask (o : obs) (lo hi : Z) : list bool :=
  map (fun f => gen_range_keep sel_freqrange lo hi (2 * o_halfw o) f) (o_freqs o).
Definition gen_auto_mask (o : obs) : list bool :=
  map (fun cp => py_cmp sel_auto_cmp (ant_of (fst cp)) (ant_of (snd cp))) (o_cps o).
Definition gen_cross_mask (o : obs) : list bool :=
  map (fun cp => py_cmp sel_cross_cmp (ant_of (fst cp)) (ant_of (snd cp))) (o_cps o).
Definition gen_pair (ops : string * (string * string)) (names : list Z) (cp : cprod) : bool :=
  py_bool (fst (snd ops)) (py_inZ (fst ops) (ant_of (fst cp)) names) (py_inZ (snd (snd ops)) (ant_of (snd cp)) names).
Definition gen_ants_mask (o : obs) (l : list (bool * Z)) : list bool :=
  if is_deselection l then map (gen_pair sel_ants_desel (map snd l)) (o_cps o)
  else map (gen_pair sel_ants_sel (map snd (filter (fun a => negb (fst a)) l))) (o_cps o).
Definition gen_inputs_mask (o : obs) (l : list input) : list bool :=
  map (fun cp => py_bool (fst (snd sel_inputs_ops)) (py_in_input (fst sel_inputs_ops) (fst cp) l)
                         (py_in_input (snd (snd sel_inputs_ops)) (snd cp) l)) (o_cps o).
(* inpA[-1] == polAB[i] and inpB[-1] == polAB[j] for the two-letter item (p, q) *)
Definition gen_pol_keep (cp : cprod) (p q : Z) : bool :=
  let get (i : Z) := if i =? 0 then p else q in
  py_bool (fst (snd sel_pol_match))
          (py_cmp (fst (fst sel_pol_match)) (pol_of (fst cp)) (get (snd (fst sel_pol_match))))
          (py_cmp (fst (snd (snd sel_pol_match))) (pol_of (snd cp)) (get (snd (snd (snd sel_pol_match))))).

(* ------------------------------------------------------------------------------------------------ *)
(* Public attributes derived from the masks (dataset.py, end of select)                              *)

Fixpoint keep {A : Type} (m : list bool) (l : list A) : list A :=
  match m, l with
  | b :: m', x :: l' => if b then x :: keep m' l' else keep m' l'
  | _, _ => []
  end.
Definition count (m : list bool) : Z := Z.of_nat (List.length (filter (fun b => b) m)).
Definition nonzero (m : list bool) : list Z := keep m (zpos (List.length m)).

(* sorted(set(...)) on integers and on inputs (labels m000h < m000v < m001h: antenna then polarisation) *)
Fixpoint insertZ (x : Z) (l : list Z) : list Z :=
  match l with
  | [] => [x]
  | y :: t => if x <? y then x :: l else if x =? y then l else y :: insertZ x t
  end.
Definition sorted_setZ (l : list Z) : list Z := fold_right insertZ [] l.
Definition input_ltb (a b : input) : bool := (fst a <? fst b) || ((fst a =? fst b) && (snd a <? snd b)).
Fixpoint insert_input (x : input) (l : list input) : list input :=
  match l with
  | [] => [x]
  | y :: t => if input_ltb x y then x :: l else if input_eqb x y then l else y :: insert_input x t
  end.
Definition sorted_inputs (l : list input) : list input := fold_right insert_input [] l.

Record pubattrs := {
  p_shape : list Z; p_dumps : list Z; p_channels : list Z; p_freqs : list Z; p_cps : list cprod;
  p_inputs : list input; p_ants : list Z; p_scans : list Z; p_cscans : list Z; p_tgts : list Z
}.

Definition pub_of (o : obs) (sa : subarr) (s : st) : pubattrs :=
  let cps := keep (bk s) (o_cps o) in
  let inputs := sorted_inputs (flat_map (fun cp => [fst cp; snd cp]) cps) in
  let dumps := keep (tk s) (o_dumps o) in
  {| p_shape := [count (tk s); count (fk s); count (bk s)];
     p_dumps := nonzero (tk s); p_channels := nonzero (fk s); p_freqs := keep (fk s) (o_freqs o);
     p_cps := cps; p_inputs := inputs;
     p_ants := filter (fun a => existsb (fun i => ant_of i =? a) inputs) (sa_ants sa);
     p_scans := sorted_setZ (map d_scan dumps); p_cscans := sorted_setZ (map d_cscan dumps);
     p_tgts := sorted_setZ (map d_target dumps) |}.

Definition pub_empty : pubattrs :=
  {| p_shape := [0; 0; 0]; p_dumps := []; p_channels := []; p_freqs := []; p_cps := []; p_inputs := []; p_ants := [];
     p_scans := []; p_cscans := []; p_tgts := [] |}.

(* ------------------------------------------------------------------------------------------------ *)
(* State and the call                                                                                 *)

Record xst := { x_core : st; x_spw : Z; x_sub : Z; x_pub : pubattrs }.

Inductive outcome := OOk | OTypeError | OIndexError | OFail.

(* the re-application loop with the state it leaves behind: stops at the first branch that raises *)
Fixpoint loop_st (o : obs) (l : kwargs) (s : st) : st * bool :=
  match l with
  | [] => (s, true)
  | kv :: t => match apply1 o s kv with Ok s' => loop_st o t s' | Err _ => (s, false) end
  end.

(* the three reset blocks: the time mask restarts from the window mask, the other two are re-created with the
   size of the (new) spectral window / subarray; the keywords of the group are popped *)
Definition xclear_row (xo : xobs) (o : obs) (spw sub : Z) (reset : string) (s : st)
                      (row : string * (string * list string)) : st :=
  if letter_in (fst row) reset then
    let s' := match attr_dim (fst (snd row)) with
              | Some DT => mset DT (window_mask xo spw sub) s
              | Some d => mset d (ones (dimlen o d)) s
              | None => s
              end in
    set_sel (fold_left (fun l k => remove_key k l) (snd (snd row)) (sel s')) s'
  else s.
Definition xclear (xo : xobs) (o : obs) (spw sub : Z) (reset : string) (s : st) : st :=
  fold_left (xclear_row xo o spw sub reset) sel_clear_table s.

Definition with_core (c : st) (spw sub : Z) (p : pubattrs) : xst :=
  {| x_core := c; x_spw := spw; x_sub := sub; x_pub := p |}.

Definition xselect (xo : xobs) (s : xst) (xkw : xkwargs) : outcome * xst :=
  let kw := elab_kw (x_vocab xo) xkw in
  let strict := match lookup "strict" kw with Some v => truthy v | None => sel_strict_default end in
  if strict && existsb (fun p => negb (mem_string (fst p) sel_valid_kwargs)) kw then (OTypeError, s) else
  let reset0 := match kw with
                | [] => VStr sel_noarg_reset
                | _ => match lookup "reset" kw with Some v => v | None => VStr sel_default_reset end
                end in
  let kw1 := remove_key "reset" kw in
  (* kwargs['spw'] = spw = kwargs.get('spw', self.spw) ; range check *)
  let spwv := match lookup "spw" kw1 with Some v => v | None => VAtom (x_spw s) end in
  let kw2 := set_key "spw" spwv kw1 in
  match spwv with
  | VAtom spw =>
    if negb (in_range sel_spw_range spw (Z.of_nat (List.length (x_spws xo)))) then (OIndexError, s) else
    let subv := match lookup "subarray" kw2 with Some v => v | None => VAtom (x_sub s) end in
    let kw3 := set_key "subarray" subv kw2 in
    match subv with
    | VAtom sub =>
      if negb (in_range sel_sub_range sub (Z.of_nat (List.length (x_subs xo)))) then (OIndexError, s) else
      match reset0 with
      | VStr r0 =>
        let r1 := if String.eqb r0 sel_default_reset then auto_reset kw3 else r0 in
        (* if spw != self.spw: reset += 'TF'; self.spw = spw   (and the same for the subarray) *)
        let r2 := if py_cmp (fst sel_spw_change) spw (x_spw s) then append r1 (snd sel_spw_change) else r1 in
        let r3 := if py_cmp (fst sel_sub_change) sub (x_sub s) then append r2 (snd sel_sub_change) else r2 in
        match py_nth (x_spws xo) spw, py_nth (x_subs xo) sub with
        | Some w, Some sa =>
            let o := view_of xo w sa in
            let c1 := xclear xo o spw sub r3 (x_core s) in
            let c2 := set_sel (update (sel c1) kw3) c1 in
            let r := loop_st o (sel c2) c2 in
            if snd r then (OOk, with_core (fst r) spw sub (pub_of o sa (fst r)))
            else (OFail, with_core (fst r) spw sub (x_pub s))   (* raised part-way: attributes not recomputed *)
        | _, _ => (OFail, s)                                    (* unreachable after the range checks *)
        end
      | _ => (OFail, s)          (* reset is not a string: TypeError at `reset += ..` / `'T' in reset` *)
      end
    | _ => (OFail, s)            (* subarray is not an integer: TypeError in the range check *)
    end
  | _ => (OFail, s)              (* spw is not an integer *)
  end.

(* DataSet.__init__ attribute values, then the constructor's select(spw=0, subarray=0) *)
Definition xraw (xo : xobs) : xst :=
  {| x_core := {| tk := ones (List.length (x_dumps xo)); fk := []; bk := []; sel := []; wk := VAtom 0; flk := VAtom 0 |};
     x_spw := sel_init_spw; x_sub := sel_init_sub; x_pub := pub_empty |}.
Definition ctor_call : xkwargs := [("spw"%string, XCore (VAtom 0)); ("subarray"%string, XCore (VAtom 0))].
Definition xinit (xo : xobs) : xst := snd (xselect xo (xraw xo) ctor_call).

(* ------------------------------------------------------------------------------------------------ *)
(* SPEC: the documented rule with spectral windows and subarrays                                      *)

Record xmasks := { xm_masks : masks; xm_spw : Z; xm_sub : Z }.
Definition xm_of (s : xst) : xmasks := {| xm_masks := masks_of (x_core s); xm_spw := x_spw s; xm_sub := x_sub s |}.

Definition atom_of (dflt : Z) (o : option value) : option Z :=
  match o with None => Some dflt | Some (VAtom z) => Some z | Some _ => None end.

(* dimension d starts afresh: by the reset rule of the single-window spec, or because the window (time and
   frequency) or the subarray (time and correlation products) changes *)
Definition xspec_reset (kw : kwargs) (chg_spw chg_sub : bool) (d : dim) : bool :=
  spec_reset kw d
  || (chg_spw && match d with DT | DF => true | DB => false end)
  || (chg_sub && match d with DT | DB => true | DF => false end).

(* what a dimension starts from: the dumps recorded with this window and subarray; all channels of the window;
   all products of the subarray *)
Definition xbase (xo : xobs) (o : obs) (spw sub : Z) (d : dim) : list bool :=
  match d with
  | DT => map (fun x => (xd_spw x =? spw) && (xd_sub x =? sub)) (x_dumps xo)
  | _ => ones (dimlen o d)
  end.

Definition xspec_select (xo : xobs) (m : xmasks) (xkw : xkwargs) : outcome * xmasks :=
  let kw := elab_kw (x_vocab xo) xkw in
  let strict := match lookup "strict" kw with Some v => truthy v | None => true end in
  if strict && existsb (fun p => negb (mem_string (fst p) doc_valid)) kw then (OTypeError, m) else
  match atom_of (xm_spw m) (lookup "spw" kw) with
  | None => (OFail, m)
  | Some spw =>
    if negb ((0 <=? spw) && (spw <? Z.of_nat (List.length (x_spws xo)))) then (OIndexError, m) else
    match atom_of (xm_sub m) (lookup "subarray" kw) with
    | None => (OFail, m)
    | Some sub =>
      if negb ((0 <=? sub) && (sub <? Z.of_nat (List.length (x_subs xo)))) then (OIndexError, m) else
      if negb (reset_wellformed kw) then (OFail, m) else
      match nth_error (x_spws xo) (Z.to_nat spw), nth_error (x_subs xo) (Z.to_nat sub) with
      | Some w, Some sa =>
          let o := view_of xo w sa in
          if negb (all_ok o kw) then (OFail, m) else
          let chg_spw := negb (spw =? xm_spw m) in
          let chg_sub := negb (sub =? xm_sub m) in
          let dimf (d : dim) := fold_left mand (spec_crit_masks o d kw)
                                          (if xspec_reset kw chg_spw chg_sub d then xbase xo o spw sub d
                                           else mk d (xm_masks m)) in
          (OOk, {| xm_masks := {| m_t := dimf DT; m_f := dimf DF; m_b := dimf DB |}; xm_spw := spw; xm_sub := sub |})
      | _, _ => (OFail, m)
      end
    end
  end.

(* the dimensions the spec starts afresh in this call (T, F, B) *)
Definition xspec_dims (xo : xobs) (m : xmasks) (xkw : xkwargs) : list bool :=
  let kw := elab_kw (x_vocab xo) xkw in
  match atom_of (xm_spw m) (lookup "spw" kw), atom_of (xm_sub m) (lookup "subarray" kw) with
  | Some spw, Some sub => map (xspec_reset kw (negb (spw =? xm_spw m)) (negb (sub =? xm_sub m))) [DT; DF; DB]
  | _, _ => [false; false; false]
  end.

(* ------------------------------------------------------------------------------------------------ *)
(* Wire                                                                                               *)

Definition to_sarg (x : sx) : sarg :=
  match x with
  | L [I 0; s] => AStr (to_string s)
  | L [I 1; I z] => AInt z
  | L [I 2; I z] => AObj z
  | _ => AObj (-1)
  end.
Definition to_xvalue (x : sx) : xvalue :=
  match x with
  | L [I 20; v] => XCore (to_value v)
  | L [I 21; a] => XBare (to_sarg a)
  | L [I 22; l] => XSeq (map to_sarg (to_list l))
  | _ => XCore (VAtom (-1))
  end.
Definition to_xkwargs (x : sx) : xkwargs :=
  map (fun p => match p with L [k; v] => (to_string k, to_xvalue v) | _ => (EmptyString, XCore (VAtom (-1))) end)
      (to_list x).
Definition to_xdump (x : sx) : xdump :=
  match to_Zs x with
  | [a; b; c; d; e; f; g; h] =>
      {| xd_core := {| d_ts := a; d_scan := b; d_state := c; d_cscan := d; d_label := e; d_target := f |};
         xd_spw := g; xd_sub := h |}
  | _ => {| xd_core := {| d_ts := 0; d_scan := 0; d_state := 0; d_cscan := 0; d_label := 0; d_target := 0 |};
            xd_spw := -9; xd_sub := -9 |}
  end.
Definition to_tbl (x : sx) : list (string * Z) :=
  map (fun p => match p with L [s; I z] => (to_string s, z) | _ => (EmptyString, -1) end) (to_list x).
Definition to_itbl (x : sx) : list (string * input) :=
  map (fun p => match p with L [s; a; q] => (to_string s, to_input2 a q) | _ => (EmptyString, (-1, -1)) end) (to_list x).
Definition to_vocab (x : sx) : vocab :=
  match x with
  | L [a; b; c; d; e] => {| v_states := to_tbl a; v_labels := to_tbl b; v_tags := to_tbl c; v_ants := to_tbl d;
                            v_inputs := to_itbl e |}
  | _ => {| v_states := []; v_labels := []; v_tags := []; v_ants := []; v_inputs := [] |}
  end.
Definition to_xobs (x : sx) : xobs :=
  match x with
  | L [ds; I h; ts; ws; sas; vc] =>
      {| x_dumps := map to_xdump (to_list ds); x_half := h; x_targets := map to_target (to_list ts);
         x_spws := map (fun w => match w with L [fs; I hw] => {| w_freqs := to_Zs fs; w_halfw := hw |}
                                            | _ => {| w_freqs := []; w_halfw := 0 |} end) (to_list ws);
         x_subs := map (fun a => match a with L [an; cps] => {| sa_ants := to_Zs an; sa_cps := map to_cprod (to_list cps) |}
                                            | _ => {| sa_ants := []; sa_cps := [] |} end) (to_list sas);
         x_vocab := to_vocab vc |}
  | _ => {| x_dumps := []; x_half := 0; x_targets := []; x_spws := []; x_subs := [];
            x_vocab := to_vocab (L []) |}
  end.

Definition of_outcome (oc : outcome) : sx :=
  I (match oc with OOk => 0 | OTypeError => 1 | OFail => 2 | OIndexError => 3 end).
Definition of_input (i : input) : sx := L [I (fst i); I (snd i)].
Definition of_cprod (c : cprod) : sx := L [I (fst (fst c)); I (snd (fst c)); I (fst (snd c)); I (snd (snd c))].
Definition of_pub (p : pubattrs) : sx :=
  L [of_Zs (p_shape p); of_Zs (p_dumps p); of_Zs (p_channels p); of_Zs (p_freqs p); L (map of_cprod (p_cps p));
     L (map of_input (p_inputs p)); of_Zs (p_ants p); of_Zs (p_scans p); of_Zs (p_cscans p); of_Zs (p_tgts p)].
Definition of_xst (s : xst) : list sx :=
  let c := x_core s in
  [of_bools (tk c); of_bools (fk c); of_bools (bk c); L (map of_string (keys (sel c))); of_atom (wk c); of_atom (flk c);
   I (x_spw s); I (x_sub s); of_pub (x_pub s)].
Definition of_xmasks (m : xmasks) : list sx :=
  [of_bools (m_t (xm_masks m)); of_bools (m_f (xm_masks m)); of_bools (m_b (xm_masks m)); I (xm_spw m); I (xm_sub m)].
(* the public attributes implied by the masks the spec demands *)
Definition spec_pub (xo : xobs) (m : xmasks) : pubattrs :=
  match py_nth (x_spws xo) (xm_spw m), py_nth (x_subs xo) (xm_sub m) with
  | Some w, Some sa =>
      pub_of (view_of xo w sa) sa
             {| tk := m_t (xm_masks m); fk := m_f (xm_masks m); bk := m_b (xm_masks m); sel := [];
                wk := VAtom 0; flk := VAtom 0 |}
  | _, _ => pub_empty
  end.

(* a history of calls from the constructor's state: after EVERY call (also a failed one) the outcome and the
   state left behind by the model, and the outcome and masks demanded by the spec from the state before the call *)
Fixpoint xrun_history (xo : xobs) (s : xst) (calls : list xkwargs) : list sx :=
  match calls with
  | [] => []
  | c :: rest =>
      let r := xselect xo s c in
      let sp := xspec_select xo (xm_of s) c in
      L [L (of_outcome (fst r) :: of_xst (snd r));
         L (of_outcome (fst sp) :: of_xmasks (snd sp) ++ [of_pub (spec_pub xo (snd sp));
                                                          of_bools (xspec_dims xo (xm_of s) c)])]
      :: xrun_history xo (snd r) rest
  end.

(* (xobs (call ...)) -> (initial-state ((model spec) ...)) *)
Definition wire_21 (x : sx) : sx :=
  match x with
  | L [ob; calls] =>
      let xo := to_xobs ob in
      L [L (of_xst (xinit xo)); L (xrun_history xo (xinit xo) (map to_xkwargs (to_list calls)))]
  | _ => sx_err
  end.

(* _selection_to_list / _is_deselection on their own: (value) -> (status items deselection) *)
Definition of_sarg (a : sarg) : sx :=
  match a with AStr s => L [I 0; of_string s] | AInt z => L [I 1; I z] | AObj z => L [I 2; I z] end.
Definition wire_22 (x : sx) : sx :=
  match sel_to_list (to_xvalue x) with
  | Some l => L [I 0; L (map of_sarg l);
                 I (match ants_desel l with Some true => 1 | Some false => 0 | None => 2 end)]
  | None => L [I 2]
  end.
