(* C14: calibration solutions -> corrections (katdal/applycal.py) and cal product name expansion (visdatav4.py).

   Complex numbers are kept in POLAR form over Q: (magnitude, phase in TURNS).  numpy's abs / angle / cos / sin are
   NOT modelled (the Cartesian<->polar conversion is an uninterpreted interface: the only fact the theorems use
   about it is that a phase is meaningful modulo whole turns, see Proofs/CalInterpP.v `from_polar_congr`), so every
   statement is about magnitude and phase.  `None : option pv` is INVALID_GAIN (NaN + NaN j).

   Code followed (line numbers of katdal/applycal.py):
     unwrap            numpy.unwrap(p) with period 2*pi = 1 turn (function_base.py: dd, ddmod, boundary rule, cumsum)
     cinterp           complex_interp  38-87   (np.interp on magnitude and on unwrapped phase, optional left/right)
     delay_corr        calc_delay_correction  115-131
     bandpass_corr     calc_bandpass_correction 134-157
     gain_corr         calc_gain_correction 160-204
     calibrate_flux    calibrate_flux 207-235, flux override merge 299-305
     merge_substreams  indirect_cal_product_raw 311-331
     stitch            indirect_cal_product 333-382
     normalise         visdatav4._normalise_cal_products 160-183 + dataset._selection_to_list *)
From Coq Require Import ZArith QArith Qround Qabs List Bool String Ascii.
From KV Require Import Base.Sx Base.Str Gen.Generated Model.Interp.
Import ListNotations.
Open Scope Q_scope.

Definition pv := (Q * Q)%type.            (* magnitude, phase in turns *)
Definition half : Q := 1 # 2.
Definition Qlt_bool (a b : Q) : bool := negb (Qle_bool b a).

(* ------------------------------------------------------------------ numpy.unwrap, period = 1 turn *)
Definition frac_part (q : Q) : Q := q - inject_Z (Qfloor q).          (* np.mod(q, 1) *)
(* ddmod = mod(dd + 1/2, 1) - 1/2, and the boundary rule (ddmod == -1/2) & (dd > 0) -> +1/2 *)
Definition wrap_half (d : Q) : Q :=
  let m := frac_part (d + half) - half in
  if Qeq_bool m (- half) && Qlt_bool 0 d then half else m.
(* ph_correct = ddmod - dd, forced to 0 where |dd| < 1/2 *)
Definition unwrap_corr (d : Q) : Q := if Qlt_bool (Qabs d) half then 0 else wrap_half d - d.

(* up[i] = p[i] + cumsum(ph_correct)[i]; `prev` is the previous INPUT sample, acc the running sum *)
Fixpoint unwrap_from (prev acc : Q) (l : list Q) : list Q :=
  match l with
  | [] => []
  | p :: t => let acc' := acc + unwrap_corr (p - prev) in (p + acc') :: unwrap_from p acc' t
  end.
Definition unwrap (l : list Q) : list Q :=
  match l with [] => [] | p :: t => p :: unwrap_from p 0 t end.
(* np.unwrap([ref, p])[1] *)
Definition unwrap2 (ref p : Q) : Q := p + unwrap_corr (p - ref).

(* ------------------------------------------------------------------ complex_interp *)
Inductive ext := Hold | Inval | Val (v : pv).     (* left/right: None | INVALID_GAIN | a complex value *)
Definition cnode := (Q * pv)%type.
Definition mag_nodes (ns : list cnode) : list node := map (fun n => (fst n, fst (snd n))) ns.
Definition phase_nodes (ns : list cnode) : list node :=
  combine (map fst ns) (unwrap (map (fun n => snd (snd n)) ns)).

Definition cinterp (left right : ext) (ns : list cnode) (x : Q) : option pv :=
  match ns with
  | [] => None            (* np.interp raises on empty xp; katdal guards every call with valid.any() *)
  | (x0, _) :: _ =>
      let mn := mag_nodes ns in
      let pn := phase_nodes ns in
      let xn := fst (last ns (x0, (0, 0))) in
      let inner := Some (interp_d mn x, interp_d pn x) in
      if Qlt_bool x x0 then
        match left with
        | Hold => inner
        | Inval => None
        | Val (m, p) => Some (m, unwrap2 (snd (hd (0, 0) pn)) p)
        end
      else if Qlt_bool xn x then
        match right with
        | Hold => inner
        | Inval => None
        | Val (m, p) => Some (m, unwrap2 (snd (last pn (0, 0))) p)
        end
      else inner
  end.

(* what a correction calculator passes as left / right (regenerated from the source, Gen/Generated.v): the argument is
   either INVALID_GAIN (true) or absent (false: np.interp holds the end value) *)
Definition ext_of_edge (invalid : bool) : ext := if invalid then Inval else Hold.

(* np.reciprocal on complex: 1/(m e^{i p}) = (1/m) e^{-i p}; reciprocal(0) and reciprocal(NaN) are NaN *)
Definition recip (v : option pv) : option pv :=
  match v with
  | Some (m, p) => if Qeq_bool m 0 then None else Some (/ m, - p)
  | None => None
  end.

(* ------------------------------------------------------------------ K: delays *)
(* np.nan_to_num(delay) then exp(-2 pi j d f): magnitude 1, phase -d*f turns *)
Definition delay_corr_seg (freqs : list Q) (d : option Q) : list pv :=
  let d0 := match d with Some q => q | None => 0 end in
  map (fun f => (1, - (d0 * f))) freqs.
Definition delay_corr (delays : list (option Q)) (freqs : list Q) : list (list pv) :=
  map (delay_corr_seg freqs) delays.

(* ------------------------------------------------------------------ B: bandpass *)
(* a[mask] with a per-element decision: keep the elements f maps to Some *)
Fixpoint fmap {A B} (f : A -> option B) (l : list A) : list B :=
  match l with
  | [] => []
  | a :: t => match f a with Some b => b :: fmap f t | None => fmap f t end
  end.
(* cal_freqs[valid], bp[valid] *)
Definition valid_node (xv : Q * option pv) : option cnode :=
  match snd xv with Some v => Some (fst xv, v) | None => None end.
Definition valid_nodes (xs : list Q) (vs : list (option pv)) : list cnode := fmap valid_node (combine xs vs).
Definition bandpass_corr_seg (cal_freqs data_freqs : list Q) (bp : list (option pv)) : list (option pv) :=
  match valid_nodes cal_freqs bp with
  | [] => map (fun _ => None) data_freqs
  | ns => map (fun f => recip (cinterp (ext_of_edge bandpass_left_invalid) (ext_of_edge bandpass_right_invalid) ns f))
              data_freqs
  end.
Definition bandpass_corr (cal_freqs data_freqs : list Q) (segs : list (list (option pv))) :=
  map (bandpass_corr_seg cal_freqs data_freqs) segs.

(* ------------------------------------------------------------------ G / GPHASE / GAMP_PHASE: gains *)
(* one segment of the categorical product sensor, already indexed by the input: start dump and either the
   INVALID_GAIN placeholder (None; `value is INVALID_GAIN`) or the per-channel gains *)
Definition sol := (nat * option (list (option pv)))%type.
Definition rsol := (nat * list (option pv))%type.
Definition real_sol (s : sol) : option rsol := match snd s with Some g => Some (fst s, g) | None => None end.
Definition real_sols (s : list sol) : list rsol := fmap real_sol s.
Definition qn (n : nat) : Q := inject_Z (Z.of_nat n).
Definition target_at (targets : list Z) (d : nat) : Z := nth d targets 0%Z.
(* events[valid], gains_per_chan[valid] with valid = isfinite(gains_per_chan) & on_target[events]
   (gain_valid_needs_on_target: regenerated from the source) *)
Definition gain_node (targets : list Z) (tg : Z) (c : nat) (s : rsol) : option cnode :=
  match nth c (snd s) None with
  | Some v => if negb gain_valid_needs_on_target || Z.eqb (target_at targets (fst s)) tg
              then Some (qn (fst s), v) else None
  | None => None
  end.
Definition gain_nodes (rs : list rsol) (targets : list Z) (tg : Z) (c : nat) : list cnode :=
  fmap (gain_node targets tg c) rs.
(* smooth_gains[d, c] followed by the reciprocal *)
Definition gain_value (rs : list rsol) (targets : list Z) (d c : nat) : option pv :=
  match gain_nodes rs targets (target_at targets d) c with
  | [] => None
  | ns => recip (cinterp (ext_of_edge gain_left_invalid) (ext_of_edge gain_right_invalid) ns (qn d))
  end.
Definition n_chans (rs : list rsol) : nat := match rs with [] => 1%nat | s :: _ => List.length (snd s) end.
Definition gain_corr (N : nat) (sols : list sol) (targets : option (list Z)) : list (list (option pv)) :=
  let rs := real_sols sols in
  let tgs := match targets with Some t => t | None => repeat 0%Z N end in
  match rs with
  | [] => repeat [None] N
  | _ => map (fun d => map (gain_value rs tgs d) (seq 0 (n_chans rs))) (seq 0 N)
  end.

(* ------------------------------------------------------------------ SPEC versions of B and G
   The same computations with the DOCUMENTED decisions written out (no constant from the source): a bandpass is INVALID
   beyond the outermost valid channel, a gain holds the nearest valid solution, and a gain solution counts only when it
   is finite AND was derived on the target of the dump.  Proofs/CalInterpP.v shows model = spec (`*_is_spec`); the
   correspondence compares the implementation with both. *)
Definition spec_bandpass_corr_seg (cal_freqs data_freqs : list Q) (bp : list (option pv)) : list (option pv) :=
  match valid_nodes cal_freqs bp with
  | [] => map (fun _ => None) data_freqs
  | ns => map (fun f => recip (cinterp Inval Inval ns f)) data_freqs
  end.
Definition spec_bandpass_corr (cal_freqs data_freqs : list Q) (segs : list (list (option pv))) :=
  map (spec_bandpass_corr_seg cal_freqs data_freqs) segs.
Definition spec_gain_node (targets : list Z) (tg : Z) (c : nat) (s : rsol) : option cnode :=
  match nth c (snd s) None with
  | Some v => if Z.eqb (target_at targets (fst s)) tg then Some (qn (fst s), v) else None
  | None => None
  end.
Definition spec_gain_value (rs : list rsol) (targets : list Z) (d c : nat) : option pv :=
  match fmap (spec_gain_node targets (target_at targets d) c) rs with
  | [] => None
  | ns => recip (cinterp Hold Hold ns (qn d))
  end.
Definition spec_gain_corr (N : nat) (sols : list sol) (targets : option (list Z)) : list (list (option pv)) :=
  let rs := real_sols sols in
  let tgs := match targets with Some t => t | None => repeat 0%Z N end in
  match rs with
  | [] => repeat [None] N
  | _ => map (fun d => map (spec_gain_value rs tgs d) (seq 0 (n_chans rs))) (seq 0 N)
  end.

(* ------------------------------------------------------------------ flux calibration of G *)
Definition flux_table := list (Z * option Q).     (* name id -> flux; None = NaN *)
Fixpoint lookup_flux (tbl : flux_table) (name : Z) : option (option Q) :=
  match tbl with
  | [] => None
  | (n, f) :: t => if Z.eqb n name then Some f else lookup_flux t name
  end.
(* measured_flux.copy().update(gaincal_flux): an override wins; gaincal_flux=None disables everything *)
Definition merge_flux (measured : flux_table) (overrides : option flux_table) : flux_table :=
  match overrides with Some o => o ++ measured | None => [] end.
(* for name in [target.name] + target.aliases: first name with flux > 0 *)
Fixpoint first_flux (tbl : flux_table) (names : list Z) : option Q :=
  match names with
  | [] => None
  | n :: t => match lookup_flux tbl n with
              | Some (Some f) => if Qlt_bool 0 f then Some f else first_flux tbl t
              | _ => first_flux tbl t
              end
  end.
Definition scale_pv (k : Q) (v : option pv) : option pv :=
  match v with Some (m, p) => Some (m * k, p) | None => None end.

Section Flux.
  Variable rsqrt : Q -> Q.                       (* 1/sqrt(flux): uninterpreted *)
  Definition calibrate_flux (sols : list sol) (names_at : nat -> list Z) (tbl : flux_table) : list sol :=
    match tbl with
    | [] => sols
    | _ => map (fun s => match snd s with
                         | None => s
                         | Some g => match first_flux tbl (names_at (fst s)) with
                                     | Some f => (fst s, Some (map (scale_pv (rsqrt f)) g))
                                     | None => s
                                     end
                         end) sols
    end.
End Flux.

(* ------------------------------------------------------------------ several substreams: concatenate, argsort *)
Definition sample := (Q * list (option pv))%type.
Fixpoint insert_sample (s : sample) (l : list sample) : list sample :=
  match l with
  | [] => [s]
  | h :: t => if Qle_bool (fst h) (fst s) then h :: insert_sample s t else s :: l
  end.
Definition merge_substreams (streams : list (list sample)) : list sample :=
  fold_left (fun acc s => insert_sample s acc) (List.concat streams) [].

(* ------------------------------------------------------------------ multi-part products: stitch by timestamp *)
Definition part := list sample.
Definition opt_min (a : option Q) (b : option Q) : option Q :=
  match a, b with
  | Some x, Some y => Some (if Qle_bool x y then x else y)
  | Some x, None => Some x
  | None, o => o
  end.
Definition head_ts (p : part) : option Q := match p with [] => None | s :: _ => Some (fst s) end.
Definition min_ts (ps : list part) : option Q := fold_right (fun p acc => opt_min (head_ts p) acc) None ps.
Definition piece_at (t : Q) (p : part) : option (list (option pv)) :=
  match p with s :: _ => if Qeq_bool (fst s) t then Some (snd s) else None | [] => None end.
Definition advance (t : Q) (p : part) : part :=
  match p with s :: r => if Qeq_bool (fst s) t then r else p | [] => [] end.
(* `piece` after the for loop = the LAST present piece; np.full_like(piece, INVALID_GAIN) *)
Fixpoint last_present (pcs : list (option (list (option pv)))) (d : list (option pv)) : list (option pv) :=
  match pcs with [] => d | Some v :: t => last_present t v | None :: t => last_present t d end.
Definition assemble (pcs : list (option (list (option pv)))) : list (option pv) :=
  let inv := map (fun _ => None) (last_present pcs []) in
  flat_map (fun pc => match pc with Some v => v | None => inv end) pcs.
Fixpoint stitch_fuel (fuel : nat) (ps : list part) : list sample :=
  match fuel with
  | O => []
  | S f => match min_ts ps with
           | None => []
           | Some t => (t, assemble (map (piece_at t) ps)) :: stitch_fuel f (map (advance t) ps)
           end
  end.
Definition total_len (ps : list part) : nat := fold_right (fun p n => (List.length p + n)%nat) O ps.
(* None = KeyError (no part has any sample) *)
Definition stitch (ps : list part) : option (list sample) :=
  match stitch_fuel (total_len ps) ps with [] => None | l => Some l end.

(* multi-part product over several substreams: part n is indirect_cal_product_raw(name + n): EVERY substream must have
   the sensor <substream>_product_<type><n> (Some), else the KeyError makes the whole part the empty sensor; a single
   substream is passed through as is, several are concatenated and sorted *)
Definition is_some {A} (o : option A) : bool := match o with Some _ => true | None => false end.
Definition part_of_substreams (subs : list (option part)) : part :=
  if forallb is_some subs then
    match subs with
    | [Some p] => p
    | _ => merge_substreams (fmap (fun o => o) subs)
    end
  else [].
Definition stitch_substreams (parts : list (list (option part))) : option (list sample) :=
  stitch (map part_of_substreams parts).

(* ------------------------------------------------------------------ product names *)
Open Scope string_scope.
Inductive request := RStr (s : string) | RList (l : list string).
Fixpoint has_dot (s : string) : bool :=
  match s with EmptyString => false | String a t => Ascii.eqb a "."%char || has_dot t end.
(* dataset._selection_to_list(products, all=cal_streams, default=DEFAULT_CAL_PRODUCTS) *)
Definition selection_to_list (r : request) (streams : list string) : list string :=
  match r with
  | RStr s => if String.eqb s "" then []
              else if String.eqb s "all" then streams
              else if String.eqb s "default" then default_cal_products
              else map strip (split_comma s)
  | RList l => l
  end.
Definition join_dot (a b : string) : string := a ++ "." ++ b.
Definition expand_one (streams : list string) (p : string) : option (list string) :=
  if has_dot p then Some [p]
  else if mem_string p streams then Some (map (join_dot p) cal_product_types)
  else if mem_string p cal_product_types then Some (map (fun s => join_dot s p) streams)
  else None.
Fixpoint expand (streams : list string) (reqs : list string) : option (list string) :=
  match reqs with
  | [] => Some []
  | p :: t => match expand_one streams p, expand streams t with
              | Some a, Some b => Some (a ++ b)%list
              | _, _ => None
              end
  end.
Definition is_group (r : request) : bool :=
  match r with RStr s => mem_string s skip_group_names | RList _ => false end.
(* None = ValueError *)
Definition normalise (r : request) (streams : list string) : option (list string * bool) :=
  let req := selection_to_list r streams in
  let skip := is_group r || existsb (fun p => negb (has_dot p)) req in
  match expand streams req with Some l => Some (l, skip) | None => None end.
Close Scope string_scope.

(* ------------------------------------------------------------------ wire *)
Definition q_of_sx (x : sx) : Q :=
  match x with L [I n; I d] => n # (Z.to_pos d) | _ => 0 end.
Definition sx_of_q (q : Q) : sx := let r := Qred q in L [I (Qnum r); I (Zpos (Qden r))].
Definition pv_of_sx (x : sx) : pv := match x with L [m; p] => (q_of_sx m, q_of_sx p) | _ => (0, 0) end.
Definition sx_of_pv (v : pv) : sx := L [sx_of_q (fst v); sx_of_q (snd v)].
Definition opv_of_sx (x : sx) : option pv := match x with L [v] => Some (pv_of_sx v) | _ => None end.
Definition sx_of_opv (v : option pv) : sx := match v with Some v => L [sx_of_pv v] | None => L [] end.
Definition opvs_of_sx (x : sx) : list (option pv) := map opv_of_sx (to_list x).
Definition sx_of_opvs (l : list (option pv)) : sx := L (map sx_of_opv l).
Definition ext_of_sx (x : sx) : ext :=
  match x with L [I 0] => Hold | L [I 1] => Inval | L [I 2; v] => Val (pv_of_sx v) | _ => Hold end.
Definition cnode_of_sx (x : sx) : cnode := match x with L [a; v] => (q_of_sx a, pv_of_sx v) | _ => (0, (0, 0)) end.
Definition sol_of_sx (x : sx) : sol :=
  match x with
  | L [I e; L [g]] => (Z.to_nat e, Some (opvs_of_sx g))
  | L [I e; _] => (Z.to_nat e, None)
  | _ => (O, None)
  end.
Definition sx_of_sol (s : sol) : sx :=
  L [I (Z.of_nat (fst s)); match snd s with Some g => L [sx_of_opvs g] | None => L [] end].
Definition sample_of_sx (x : sx) : sample := match x with L [t; v] => (q_of_sx t, opvs_of_sx v) | _ => (0, []) end.
Definition sx_of_sample (s : sample) : sx := L [sx_of_q (fst s); sx_of_opvs (snd s)].
Definition ftable_of_sx (x : sx) : flux_table :=
  map (fun e => match e with L [I n; L [f]] => (n, Some (q_of_sx f)) | L [I n; _] => (n, None) | _ => (0%Z, None) end)
      (to_list x).
Fixpoint rsqrt_tbl (tbl : list (Q * Q)) (q : Q) : Q :=
  match tbl with [] => 0 | (a, b) :: t => if Qeq_bool a q then b else rsqrt_tbl t q end.
Definition request_of_sx (x : sx) : request :=
  match x with L [I 0; s] => RStr (to_string s) | L [I 1; l] => RList (to_strings l) | _ => RList [] end.

Definition wire_14 (x : sx) : sx :=
  match x with
  | L [I 0; ps] => L (map sx_of_q (unwrap (map q_of_sx (to_list ps))))
  | L [I 1; xs; ns; l; r] =>
      let ns := map cnode_of_sx (to_list ns) in
      L (map (fun x => sx_of_opv (cinterp (ext_of_sx l) (ext_of_sx r) ns (q_of_sx x))) (to_list xs))
  | L [I 2; ds; fs] =>
      L (map (fun seg => L (map sx_of_pv seg))
             (delay_corr (map (fun d => match d with L [q] => Some (q_of_sx q) | _ => None end) (to_list ds))
                         (map q_of_sx (to_list fs))))
  | L [I 3; segs; cf; df] =>
      L (map sx_of_opvs (bandpass_corr (map q_of_sx (to_list cf)) (map q_of_sx (to_list df))
                                       (map opvs_of_sx (to_list segs))))
  | L [I 4; I n; sols; tg] =>
      let tgs := match tg with L [t] => Some (to_Zs t) | _ => None end in
      L (map sx_of_opvs (gain_corr (Z.to_nat n) (map sol_of_sx (to_list sols)) tgs))
  | L [I 23; segs; cf; df] =>
      L (map sx_of_opvs (spec_bandpass_corr (map q_of_sx (to_list cf)) (map q_of_sx (to_list df))
                                            (map opvs_of_sx (to_list segs))))
  | L [I 24; I n; sols; tg] =>
      let tgs := match tg with L [t] => Some (to_Zs t) | _ => None end in
      L (map sx_of_opvs (spec_gain_corr (Z.to_nat n) (map sol_of_sx (to_list sols)) tgs))
  | L [I 5; sols; names; measured; ov; rt] =>
      let names := map to_Zs (to_list names) in
      let tbl := merge_flux (ftable_of_sx measured) (match ov with L [o] => Some (ftable_of_sx o) | _ => None end) in
      let rt := map (fun e => match e with L [a; b] => (q_of_sx a, q_of_sx b) | _ => (0, 0) end) (to_list rt) in
      L (map sx_of_sol (calibrate_flux (rsqrt_tbl rt) (map sol_of_sx (to_list sols))
                                       (fun d => nth d names []) tbl))
  | L [I 6; ps] =>
      match stitch (map (fun p => map sample_of_sx (to_list p)) (to_list ps)) with
      | Some l => L [L (map sx_of_sample l)]
      | None => L []
      end
  | L [I 61; parts] =>
      let sub_of := fun o => match o with L [p] => Some (map sample_of_sx (to_list p)) | _ => None end in
      match stitch_substreams (map (fun subs => map sub_of (to_list subs)) (to_list parts)) with
      | Some l => L [L (map sx_of_sample l)]
      | None => L []
      end
  | L [I 7; ss] => L (map sx_of_sample (merge_substreams (map (fun p => map sample_of_sx (to_list p)) (to_list ss))))
  | L [I 8; r; streams] =>
      match normalise (request_of_sx r) (to_strings streams) with
      | Some (l, skip) => L [L (map of_string l); of_bool skip]
      | None => L []
      end
  | _ => sx_err
  end.
