(* C01 (round 3): an MVF v4 data set opened WITH preselect = dict(dumps = slice, channels = slice).

   The capture is stored as (T, F, B) arrays in the chunk store plus telstate attributes (sync_time, first_timestamp,
   int_time, center_freq, bandwidth, n_chans).  Opening with a preselection makes a data set of b - a dumps and
   d - c channels whose
     data        are  stored[a:b, c:d, :]                (datasources.py:394-402: preselect_index = (dumps, channels))
     timestamps  are  (t0 + arange(T) * int_time)[a:b]   (datasources.py:405-413; + time_offset / CBF fix, visdatav4.py)
     freqs       are  those of SpectralWindow.subrange(c, d) of the window built from the telstate attributes
                                                        (visdatav4.py:392-404; spectral_window.py subrange)
   and every later select() / indexer / label of it is RELATIVE to that subset.  The property's clause "freqs and
   timestamps are the labels of those same dumps and channels" therefore says: element (i, j, l) of x[ix2] is the STORED
   sample at (a + dumps[.], c + channels[.], corr_products[.]), freqs[j] is the documented frequency of STORED channel
   c + channels[j] and timestamps[i] the documented time of STORED dump a + dumps[i].

   The time and frequency axes are C17's model (Model/TimeFreq.v: every expression regenerated from the katdal source:
   gen_ds_prog, gen_v4_time_prog, gen_spw_subrange, gen_spw_channel_freq ...), imported unchanged; the data-set state
   machine is Model/DataSet.v run on the configuration [pre_cfg] of the opened subset. *)
From Coq Require Import ZArith QArith List Bool String.
From KV Require Import Base.Sx Base.Str Base.SelSlice Base.PySlice Base.AxisIndex Base.NdArray Gen.Generated
  Model.Flags Model.DataSet.
From KV Require Model.Select Model.TimeFreq Model.LazyIdx.
Import ListNotations.
Open Scope Z_scope.

(* what is stored: shape of the chunk-store arrays and the telstate attributes of the two axes *)
Record store := { s_T : Z; s_F : Z; s_B : Z; s_tm : TimeFreq.timing; s_centre : Q; s_bw : Q }.

(* one key of the preselect dict: absent, or slice(start, stop) with unit step (TimeFreq.preselect_ok) *)
Definition oslice : Type := option (option Z * option Z).

(* positions kept by x[slice(a, b)] on an axis of length n: start .. stop - 1 of slice(a, b).indices(n) *)
Definition norm (n : Z) (o : oslice) : Z * Z :=
  match o with
  | None => (0, n)
  | Some (a, b) => match slice_indices n a b None with Some (s, e, _) => (s, e) | None => (0, n) end
  end.

(* the opened subset: dumps a .. b-1, channels c .. d-1 of the stored arrays, and its spectral window *)
Record opened := { o_a : Z; o_b : Z; o_c : Z; o_d : Z; o_w : TimeFreq.spw }.

(* visdatav4.py:392-397: SpectralWindow(center_freq, bandwidth / n_chans, n_chans, sideband=1) *)
Definition full_window (st : store) : TimeFreq.spw := TimeFreq.v4_spw (s_centre st) (s_bw st) (s_F st).

(* visdatav4.py:401-404: only when the 'channels' key is present is subrange called (with slice.indices(num_chans));
   an empty range is rejected (subrange raises IndexError; an empty dump range has no first timestamp) *)
Definition open_pre (st : store) (pd pc : oslice) : option opened :=
  let ab := norm (s_T st) pd in
  let cd := norm (s_F st) pc in
  if (fst ab <? snd ab) && (fst cd <? snd cd) then
    match (match pc with
           | None => Some (full_window st)
           | Some _ => TimeFreq.subrange (full_window st) (fst cd) (snd cd)
           end) with
    | Some w => Some {| o_a := fst ab; o_b := snd ab; o_c := fst cd; o_d := snd cd; o_w := w |}
    | None => None
    end
  else None.

(* source.timestamps of the opened data set, after VisibilityDataV4.__init__ (C17's model of both constructors) *)
Definition pre_ts (st : store) (o : opened) : list Q :=
  map (TimeFreq.model_timestamp (s_tm st) (o_a o)) (TimeFreq.zrange 0 (Z.to_nat (o_b o - o_a o))).

(* the configuration of the opened data set for the state machine of Model/DataSet.v: scan structure, products and
   flag / weight atoms as observed (c0), the time axis from the model above *)
Definition pre_cfg (st : store) (o : opened) (c0 : cfg) : cfg :=
  {| c_fmt := V4; c_obs := c_obs c0; c_dup := false; c_upper := true; c_centroid := false; c_segs := [];
     c_dump := TimeFreq.t_int (s_tm st); c_cbf_dump := c_cbf_dump c0; c_off := c_off c0;
     c_ts := pre_ts st o; c_atoms := c_atoms c0 |}.

(* the opened data set has the shape of the subset *)
Definition pre_ok (st : store) (o : opened) (c : cfg) : Prop :=
  0 <= o_a o /\ 0 <= o_c o /\ nT c = o_b o - o_a o /\ nF c = o_d o - o_c o /\ nB c = s_B st.
Definition pre_okb (st : store) (o : opened) (c : cfg) : bool :=
  (0 <=? o_a o) && (0 <=? o_c o) && (nT c =? o_b o - o_a o) && (nF c =? o_d o - o_c o) && (nB c =? s_B st).

(* what the data source serves: stored[a:b, c:d, :] (3-axis arrays) and stored[a:b] (timestamps) *)
Definition served (S : tree) (o : opened) : tree :=
  Node (map (fun r => Node (TimeFreq.slice (Z.to_nat (o_c o)) (Z.to_nat (o_d o)) (children r)))
            (TimeFreq.slice (Z.to_nat (o_a o)) (Z.to_nat (o_b o)) (children S))).
Definition served1 (S : tree) (o : opened) : tree :=
  Node (TimeFreq.slice (Z.to_nat (o_a o)) (Z.to_nat (o_b o)) (children S)).
Definition served_k (k : kind) (S : tree) (o : opened) : tree :=
  match k with KTime => served1 S o | _ => served S o end.

(* public attributes of the opened data set under selection s *)
Definition pre_freqs (o : opened) (s : Select.st) : list Q := freqs (TimeFreq.freqs_full (o_w o)) s.
Definition pre_timestamps (st : store) (o : opened) (c0 : cfg) (s : Select.st) : list Q :=
  timestamps (pre_cfg st o c0) s.

(* the stored coordinates the selection names *)
Definition stored_dumps (o : opened) (s : Select.st) : list Z := map (Z.add (o_a o)) (dumps s).
Definition stored_channels (o : opened) (s : Select.st) : list Z := map (Z.add (o_c o)) (channels s).

(* SPEC: documented frequency of the stored channels / documented time of the stored dumps (TimeFreq's hand-written
   formulas, independent of the translator) *)
Definition spec_pre_freqs (st : store) (o : opened) (s : Select.st) : list Q :=
  map (fun j => TimeFreq.spec_chan_freq (s_centre st) (s_bw st) (s_F st) 1 j) (stored_channels o s).
Definition spec_pre_timestamps (st : store) (o : opened) (s : Select.st) : list Q :=
  map (fun i => TimeFreq.spec_timestamp (s_tm st) i) (stored_dumps o s).

(* SPEC of x[ix2]: shape and C-order positions IN THE STORED ARRAYS *)
Definition spec_index_pre (st : store) (o : opened) (s : Select.st) (k : kind) (ix2 : list aidx)
  : res (list Z * list Z) :=
  match k with
  | KTime =>
      pt <- resolve_keep (zlen (dumps s)) (ix_at ix2 1 0) ;;
      Ok ([zlen pt], map (fun i => o_a o + znth (dumps s) i) pt)
  | _ =>
      pt <- resolve_keep (zlen (dumps s)) (ix_at ix2 3 0) ;;
      pf <- resolve_keep (zlen (channels s)) (ix_at ix2 3 1) ;;
      pb <- resolve_keep (zlen (cp_idx s)) (ix_at ix2 3 2) ;;
      Ok ([zlen pt; zlen pf; zlen pb],
          flat_map (fun i => flat_map (fun j => map (fun l =>
            pos3 (s_F st) (s_B st) (o_a o + znth (dumps s) i) (o_c o + znth (channels s) j) (znth (cp_idx s) l))
            pb) pf) pt)
  end.

(* the stored arrays as labels (value = C-order position in the STORED array) *)
Definition stored_labels_of (st : store) (k : kind) : tree :=
  match k with KTime => arange [s_T st] 0 | _ => arange [s_T st; s_F st; s_B st] 0 end.

(* ------------------------------------------------------------------------------------------------ *)
(* Wire                                                                                               *)

Definition to_oslice (x : sx) : oslice :=
  match x with L [a; b] => Some (to_optZ a, to_optZ b) | _ => None end.

Definition to_store (x : sx) : store :=
  match x with
  | L [I t; I f; I b; tm; ce; bw] =>
      {| s_T := t; s_F := f; s_B := b; s_tm := TimeFreq.to_timing tm; s_centre := TimeFreq.to_Q ce;
         s_bw := TimeFreq.to_Q bw |}
  | _ => {| s_T := 0; s_F := 0; s_B := 0; s_tm := TimeFreq.to_timing (L []); s_centre := 0%Q; s_bw := 1%Q |}
  end.

Definition of_Qs (l : list Q) : sx := L (map TimeFreq.of_Q l).

(* what is observed of the opened data set: everything Model/DataSet.v observes, then
   (freqs, spec freqs) (timestamps, spec timestamps) (stored dumps, stored channels) *)
Definition of_observe_pre (st : store) (o : opened) (c : cfg) (s : Select.st) : sx :=
  L (to_list (of_observe c s) ++
     [L [of_Qs (pre_freqs o s); of_Qs (spec_pre_freqs st o s)];
      L [of_Qs (timestamps c s); of_Qs (spec_pre_timestamps st o s)];
      L [of_Zs (stored_dumps o s); of_Zs (stored_channels o s)]]).

Fixpoint run_wire_pre (st : store) (o : opened) (c : cfg) (d : dstate) (acq : list (Select.st * kind)) (ops : list op)
  : list sx :=
  match ops with
  | [] => []
  | op1 :: rest =>
      match op1 with
      | OSelect kw =>
          match Select.select (c_obs c) (ds_sel d) kw with
          | Select.Ok s' => L [I 0] :: run_wire_pre st o c {| ds_sel := s'; ds_ixs := ds_ixs d |} acq rest
          | Select.Err Select.ETypeError => L [I 1] :: run_wire_pre st o c d acq rest
          | Select.Err Select.EFail => [L [I 2]]
          end
      | OAcquire k =>
          let x := acquire c (ds_sel d) k in
          L [of_Zs (adv_shape x); of_conv (ix_conv x);
             of_Zs (match k with KTime => [zlen (dumps (ds_sel d))] | _ => shape (ds_sel d) end);
             of_conv (spec_conv_of c (ds_sel d) k)]
          :: run_wire_pre st o c {| ds_sel := ds_sel d; ds_ixs := ds_ixs d ++ [x] |} (acq ++ [(ds_sel d, k)]) rest
      | OIndex id ix2 =>
          let m := match nth_error (ds_ixs d) id with
                   | Some x => of_nd (index (served_k (ix_kind x) (stored_labels_of st (ix_kind x)) o) x ix2)
                   | None => L [I 0]
                   end in
          L [m;
             match nth_error acq id with
             | Some (s, k) => of_spec (spec_index_pre st o s k ix2)
             | None => L [I 0]
             end;
             (* v4 indexers never followed the current selection: the "live" answer is the model's *)
             match nth_error (ds_ixs d) id with
             | Some x => L [m; of_conv (ix_conv x)]
             | None => L [L [I 0]; L []]
             end]
          :: run_wire_pre st o c d acq rest
      | OObserve => of_observe_pre st o c (ds_sel d) :: run_wire_pre st o c d acq rest
      end
  end.

(* (store dumps-slice channels-slice cfg (op ...)) -> (out ...) ; () when the preselection is rejected;
   (-998) when the observed data set does not have the shape of the subset *)
Definition wire_1002 (x : sx) : sx :=
  match x with
  | L [sto; pd; pc; cf; ops] =>
      let st := to_store sto in
      match open_pre st (to_oslice pd) (to_oslice pc) with
      | Some o =>
          let c := pre_cfg st o (to_cfg cf) in
          if pre_okb st o c then L (run_wire_pre st o c (start c) [] (map to_op (to_list ops)))
          else L [I (-998)]
      | None => L []
      end
  | _ => sx_err
  end.
