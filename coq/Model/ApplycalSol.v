(* C13 (strengthening round 2): from the cal SOLUTIONS to the corrections, and which of the requested products
   calc_correction applies.  Model of katdal/applycal.py
     complex_interp              38-87    (its exact part: at a node, beyond the ends, between equal values)
     calc_delay_correction       115-131
     calc_bandpass_correction    134-157
     calc_gain_correction        160-204
     calc_correction             557-580  (the loop over the requested products: for/else, skip_missing_products,
                                           dict keyed by the product name)
   A solution is NaN (missing / flagged), infinite or a number (zero included).  The value complex_interp returns
   strictly between two nodes that carry DIFFERENT values (magnitude and unwrapped phase interpolated separately,
   then cos/sin) and a non-zero delay's phase slope exp(-2 pi i d f) are not rational: they stay symbolic
   (`Between`, `Phasor`) and are evaluated by two functions `mix` / `cis` the theorems quantify over (the only facts
   used: such a value is a number and not zero; |cis| = 1). *)
From Coq Require Import ZArith QArith Qabs Qround Qcanon List Bool String Arith.
From KV Require Import Base.Sx Gen.Generated Model.Applycal.
Import ListNotations.

(* the glue around the modelled pieces (per-input product loop, per-dump block loop, numbering of the inputs,
   kernels wired onto vis / flags / weights) has the shape the model assumes: checked by the translator *)
Definition wiring_checked : bool := applycal_wiring_checked && applycal_kernel_shapes_checked.

(* ------------------------------------------------------------------ solutions *)
Inductive solv := SNaN | SInf | SFin (re im : Qc).
(* np.isfinite *)
Definition sol_finite (s : solv) : bool := match s with SFin _ _ => true | _ => false end.

Definition node := (Q * C)%type.
(* xi[valid], yi[valid] *)
Definition valid_node (e : Q * solv) : list node :=
  match snd e with SFin a b => [(fst e, CFin a b)] | _ => [] end.
Definition valid_nodes (evs : list (Q * solv)) : list node := flat_map valid_node evs.

(* ------------------------------------------------------------------ complex_interp *)
Inductive ival :=
  | Exact (c : C)
  | Between (v1 v2 : C) (lam : Q)       (* strictly between two nodes with different values, 0 < lam < 1 *)
  | Phasor (turns : Q).                 (* exp(2 pi i turns), turns <> 0 *)

Definition C_eqb (x y : C) : bool :=
  match x, y with
  | CNaN, CNaN => true
  | CFin a b, CFin c d => Qc_eq_bool a c && Qc_eq_bool b d
  | _, _ => false
  end.

(* np.interp inside [xp[j], xp[j+1]): slope * (x - xp[j]) + fp[j]; exact at the node and for equal values *)
Definition between (p n : node) (x : Q) : ival :=
  if Qeq_bool x (fst p) then Exact (snd p)
  else if C_eqb (snd p) (snd n) then Exact (snd p)
  else Between (snd p) (snd n) ((x - fst p) / (fst n - fst p)).

(* left / right: None = hold the end value, Some v = return v (katdal passes INVALID_GAIN) *)
Fixpoint interp_from (p : node) (ns : list node) (right : option C) (x : Q) : ival :=
  match ns with
  | [] => match right with
          | Some r => if Qlt_le_dec (fst p) x then Exact r else Exact (snd p)
          | None => Exact (snd p)
          end
  | n :: rest => if Qlt_le_dec x (fst n) then between p n x else interp_from n rest right x
  end.
Definition cinterp (left right : option C) (ns : list node) (x : Q) : ival :=
  match ns with
  | [] => Exact CNaN                 (* np.interp raises; katdal guards every call with valid.any() *)
  | p :: rest => if Qlt_le_dec x (fst p) then Exact (match left with Some l => l | None => snd p end)
                 else interp_from p rest right x
  end.

(* ------------------------------------------------------------------ the three correction calculators *)
(* how solutions are inverted: np.reciprocal unless the translator saw something else (then the definition below
   does not type-check against the theorems: applycal_recip_plain is regenerated from the source) *)
Definition solinv (z : C) : C := if applycal_recip_plain then Cinv z else z.

Section Eval.
  Variable mix : C -> C -> Q -> C.
  Variable cis : Q -> C.
  Definition eval (v : ival) : C :=
    match v with Exact c => c | Between a b l => mix a b l | Phasor q => cis q end.

  (* calc_gain_correction, one input, one channel, one target: events = (dump, solution) in time order *)
  Definition gain_ival (evs : list (Q * solv)) (d : Q) : ival :=
    match valid_nodes evs with
    | [] => Exact CNaN                                   (* smooth_gains stays INVALID_GAIN *)
    | ns => cinterp None None ns d
    end.
  Definition gain_corr_at (evs : list (Q * solv)) (d : Q) : C := solinv (eval (gain_ival evs d)).

  (* with a targets sensor (GPHASE, GAMP_PHASE): valid = isfinite & on_target[events], evaluated on dumps[on_target] *)
  Definition on_target (tg : list Z) (d : Q) (e : Q * solv) : bool :=
    Z.eqb (nth (Z.to_nat (Qfloor (fst e))) tg 0%Z) (nth (Z.to_nat (Qfloor d)) tg 0%Z).
  Definition gain_corr_target (tg : list Z) (evs : list (Q * solv)) (d : Q) : C :=
    gain_corr_at (filter (on_target tg d) evs) d.

  (* calc_bandpass_correction, one input, one solution: bp on the cal channels, evaluated at data frequency f;
     no extrapolation beyond the valid cal channels (left = right = INVALID_GAIN) *)
  Definition bandpass_ival (cal : list Q) (bp : list solv) (f : Q) : ival :=
    match valid_nodes (combine cal bp) with
    | [] => Exact CNaN                                   (* np.full(len(data_freqs), INVALID_GAIN) *)
    | ns => cinterp (if applycal_bandpass_edges_invalid then Some CNaN else None)
                    (if applycal_bandpass_edges_invalid then Some CNaN else None) ns f
    end.
  Definition bandpass_corr_at (cal : list Q) (bp : list solv) (f : Q) : C := solinv (eval (bandpass_ival cal bp f)).

  (* calc_delay_correction: np.nan_to_num(delay), exp(-2 pi j d f).  An infinite delay becomes the largest float,
     d * f overflows and exp(-j inf) is NaN (probed on every run). *)
  Definition delay_ival (d : solv) (f : Q) : ival :=
    match d with
    | SNaN => Exact Cone
    | SInf => Exact CNaN
    | SFin a _ => if Qeq_bool (a * f) 0 then Exact Cone else Phasor (- (a * f))
    end.
  Definition delay_corr_at (d : solv) (f : Q) : C := eval (delay_ival d f).
End Eval.

(* ------------------------------------------------------------------ hold-type products (K, B): the solution in force *)
(* calc_delay_correction / calc_bandpass_correction return CategoricalData(corrections, sensor.events): dump t gets
   the correction of the segment containing t.  On the events the data set sees (Applycal.seen: strictly increasing
   relative dumps) that is the last solution at or before t; before the first solution, the first one
   (sensor_to_categorical forces events[0] = 0 when there is no initial value). *)
Fixpoint last_le {A} (l : list (Z * A)) (t : Z) (acc : option A) : option A :=
  match l with
  | [] => acc
  | e :: r => if Z.leb (fst e) t then last_le r t (Some (snd e)) else last_le r t acc
  end.
Definition in_force {A} (l : list (Z * A)) (t : Z) : option A :=
  match last_le l t None with
  | Some v => Some v
  | None => option_map snd (hd_error l)
  end.

(* ------------------------------------------------------------------ which products calc_correction applies *)
(* one requested product: its name (an id), whether it is K/B, its stream's frequencies, and per input the result of
   cache.get(sensor_prefix + inp): None = KeyError *)
Record request := mkReq { q_name : Z; q_kb : bool; q_cal : list Q; q_sens : list (option (list (list C))) }.

(* the inner `for inp in inputs: ... break ... else:` — usable only if every input has a correction sensor *)
Fixpoint collect {A} (l : list (option A)) : option (list A) :=
  match l with
  | [] => Some []
  | Some x :: r => match collect r with Some t => Some (x :: t) | None => None end
  | None :: _ => None
  end.
Definition usable (q : request) : bool :=
  match collect (q_sens q) with Some _ => true | None => false end.

(* corrections[cal_product] = ...: a Python dict keeps the position of the first assignment of a key *)
Fixpoint dict_set {V} (k : Z) (v : V) (d : list (Z * V)) : list (Z * V) :=
  match d with
  | [] => [(k, v)]
  | (k', v') :: r => if Z.eqb k k' then (k, v) :: r else (k', v') :: dict_set k v r
  end.

(* what the code does with a product that lacks a sensor when skip_missing_products is set *)
Inductive on_missing := SkipProduct | StopLoop.
Definition missing_action : on_missing := if applycal_missing_skips_product then SkipProduct else StopLoop.

(* None = KeyError *)
Fixpoint select_loop (skip : bool) (reqs : list request) (acc : list (Z * rawproduct))
  : option (list (Z * rawproduct)) :=
  match reqs with
  | [] => Some acc
  | q :: rest =>
      match collect (q_sens q) with
      | Some corr => select_loop skip rest (dict_set (q_name q) (mkRaw (q_kb q) (q_cal q) corr) acc)
      | None => if skip then match missing_action with
                             | SkipProduct => select_loop skip rest acc
                             | StopLoop => Some acc
                             end
                else None
      end
  end.
Definition select_products (skip : bool) (reqs : list request) : option (list (Z * rawproduct)) :=
  select_loop skip reqs [].

(* SPEC: every requested product all of whose inputs have a correction, once, in the order of first mention *)
Definition raw_of (q : request) (corr : list (list (list C))) : rawproduct := mkRaw (q_kb q) (q_cal q) corr.
Fixpoint spec_selected (reqs : list request) (seen_names : list Z) : list (Z * rawproduct) :=
  match reqs with
  | [] => []
  | q :: rest =>
      match collect (q_sens q) with
      | Some corr => if existsb (Z.eqb (q_name q)) seen_names then spec_selected rest seen_names
                     else (q_name q, raw_of q corr) :: spec_selected rest (q_name q :: seen_names)
      | None => spec_selected rest seen_names
      end
  end.

(* ------------------------------------------------------------------ wire 131 *)
(* solution: () NaN | (x) infinite | (re im k) = (re + i im) / 2^k *)
Definition to_solv (x : sx) : solv :=
  match x with
  | L [I a; I b; I k] => SFin (to_Qc a k) (to_Qc b k)
  | L [_] => SInf
  | _ => SNaN
  end.
(* value: () NaN | ((n d) (n d)) exact | (1) a number that is not zero, value not modelled *)
Definition of_ival (inv : bool) (v : ival) : sx :=
  match v with
  | Exact c => of_C (if inv then solinv c else c)
  | _ => L [I 1]
  end.
Definition to_evs (x : sx) : list (Q * list solv) :=
  map (fun e => match e with L [d; v] => (to_Q d, map to_solv (to_list v)) | _ => (0%Q, []) end) (to_list x).
Definition chan_evs (evs : list (Q * list solv)) (c : nat) : list (Q * solv) :=
  map (fun e => (fst e, nth c (snd e) SNaN)) evs.
Definition qz (n : nat) : Q := inject_Z (Z.of_nat n).

Definition wire_131 (x : sx) : sx :=
  match x with
  (* (1 T targets events) -> per dump per channel; targets () = no targets sensor; events (dump (sol ...)) as seen *)
  | L [I 1; T; tg; evs] =>
      let evs := to_evs evs in
      let tg := to_Zs tg in
      let nch := match evs with [] => 1%nat | e :: _ => List.length (snd e) end in
      L (map (fun d => L (map (fun c =>
             let ce := chan_evs evs c in
             let ce := match tg with [] => ce | _ => filter (on_target tg (qz d)) ce end in
             of_ival true (gain_ival ce (qz d))) (seq 0 nch))) (seq 0 (to_nat T)))
  (* (2 cal_freqs data_freqs bp) -> per data channel *)
  | L [I 2; cal; data; bp] =>
      let cal := map to_Q (to_list cal) in
      let bp := map to_solv (to_list bp) in
      L (map (fun f => of_ival true (bandpass_ival cal bp (to_Q f))) (to_list data))
  (* (3 delay data_freqs) -> per data channel *)
  | L [I 3; d; data] => L (map (fun f => of_ival false (delay_ival (to_solv d) (to_Q f))) (to_list data))
  (* (4 skip ((name (has_sensor ...)) ...)) -> (names) | () for KeyError *)
  | L [I 4; skip; reqs] =>
      let reqs := map (fun r => match r with
                                | L [I n; s] => mkReq n false [] (map (fun b => if to_bool b then Some [] else None)
                                                                      (to_list s))
                                | _ => mkReq 0 false [] [None]
                                end) (to_list reqs) in
      match select_products (to_bool skip) reqs with
      | Some sel => L [L (map (fun p => I (fst p)) sel); L (map (fun p => I (fst p)) (spec_selected reqs []))]
      | None => L []
      end
  (* (5 a b t ((dump id) ...)) -> (id) | ()   the solution in force at relative dump t of a data set holding [a, b) *)
  | L [I 5; I a; I b; I t; evs] =>
      match in_force (seen a b (map (fun e => match e with L [I d; I k] => (d, k) | _ => (0%Z, 0%Z) end) (to_list evs))) t with
      | Some k => L [I k]
      | None => L []
      end
  | _ => sx_err
  end.
