(* C16: flag bit meanings, selection by name, derivation of boolean flags.
   Model of visdatav4.py:_flags_keep setter, h5datav3.py:_flags_keep setter,
   h5datav2.py:_flags_keep setter, dataset.py:_selection_to_list, and of the flag
   transforms (bitwise_and with the selection mask, then view as bool). *)
From Coq Require Import ZArith List Bool String Ascii.
From KV Require Import Base.Sx Base.Str Gen.Generated.
Import ListNotations.
Open Scope Z_scope.

(* ---------- the documented names (doc/ and flags.DESCRIPTIONS): the SPEC side ---------- *)
Definition doc_names : list string :=
  ["reserved0"; "static"; "cam"; "data_lost"; "ingest_rfi"; "predicted_rfi"; "cal_rfi"; "postproc"]%string.

(* ---------- dataset._selection_to_list for string-ish selections ---------- *)
Inductive selarg := SelStr (s : string) | SelList (l : list string).

Definition selection_to_list (a : selarg) (all : list string) : list string :=
  match a with
  | SelStr s =>
      if String.eqb s "" then []
      else if String.eqb s "all" then all
      else map strip (split_comma s)
  | SelList l => l
  end.

(* ---------- numpy packbits / unpackbits on one byte (MSB first) ---------- *)
Fixpoint packbits_aux (l : list bool) (acc : Z) : Z :=
  match l with [] => acc | b :: t => packbits_aux t (2 * acc + (if b then 1 else 0)) end.
Definition packbits (l : list bool) : Z := packbits_aux l 0.

Fixpoint set_nth (l : list bool) (i : nat) : list bool :=
  match l, i with
  | [], _ => []
  | _ :: t, O => true :: t
  | h :: t, S j => h :: set_nth t j
  end.

(* the setter: selection = zeros(8); for name in names: selection[known.index(name)] = 1 (unknown: warning) *)
Definition mark (known : list string) (sel : list bool) (name : string) : list bool :=
  match index_of name known with Some i => set_nth sel i | None => sel end.
Definition selection_bits (known names : list string) : list bool :=
  fold_left (mark known) names (repeat false 8).

(* v3 / v4: flagmask = packbits(flipud(selection));  v2: flagmask = packbits(selection) *)
Definition flagmask_v34 (known : list string) (a : selarg) : Z :=
  packbits (rev (selection_bits known (selection_to_list a known))).
Definition flagmask_v2 (known : list string) (a : selarg) : Z :=
  packbits (selection_bits known (selection_to_list a known)).

(* the names the setter warns about ("%r is not a legitimate flag type"): one warning per occurrence *)
Definition unknown_names (known : list string) (a : selarg) : list string :=
  filter (fun n => negb (mem_string n known)) (selection_to_list a known).

(* boolean flags from raw byte and mask *)
Definition flag_bool (raw mask : Z) : bool := negb (Z.land raw mask =? 0).

(* ---------- SPEC: exactly the bits of the selected names ---------- *)
Fixpoint spec_mask_aux (names : list string) (wanted : list string) (w : Z) (up : bool) : Z :=
  match names with
  | [] => 0
  | n :: t => (if mem_string n wanted then w else 0)
              + spec_mask_aux t wanted (if up then 2 * w else w / 2) up
  end.
(* bit i is the i-th documented name (v3, v4) *)
Definition spec_mask_v34 (wanted : list string) : Z := spec_mask_aux doc_names wanted 1 true.
(* reverse order (v2): name i is bit 7-i *)
Definition spec_mask_v2 (wanted : list string) : Z := spec_mask_aux doc_names wanted 128 false.
Definition spec_wanted (a : selarg) : list string := selection_to_list a doc_names.

Definition spec_flag_bool (raw mask : Z) : bool :=
  existsb (fun i => Z.testbit raw i && Z.testbit mask i) [0;1;2;3;4;5;6;7].

(* ---------- v4 raw flags derivation: stored | data_lost (where lost) | postproc (where cal failed) ---------- *)
Definition lookup_mask (n : string) : Z :=
  match find (fun p => String.eqb (fst p) n) flag_masks with Some p => snd p | None => 0 end.
Definition raw_flags_v4 (stored : Z) (lost calfail : bool) : Z :=
  Z.lor (Z.lor stored (if lost then lookup_mask "data_lost" else 0))
        (if calfail then lookup_mask "postproc" else 0).
Definition spec_raw_flags_v4 (stored : Z) (lost calfail : bool) : Z :=
  Z.lor (Z.lor stored (if lost then 8 else 0)) (if calfail then 128 else 0).

(* ---------- wire ---------- *)
Definition to_selarg (x : sx) : selarg :=
  match x with
  | L [I 0; s] => SelStr (to_string s)
  | L [I 1; l] => SelList (to_strings l)
  | _ => SelList []
  end.

(* (1 selarg)            -> (model_v34 spec_v34 model_v2 spec_v2 number_of_warnings)
   (2 raw mask)          -> (model spec)
   (3 stored lost cal)   -> (model spec) *)
Definition wire_16 (x : sx) : sx :=
  match x with
  | L [I 1; a] =>
      let a := to_selarg a in
      L [I (flagmask_v34 flag_names a); I (spec_mask_v34 (spec_wanted a));
         I (flagmask_v2 flag_names a); I (spec_mask_v2 (spec_wanted a));
         I (Z.of_nat (List.length (unknown_names flag_names a)))]
  | L [I 2; I raw; I mask] => L [of_bool (flag_bool raw mask); of_bool (spec_flag_bool raw mask)]
  | L [I 3; I st; lost; cal] =>
      L [I (raw_flags_v4 st (to_bool lost) (to_bool cal)); I (spec_raw_flags_v4 st (to_bool lost) (to_bool cal))]
  | _ => sx_err
  end.
