(* C01: the data-set level state machine "select / acquire an indexer / index it / read the public attributes"
   over the four storage formats, on top of the model of DataSet.select (Model/Select.v, C02), outer indexing
   (Base/NdArray.v, C05 / C04) and the flag masks (Model/Flags.v, C16).

   What is modelled (katdal as of branch fix-C01):
     dataset.py:897-919      public attributes recomputed at the end of every select(): shape = the three mask sums,
                             dumps / channels = nonzero, freqs / corr_products = full[mask]  ([shape], [dumps], ...)
     h5datav1.py:313-364     per-scan LazyIndexers over time-mask segments and the frequency mask, concatenated;
                             corrprod mask (copied at acquisition) applied in the transform       ([acquire], V1)
     h5datav2.py:527-586     _vislike_indexer / timestamps: stage 1 = (time mask padded with False when the file has a
     h5datav3.py:948-997     duplicate final dump, freq mask, corrprod mask); LazyIndexer turns the masks into fresh
                             position lists (snapshot)                                             ([acquire], V2 V3)
     visdatav4.py:602-660    _set_keep builds DaskLazyIndexers from the three masks (deep-copied)  ([acquire], V4)
     conversions             conjugation (v1, v2 always; v3 iff lower sideband; v4 never), flag mask of the flag
                             selection in force (v2 bit order reversed), weights stored / ones, timestamp conversion as
                             an exact linear form re-translated from the source ([conv_of], [conv_t])
   An indexer VALUE holds everything it needs (masks and conversion): later select() calls cannot reach it.  The
   behaviour before the repair of F8 / F17 (live references) is kept as [index_live] / [acquire_time_prefix] for the
   record.

   Arrays are label trees (Base/NdArray.v): the model is data-oblivious, the theorems hold for every stored content
   [S]; the wire function instantiates S with the C-order positions of the stored array. *)
From Coq Require Import ZArith QArith List Bool String.
From KV Require Import Base.Sx Base.Str Base.SelSlice Base.PySlice Base.AxisIndex Base.NdArray Gen.Generated Model.Flags.
From KV Require Model.Select Model.TimeFreq Model.LazyIdx.
Import ListNotations.
Open Scope Z_scope.

(* ------------------------------------------------------------------------------------------------ *)
(* Static description of one opened data set                                                         *)

Inductive fmt := V1 | V2 | V3 | V4.
Inductive kind := KVis | KFlags | KWeights | KRaw | KTime.

Record cfg := {
  c_fmt : fmt;
  c_obs : Select.obs;             (* T dumps, F channels, B correlation products (+ scan structure for select) *)
  c_dup : bool;                   (* v2 / v3: the file has a duplicate final dump: stored arrays have T + 1 rows *)
  c_upper : bool;                 (* v3: spectral window sideband == 1 *)
  c_centroid : bool;              (* v3: timestamps carry timestamp_reference = 'centroid' *)
  c_segs : list Z;                (* v1: number of dumps of each scan group, in time order *)
  c_dump : Q; c_cbf_dump : Q; c_off : Q;      (* dump period, CBF dump period, time_offset *)
  c_ts : list Q;                  (* stored timestamps (T + 1 of them with a duplicate final dump) *)
  c_atoms : list (Z * selarg)     (* meaning of the opaque flags= / weights= values of the select() model *)
}.

Definition nT (c : cfg) : Z := Z.of_nat (Select.dimlen (c_obs c) Select.DT).
Definition nF (c : cfg) : Z := Z.of_nat (Select.dimlen (c_obs c) Select.DF).
Definition nB (c : cfg) : Z := Z.of_nat (Select.dimlen (c_obs c) Select.DB).
Definition stored_rows (c : cfg) : Z := nT c + (if c_dup c then 1 else 0).

(* ------------------------------------------------------------------------------------------------ *)
(* Public attributes (dataset.py:897-919)                                                            *)

(* mask.sum() *)
Fixpoint msum (m : list bool) : Z := match m with [] => 0 | b :: r => (if b then 1 else 0) + msum r end.

Definition shape (s : Select.st) : list Z := [msum (Select.tk s); msum (Select.fk s); msum (Select.bk s)].
Definition dumps (s : Select.st) : list Z := nonzero (Select.tk s).
Definition channels (s : Select.st) : list Z := nonzero (Select.fk s).
Definition cp_idx (s : Select.st) : list Z := nonzero (Select.bk s).          (* positions of corr_products *)
Definition corr_products (c : cfg) (s : Select.st) : list Select.cprod := select (Select.bk s) (Select.o_cps (c_obs c)).
(* freqs = channel_freqs[_freq_keep];  sensor[name] = per-dump values[_time_keep]  (any label type) *)
Definition freqs {A} (full : list A) (s : Select.st) : list A := select (Select.fk s) full.
Definition sensor {A} (full : list A) (s : Select.st) : list A := select (Select.tk s) full.

(* ------------------------------------------------------------------------------------------------ *)
(* Format conversions                                                                                 *)

(* exact linear form a*t + b*dump + c*offset with the rational coefficients found in the source *)
Definition coef (p : Z * Z) : Q := fst p # Z.to_pos (snd p).
Definition lin3 (co : list (Z * Z)) (t dump off : Q) : Q :=
  match co with
  | [a; b; c] => (coef a * t + coef b * dump + coef c * off)%Q
  | _ => 0%Q
  end.

Definition conv_t (c : cfg) (t : Q) : Q :=
  match c_fmt c with
  | V1 => lin3 tconv_v1 t (c_dump c) (c_off c)
  | V2 => lin3 tconv_v2 t (c_dump c) (c_off c)
  | V3 => lin3 (if c_centroid c then tconv_v3_centroid else tconv_v3_start) t (c_cbf_dump c) (c_off c)
  | V4 => lin3 tconv_v4 t (c_dump c) (c_off c)
  end.

Inductive conv :=
| CVis (conj : bool)          (* complex visibility, conjugated or not *)
| CFlags (mask : Z)           (* bool ((stored byte AND mask) <> 0) *)
| CWeights (stored : bool)    (* the stored weight (times its channel weight), or 1.0 *)
| CRaw                        (* v4 raw flag byte *)
| CTime.                      (* conv_t *)

Definition atom_arg (c : cfg) (v : Select.value) : selarg :=
  match v with
  | Select.VAtom z => match find (fun p => fst p =? z) (c_atoms c) with Some p => snd p | None => SelStr "all" end
  | _ => SelStr "all"
  end.

(* _weights_keep setter of v2 / v3: the selection is non-empty iff some requested name is a known weight *)
Definition weights_on (known : list string) (a : selarg) : bool :=
  existsb (fun n => mem_string n known) (selection_to_list a known).

Definition conv_of (c : cfg) (s : Select.st) (k : kind) : conv :=
  match k with
  | KVis => CVis (match c_fmt c with
                  | V1 => vis_conj_v1 | V2 => vis_conj_v2 | V3 => vis_conj_v3 (c_upper c) | V4 => vis_conj_v4 end)
  | KFlags => CFlags (match c_fmt c with
                      | V1 => 0                                                   (* "array of zero flags" *)
                      | V2 => flagmask_v2 flag_names (atom_arg c (Select.flk s))
                      | V3 | V4 => flagmask_v34 flag_names (atom_arg c (Select.flk s)) end)
  | KWeights => CWeights (match c_fmt c with
                          | V1 => false                                           (* "array of unity weights" *)
                          | V2 => weights_on weight_names_v2 (atom_arg c (Select.wk s))
                          | V3 => weights_on weight_names_v3 (atom_arg c (Select.wk s))
                          | V4 => true end)
  | KRaw => CRaw
  | KTime => CTime
  end.

(* the DOCUMENTED conversions, independent of what the translator finds in the source (the SPEC side) *)
Definition spec_conv_t (c : cfg) (t : Q) : Q :=
  match c_fmt c with
  | V1 => ((1 # 1000) * t + (1 # 2) * c_dump c + c_off c)%Q         (* ms -> s, start -> middle of the dump *)
  | V2 => (t + (1 # 2) * c_dump c + c_off c)%Q                      (* start -> middle of the dump *)
  | V3 => (t + (if c_centroid c then 0 else (1 # 2) * c_cbf_dump c) + c_off c)%Q
  | V4 => t                                                         (* as served by the data source *)
  end.

Definition spec_conv_of (c : cfg) (s : Select.st) (k : kind) : conv :=
  match k with
  | KVis => CVis (match c_fmt c with V1 | V2 => true | V3 => negb (c_upper c) | V4 => false end)
  | KFlags => CFlags (match c_fmt c with
                      | V1 => 0
                      | V2 => spec_mask_v2 (spec_wanted (atom_arg c (Select.flk s)))
                      | V3 | V4 => spec_mask_v34 (spec_wanted (atom_arg c (Select.flk s))) end)
  | KWeights => CWeights (match c_fmt c with
                          | V1 => false
                          | V2 | V3 => weights_on ["precision"%string] (atom_arg c (Select.wk s))
                          | V4 => true end)
  | KRaw => CRaw
  | KTime => CTime
  end.

(* ------------------------------------------------------------------------------------------------ *)
(* Indexers                                                                                           *)

Record indexer := {
  ix_kind : kind;
  ix_rows : list Z;               (* first-axis length of each underlying dataset (v1: one per scan group) *)
  ix_tmasks : list (list bool);   (* first-stage time mask of each part *)
  ix_dims : list Z;               (* lengths of the remaining axes of the dataset(s) *)
  ix_tail : list (list bool);     (* first-stage masks of the remaining axes *)
  ix_conv : conv }.

(* time_keep = zeros(len(dataset)); time_keep[:len(_time_keep)] = _time_keep   when the lengths differ by one *)
Definition pad_rows (rows : Z) (m : list bool) : list bool := if zlen m =? rows - 1 then m ++ [false] else m.

(* self._time_keep[self._segments[n]:self._segments[n + 1]] *)
Fixpoint split_lens {A} (lens : list Z) (l : list A) : list (list A) :=
  match lens with
  | [] => []
  | n :: r => firstn (Z.to_nat n) l :: split_lens r (skipn (Z.to_nat n) l)
  end.

Definition acquire (c : cfg) (s : Select.st) (k : kind) : indexer :=
  let tk := Select.tk s in
  let dims := match k with KTime => [] | _ => [nF c; nB c] end in
  let tail := match k with KTime => [] | _ => [Select.fk s; Select.bk s] end in
  match c_fmt c with
  | V1 => {| ix_kind := k; ix_rows := c_segs c; ix_tmasks := split_lens (c_segs c) tk;
             ix_dims := dims; ix_tail := tail; ix_conv := conv_of c s k |}
  | V2 => {| ix_kind := k; ix_rows := [stored_rows c]; ix_tmasks := [pad_rows (stored_rows c) tk];
             ix_dims := dims; ix_tail := tail; ix_conv := conv_of c s k |}
  | V3 => match k with
          | KTime =>      (* self._timestamps (already cut to T entries) [self._time_keep] *)
              {| ix_kind := k; ix_rows := [nT c]; ix_tmasks := [tk]; ix_dims := dims; ix_tail := tail;
                 ix_conv := conv_of c s k |}
          | _ => {| ix_kind := k; ix_rows := [stored_rows c]; ix_tmasks := [pad_rows (stored_rows c) tk];
                    ix_dims := dims; ix_tail := tail; ix_conv := conv_of c s k |}
          end
  | V4 => {| ix_kind := k; ix_rows := [nT c]; ix_tmasks := [tk]; ix_dims := dims; ix_tail := tail;
             ix_conv := conv_of c s k |}
  end.

Fixpoint all2 {A B} (f : A -> B -> bool) (l1 : list A) (l2 : list B) : bool :=
  match l1, l2 with
  | [], [] => true
  | a :: r1, b :: r2 => f a b && all2 f r1 r2
  | _, _ => false
  end.

(* rows off .. off+n-1 of the stored array: the dataset of one part *)
Definition part_tree (S : tree) (off n : Z) : tree :=
  Node (firstn (Z.to_nat n) (skipn (Z.to_nat off) (children S))).
Fixpoint parts (S : tree) (off : Z) (rows : list Z) : list tree :=
  match rows with [] => [] | n :: r => part_tree S off n :: parts S (off + n) r end.

Definition mask_sel (m : list bool) : sel := (nonzero m, false).
Definition tail_sels (x : indexer) : list sel := map mask_sel (ix_tail x).
Definition fits (n : Z) (m : list bool) : bool := zlen m =? n.       (* a boolean index must have the axis length *)

(* first stage: every part indexed by its masks (outer indexing), parts concatenated along time *)
Definition stage1 (S : tree) (x : indexer) : res nd :=
  if all2 fits (ix_rows x) (ix_tmasks x) && all2 fits (ix_dims x) (ix_tail x) then
    Ok (mk_nd (zlen (nonzero (List.concat (ix_tmasks x))) :: map (fun s => zlen (fst s)) (tail_sels x))
              (cat (map (fun p => take (fst p) (mask_sel (snd p) :: tail_sels x))
                        (combine (parts S 0 (ix_rows x)) (ix_tmasks x)))))
  else Err.

(* x[ix2]: second stage on the first-stage result; integer-indexed axes kept with length 1 (canonical 3-axis form:
   the property fixes coordinates, not the singleton-dimension convention of keepdims / v1) *)
Definition index (S : tree) (x : indexer) (ix2 : list aidx) : res nd :=
  a1 <- stage1 S x ;; oindex_keep a1 ix2.

(* the .shape an indexer advertises *)
Definition adv_shape (x : indexer) : list Z :=
  msum (List.concat (ix_tmasks x)) :: map msum (ix_tail x).

(* timestamps (v3 / v4: the array itself; v1 / v2: the indexer read in full) *)
Definition time_mask (c : cfg) (s : Select.st) : list bool := List.concat (ix_tmasks (acquire c s KTime)).
Definition timestamps (c : cfg) (s : Select.st) : list Q := map (conv_t c) (select (time_mask c s) (c_ts c)).
(* SPEC: the documented conversion of the stored timestamps of the dumps in [dumps] *)
Definition spec_timestamps (c : cfg) (s : Select.st) : list Q :=
  map (fun i => spec_conv_t c (nth (Z.to_nat i) (c_ts c) 0%Q)) (nonzero (Select.tk s)).

(* ------------------------------------------------------------------------------------------------ *)
(* The sensor cache's time grid                                                                       *)

(* SensorCache(cache, timestamps, dump_period, keep=self._time_keep, ...): every per-dump sensor is computed on the
   cache's OWN time array and then masked with _time_keep -- numeric sensors by np.interp of the stored samples at
   those times, categorical ones by aligning their events with those dumps, the virtual sensors (mjd, lst, az / el,
   ra / dec, u / v / w ...) as functions of those times; select(timerange=) compares against the same array.  Which
   array each format's __init__ leaves there is re-translated from the source (Generated.sensor_grid_v1 .. v4):
     h5datav1.py:252   self.sensor.timestamps = self.timestamps          (_time_keep still all ones)         [GProperty]
     h5datav2.py:380-3 self.sensor.timestamps = LazyIndexer(self._timestamps, keep=slice(num_dumps),
                                                            transforms=[t -> t + dump / 2 + offset])       [GStoredPrefix]
     h5datav3.py:327   SensorCache(cache, self._timestamps, ...)   and timestamps = self._timestamps[_time_keep]
     visdatav4.py:286  SensorCache(sensors, source.timestamps, ...) and timestamps = source.timestamps[_time_keep]
                                                                                                           [GSameArray]
   While v1 / v2 partition the data set into scans the cache holds the ESTIMATE first + dump_period * arange(N)
   whenever the "quick test for uniform spacing" passes [GSynth]; the statements above restore the real times. *)
Inductive grid :=
| GProperty
| GStoredPrefix (co : list (Z * Z))
| GSameArray
| GSynth
| GUnknown.

Definition to_grid (p : Z * list (Z * Z)) : grid :=
  match fst p with 0 => GProperty | 1 => GStoredPrefix (snd p) | 2 => GSameArray | 3 => GSynth | _ => GUnknown end.

Definition grid_of (f : fmt) : grid :=
  to_grid (match f with V1 => sensor_grid_v1 | V2 => sensor_grid_v2 | V3 => sensor_grid_v3 | V4 => sensor_grid_v4 end).

(* the stored timestamps without the duplicate final dump: [:num_dumps] *)
Definition all_ts (c : cfg) : list Q := firstn (Z.to_nat (nT c)) (c_ts c).

Definition grid_ts (g : grid) (c : cfg) : list Q :=
  match g with
  | GProperty => timestamps c (Select.init (c_obs c))
  | GStoredPrefix co => map (fun t => lin3 co t (c_dump c) (c_off c)) (all_ts c)
  | GSameArray => map (conv_t c) (all_ts c)
  | GSynth => map (fun i => (conv_t c (hd 0%Q (c_ts c)) + inject_Z i * c_dump c)%Q) (zrange (nT c))
  | GUnknown => []
  end.

(* sensor.timestamps[:] after __init__ *)
Definition cache_ts (c : cfg) : list Q := grid_ts (grid_of (c_fmt c)) c.

(* The array the cache holds WHILE __init__ builds the scans (Generated.construction_grid_v*: code 3 = v1 / v2: the
   estimate when the "quick test for uniform spacing" |(last - first) / dump + 1 - T| < threshold passes, else the real
   timestamps; code 2 = v3 / v4: the final array).  Sensors extracted during construction keep that alignment (v2:
   activity and target of the reference antenna, the labels -> Observation/*; v1 extracts none): finding C01r-F1. *)
Definition quick_test (c : cfg) (thr : Z * Z) : bool :=
  let ts := map (conv_t c) (all_ts c) in
  let e := ((last ts 0 - hd 0 ts) / c_dump c + 1 - inject_Z (nT c))%Q in
  negb (Qle_bool (coef thr) e) && negb (Qle_bool e (- coef thr)).

Definition construction_ts (c : cfg) : list Q :=
  let p := match c_fmt c with V1 => construction_grid_v1 | V2 => construction_grid_v2
                            | V3 => construction_grid_v3 | V4 => construction_grid_v4 end in
  match fst p with
  | 3 => if quick_test c (snd p) then grid_ts GSynth c else map (conv_t c) (all_ts c)
  | 2 => cache_ts c
  | _ => []
  end.

(* sensor[name] under selection s, for a sensor whose per-dump values on a time grid are G grid:
   G = map g for everything evaluated dump by dump (g = the interpolated history, the MJD of the time, ...) *)
Definition sensor_eval {A} (G : list Q -> list A) (c : cfg) (s : Select.st) : list A := sensor (G (cache_ts c)) s.

(* ------------------------------------------------------------------------------------------------ *)
(* The state machine                                                                                  *)

Record dstate := { ds_sel : Select.st; ds_ixs : list indexer }.

Inductive op :=
| OSelect (kw : Select.kwargs)
| OAcquire (k : kind)
| OIndex (id : nat) (ix2 : list aidx)
| OObserve.

Definition start (c : cfg) : dstate := {| ds_sel := Select.init (c_obs c); ds_ixs := [] |}.

(* None: a select() call failed other than by the strict TypeError (history abandoned, as in C02) *)
Definition step (c : cfg) (d : dstate) (o : op) : option dstate :=
  match o with
  | OSelect kw =>
      match Select.select (c_obs c) (ds_sel d) kw with
      | Select.Ok s' => Some {| ds_sel := s'; ds_ixs := ds_ixs d |}
      | Select.Err Select.ETypeError => Some d
      | Select.Err Select.EFail => None
      end
  | OAcquire k => Some {| ds_sel := ds_sel d; ds_ixs := ds_ixs d ++ [acquire c (ds_sel d) k] |}
  | OIndex _ _ | OObserve => Some d
  end.

Fixpoint run (c : cfg) (d : dstate) (ops : list op) : option dstate :=
  match ops with
  | [] => Some d
  | o :: r => match step c d o with Some d' => run c d' r | None => None end
  end.

(* reading indexer number [id] of the current table *)
Definition index_op (S : tree) (d : dstate) (id : nat) (ix2 : list aidx) : res nd :=
  match nth_error (ds_ixs d) id with Some x => index S x ix2 | None => Err end.

(* ------------------------------------------------------------------------------------------------ *)
(* SPEC: element-wise, from the public attributes of the selection in force at acquisition            *)

(* i-th index of a 3-tuple padded with full slices *)
Definition ix_at (ix2 : list aidx) (n : nat) (i : nat) : aidx := nth i (pad_to n ix2) full.

(* C-order position of (t, f, b) in a stored array with F channels and B products *)
Definition pos3 (F B t f b : Z) : Z := (t * F + f) * B + b.

(* shape and labels (C order) that the property demands of x[ix2] when x was acquired under selection s *)
Definition spec_index (c : cfg) (s : Select.st) (k : kind) (ix2 : list aidx) : res (list Z * list Z) :=
  match k with
  | KTime =>
      pt <- resolve_keep (zlen (dumps s)) (ix_at ix2 1 0) ;;
      Ok ([zlen pt], map (fun i => znth (dumps s) i) pt)
  | _ =>
      pt <- resolve_keep (zlen (dumps s)) (ix_at ix2 3 0) ;;
      pf <- resolve_keep (zlen (channels s)) (ix_at ix2 3 1) ;;
      pb <- resolve_keep (zlen (cp_idx s)) (ix_at ix2 3 2) ;;
      Ok ([zlen pt; zlen pf; zlen pb],
          flat_map (fun i => flat_map (fun j => map (fun l =>
            pos3 (nF c) (nB c) (znth (dumps s) i) (znth (channels s) j) (znth (cp_idx s) l)) pb) pf) pt)
  end.

(* the stored array(s) of an indexer as labels: value = C-order position *)
Definition rows_total (l : list Z) : Z := fold_right Z.add 0 l.
Definition stored_labels (x : indexer) : tree := arange (rows_total (ix_rows x) :: ix_dims x) 0.

(* tree element at a multi-index *)
Fixpoint get (t : tree) (is : list Z) : tree :=
  match is with [] => t | i :: r => get (child t i) r end.

(* ------------------------------------------------------------------------------------------------ *)
(* Behaviour BEFORE the repairs (kept for the record; not used by the model above)                   *)

(* F8: the v1 transform read the data set's corrprod mask object (mutated in place by select(reset='') and by
   criteria on other dimensions) and the v2 / v3 flag and weight transforms read self._flags_select /
   self._weights_select when the data were requested: an indexer followed the CURRENT selection [now]. *)
Definition live (c : cfg) (now : Select.st) (x : indexer) : indexer :=
  match c_fmt c, ix_kind x with
  | V1, (KVis | KFlags | KWeights) =>
      {| ix_kind := ix_kind x; ix_rows := ix_rows x; ix_tmasks := ix_tmasks x; ix_dims := ix_dims x;
         ix_tail := match ix_tail x with [f; _] => [f; Select.bk now] | t => t end; ix_conv := ix_conv x |}
  | (V2 | V3), (KFlags | KWeights) =>
      {| ix_kind := ix_kind x; ix_rows := ix_rows x; ix_tmasks := ix_tmasks x; ix_dims := ix_dims x;
         ix_tail := ix_tail x; ix_conv := conv_of c now (ix_kind x) |}
  | _, _ => x
  end.
Definition index_live (c : cfg) (now : Select.st) (S : tree) (x : indexer) (ix2 : list aidx) : res nd :=
  index S (live c now x) ix2.

(* F17: H5DataV2.timestamps passed the T-long mask to a LazyIndexer over T + 1 stored timestamps; a mask of the wrong
   length stays an array of 0 / 1 that is then used as integer positions (LazyIndexer accepts them only when strictly
   increasing) *)
Definition index_time_prefix (c : cfg) (s : Select.st) (S : tree) (ix2 : list aidx) : res nd :=
  let l := map (fun b : bool => if b then 1 else 0) (Select.tk s) in
  if increasing l then
    a1 <- oindex_keep (mk_nd [stored_rows c] S) [AList l] ;; oindex_keep a1 ix2
  else Err.

(* ------------------------------------------------------------------------------------------------ *)
(* Wire                                                                                               *)

Definition to_fmt (z : Z) : fmt := match z with 1 => V1 | 2 => V2 | 3 => V3 | _ => V4 end.
Definition to_kind (z : Z) : kind :=
  match z with 0 => KVis | 1 => KFlags | 2 => KWeights | 3 => KRaw | _ => KTime end.
Definition of_kind (k : kind) : Z :=
  match k with KVis => 0 | KFlags => 1 | KWeights => 2 | KRaw => 3 | KTime => 4 end.

(* (fmt obs dup upper centroid segs (dump cbf off) ts atoms) *)
Definition to_cfg (x : sx) : cfg :=
  match x with
  | L [I f; ob; dup; up; cen; segs; L [dp; cb; off]; ts; atoms] =>
      {| c_fmt := to_fmt f; c_obs := Select.to_obs ob; c_dup := to_bool dup; c_upper := to_bool up;
         c_centroid := to_bool cen; c_segs := to_Zs segs;
         c_dump := TimeFreq.to_Q dp; c_cbf_dump := TimeFreq.to_Q cb; c_off := TimeFreq.to_Q off;
         c_ts := map TimeFreq.to_Q (to_list ts);
         c_atoms := map (fun p => match p with L [I z; a] => (z, to_selarg a) | _ => (-1, SelList []) end) (to_list atoms) |}
  | _ => {| c_fmt := V4; c_obs := Select.to_obs (L []); c_dup := false; c_upper := true; c_centroid := false;
            c_segs := []; c_dump := 1; c_cbf_dump := 1; c_off := 0; c_ts := []; c_atoms := [] |}
  end.

Definition to_op (x : sx) : op :=
  match x with
  | L [I 0; kw] => OSelect (Select.to_kwargs kw)
  | L [I 1; I k] => OAcquire (to_kind k)
  | L [I 2; I id; ix2] => OIndex (Z.to_nat id) (map LazyIdx.to_aidx (to_list ix2))
  | _ => OObserve
  end.

Definition of_conv (cv : conv) : sx :=
  match cv with
  | CVis cj => L [I 0; of_bool cj]
  | CFlags m => L [I 1; I m]
  | CWeights b => L [I 2; of_bool b]
  | CRaw => L [I 3]
  | CTime => L [I 4]
  end.

Definition of_nd (r : res nd) : sx :=
  match r with
  | Ok a => L [I 1; of_Zs (nd_shape a); of_Zs (flatten (nd_body a))]
  | Err => L [I 0]
  end.
Definition of_spec (r : res (list Z * list Z)) : sx :=
  match r with
  | Ok p => L [I 1; of_Zs (fst p); of_Zs (snd p)]
  | Err => L [I 0]
  end.

(* what is observed of the data set itself: shape, dumps, channels, positions of corr_products, timestamps and the
   lengths of timestamps / freqs / corr_products (freqs are channel positions), the sensor cache's time grid *)
Definition of_observe (c : cfg) (s : Select.st) : sx :=
  L [of_Zs (shape s); of_Zs (dumps s); of_Zs (channels s); of_Zs (cp_idx s);
     L [L (map TimeFreq.of_Q (timestamps c s)); L (map TimeFreq.of_Q (spec_timestamps c s))];
     of_Zs [zlen (timestamps c s); zlen (freqs (zrange (nF c)) s); zlen (corr_products c s)];
     of_Zs (freqs (zrange (nF c)) s); of_Zs (sensor (zrange (nT c)) s);
     (* the sensor cache: its time array, the times at which a per-dump sensor is evaluated under the selection
        (spec: the data set's timestamps, above), and the estimated uniform grid for the record *)
     L [L (map TimeFreq.of_Q (cache_ts c)); L (map TimeFreq.of_Q (sensor_eval (fun l => l) c s));
        L (map TimeFreq.of_Q (grid_ts GSynth c))]].

(* the model and, next to it, the acquisition-time selections the spec needs (ghost) *)
Fixpoint run_wire (c : cfg) (d : dstate) (acq : list (Select.st * kind)) (ops : list op) : list sx :=
  match ops with
  | [] => []
  | o :: rest =>
      match o with
      | OSelect kw =>
          match Select.select (c_obs c) (ds_sel d) kw with
          | Select.Ok s' => L [I 0] :: run_wire c {| ds_sel := s'; ds_ixs := ds_ixs d |} acq rest
          | Select.Err Select.ETypeError => L [I 1] :: run_wire c d acq rest
          | Select.Err Select.EFail => [L [I 2]]
          end
      | OAcquire k =>
          let x := acquire c (ds_sel d) k in
          L [of_Zs (adv_shape x); of_conv (ix_conv x);
             of_Zs (match k with KTime => [zlen (dumps (ds_sel d))] | _ => shape (ds_sel d) end);
             of_conv (spec_conv_of c (ds_sel d) k)]
          :: run_wire c {| ds_sel := ds_sel d; ds_ixs := ds_ixs d ++ [x] |} (acq ++ [(ds_sel d, k)]) rest
      | OIndex id ix2 =>
          L [match nth_error (ds_ixs d) id with
             | Some x => of_nd (index (stored_labels x) x ix2)
             | None => L [I 0]
             end;
             match nth_error acq id with
             | Some (s, k) => of_spec (spec_index c s k ix2)
             | None => L [I 0]
             end;
             (* the answers of the code before the repairs, for the known-finding witnesses *)
             match nth_error (ds_ixs d) id with
             | Some x => L [of_nd (index_live c (ds_sel d) (stored_labels x) x ix2); of_conv (ix_conv (live c (ds_sel d) x))]
             | None => L [L [I 0]; L []]
             end]
          :: run_wire c d acq rest
      | OObserve => of_observe c (ds_sel d) :: run_wire c d acq rest
      end
  end.

(* (cfg (op ...)) -> (out ...) *)
Definition wire_1 (x : sx) : sx :=
  match x with
  | L [cf; ops] => let c := to_cfg cf in L (run_wire c (start c) [] (map to_op (to_list ops)))
  | _ => sx_err
  end.

(* F17 witness: (cfg kwargs ix2) -> answer of the pre-repair v2 timestamps indexer after one select call *)
Definition wire_1001 (x : sx) : sx :=
  match x with
  | L [cf; kw; ix2] =>
      let c := to_cfg cf in
      match Select.select (c_obs c) (Select.init (c_obs c)) (Select.to_kwargs kw) with
      | Select.Ok s => of_nd (index_time_prefix c s (arange [stored_rows c] 0) (map LazyIdx.to_aidx (to_list ix2)))
      | _ => L [I 0]
      end
  | _ => sx_err
  end.
