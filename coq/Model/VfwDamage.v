(* C08: damaged chunks loaded through ChunkStoreVisFlagsWeights / a v4 data set.

   The clause "a damaged chunk ... is reported as a missing chunk (and therefore flagged data_lost when loaded through
   a data set)" needs two things the per-cell model of StoreErr.v (vfw_load) does not have: WHICH elements of vis /
   weights are zero-filled and WHICH elements of flags get data_lost when the arrays of the data set are chunked
   differently.  This file composes
     - the byte-level read paths of Model/Npy.v + Model/StoreErr.v (what the getter that vis_flags_weights selects
       for an array does with the bytes found under a chunk's name: data / filler / exception), with
     - the geometry of ChunkStoreVisFlagsWeights.__init__ as modelled for C06 in Model/LostMap.v + Model/Prune.v
       (get_dask_array with a preselection, dask's intersect_chunks, the lost map, _apply_data_lost, _default_zero,
       weights * weights_channel[..., newaxis]) -- imported unchanged; its "chunk is absent" oracle c_miss is
       instantiated with "the getter returned filler for the bytes stored under that chunk's name".
   A load (dask compute of vis, weights, flags) fails when the getter of any chunk inside the preselected window
   raises.  Definitions only. *)
From Coq Require Import ZArith List Bool String.
From KV Require Import Base.Sx Base.Str Gen.Generated Model.Prune Model.LostMap Model.Npy Model.StoreErr.
Import ListNotations.
Open Scope Z_scope.

(* ---------- the source lines of vis_flags_weights.py this model was written against ----------
   (translated on every run into Gen/Generated.v: c08_lostmap_src, c08_fill_src, c08_apply_data_lost_src,
   c08_default_zero_src; one string per simple statement / compound-statement header, two spaces per nesting level) *)
Definition lostmap_src_expected : list string :=
  ["lost_map = np.empty([len(c) for c in darray['flags'].chunks], dtype='O')";
   "for index in np.ndindex(lost_map.shape):";
   "  lost_map[index] = []";
   "for (array_name, array) in darray.items():";
   "  if array_name == 'flags':";
   "    continue";
   "  src_keys = np.empty([len(c) for c in array.chunks], dtype='O')";
   "  for index in np.ndindex(src_keys.shape):";
   "    src_keys[index] = (array.name,) + index";
   "  chunks = array.chunks";
   "  if array.ndim < darray['flags'].ndim:";
   "    chunks += tuple(((x,) for x in darray['flags'].shape[array.ndim:]))";
   "  intersections = intersect_chunks(darray['flags'].chunks, chunks)";
   "  for (src_key, pieces) in zip(src_keys.flat, intersections):";
   "    for piece in pieces:";
   "      dst_index, slices = zip(*piece)";
   "      lost_map[dst_index].extend([src_key, slices])";
   "dsk = {(flags_raw_name,) + key: (_apply_data_lost, (flags_orig_name,) + key, value) for key, value in np.ndenumerate(lost_map)}"]%string.

Definition fill_src_expected : list string :=
  ["for (array_name, array) in darray.items():";
   "  if array_name == 'flags':";
   "    continue";
   "  new_name = 'filled-' + array.name";
   "  indices = itertools.product(*(range(len(c)) for c in array.chunks))";
   "  dsk = {(new_name,) + index: (_default_zero, (array.name,) + index) for index, shape in zip(indices, itertools.product(*array.chunks))}";
   "  dsk = HighLevelGraph.from_collections(new_name, dsk, dependencies=[array])";
   "  darray[array_name] = da.Array(dsk, new_name, chunks=array.chunks, shape=array.shape, dtype=array.dtype)"]%string.

Definition apply_data_lost_src_expected : list string :=
  ["def _apply_data_lost(orig_flags, lost):";
   "  if not lost:";
   "    return orig_flags";
   "  flags = orig_flags";
   "  for (chunk, slices) in toolz.partition(2, lost):";
   "    if isinstance(chunk, PlaceholderChunk):";
   "      if flags is orig_flags:";
   "        flags = orig_flags.copy()";
   "      flags[slices] |= DATA_LOST";
   "  return flags"]%string.

Definition default_zero_src_expected : list string :=
  ["def _default_zero(array):";
   "  if isinstance(array, PlaceholderChunk):";
   "    return np.zeros(array.shape, array.dtype)";
   "  else:";
   "    return array"]%string.

Fixpoint strings_eqb (a b : list string) : bool :=
  match a, b with
  | [], [] => true
  | x :: a', y :: b' => String.eqb x y && strings_eqb a' b'
  | _, _ => false
  end.

(* the lost-map section of the current source is the code LostMap.v models *)
Definition lostmap_is_modelled : bool :=
  strings_eqb c08_lostmap_src lostmap_src_expected && strings_eqb c08_apply_data_lost_src apply_data_lost_src_expected.
Definition fill_is_modelled : bool :=
  strings_eqb c08_fill_src fill_src_expected && strings_eqb c08_default_zero_src default_zero_src_expected.

(* ---------- what the guarded low-level read of one chunk does, from the bytes under its name ---------- *)
Definition low_of_file (parse_hdr : bytes -> option hdr) (file : option bytes) (want : hdr) : lowres :=
  match file with
  | None => LRaise B_FileNotFoundError                        (* open() of a chunk file that is not there *)
  | Some bs => lowres_of_decode (np_load parse_hdr bs) want
  end.
(* S3: status 200 with these bytes on every attempt, or 404 *)
Definition low_of_object (parse_hdr : bytes -> option hdr) (obj : option bytes) (want : hdr) : lowres :=
  match obj with
  | None => LRaise K_S3ObjectNotFound
  | Some bs => lowres_of_decode (s3_read_array parse_hdr bs) want
  end.

(* ---------- a chunk store holding the four arrays of a data set ---------- *)
Record dstore := { d_store : store;                          (* which back-end (error map) *)
                   d_chunks : list (list (list Z));           (* chunk_info[array]['chunks'], arrays numbered as in LostMap *)
                   d_win : list (option (Z * Z));             (* preselect_index *)
                   d_low : nat -> list Z -> lowres;           (* low-level read of chunk (array, start coordinates) *)
                   d_dat : nat -> list Z -> Z }.              (* what a chunk that decodes holds *)

Definition akind_of (a : nat) : akind := if Nat.eqb a A_FLAGS then AFlags else AOther.
(* store.get_dask_array(..., errors = DATA_LOST if array == 'flags' else 'placeholder') for one chunk *)
Definition chunk_outcome (ds : dstore) (a : nat) (id : list Z) : outcome chunkval :=
  vfw_getter (akind_of a) (d_store ds) (d_low ds a id).
Definition chunk_missing (ds : dstore) (a : nat) (id : list Z) : bool :=
  match chunk_outcome ds a id with Ret v => is_filler v | Raise _ => false end.

Definition cfg_of_dstore (ds : dstore) : LostMap.cfg :=
  {| c_chunks := d_chunks ds; c_win := d_win ds; c_miss := chunk_missing ds; c_dat := d_dat ds |}.

(* the chunks a compute of the whole (preselected) arrays asks the store for *)
Definition arrays4 : list nat := [A_VIS; A_FLAGS; A_W; A_WC].
Definition needed_of (c : LostMap.cfg) (a : nat) : list (list Z) := map (blk_ids (darr c a)) (src_keys (darr c a)).
Definition needed (ds : dstore) : list (nat * list Z) :=
  flat_map (fun a => map (pair a) (needed_of (cfg_of_dstore ds) a)) arrays4.

Fixpoint raises (l : list (outcome chunkval)) : list exn :=
  match l with
  | [] => []
  | Raise e :: t => e :: raises t
  | Ret _ :: t => raises t
  end.
(* the exceptions a load can fail with (which one surfaces first is the scheduler's choice); [] = the load succeeds *)
Definition load_errors (ds : dstore) : list exn :=
  raises (map (fun ai => chunk_outcome ds (fst ai) (snd ai)) (needed ds)).

(* the loaded values at element p of the preselected window (meaningful when load_errors = []) *)
Definition dmg_entries (c : LostMap.cfg) : list entry := if lostmap_is_modelled then the_entries c else [].
Definition dmg_vis (ds : dstore) (p : list Z) : Z :=
  if fill_is_modelled then model_vis (cfg_of_dstore ds) p else -1.
Definition dmg_weights (ds : dstore) (p : list Z) : Z :=
  if fill_is_modelled then model_weights (cfg_of_dstore ds) p else -1.
Definition dmg_flags (ds : dstore) (p : list Z) : Z :=
  model_flags_with (dmg_entries (cfg_of_dstore ds)) (cfg_of_dstore ds) p.

(* the stored chunk of array a that covers element p of the window *)
Definition cover (ds : dstore) (a : nat) (p : list Z) : list Z :=
  let c := cfg_of_dstore ds in chunk_id (arr_chunks c a) (gpos c (own c a p)).

(* ---------- SPEC: the property, stated on the bytes ---------- *)
(* nothing decodable is stored under the chunk's name: absent, truncated, garbage *)
Definition undecodable (lo : lowres) : bool := match lo with LRaise _ => true | LArray _ _ => false end.
(* the request for the chunk fails at store level (unreachable / unauthorised): by the class of the failure itself,
   not by what an error map makes of it *)
Definition store_level (lo : lowres) : bool :=
  match lo with
  | LRaise e => isinst e K_StoreUnavailable || isinst e R_ConnectionError || isinst e R_ConnectTimeout
  | LArray _ _ => false
  end.
(* decodable, but not what the metadata promises *)
Definition mismatched (lo : lowres) : bool :=
  match lo with LArray s d => negb s || negb d | LRaise _ => false end.
Definition spec_cfg (ds : dstore) : LostMap.cfg :=
  {| c_chunks := d_chunks ds; c_win := d_win ds; c_miss := fun a id => undecodable (d_low ds a id); c_dat := d_dat ds |}.
Definition spec_must_fail (ds : dstore) : bool :=
  existsb (fun ai => mismatched (d_low ds (fst ai) (snd ai)) || store_level (d_low ds (fst ai) (snd ai)))
          (needed ds).

(* ---------- wire ---------- *)
(* (store chunks win data files) with files = ((array id (descr fortran shape) file?) ...), file? = () | (bytes) | exception code;
   chunks not listed are healthy.
   -> (errors shape vis weights flags spec_vis spec_weights spec_flags spec_must_fail needed-count lostmap_is_modelled) *)
Inductive fstate := FAbsent | FBytes (b : bytes) | FRaise (e : exn).   (* FRaise: the request itself fails (HTTP status, OS error) *)
Definition file_entry := (nat * list Z * hdr * fstate)%type.
Definition to_file_entry (x : sx) : file_entry :=
  match x with
  | L [a; id; want; f] =>
      (to_nat a, to_Zs id, to_hdr want,
       match f with L [b] => FBytes (to_Zs b) | I code => FRaise (to_exn (I code)) | _ => FAbsent end)
  | _ => (99%nat, [], mkhdr [] false [], FAbsent)
  end.
Fixpoint find_file (files : list file_entry) (a : nat) (id : list Z) : option file_entry :=
  match files with
  | [] => None
  | ((a', id', w, f) as e) :: t => if Nat.eqb a a' && zs_eqb id id' then Some e else find_file t a id
  end.
Definition low_of_files (s : store) (files : list file_entry) (a : nat) (id : list Z) : lowres :=
  match find_file files a id with
  | None => LArray true true
  | Some (_, _, want, FRaise e) => LRaise e
  | Some (_, _, want, f) =>
      let ob := match f with FBytes b => Some b | _ => None end in
      match s with
      | SS3 => low_of_object parse_hdr_c ob want
      | _ => low_of_file parse_hdr_c ob want
      end
  end.

Definition mk_dstore (s : store) (chunks : list (list (list Z))) (win : list (option (Z * Z)))
                     (files : list file_entry) (data : list (list Z)) : dstore :=
  {| d_store := s; d_chunks := chunks; d_win := win; d_low := low_of_files s files;
     d_dat := fun a pos => dat_of (map zsum (nth a chunks [])) (nth a data []) pos |}.

Definition wire_82 (x : sx) : sx :=
  match x with
  | L [I s; chunks; win; data; files] =>
      let ds := mk_dstore (to_store s) (to_chunks3 chunks) (to_win win) (map to_file_entry (to_list files))
                          (map to_Zs (to_list data)) in
      let c := cfg_of_dstore ds in
      let sc := spec_cfg ds in
      let shape := map zsum (chunks_of (darr c A_VIS)) in
      let ps := product (map zrange shape) in
      let ents := dmg_entries c in
      L [L (map of_exn (load_errors ds)); of_Zs shape;
         of_Zs (map (dmg_vis ds) ps); of_Zs (map (dmg_weights ds) ps);
         of_Zs (map (model_flags_with ents c) ps);
         of_Zs (map (spec_vis sc) ps); of_Zs (map (spec_weights sc) ps); of_Zs (map (spec_flags sc) ps);
         of_bool (spec_must_fail ds); of_nat (List.length (needed ds)); of_bool lostmap_is_modelled]
  | _ => sx_err
  end.
