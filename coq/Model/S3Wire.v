(* C08: the S3 store at the level of one HTTP exchange.

   Part A -- reading a chunk object.  What S3ChunkStore.get_chunk sees is not "the bytes of the object" but an HTTP
   response: the server HOLDS some bytes under the key (possibly a damaged, shorter object), ANNOUNCES a
   Content-Length (honestly the size of what it holds, or the size of the original object while the transfer is cut
   short, or nothing at all) and DELIVERS some bytes before the connection ends.  http.client clips every read to the
   announced length and keeps count of what the response still owes; katdal's _DetectTruncation decides from the
   result of each read whether the data ran out.  Model of
     - http.client.HTTPResponse.read / readinto with a Content-Length (clip to the remaining length, EOF when the
       socket runs dry);
     - _DetectTruncation.read / readinto: the guards are TRANSLATED (c08_s3_read_rule, c08_s3_readinto_rule);
     - numpy's _read_bytes loop and katdal.chunkstore_s3.read_array over the wrapped response;
     - _read_chunk's `response.content` afterwards (urllib3 complains when a Content-Length was announced and the
       response is not exhausted by the array).
   Part B -- writing.  One request() of the store is answered by the server with a list of HTTP statuses (one per
   attempt: statuses in the Retry object's force list are retried by urllib3 while status retries are left, then
   become requests' RetryError); _raise_for_status (TRANSLATED: status range, if/elif chain, else class) turns an
   error status that is not ignored into an exception, inside `with self._standard_errors(...)`.  put_chunk,
   put_chunk_noraise, put_dask_array (one put_chunk_noraise per block) and mark_complete (bucket PUT ignoring 409,
   then the marker PUT) of the S3 store are sequences of such requests.
   Definitions only. *)
From Coq Require Import ZArith List Bool String.
From KV Require Import Base.Sx Base.Str Gen.Generated Model.Npy Model.StoreErr.
Import ListNotations.
Open Scope Z_scope.

(* ====================== Part A: the GET response ====================== *)

(* the bytes the reads of one response can return in total: what arrives, clipped to the announced length *)
Definition eff (cl : option nat) (arrived : bytes) : bytes :=
  match cl with Some l => firstn l arrived | None => arrived end.
(* the three ways an object can be short: the store holds only the first [held] bytes of it, the transfer delivers
   only [delivered] bytes of what is held, and the reads are clipped to the announced length [cl] *)
Definition response_stream (full : bytes) (held delivered : nat) (cl : option nat) : bytes :=
  eff cl (firstn delivered (firstn held full)).

Inductive rd_rule := RdEmpty      (* data == b'' and size is not None and size > 0  -> IncompleteRead *)
                   | RdNever.     (* no check: numpy's own "ran out of data" ValueError surfaces *)
Inductive ri_rule := RiCount      (* bytes_read != view.nbytes                      -> IncompleteRead *)
                   | RiOwed       (* "what the response still owes": remaining Content-Length > 0 (the byte count
                                     only when the response keeps no length)        -> IncompleteRead *)
                   | RiNever.
Record detect := mkdetect { d_read : rd_rule; d_readinto : ri_rule }.

Definition good_detect : detect := mkdetect RdEmpty RiCount.
(* the rules as translated from _DetectTruncation; an unknown rule string never detects (the theorems then fail) *)
Definition detect_of_source : detect :=
  mkdetect (if String.eqb c08_s3_read_rule "empty" then RdEmpty else RdNever)
           (if String.eqb c08_s3_readinto_rule "count" then RiCount
            else if String.eqb c08_s3_readinto_rule "owed" then RiOwed else RiNever).

Definition short_err (d : detect) : npyerr := match d_read d with RdEmpty => EIncomplete | RdNever => EValue end.

(* numpy.lib.format._read_bytes(fp, n) over _DetectTruncation(fp).read: the first read returns what is there (at most
   n bytes); when that is fewer than n the next read returns b'' and the detector (or numpy) raises *)
Definition det_read_bytes (d : detect) (n : nat) (bs : bytes) : res (bytes * bytes) :=
  match read_bytes n bs with Some p => Ok p | None => Err (short_err d) end.

Definition drain_ok (cl : option nat) (consumed : nat) : bool :=
  match cl with Some l => Nat.eqb l consumed | None => true end.

Section RespFraming.
  Variable parse_hdr : bytes -> option hdr.

  (* katdal.chunkstore_s3.read_array(_DetectTruncation(response)) followed by _read_chunk's `response.content`.
     [cl] = announced Content-Length, [bs] = eff cl (bytes that arrive).  The position in the stream is tracked
     because the response's own bookkeeping (length still owed = cl - position) is visible to the code. *)
  Definition s3_fetch (d : detect) (versions : list Z) (cl : option nat) (bs : bytes) : res (hdr * bytes) :=
    match det_read_bytes d 8 bs with
    | Err e => Err e
    | Ok (mg, r1) =>
      if negb (bytes_eqb (firstn 6 mg) magic_prefix) then Err EValue else
      let major := nth 6 mg 0 in
      let minor := nth 7 mg 0 in
      if negb (existsb (Z.eqb major) versions && (minor =? 0)) then Err EValue else
      match hlen_bytes major with
      | None => Err EValue
      | Some nb =>
        match det_read_bytes d nb r1 with
        | Err e => Err e
        | Ok (hl, r2) =>
          let nz := le_decode hl in
          match (if Z.of_nat (List.length r2) <? nz then Err (short_err d) else det_read_bytes d (Z.to_nat nz) r2) with
          | Err e => Err e
          | Ok (hb, r3) =>
            if max_header_size <? nz then Err EValue else
            match parse_hdr hb with
            | None => Err EValue
            | Some m =>
              match itemsize (h_descr m) with
              | None => Err EValue
              | Some isz =>
                (* data = np.ndarray(count, dtype); fp.readinto(data.view(np.uint8)) *)
                let n := (count (h_shape m) * isz)%nat in
                let pos := (8 + nb + Z.to_nat nz)%nat in
                let s := firstn n r3 in
                let got := List.length s in
                let owed := match cl with Some l => (l - (pos + got))%nat | None => (n - got)%nat end in
                let raises := match d_readinto d with
                              | RiCount => negb (Nat.eqb got n)
                              | RiOwed => Nat.ltb 0 owed
                              | RiNever => false
                              end in
                if raises then Err EIncomplete
                else if drain_ok cl (pos + got) then Ok (m, s ++ repeat 0 (n - got))  (* tail: whatever was in the buffer *)
                else Err EIncomplete       (* response.content: urllib3 finds the announced length unsatisfied *)
              end
            end
          end
        end
      end
    end.
End RespFraming.

Definition s3_versions : list Z := [1; 2].

(* S3ChunkStore.get_chunk over one response (status 200), every attempt alike (retries exhausted at once) *)
Definition s3_get_response (parse_hdr : bytes -> option hdr) (d : detect) (cl : option nat) (bs : bytes) (want : hdr)
  : outcome bytes :=
  match s3_fetch parse_hdr d s3_versions cl bs with
  | Err e => Raise (standard_errors (error_map SS3) (exn_of_npyerr e))
  | Ok (m, body) =>
    let (sok, dok) := hdr_matches want m in
    match check_decoded SS3 sok dok with Some ex => Raise ex | None => Ret body end
  end.
Definition lowres_of_response (parse_hdr : bytes -> option hdr) (d : detect) (cl : option nat) (bs : bytes) (want : hdr)
  : lowres := lowres_of_decode (s3_fetch parse_hdr d s3_versions cl bs) want.

(* the statements of read_array / _read_chunk / _request this model was written against *)
Definition read_array_src_expected : list string :=
  ["fp = _DetectTruncation(fp)";
   "version = np.lib.format.read_magic(fp)";
   "if version == (1, 0):";
   "  shape, fortran_order, dtype = np.lib.format.read_array_header_1_0(fp)";
   "elif version == (2, 0):";
   "  shape, fortran_order, dtype = np.lib.format.read_array_header_2_0(fp)";
   "else:";
   "  raise ValueError(...)";
   "if dtype.hasobject:";
   "  raise ValueError(...)";
   "count = int(np.prod(shape))";
   "data = np.ndarray(count, dtype=dtype)";
   "fp.readinto(data.view(np.uint8))";
   "if fortran_order:";
   "  data.shape = shape[::-1]";
   "  data = data.transpose()";
   "else:";
   "  data.shape = shape";
   "return data"]%string.
Definition read_chunk_src_expected : list string :=
  ["data = response.raw";
   "if 'Content-encoding' not in response.headers and hasattr(data, '_fp') and hasattr(data._fp, 'readinto'):";
   "  chunk = read_array(data._fp)";
   "else:";
   "  chunk = read_array(data)";
   "response.content";
   "return chunk"]%string.
Definition strs_eqb (a b : list string) : bool :=
  Nat.eqb (List.length a) (List.length b) && forallb (fun p => String.eqb (fst p) (snd p)) (combine a b).
(* an IncompleteRead raised while the body is read is re-raised by _request as ProtocolError, which request() retries *)
Definition incomplete_is_retried : bool :=
  existsb (fun row => existsb (String.eqb c08_s3_incomplete_class) (fst row)
                      && String.eqb (snd row) "urllib3.exceptions.ProtocolError") c08_s3_request_reraise
  && String.eqb c08_s3_incomplete_class "urllib3.exceptions.IncompleteRead".
Definition s3_read_is_modelled : bool :=
  strs_eqb c08_s3_read_array_src read_array_src_expected && strs_eqb c08_s3_read_chunk_src read_chunk_src_expected
  && incomplete_is_retried.

(* ====================== Part B: requests that write ====================== *)

Definition exn_or_base (s : string) : exn := match exn_of_name s with Some e => e | None => B_BaseException end.
Definition memZ (s : Z) (l : list Z) : bool := existsb (Z.eqb s) l.

(* _raise_for_status(response, chunk_name, ignored_errors): None = returns normally *)
Definition raise_for_status (ign : list Z) (s : Z) : option exn :=
  if (fst c08_s3_status_range <=? s) && (s <? snd c08_s3_status_range) && negb (memZ s ign) then
    Some (match find (fun row => memZ s (fst row)) c08_s3_status_rows with
          | Some row => exn_or_base (snd row)
          | None => exn_or_base c08_s3_status_else
          end)
  else None.

(* the statements of S3ChunkStore.request this model was written against: the status test comes first inside the
   guarded block, the result of process(response) is returned, only ReadTimeoutError / ProtocolError loop *)
Definition request_src_expected : list string :=
  ["timeout = self.timeout if timeout == () else _connect_read_tuple(timeout)";
   "retries = self.retries if retries is None else _retry_object(retries)";
   "retries = retries.new()";
   "with self._standard_errors(chunk_name), self._session_pool() as session:";
   "  adapter = session.get_adapter(url)";
   "  while True:";
   "    adapter.max_retries = retries";
   "    try:";
   "      with _request(session, method, url, timeout, **kwargs) as response:";
   "        _raise_for_status(response, chunk_name, ignored_errors)";
   "        retries = response.raw.retries.new()";
   "        return process(response)";
   "    except (ReadTimeoutError, ProtocolError) as error:";
   "      retries = retries.increment(method, url, error=error)";
   "      retries.sleep()"]%string.
Definition request_is_modelled : bool := strs_eqb c08_s3_request_src request_src_expected.

(* what comes back for one attempt of a request *)
Inductive answer := AStatus (s : Z)          (* a complete response with this status *)
                  | AFail (e : exn).         (* no response: the attempt raises e inside requests *)
(* the Retry object of the store: statuses retried by urllib3, number of status retries *)
Record retry_cfg := mkretry { forcelist : list Z; status_retries : nat }.
Definition default_retry (n : nat) : retry_cfg := mkretry c08_s3_glitches n.

(* S3ChunkStore.request(method, url, ignored_errors=ign) for a method urllib3 retries (GET, PUT): the final status
   when it returns.  One answer is consumed per attempt; no answer left = nobody listens. *)
Fixpoint request_run (fl : list Z) (n : nat) (ign : list Z) (answers : list answer) {struct answers} : outcome Z :=
  match answers with
  | [] => Raise (standard_errors (error_map SS3) R_ConnectionError)
  | AFail e :: _ => Raise (standard_errors (error_map SS3) e)
  | AStatus s :: rest =>
    if memZ s fl then
      match n with
      | O => Raise (standard_errors (error_map SS3) R_RetryError)
      | S n' => request_run fl n' ign rest
      end
    else if request_is_modelled then
      match raise_for_status ign s with
      | Some e => Raise (standard_errors (error_map SS3) e)
      | None => Ret s
      end
    else Ret s                      (* unknown request(): nothing is known to be checked *)
  end.
(* the attempts a request uses up (for the server side: which PUTs arrived) *)
Fixpoint request_attempts (fl : list Z) (n : nat) (answers : list answer) {struct answers} : nat :=
  match answers with
  | AStatus s :: rest => if memZ s fl then match n with O => 1 | S n' => S (request_attempts fl n' rest) end else 1
  | _ => 1
  end%nat.

(* the (method, ignored_errors) of the requests a method issues, from the translated table *)
Definition put_requests (meth : string) : list (string * list Z) :=
  match find (fun r => String.eqb (fst r) meth) c08_s3_put_requests with Some r => snd r | None => [] end.
Definition ignored_of (meth : string) : option (list Z) :=
  match put_requests meth with [(m, ign)] => if String.eqb m "PUT" then Some ign else None | _ => None end.

Definition put_chunk_src_expected : list string :=
  ["chunk_name, _ = self.chunk_metadata(array_name, slices, chunk=chunk)";
   "url = self.make_url(chunk_name + _CHUNK_EXTENSION)";
   "npy_header, chunk = npy_header_and_body(chunk)";
   "md5_gen = hashlib.md5(npy_header)";
   "md5_gen.update(chunk)";
   "md5 = base64.b64encode(md5_gen.digest())";
   "headers = {'Content-MD5': md5.decode()}";
   "data = _Multipart([npy_header, memoryview(chunk.reshape(-1).view(np.uint8))])";
   "self.request('PUT', url, chunk_name=chunk_name, headers=headers, data=data)"]%string.
Definition mark_complete_src_expected : list string :=
  ["self.create_array(array_name)";
   "obj_name = self.join(array_name, 'complete')";
   "url = self.make_url(obj_name)";
   "self.request('PUT', url, chunk_name=obj_name, data=b'')"]%string.
Definition create_array_src_expected : list string :=
  ["array_url = self.make_url(array_name)";
   "bucket_url = _bucket_url(array_url)";
   "self._create_bucket(bucket_url)"]%string.
Definition put_map_blocks_src_expected : list string :=
  ["put = store.put_chunk_noraise";
   "if offset:";
   "  put = _add_offset_to_slices(put, offset)";
   "slices = tuple((slice(*loc) for loc in block_info[0]['array-location']))";
   "success = put(array_name, slices, chunk)";
   "singleton_shape = chunk.ndim * (1,)";
   "return np.full(singleton_shape, success)"]%string.
Definition s3_put_is_modelled : bool :=
  strs_eqb c08_s3_put_chunk_src put_chunk_src_expected && strs_eqb c08_s3_mark_complete_src mark_complete_src_expected
  && strs_eqb c08_s3_create_array_src create_array_src_expected
  && strs_eqb c08_put_map_blocks_src put_map_blocks_src_expected
  && String.eqb c08_put_dask_array_maps "_put_map_blocks"
  && match c08_s3_create_bucket_src with
     | first :: _ => String.eqb first "self.request('PUT', url, ignored_errors=(409,))"
     | [] => false
     end.

(* S3ChunkStore.put_chunk: chunk_metadata (BadChunk escapes before anything is sent), then ONE PUT whose outcome is
   the outcome of the method.  A method whose requests are not the modelled ones reports success without asking. *)
Definition s3_put_chunk (rc : retry_cfg) (meta_ok : bool) (answers : list answer) : outcome unit :=
  if negb meta_ok then Raise K_BadChunk else
  match ignored_of "put_chunk" with
  | Some ign => match request_run (forcelist rc) (status_retries rc) ign answers with
                | Ret _ => Ret tt
                | Raise e => Raise e
                end
  | None => Ret tt
  end.
(* ChunkStore.put_chunk_noraise: Ret None = success reported, Ret (Some e) = the error object, Raise = propagates *)
Definition s3_put_chunk_noraise (rc : retry_cfg) (meta_ok : bool) (answers : list answer) : outcome (option exn) :=
  match s3_put_chunk rc meta_ok answers with
  | Ret _ => Ret None
  | Raise e => if caught noraise_returned e then Ret (Some e) else Raise e
  end.
(* put_dask_array(...).compute(): one put_chunk_noraise per block; an exception that put_chunk_noraise does not return
   fails the whole compute *)
Fixpoint s3_put_dask_array (rc : retry_cfg) (blocks : list (list answer)) : outcome (list (option exn)) :=
  match blocks with
  | [] => Ret []
  | a :: t =>
    match s3_put_chunk_noraise rc true a with
    | Raise e => Raise e
    | Ret r => match s3_put_dask_array rc t with Raise e => Raise e | Ret l => Ret (r :: l) end
    end
  end.
(* mark_complete: create_array -> _create_bucket (PUT, 409 = bucket exists is fine), then the marker PUT *)
Definition s3_mark_complete (rc : retry_cfg) (bucket marker : list answer) : outcome unit :=
  match ignored_of "_create_bucket", ignored_of "mark_complete" with
  | Some ib, Some im =>
    match request_run (forcelist rc) (status_retries rc) ib bucket with
    | Raise e => Raise e
    | Ret _ => match request_run (forcelist rc) (status_retries rc) im marker with
               | Raise e => Raise e
               | Ret _ => Ret tt
               end
    end
  | _, _ => Ret tt
  end.

(* the server of the correspondence runs: a PUT is stored exactly when it is answered with a 2xx status *)
Definition accepted (s : Z) : bool := (200 <=? s) && (s <? 300).
(* is the object in the store after the request: some attempt that was actually made got a 2xx answer *)
Definition stored_after (fl : list Z) (n : nat) (answers : list answer) : bool :=
  existsb (fun a => match a with AStatus s => accepted s | AFail _ => false end)
          (firstn (request_attempts fl n answers) answers).

(* ---------- wire ---------- *)
Definition to_cl (x : sx) : option nat := match x with L [I z] => Some (Z.to_nat z) | _ => None end.
Definition to_detect (x : sx) : detect :=
  match x with
  | L [I a; I b] => mkdetect (if a =? 0 then RdEmpty else RdNever)
                             (if b =? 0 then RiCount else if b =? 1 then RiOwed else RiNever)
  | _ => detect_of_source
  end.
Definition to_answer (x : sx) : answer :=
  match x with
  | L [I 0; I s] => AStatus s
  | L [I 1; e] => AFail (to_exn e)
  | _ => AFail B_BaseException
  end.
Definition to_retry (x : sx) : retry_cfg :=
  match x with
  | L [fl; n] => mkretry (to_Zs fl) (to_nat n)
  | L [n] => default_retry (to_nat n)
  | _ => default_retry 0
  end.
Definition of_outcome_unit (o : outcome unit) : sx :=
  match o with Ret _ => L [I 0] | Raise e => L [I 1; of_exn e] end.
Definition of_outcome_noraise (o : outcome (option exn)) : sx :=
  match o with Ret None => L [I 0] | Ret (Some e) => L [I 1; of_exn e] | Raise e => L [I 2; of_exn e] end.
Definition three_of (lo : lowres) : sx :=
  L [of_outcome_cv (get_chunk SS3 lo); of_outcome_cv (get_chunk_or_default SS3 lo);
     of_outcome_cv (get_chunk_or_placeholder SS3 lo)].

(* (1 full want ((held delivered cl?) ...) rules?)
        -> per triple: (three getters of the S3 store on that response, class of s3_fetch (0 = decoded),
                        "the complete object arrived" as the spec sees it)
   (2 retry meta_ok answers)            -> (put_chunk, put_chunk_noraise, stored_after, attempts made)
   (3 retry (answers ...))              -> put_dask_array: (0 (result ...)) | (1 exn); then stored_after per block
   (4 retry bucket_answers marker_answers) -> (mark_complete, marker stored)
   (5 ign status)                        -> raise_for_status: () | (exn)
   (6)                                   -> (s3_read_is_modelled, request_is_modelled, s3_put_is_modelled, rules, force list) *)
Definition wire_83 (x : sx) : sx :=
  match x with
  | L (I 1 :: b :: want :: L cases :: rules) =>
      let full := to_Zs b in
      let w := to_hdr want in
      let d := match rules with [r] => to_detect r | _ => detect_of_source end in
      L (map (fun c => match c with
                       | L [held; delivered; cl] =>
                           let clo := to_cl cl in
                           let bs := response_stream full (to_nat held) (to_nat delivered) clo in
                           let r := s3_fetch parse_hdr_c d s3_versions clo bs in
                           L [three_of (lowres_of_decode r w); I (res_class r);
                              of_bool (Nat.leb (List.length full) (List.length bs))]
                       | _ => sx_err
                       end) cases)
  | L [I 2; rc; mok; answers] =>
      let r := to_retry rc in
      let a := map to_answer (to_list answers) in
      L [of_outcome_unit (s3_put_chunk r (to_bool mok) a); of_outcome_noraise (s3_put_chunk_noraise r (to_bool mok) a);
         of_bool (to_bool mok && stored_after (forcelist r) (status_retries r) a);
         of_nat (if to_bool mok then request_attempts (forcelist r) (status_retries r) a else 0%nat)]
  | L [I 3; rc; blocks] =>
      let r := to_retry rc in
      let bl := map (fun b => map to_answer (to_list b)) (to_list blocks) in
      L [match s3_put_dask_array r bl with
         | Ret l => L [I 0; L (map (fun o => of_outcome_noraise (Ret o)) l)]
         | Raise e => L [I 1; of_exn e]
         end;
         L (map (fun a => of_bool (stored_after (forcelist r) (status_retries r) a)) bl)]
  | L [I 4; rc; bucket; marker] =>
      let r := to_retry rc in
      let b := map to_answer (to_list bucket) in
      let m := map to_answer (to_list marker) in
      L [of_outcome_unit (s3_mark_complete r b m);
         of_bool (match request_run (forcelist r) (status_retries r)
                                    (match ignored_of "_create_bucket" with Some i => i | None => [] end) b with
                  | Ret _ => stored_after (forcelist r) (status_retries r) m | Raise _ => false end)]
  | L [I 5; ign; I s] =>
      match raise_for_status (to_Zs ign) s with Some e => L [of_exn e] | None => L [] end
  | L [I 6] =>
      L [of_bool s3_read_is_modelled; of_bool request_is_modelled; of_bool s3_put_is_modelled;
         I (match d_read detect_of_source with RdEmpty => 0 | RdNever => 1 end);
         I (match d_readinto detect_of_source with RiCount => 0 | RiOwed => 1 | RiNever => 2 end);
         of_Zs c08_s3_glitches]
  | _ => sx_err
  end.
