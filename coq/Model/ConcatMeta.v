(* C19: katdal/concatdata.py:ConcatenatedDataSet.__init__, the block "Merge high-level metadata" (+ start / end time,
   ref_ant / time_offset): what the concatenation presents as name, url, version, observer, description,
   experiment_id, obs_params, receivers, start_time, end_time, ref_ant, time_offset.  Definitions only.

   A data set as this block sees it is a [dmeta]: every string / value is an id (two values get the same id iff Python's
   == holds between them; id 0 is the empty string '', the default of `.get(param, '')`); obs_params / receivers are
   association lists in dict order (keys distinct: a dict).  Start and end times are compared only (ranks).

       DataSet.__init__(self, '', datasets[0].ref_ant, datasets[0].time_offset)          # INPUT order
       decorated_datasets.sort() ...                                                      # from here on: time order
       self.name = ','.join(unique_in_order([d.name for d in datasets]))                  # likewise version, observer,
       self.url = ' | '.join(unique_in_order([d.url for d in datasets]))                  #   experiment_id; description
       obs_params = unique_in_order(reduce(lambda x, y: x + y, [list(d.obs_params.keys()) for d in datasets]))
       for param in obs_params:
           values = [d.obs_params.get(param, '') for d in datasets]
           self.obs_params[param] = values[0] if len([k for k in itertools.groupby(values)]) == 1 else values
       (the same for receivers)
       self.start_time = min([d.start_time for d in datasets]); self.end_time = max([d.end_time for d in datasets])

   The joined strings are abstracted to the list of their components (the separators are re-read by the translator:
   concat_meta_joins). *)
From Coq Require Import ZArith List Bool Arith.
From KV Require Import Base.Sx Gen.Generated Model.Categorical.
Import ListNotations.
Open Scope Z_scope.

Record dmeta := mkDM {
  dm_start : Z; dm_end : Z;
  dm_name : Z; dm_url : Z; dm_version : Z; dm_observer : Z; dm_descr : Z; dm_expid : Z;
  dm_params : list (Z * Z);          (* obs_params, dict order *)
  dm_rx : list (Z * Z);              (* receivers, dict order *)
  dm_refant : Z; dm_toff : Z
}.

(* decorated_datasets.sort(): insertion by start time, failing on equal start times (as Concat.sort_parts) *)
Fixpoint insert_m (a : dmeta) (l : list dmeta) : option (list dmeta) :=
  match l with
  | [] => Some [a]
  | b :: t => if dm_start a <? dm_start b then Some (a :: l)
              else if dm_start a =? dm_start b then None
              else option_map (cons b) (insert_m a t)
  end.
Fixpoint sort_metas (l : list dmeta) : option (list dmeta) :=
  match l with
  | [] => Some []
  | a :: t => match sort_metas t with Some s => insert_m a s | None => None end
  end.

(* d.get(key, '') *)
Fixpoint dget (k : Z) (d : list (Z * Z)) : Z :=
  match d with
  | [] => 0
  | (k', v) :: t => if k' =? k then v else dget k t
  end.

(* len([k for k in itertools.groupby(values)]): the number of maximal runs of equal neighbours *)
Fixpoint nruns (l : list Z) : nat :=
  match l with
  | [] => 0%nat
  | x :: r => match r with
              | [] => 1%nat
              | y :: _ => if x =? y then nruns r else S (nruns r)
              end
  end.

Inductive mval := One (v : Z) | Many (vs : list Z).

(* the merge of obs_params / receivers: keys in order of first appearance over the parts in time order; one value when
   all parts (a part without the key counts as '') agree, otherwise the list of the parts' values *)
Definition merge_dicts (ds : list (list (Z * Z))) : list (Z * mval) :=
  let keys := unique_in_order Z.eqb (concat (map (map fst) ds)) in
  map (fun k => let values := map (dget k) ds in
                (k, if Nat.eqb (nruns values) 1 then One (hd 0 values) else Many values)) keys.

Record mmeta := mkMM {
  mm_name : list Z; mm_url : list Z; mm_version : list Z; mm_observer : list Z; mm_descr : list Z; mm_expid : list Z;
  mm_params : list (Z * mval); mm_rx : list (Z * mval);
  mm_start : Z; mm_end : Z; mm_refant : Z; mm_toff : Z;
  mm_order : list Z                   (* start times of self.datasets *)
}.

Definition zmin (l : list Z) (d : Z) : Z := fold_right Z.min d l.
Definition zmax (l : list Z) (d : Z) : Z := fold_right Z.max d l.
Definition uio (l : list Z) : list Z := unique_in_order Z.eqb l.

Definition concat_meta (input : list dmeta) : option mmeta :=
  match input with
  | [] => None                                                   (* datasets[0]: IndexError *)
  | first :: _ =>
      match sort_metas input with
      | None => None                                             (* equal start times: TypeError *)
      | Some ds =>
          let d0 := hd first ds in
          Some (mkMM (uio (map dm_name ds)) (uio (map dm_url ds)) (uio (map dm_version ds)) (uio (map dm_observer ds))
                     (uio (map dm_descr ds)) (uio (map dm_expid ds))
                     (merge_dicts (map dm_params ds)) (merge_dicts (map dm_rx ds))
                     (zmin (map dm_start ds) (dm_start d0)) (zmax (map dm_end ds) (dm_end d0))
                     (dm_refant first) (dm_toff first)
                     (map dm_start ds))
      end
  end.

(* ---------------------------------------------------------------- SPEC: what a user reads off the merged metadata *)
(* the value part i (time order) had for a key, read back from the merged entry *)
Definition mval_nth (m : mval) (i : nat) : Z := match m with One v => v | Many vs => nth i vs 0 end.
Fixpoint mget (k : Z) (d : list (Z * mval)) : option mval :=
  match d with
  | [] => None
  | (k', v) :: t => if k' =? k then Some v else mget k t
  end.
Definition has_key (k : Z) (d : list (Z * Z)) : bool := existsb (fun kv => fst kv =? k) d.

(* everything but ref_ant / time_offset (which follow the INPUT order) *)
Definition forget_ref (m : mmeta) : mmeta :=
  mkMM (mm_name m) (mm_url m) (mm_version m) (mm_observer m) (mm_descr m) (mm_expid m) (mm_params m) (mm_rx m)
       (mm_start m) (mm_end m) 0 0 (mm_order m).

(* ---------------------------------------------------------------- wire *)
Definition to_pairs (x : sx) : list (Z * Z) :=
  map (fun p => match p with L [I k; I v] => (k, v) | _ => (-1, -1) end) (to_list x).
Definition to_dmeta (x : sx) : dmeta :=
  match x with
  | L [I s; I e; I n; I u; I v; I o; I d; I x; ps; rx; I r; I t] => mkDM s e n u v o d x (to_pairs ps) (to_pairs rx) r t
  | _ => mkDM 0 0 0 0 0 0 0 0 [] [] 0 0
  end.
Definition of_mval (m : mval) : sx := match m with One v => L [I 0; I v] | Many vs => L [I 1; of_Zs vs] end.
Definition of_mdict (d : list (Z * mval)) : sx := L (map (fun kv => L [I (fst kv); of_mval (snd kv)]) d).
(* (data sets in input order) -> () when refused, else
   (name url version observer description experiment_id obs_params receivers start end ref_ant time_offset order) *)
Definition wire_195 (x : sx) : sx :=
  match concat_meta (map to_dmeta (to_list x)) with
  | None => L []
  | Some m => L [of_Zs (mm_name m); of_Zs (mm_url m); of_Zs (mm_version m); of_Zs (mm_observer m); of_Zs (mm_descr m);
                 of_Zs (mm_expid m); of_mdict (mm_params m); of_mdict (mm_rx m); I (mm_start m); I (mm_end m);
                 I (mm_refant m); I (mm_toff m); of_Zs (mm_order m)]
  end.
