(* C11 (round 3): SEVERAL containers with SHARED STORAGE modelled explicitly, and add() with its bounds check.
   Definitions only.

   * add_chk          CategoricalData.add after fix d362220: `if event < 0 or event >= self.events[-1]: raise IndexError`
                      in front of the body modelled by Categorical.add (events are Python integers: Z)
   * add_unmatched_chk  add_unmatched calling that add (IndexError swallowed)
   * heap             Python objects: list objects (unique_values), numpy buffers (indices / events), CategoricalData
                      objects whose three attributes are REFERENCES: o_uv = a list object, o_idx / o_ev = array
                      references (buffer, offset, length) - an array reference may be a VIEW of a buffer that somebody
                      else (the caller of the constructor: np.asarray(events) does not copy) also refers to
   * h_step           the storage discipline of every operation, literally as in katdal/categorical.py:
                        add      unique_values += [value] IN PLACE (same list object), indices / events REBOUND to new arrays
                        remove   del unique_values[index] IN PLACE, indices / events rebound to new arrays
                        align    unique_values REBOUND to a new list, indices / events rebound
                        remove_repeats   indices / events rebound, unique_values untouched
                        add_unmatched    a sequence of add(segm) with IndexError swallowed
                        partition        one NEW object per segment: its own COPY of the list (list(self.unique_values),
                                         fix fbcb22b; `share = true` models the code before that fix: ONE list object for
                                         all parts and the parent), new index / event arrays (boolean-mask indexing copies)
                        concatenate      ONE part: that very object is returned (no copy); otherwise a new object
                        constructor      new list, new index array, events = the CALLER's array (a view, not a copy)
                      an operation that raises changes nothing (every raise happens before the first assignment)
   * wire_114         a history over several containers; after every operation the value of EVERY container *)
From Coq Require Import ZArith List Bool Arith Lia.
From KV Require Import Base.Sx Model.Categorical Model.CategoricalX.
Import ListNotations.
Open Scope nat_scope.

Section AddChk.
Context {V : Type} (veqb : V -> V -> bool).
Notation cdV := (@cd V).

Definition add_chk (c : cdV) (e : Z) (val : option V) : option cdV :=
  if ((e <? 0)%Z || (Z.of_nat (ndumps c) <=? e)%Z)%bool then None else add veqb c (Z.to_nat e) val.

Definition add_unmatched_chk (c : cdV) (segs : list nat) (dist : nat) : cdV :=
  let unmatched := filter (fun s => dist <? list_min (map (absd s) (ev c))) segs in
  fold_left (fun c s => match add_chk c (Z.of_nat s) None with Some c' => c' | None => c end) unmatched c.
End AddChk.

(* ---------- the heap ---------- *)
Record aref := mkref { r_buf : nat; r_off : nat; r_len : nat }.
Record obj := mkobj { o_uv : nat; o_idx : aref; o_ev : aref }.

Definition upd {A} (f : nat -> A) (k : nat) (x : A) : nat -> A := fun n => if n =? k then x else f n.

Section Heap.
Context {V : Type} (veqb : V -> V -> bool) (dflt : V).
Notation cdV := (@cd V).

(* n_* = number of allocated list objects / buffers / container objects; locations are 0 .. n-1 *)
Record heap := mkheap { n_lists : nat; h_lists : nat -> list V;
                        n_arrs : nat; h_arrs : nat -> list nat;
                        n_objs : nat; h_objs : nat -> obj }.

Definition rd_arr (h : heap) (r : aref) : list nat := firstn (r_len r) (skipn (r_off r) (h_arrs h (r_buf r))).
Definition rd_obj (h : heap) (o : obj) : cdV := mk (h_lists h (o_uv o)) (rd_arr h (o_idx o)) (rd_arr h (o_ev o)).
(* THE ABSTRACTION: the value of container object i *)
Definition rd (h : heap) (i : nat) : cdV := rd_obj h (h_objs h i).

Definition whole (b : nat) (l : list nat) : aref := mkref b 0 (length l).

(* object i takes the value c': unique values written into ITS list object (in_place) or into a NEW list object,
   indices and events always into two NEW buffers *)
Definition store (h : heap) (i : nat) (c' : cdV) (in_place : bool) : heap :=
  let uvr := if in_place then o_uv (h_objs h i) else n_lists h in
  mkheap (if in_place then n_lists h else S (n_lists h)) (upd (h_lists h) uvr (uv c'))
         (S (S (n_arrs h))) (upd (upd (h_arrs h) (n_arrs h) (idx c')) (S (n_arrs h)) (ev c'))
         (n_objs h) (upd (h_objs h) i (mkobj uvr (whole (n_arrs h) (idx c')) (whole (S (n_arrs h)) (ev c')))).

(* a NEW container object with value c'; its unique values are a new list object, or (share = Some r) the EXISTING
   list object r *)
Definition new_obj (h : heap) (c' : cdV) (share : option nat) : heap :=
  let uvr := match share with Some r => r | None => n_lists h end in
  mkheap (match share with Some _ => n_lists h | None => S (n_lists h) end)
         (match share with Some _ => h_lists h | None => upd (h_lists h) uvr (uv c') end)
         (S (S (n_arrs h))) (upd (upd (h_arrs h) (n_arrs h) (idx c')) (S (n_arrs h)) (ev c'))
         (S (n_objs h)) (upd (h_objs h) (n_objs h) (mkobj uvr (whole (n_arrs h) (idx c')) (whole (S (n_arrs h)) (ev c')))).

(* a buffer owned by somebody else (the array a caller passes to the constructor) *)
Definition alloc_arr (h : heap) (l : list nat) : heap :=
  mkheap (n_lists h) (h_lists h) (S (n_arrs h)) (upd (h_arrs h) (n_arrs h) l) (n_objs h) (h_objs h).

Inductive hop :=
| HMake (values : list V) (r : aref)          (* CategoricalData(values, events), events = a view of the caller's buffer *)
| HAdd (i : nat) (e : Z) (v : option V)
| HRemove (i : nat) (v : V)
| HAddUnmatched (i : nat) (segs : list nat) (d : nat)
| HAlign (i : nat) (segs : list nat)
| HRemoveRepeats (i : nat)
| HPartition (i : nat) (segs : list nat)
| HConcat (parts : list nat) (allow_repeats : bool).

Definition h_add (h : heap) (i : nat) (e : Z) (v : option V) : heap * bool :=
  match add_chk veqb (rd h i) e v with Some c' => (store h i c' true, true) | None => (h, false) end.

(* one operation: (new heap, None = it raised | Some ids = the container objects it returned / worked on).
   share = false is katdal as it is; share = true is partition() before fix fbcb22b *)
Definition h_step (share : bool) (h : heap) (o : hop) : heap * option (list nat) :=
  match o with
  | HMake values r =>
      if r_buf r <? n_arrs h then
        let u := unique_in_order veqb values in
        (mkheap (S (n_lists h)) (upd (h_lists h) (n_lists h) u)
                (S (n_arrs h)) (upd (h_arrs h) (n_arrs h) (inverse_of veqb u values))
                (S (n_objs h)) (upd (h_objs h) (n_objs h)
                                    (mkobj (n_lists h) (whole (n_arrs h) (inverse_of veqb u values)) r)),
         Some [n_objs h])
      else (h, None)
  | HAdd i e v =>
      if i <? n_objs h then let '(h', ok) := h_add h i e v in (h', if ok then Some [i] else None) else (h, None)
  | HRemove i v =>
      if i <? n_objs h then
        match index_of veqb v (uv (rd h i)) with
        | Some _ => (store h i (remove veqb (rd h i) v) true, Some [i])
        | None => (h, Some [i])                    (* ValueError caught: nothing is touched *)
        end
      else (h, None)
  | HAddUnmatched i segs d =>
      if i <? n_objs h then
        let unmatched := filter (fun s => d <? list_min (map (absd s) (ev (rd h i)))) segs in
        (fold_left (fun h s => fst (h_add h i (Z.of_nat s) None)) unmatched h, Some [i])
      else (h, None)
  | HAlign i segs =>
      if i <? n_objs h then
        match align dflt (rd h i) segs with Some c' => (store h i c' false, Some [i]) | None => (h, None) end
      else (h, None)
  | HRemoveRepeats i =>
      if i <? n_objs h then
        match remove_repeats (rd h i) with Some c' => (store h i c' true, Some [i]) | None => (h, None) end
      else (h, None)
  | HPartition i segs =>
      if i <? n_objs h then
        match partition_x (rd h i) segs with
        | Some ps =>
            (fold_left (fun h p => new_obj h p (if share then Some (o_uv (h_objs h i)) else None)) ps h,
             Some (seq (n_objs h) (length ps)))
        | None => (h, None)
        end
      else (h, None)
  | HConcat parts ar =>
      if forallb (fun i => i <? n_objs h) parts then
        match parts with
        | [i] => (h, Some [i])                     (* `return split_data[0]`: the part itself, not a copy *)
        | _ => match concatenate veqb dflt (map (rd h) parts) ar with
               | Some cc => (new_obj h cc None, Some [n_objs h])
               | None => (h, None)
               end
        end
      else (h, None)
  end.

Fixpoint h_run (share : bool) (h : heap) (ops : list hop) : heap :=
  match ops with [] => h | o :: t => h_run share (fst (h_step share h o)) t end.

(* the container an operation works on, and what the operation does to a container VALUE *)
Definition target (o : hop) : option nat :=
  match o with
  | HAdd i _ _ | HRemove i _ | HAddUnmatched i _ _ | HAlign i _ | HRemoveRepeats i => Some i
  | _ => None
  end.
Definition pure_op (c : cdV) (o : hop) : cdV :=
  match o with
  | HAdd _ e v => match add_chk veqb c e v with Some c' => c' | None => c end
  | HRemove _ v => remove veqb c v
  | HAddUnmatched _ segs d => add_unmatched_chk veqb c segs d
  | HAlign _ segs => match align dflt c segs with Some c' => c' | None => c end
  | HRemoveRepeats _ => match remove_repeats c with Some c' => c' | None => c end
  | _ => c
  end.
Definition targets (j : nat) (o : hop) : bool := match target o with Some i => i =? j | None => false end.

(* THE INVARIANT of the storage: different container objects own different list objects; every reference is allocated *)
Definition heap_ok (h : heap) : Prop :=
  (forall i j, i < n_objs h -> j < n_objs h -> o_uv (h_objs h i) = o_uv (h_objs h j) -> i = j) /\
  (forall i, i < n_objs h -> o_uv (h_objs h i) < n_lists h /\
                             r_buf (o_idx (h_objs h i)) < n_arrs h /\ r_buf (o_ev (h_objs h i)) < n_arrs h).

Definition empty_heap : heap :=
  mkheap 0 (fun _ => []) 0 (fun _ => []) 0 (fun _ => mkobj 0 (mkref 0 0 0) (mkref 0 0 0)).

End Heap.

Arguments mkheap {V}.
Arguments n_lists {V}.
Arguments h_lists {V}.
Arguments n_arrs {V}.
Arguments h_arrs {V}.
Arguments n_objs {V}.
Arguments h_objs {V}.
Arguments HMake {V}.
Arguments HAdd {V}.
Arguments HRemove {V}.
Arguments HAddUnmatched {V}.
Arguments HAlign {V}.
Arguments HRemoveRepeats {V}.
Arguments HPartition {V}.
Arguments HConcat {V}.

(* ---------- wire ---------- *)
Definition all_objs (h : @heap Z) : sx := L (map (fun j => of_cd (rd h j)) (seq 0 (n_objs h))).
Definition of_ids (r : option (list nat)) : sx :=
  match r with Some l => L [I 1%Z; of_nats l] | None => L [I 0%Z] end.

(* one wire operation -> the heap operations (the constructor first allocates the caller's event array) *)
Definition hstep_wire (share : bool) (h : @heap Z) (op : sx) : @heap Z * option (list nat) :=
  match op with
  | L [I 0%Z; vs; es] =>
      let h1 := alloc_arr h (to_nats es) in
      h_step Z.eqb zd share h1 (HMake (to_Zs vs) (whole (n_arrs h) (to_nats es)))
  | L [I 2%Z; i; I e; v] => h_step Z.eqb zd share h (HAdd (to_nat i) e (to_optZ v))
  | L [I 3%Z; i; I v] => h_step Z.eqb zd share h (HRemove (to_nat i) v)
  | L [I 4%Z; i; segs; d] => h_step Z.eqb zd share h (HAddUnmatched (to_nat i) (to_nats segs) (to_nat d))
  | L [I 5%Z; i; segs] => h_step Z.eqb zd share h (HAlign (to_nat i) (to_nats segs))
  | L [I 7%Z; i] => h_step Z.eqb zd share h (HRemoveRepeats (to_nat i))
  | L [I 16%Z; i; segs] => h_step Z.eqb zd share h (HPartition (to_nat i) (to_nats segs))
  | L [I 9%Z; parts; ar] => h_step Z.eqb zd share h (HConcat (to_nats parts) (to_bool ar))
  | _ => (h, None)
  end.

Fixpoint hsteps_wire (share : bool) (h : @heap Z) (ops : list sx) : list sx :=
  match ops with
  | [] => []
  | op :: t => let '(h', r) := hstep_wire share h op in L [of_ids r; all_objs h'] :: hsteps_wire share h' t
  end.

(* (share ops) -> after every operation: (raised? / returned object ids, the value of EVERY container object) *)
Definition wire_114 (x : sx) : sx :=
  match x with
  | L [sh; L ops] => L (hsteps_wire (to_bool sh) (empty_heap) ops)
  | _ => sx_err
  end.

(* ---------- the single-container wire with the checked add: like wire_112, operations 2 (add; the event is a Python
   integer, also negative) and 4 (add_unmatched) go through add_chk ---------- *)
Definition stepy (c : cdZ) (op : sx) : option cdZ * sx :=
  match op with
  | L [I 2%Z; I e; v] =>
      match add_chk Z.eqb c e (to_optZ v) with
      | Some c' => (Some c', L [I 2%Z; of_cd c'; of_Zs (spec_add (expand zd c) (ev c) (Z.to_nat e) (to_optZ v))])
      | None => (None, L [I (-1)%Z])
      end
  | L [I 4%Z; segs; d] =>
      let c' := add_unmatched_chk Z.eqb c (to_nats segs) (to_nat d) in (Some c', L [I 4%Z; of_cd c'; of_Zs (expand zd c)])
  | _ => stepx c op
  end.
Fixpoint stepsy (c : cdZ) (ops : list sx) : list sx :=
  match ops with
  | [] => []
  | op :: t => match stepy c op with
               | (Some c', o) => o :: stepsy c' t
               | (None, o) => [o]
               end
  end.
Definition wire_115 (x : sx) : sx :=
  match x with
  | L [vs; es; L ops] =>
      let c := make Z.eqb (to_Zs vs) (to_nats es) in
      L (of_cd c :: stepsy c ops)
  | _ => sx_err
  end.
