(* C19, data clause: timestamps / vis / flags / weights of a concatenated data set.

   ConcatenatedDataSet.vis (etc.) = ConcatenatedLazyIndexer([d.vis for d in datasets]) (model: Model/ConcatIdx.v,
   C05), where every part's indexer carries the selection in force as its first stage: the part's slice of the
   global time mask and the common frequency / correlation-product masks (ConcatenatedDataSet._set_keep).
   SPEC: the stored arrays of the parts glued along time, the selection of the WHOLE applied to it (global time
   mask = the parts' masks glued), then the user's index.  Definitions only. *)
From Coq Require Import ZArith List Bool.
From KV Require Import Base.Sx Base.PySlice Base.AxisIndex Base.NdArray Model.LazyIdx Model.ConcatIdx.
Import ListNotations.
Open Scope Z_scope.

Record dpart := mk_dpart { dp_T : Z; dp_tk : list bool; dp_ds : tree }.

Definition raw_of (tail : list Z) (tailkeep : list (list bool)) (dt : Z) (p : dpart) : craw :=
  mk_craw (dp_T p :: tail) (AMask (dp_tk p) :: map AMask tailkeep) (dp_ds p) dt.

(* d.vis[ix] on the concatenated data set *)
Definition ds_getitem (tail : list Z) (tailkeep : list (list bool)) (dt : Z) (parts : list dpart) (ix : list aidx) : res arr :=
  c <- c_mk (map (raw_of tail tailkeep dt) parts) [] ;; c_getitem c ix.

(* the stored arrays glued along the first axis *)
Definition whole (tail : list Z) (parts : list dpart) : nd :=
  mk_nd (zsum (map dp_T parts) :: tail) (cat (map dp_ds parts)).
Definition spec_ds (tail : list Z) (tailkeep : list (list bool)) (dt : Z) (parts : list dpart) (ix : list aidx) : res arr :=
  a <- oindex_keep (whole tail parts) (AMask (List.concat (map dp_tk parts)) :: map AMask tailkeep) ;;
  r <- oindex a ix ;; Ok (mk_arr dt r).

Definition to_dpart (tail : list Z) (x : sx) : dpart :=
  match x with
  | L [I t; tk; I base] => mk_dpart t (to_bools tk) (arange (t :: tail) base)
  | _ => mk_dpart 0 [] (Node [])
  end.

(* (tail tailkeep dt parts ix) -> (model spec) ; part = (T time-mask label-base) *)
Definition wire_192 (x : sx) : sx :=
  match x with
  | L [tail; tailkeep; I dt; parts; ix] =>
      let tail := to_Zs tail in let tk := map to_bools (to_list tailkeep) in
      let ps := map (to_dpart tail) (to_list parts) in let ix := map to_aidx (to_list ix) in
      L [of_arr (ds_getitem tail tk dt ps ix); of_arr (spec_ds tail tk dt ps ix)]
  | _ => sx_err
  end.
