(* C19, data clause: timestamps / vis / flags / weights of a concatenated data set.

   ConcatenatedDataSet.vis (etc.) = ConcatenatedLazyIndexer([d.vis for d in datasets]) (model: Model/ConcatIdx.v,
   C05), where every part's indexer carries the selection in force as its first stage: the part's slice of the
   global time mask and the common frequency / correlation-product masks (ConcatenatedDataSet._set_keep).
   SPEC: the stored arrays of the parts glued along time, the selection of the WHOLE applied to it (global time
   mask = the parts' masks glued), then the user's index.  Definitions only. *)
From Coq Require Import ZArith List Bool.
From KV Require Import Base.Sx Base.PySlice Base.AxisIndex Base.NdArray Model.LazyIdx Model.ConcatIdx.
Import ListNotations.
Open Scope Z_scope.

Record dpart := mk_dpart { dp_T : Z; dp_tk : list bool; dp_ds : tree }.

Definition raw_of (tail : list Z) (tailkeep : list (list bool)) (dt : Z) (p : dpart) : craw :=
  mk_craw (dp_T p :: tail) (AMask (dp_tk p) :: map AMask tailkeep) (dp_ds p) dt.

(* d.vis[ix] on the concatenated data set *)
Definition ds_getitem (tail : list Z) (tailkeep : list (list bool)) (dt : Z) (parts : list dpart) (ix : list aidx) : res arr :=
  c <- c_mk (map (raw_of tail tailkeep dt) parts) [] ;; c_getitem c ix.

(* the stored arrays glued along the first axis *)
Definition whole (tail : list Z) (parts : list dpart) : nd :=
  mk_nd (zsum (map dp_T parts) :: tail) (cat (map dp_ds parts)).
Definition spec_ds (tail : list Z) (tailkeep : list (list bool)) (dt : Z) (parts : list dpart) (ix : list aidx) : res arr :=
  a <- oindex_keep (whole tail parts) (AMask (List.concat (map dp_tk parts)) :: map AMask tailkeep) ;;
  r <- oindex a ix ;; Ok (mk_arr dt r).

(* ---------- parts of ANOTHER SIZE (a spectral window with another number of channels, a subarray with another
   number of correlation products).  ConcatenatedDataSet._set_keep hands EVERY part the channel / product masks of the
   selected window / subarray ([tail], [tailkeep]); select() has deselected every dump of the parts of other windows /
   subarrays.  [sp_tail] = the part's own (channels, products).
     * h5 parts (LazyIndexer; [strict] = false): a mask of another size is not looked at until rows are read; the part
       reports shape[0] = 0 and ConcatenatedLazyIndexer leaves it out (`if indexer.shape[0]`) - reading rows of such a
       part fails;
     * v4 parts (DaskLazyIndexer; [strict] = true): `indexer.shape` applies the masks to the dask array at once:
       IndexError("Boolean array with size .. is not long enough for axis ..") - finding C19-F5. *)
Record spart := mk_spart { sp_tail : list Z; sp_part : dpart }.
Definition zs_eqb (a b : list Z) : bool := (Nat.eqb (List.length a) (List.length b)) && forallb (fun p => fst p =? snd p) (combine a b).
Definition fits (tail : list Z) (p : spart) : bool := zs_eqb (sp_tail p) tail.
Definition has_dump (p : spart) : bool := existsb (fun b => b) (dp_tk (sp_part p)).
Definition ds_getitem_sized (strict : bool) (tail : list Z) (tailkeep : list (list bool)) (dt : Z) (parts : list spart)
                            (ix : list aidx) : res arr :=
  if strict && negb (forallb (fits tail) parts) then Err
  else if existsb (fun p => negb (fits tail p) && has_dump p) parts then Err
  else ds_getitem tail tailkeep dt (map sp_part (filter (fits tail) parts)) ix.
(* the property: the parts of the selected window / subarray glued (the others have no selected dump) *)
Definition spec_ds_sized (tail : list Z) (tailkeep : list (list bool)) (dt : Z) (parts : list spart) (ix : list aidx) : res arr :=
  spec_ds tail tailkeep dt (map sp_part (filter (fits tail) parts)) ix.

Definition to_dpart (tail : list Z) (x : sx) : dpart :=
  match x with
  | L [I t; tk; I base] => mk_dpart t (to_bools tk) (arange (t :: tail) base)
  | _ => mk_dpart 0 [] (Node [])
  end.

(* (tail tailkeep dt parts ix) -> (model spec) ; part = (T time-mask label-base) *)
Definition wire_192 (x : sx) : sx :=
  match x with
  | L [tail; tailkeep; I dt; parts; ix] =>
      let tail := to_Zs tail in let tk := map to_bools (to_list tailkeep) in
      let ps := map (to_dpart tail) (to_list parts) in let ix := map to_aidx (to_list ix) in
      L [of_arr (ds_getitem tail tk dt ps ix); of_arr (spec_ds tail tk dt ps ix)]
  | _ => sx_err
  end.

(* (strict tail tailkeep dt parts ix) -> (model spec) ; part = (own-tail T time-mask label-base) *)
Definition to_spart (x : sx) : spart :=
  match x with
  | L [own; I t; tk; I base] => mk_spart (to_Zs own) (mk_dpart t (to_bools tk) (arange (t :: to_Zs own) base))
  | _ => mk_spart [] (mk_dpart 0 [] (Node []))
  end.
Definition wire_196 (x : sx) : sx :=
  match x with
  | L [strict; tail; tailkeep; I dt; parts; ix] =>
      let tail := to_Zs tail in let tk := map to_bools (to_list tailkeep) in
      let ps := map to_spart (to_list parts) in let ix := map to_aidx (to_list ix) in
      L [of_arr (ds_getitem_sized (to_bool strict) tail tk dt ps ix); of_arr (spec_ds_sized tail tk dt ps ix)]
  | _ => sx_err
  end.
