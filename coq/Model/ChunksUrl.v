(* C07: WHERE a chunk ends up on the S3 back-end.  S3ChunkStore.make_url(relative_path) =
     _normalise_bucket_name(urllib.parse.urljoin(store URL, urllib.parse.quote(relative_path)))
   with relative_path = chunk name + ".npy" (get_chunk / put_chunk), "<array>/complete" (markers) or the array name
   (create_array).  Modelled on the PATH of the URL (scheme and authority are copied through by urljoin / geturl):
   quote (percent-encoding, default safe set), the path merge of urljoin (RFC 3986: last segment of the base dropped,
   interior empty segments filtered, dot segments resolved), _normalise_bucket_name (Model/Chunks.v: normalise_path) and
   what the endpoint makes of it (unquote).  Two URL modes: the store URL is the bare endpoint and the bucket is the first
   component of the array name, or the store URL already contains the bucket ("relative to an existing bucket").
   SPEC: the documented object = store directory prefix + the name, VERBATIM, underscores -> dashes in the first component
   (the bucket) only.  A store of several arrays keyed by that object path.  Strings = lists of character codes.
   Definitions only. *)
From Coq Require Import ZArith List Bool.
From KV Require Import Base.Sx Gen.Generated Model.Chunks.
Import ListNotations.
Open Scope Z_scope.

(* str.split(c): always at least one field *)
Fixpoint split_c (c : Z) (s : str) : list str :=
  match s with
  | [] => [[]]
  | x :: t => if x =? c then [] :: split_c c t
              else match split_c c t with h :: r => (x :: h) :: r | [] => [[x]] end
  end.

Definition str_eqb (a b : str) : bool := if str_eq_dec a b then true else false.
Definition nonempty (s : str) : bool := match s with [] => false | _ => true end.
Definition is_dot (s : str) : bool := str_eqb s [46].
Definition is_dotdot (s : str) : bool := str_eqb s [46; 46].

(* ------------------------------------------------------------------------------------------------ *)
(* urllib.parse.quote(s) with the default safe='/' on ASCII text, and urllib.parse.unquote            *)

Definition is_alnum (c : Z) : bool :=
  ((48 <=? c) && (c <=? 57)) || ((65 <=? c) && (c <=? 90)) || ((97 <=? c) && (c <=? 122)).
(* _ALWAYS_SAFE = letters, digits, "_.-~"; plus safe='/' *)
Definition quote_safe (c : Z) : bool :=
  is_alnum c || (c =? 95) || (c =? 46) || (c =? 45) || (c =? 126) || (c =? 47).
Definition hexd (n : Z) : Z := if n <? 10 then 48 + n else 55 + n.
Definition quote_c (c : Z) : str := if quote_safe c then [c] else [37; hexd (c / 16); hexd (c mod 16)].
Definition quote (s : str) : str := flat_map quote_c s.

Definition unhex (c : Z) : option Z :=
  if (48 <=? c) && (c <=? 57) then Some (c - 48)
  else if (65 <=? c) && (c <=? 70) then Some (c - 55)
  else if (97 <=? c) && (c <=? 102) then Some (c - 87) else None.
Fixpoint unquote (s : str) : str :=
  match s with
  | [] => []
  | c :: t =>
      if c =? 37 then
        match t with
        | a :: b :: t' => match unhex a, unhex b with
                          | Some x, Some y => (16 * x + y) :: unquote t'
                          | _, _ => c :: unquote t
                          end
        | _ => c :: unquote t
        end
      else c :: unquote t
  end.

(* ------------------------------------------------------------------------------------------------ *)
(* urllib.parse.urljoin on the paths (base path bp, relative reference q without scheme / authority / query)  *)

(* segments[1:-1] = filter(None, segments[1:-1]) : the first and the last segment stay, empty ones in between go *)
Fixpoint filter_init (l : list str) : list str :=
  match l with
  | [] => []
  | x :: t => match t with
              | [] => [x]
              | _ => if nonempty x then x :: filter_init t else filter_init t
              end
  end.
Definition filter_interior (l : list str) : list str :=
  match l with [] => [] | h :: t => h :: filter_init t end.

Definition resolve_step (acc : list str) (seg : str) : list str :=
  if is_dotdot seg then removelast acc else if is_dot seg then acc else acc ++ [seg].
Definition resolve (l : list str) : list str := fold_left resolve_step l [].

(* base_parts = bpath.split('/'); if base_parts[-1] != '': del base_parts[-1] *)
Definition base_parts (bp : str) : list str :=
  let b := split_c 47 bp in if nonempty (last b []) then removelast b else b.

Definition urljoin_path (bp q : str) : str :=
  match q with
  | [] => bp
  | c0 :: _ =>
      let segs := if c0 =? 47 then split_c 47 q else filter_interior (base_parts bp ++ split_c 47 q) in
      let r := resolve segs in
      let r := if is_dot (last segs []) || is_dotdot (last segs []) then r ++ [[]] else r in
      match join 47 r with [] => [47] | p => p end
  end.

(* S3ChunkStore.make_url on paths, and the path the endpoint sees *)
Definition make_url_path (bp rel : str) : str := normalise_path (urljoin_path bp (quote rel)).
Definition object_path (bp rel : str) : str := unquote (make_url_path bp rel).

(* ------------------------------------------------------------------------------------------------ *)
(* SPEC: the documented object                                                                        *)

Definition dash (b : str) : str := replace_c cs_bucket_from cs_bucket_to b.
(* the directories of the store URL the names are relative to ("http://host/bucket/pre/" -> bucket, pre) *)
Definition store_prefix (bp : str) : list str := filter nonempty (base_parts bp).

(* bucket in the URL: "/<bucket>/<rest of the prefix>/<name>"; bare endpoint: "/<first component of the name>/<rest>";
   the name verbatim, dashes for underscores in the bucket only *)
Definition spec_object_path (bp rel : str) : str :=
  match store_prefix bp with
  | [] => let '(b, r) := split1 47 rel in 47 :: dash b ++ match r with Some k => 47 :: k | None => [] end
  | p0 :: ps => 47 :: dash p0 ++ 47 :: join 47 (ps ++ [rel])
  end.

(* well-formed names: every '/'-separated component non-empty and neither "." nor ".." (ASCII text);
   well-formed store paths: empty or absolute, no dot segments, only characters that need no quoting *)
Definition ascii (s : str) : bool := forallb (fun c => (0 <=? c) && (c <? 128)) s.
Definition plain (s : str) : bool := forallb quote_safe s.
Definition seg_ok (s : str) : bool := nonempty s && negb (is_dot s) && negb (is_dotdot s).
Definition wf_name (rel : str) : bool := ascii rel && forallb seg_ok (split_c 47 rel).
Definition wf_store (bp : str) : bool :=
  plain bp && match bp with [] => true | c :: _ => c =? 47 end
  && forallb (fun s => negb (is_dot s) && negb (is_dotdot s)) (split_c 47 bp).

(* relative names handed to make_url *)
Definition chunk_rel (arr : str) (starts : list Z) : str := chunk_key (chunk_name arr starts).
Definition marker_rel (arr : str) : str := marker_key arr.
Definition name_bucket (rel : str) : str := fst (split1 47 rel).

(* ------------------------------------------------------------------------------------------------ *)
(* several arrays in one store: objects keyed by kf(relative name); kf = identity for the NPY / Dict view,
   kf = object_path bp for S3.  A chunk object carries the identity v of the put that wrote it. *)

Inductive uop := UPut (arr : str) (starts : list Z) (v : Z) | UGet (arr : str) (starts : list Z)
               | UMark (arr : str) | UIsComplete (arr : str).
Definition ustore := store Z.

Definition ustep (kf : str -> str) (st : ustore) (op : uop) : ustore :=
  match op with
  | UPut arr starts v => upd (kf (chunk_rel arr starts)) (OChunk 0 [] [v]) st
  | UMark arr => upd (kf (marker_rel arr)) OMarker st
  | _ => st
  end.
Definition urun (kf : str -> str) (ops : list uop) (st : ustore) : ustore := fold_left (ustep kf) ops st.

(* answers: get -> identity of the put found (>= 0) | -1 not found | -2 an object that is no chunk;
   is_complete -> 1 | 0 (any object under the marker key counts, as for the S3 GET) *)
Definition uget (kf : str -> str) (st : ustore) (arr : str) (starts : list Z) : Z :=
  match lookup (kf (chunk_rel arr starts)) st with
  | Some (OChunk _ _ (v :: _)) => v
  | Some _ => -2
  | None => -1
  end.
Definition uis_complete (kf : str -> str) (st : ustore) (arr : str) : bool :=
  match lookup (kf (marker_rel arr)) st with Some _ => true | None => false end.

Fixpoint uanswers (kf : str -> str) (ops : list uop) (st : ustore) : list Z :=
  match ops with
  | [] => []
  | op :: t =>
      let a := match op with
               | UGet arr starts => uget kf st arr starts
               | UIsComplete arr => if uis_complete kf st arr then 1 else 0
               | _ => 0
               end in
      a :: uanswers kf t (ustep kf st op)
  end.

(* SPEC of a history: the last put addressed to the same (array name, start tuple); markers by array name *)
Fixpoint ulast_put (ops : list uop) (arr : str) (starts : list Z) (acc : Z) : Z :=
  match ops with
  | [] => acc
  | UPut a s v :: t => ulast_put t arr starts (if str_eq_dec a arr then if zs_eq_dec s starts then v else acc else acc)
  | _ :: t => ulast_put t arr starts acc
  end.
Fixpoint uwas_marked (ops : list uop) (arr : str) (acc : bool) : bool :=
  match ops with
  | [] => acc
  | UMark a :: t => uwas_marked t arr (if str_eq_dec a arr then true else acc)
  | _ :: t => uwas_marked t arr acc
  end.
Fixpoint spec_answers (ops : list uop) (done : list uop) : list Z :=
  match ops with
  | [] => []
  | op :: t =>
      let a := match op with
               | UGet arr starts => ulast_put done arr starts (-1)
               | UIsComplete arr => if uwas_marked done arr false then 1 else 0
               | _ => 0
               end in
      a :: spec_answers t (done ++ [op])
  end.

Definition op_rel (op : uop) : str :=
  match op with
  | UPut a s _ | UGet a s => chunk_rel a s
  | UMark a | UIsComplete a => marker_rel a
  end.
Definition op_arr (op : uop) : str :=
  match op with UPut a _ _ | UGet a _ | UMark a | UIsComplete a => a end.

(* ------------------------------------------------------------------------------------------------ *)
(* wire                                                                                                *)

Definition to_uop (x : sx) : option uop :=
  match x with
  | L [I 0; a; s; I v] => Some (UPut (to_Zs a) (to_Zs s) v)
  | L [I 1; a; s] => Some (UGet (to_Zs a) (to_Zs s))
  | L [I 2; a] => Some (UMark (to_Zs a))
  | L [I 3; a] => Some (UIsComplete (to_Zs a))
  | _ => None
  end.
Fixpoint to_uops (l : list sx) : option (list uop) :=
  match l with
  | [] => Some []
  | x :: t => match to_uop x, to_uops t with Some o, Some r => Some (o :: r) | _, _ => None end
  end.

(* a relative reference starting with "//" names another authority: outside the path model *)
Definition rel_in_model (rel : str) : bool :=
  ascii rel && match rel with 47 :: 47 :: _ => false | _ => true end.

(* (1 bp rels)        -> per rel: (url_path object_path spec_path wf_name) ; wf_store ; store_prefix
   (2 mode bp ops)    -> (answers  spec_answers  final_keys  all_names_in_model  all_arrays_wf)
                         mode 0: keys verbatim (NPY / Dict view), mode 1: S3 object paths for the store path bp *)
Definition wire_74 (x : sx) : sx :=
  match x with
  | L [I 1; bp; rels] =>
      let bp := to_Zs bp in
      L [L (map (fun r => let r := to_Zs r in
                          if rel_in_model r then
                            L [of_str (make_url_path bp r); of_str (object_path bp r); of_str (spec_object_path bp r);
                               of_bool (wf_name r)]
                          else sx_err) (to_list rels));
         of_bool (wf_store bp); L (map of_str (store_prefix bp))]
  | L [I 2; I mode; bp; ops] =>
      match to_uops (to_list ops) with
      | None => sx_err
      | Some ops =>
          let bp := to_Zs bp in
          let kf := if mode =? 0 then (fun r => r) else object_path bp in
          L [of_Zs (uanswers kf ops []); of_Zs (spec_answers ops []);
             L (map (fun kv => of_str (fst kv)) (urun kf ops []));
             of_bool (forallb (fun o => rel_in_model (op_rel o)) ops);
             of_bool (forallb (fun o => wf_name (op_arr o)) ops)]
      end
  | _ => sx_err
  end.
