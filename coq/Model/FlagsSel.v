(* C16 (selection plumbing): how a flags= / weights= argument of select() reaches the mask of a data set and the
   masks of the MEMBERS of a concatenated data set, for any history of select() calls.

   Model of
   * dataset.py DataSet.select: keyword arguments merged into self._selection (flags / weights are never removed
     from it), the loop over self._selection assigning self._flags_keep / self._weights_keep, and the final
     self._set_keep(T, F, B, self._weights_keep, self._flags_keep) -- which READS the two properties back;
   * dataset.py DataSet._set_keep: the two guarded assignments (the guards are regenerated from the source:
     Gen/Generated.v ds_set_keep_guards);
   * the _flags_keep property of VisibilityDataV4 / H5DataV3 / H5DataV2: setter (Model/Flags.v selection_bits +
     packbits, flipped or not as regenerated: flag_setter_flip) and GETTER (unpackbits, names of the set bits);
     the _weights_keep property of the two HDF5 formats (index list into WEIGHT_NAMES, regenerated: ds_weight_names);
   * concatdata.py ConcatenatedDataSet: _flags_keep / _weights_keep are plain attributes holding the user's value,
     _set_keep = DataSet._set_keep + one d._set_keep(weights_keep=..., flags_keep=...) per member (which keyword gets
     which value is regenerated: concat_member_keep_args), __init__ ends with self.select(spw=0, subarray=0), and
     flags / weights are the members' own indexers glued (concat_data_from_members). *)
From Coq Require Import ZArith List Bool String.
From KV Require Import Base.Sx Base.Str Gen.Generated Model.Flags Model.FlagsV4.
Import ListNotations.
Open Scope Z_scope.
Open Scope string_scope.

(* ---------- formats ---------- *)
Inductive fmt := FV4 | FV3 | FV2.
Definition fmt_key (f : fmt) : string := match f with FV4 => "v4" | FV3 => "v3" | FV2 => "v2" end%string.

Definition lookup {A : Type} (k : string) (l : list (string * A)) (d : A) : A :=
  match find (fun p => String.eqb (fst p) k) l with Some p => snd p | None => d end.

(* ---------- what the translator read (collected so that the step functions can also be run on variants) ---------- *)
Record plumbing := mk_plumbing {
  g_flags : string;      (* guard of `self._flags_keep = flags_keep` in DataSet._set_keep: "is_not_none" | "truthy" *)
  g_weights : string;
  a_flags : string;      (* value of the keyword flags_keep= handed to every member by ConcatenatedDataSet._set_keep *)
  a_weights : string
}.
Definition cur_plumbing : plumbing :=
  mk_plumbing (lookup "flags" ds_set_keep_guards "") (lookup "weights" ds_set_keep_guards "")
              (lookup "flags_keep" concat_member_keep_args "") (lookup "weights_keep" concat_member_keep_args "").

(* Python truth value of a selection argument *)
Definition truthy (a : selarg) : bool :=
  match a with SelStr s => negb (String.eqb s "") | SelList l => match l with [] => false | _ => true end end.

Definition guard_ok (g : string) (v : option selarg) : bool :=
  match v with
  | None => false
  | Some a => if String.eqb g "is_not_none" then true else if String.eqb g "truthy" then truthy a else false
  end.

(* ---------- the _flags_keep property ---------- *)
Definition setter_flip (f : fmt) : bool := fst (lookup (fmt_key f) flag_setter_flip (false, false)).
Definition getter_flip (f : fmt) : bool := snd (lookup (fmt_key f) flag_setter_flip (false, false)).

(* setter: packbits(flipud(selection)) or packbits(selection) *)
Definition mk_mask (known : list string) (f : fmt) (a : selarg) : Z :=
  let bits := selection_bits known (selection_to_list a known) in
  packbits (if setter_flip f then rev bits else bits).

(* np.unpackbits of one byte: MSB first *)
Fixpoint unpack_aux (n : nat) (m : Z) (acc : list bool) : list bool :=
  match n with O => acc | S k => unpack_aux k (m / 2) (Z.odd m :: acc) end.
Definition unpackbits (m : Z) : list bool := unpack_aux 8 m [].

Fixpoint names_where (known : list string) (bits : list bool) : list string :=
  match known, bits with
  | n :: t, b :: u => if b then n :: names_where t u else names_where t u
  | _, _ => []
  end.
(* getter: [name for name, bit in zip(known, flipud(unpackbits(mask)) | unpackbits(mask)) if bit] *)
Definition keep_names (known : list string) (f : fmt) (m : Z) : list string :=
  names_where known (if getter_flip f then rev (unpackbits m) else unpackbits m).

(* ---------- the _weights_keep property (HDF5 formats; a plain attribute without effect for v4) ---------- *)
Definition known_weights (f : fmt) : list string := lookup (fmt_key f) ds_weight_names [].
Fixpoint weights_select (known names : list string) : list nat :=
  match names with
  | [] => []
  | n :: t => match index_of n known with
              | Some i => i :: weights_select known t
              | None => weights_select known t
              end
  end.
Definition mk_wts (f : fmt) (a : selarg) : list nat :=
  weights_select (known_weights f) (selection_to_list a (known_weights f)).
Definition weight_names (f : fmt) (w : list nat) : list string :=
  map (fun i => nth i (known_weights f) ""%string) w.

(* ---------- one plain data set (v4 / v3 / v2) ---------- *)
Record pds := mk_pds {
  p_fmt : fmt;
  p_fsel : option selarg;    (* self._selection.get('flags') *)
  p_wsel : option selarg;    (* self._selection.get('weights') *)
  p_mask : Z;                (* self._flags_select *)
  p_wts : list nat           (* self._weights_select *)
}.

(* DataSet._set_keep(weights_keep=wk, flags_keep=fk) as seen by the two properties *)
Definition pds_set_keep (pl : plumbing) (known : list string) (p : pds) (wk fk : option selarg) : pds :=
  mk_pds (p_fmt p) (p_fsel p) (p_wsel p)
         (match fk with
          | Some a => if guard_ok (g_flags pl) fk then mk_mask known (p_fmt p) a else p_mask p
          | None => p_mask p
          end)
         (match wk with
          | Some a => if guard_ok (g_weights pl) wk then mk_wts (p_fmt p) a else p_wts p
          | None => p_wts p
          end).

Definition or_else {A : Type} (x y : option A) : option A := match x with Some _ => x | None => y end.

(* d.select(..., flags=kf, weights=kw, ...) ; None = keyword absent (any other keywords or none at all) *)
Definition pds_select (pl : plumbing) (known : list string) (p : pds) (kf kw : option selarg) : pds :=
  let fsel := or_else kf (p_fsel p) in                                 (* self._selection.update(kwargs) *)
  let wsel := or_else kw (p_wsel p) in
  (* for k, v in self._selection.items(): ... self._flags_keep = v / self._weights_keep = v  (the setters) *)
  let m1 := match fsel with Some a => mk_mask known (p_fmt p) a | None => p_mask p end in
  let w1 := match wsel with Some a => mk_wts (p_fmt p) a | None => p_wts p end in
  (* self._set_keep(T, F, B, self._weights_keep, self._flags_keep): the getters, then the guarded setters again *)
  pds_set_keep pl known (mk_pds (p_fmt p) fsel wsel m1 w1)
               (Some (SelList (weight_names (p_fmt p) w1)))
               (Some (SelList (keep_names known (p_fmt p) m1))).

(* state after construction: _flags_keep = _weights_keep = 'all', nothing in _selection *)
Definition pds_init (known : list string) (f : fmt) : pds :=
  mk_pds f None None (mk_mask known f (SelStr (lookup "_flags_keep" ds_init_keeps "")))
         (mk_wts f (SelStr (lookup "_weights_keep" ds_init_keeps ""))).

Definition kwpair := (option selarg * option selarg)%type.      (* (flags=, weights=) of one call *)
Definition pds_run (pl : plumbing) (known : list string) (p : pds) (h : list kwpair) : pds :=
  fold_left (fun q st => pds_select pl known q (fst st) (snd st)) h p.

(* ---------- a concatenated data set ---------- *)
Record cds := mk_cds {
  c_fsel : option selarg; c_wsel : option selarg;    (* its own self._selection *)
  c_fkeep : selarg; c_wkeep : selarg;                (* plain attributes self._flags_keep / self._weights_keep *)
  c_members : list pds
}.

(* the value of keyword <kw> in `d._set_keep(...)`: the attribute of the whole, the parameter, or absent *)
Definition member_arg (spec kw : string) (attr : selarg) (param : option selarg) : option selarg :=
  if String.eqb spec ("self._" ++ kw) then Some attr
  else if String.eqb spec kw then param else None.

Definition cds_set_keep (pl : plumbing) (known : list string) (c : cds) (wk fk : option selarg) : cds :=
  (* super()._set_keep(time_keep, freq_keep, corrprod_keep, weights_keep, flags_keep) *)
  let fkeep := match fk with Some a => if guard_ok (g_flags pl) fk then a else c_fkeep c | None => c_fkeep c end in
  let wkeep := match wk with Some a => if guard_ok (g_weights pl) wk then a else c_wkeep c | None => c_wkeep c end in
  (* for n, d in enumerate(self.datasets): d._set_keep(..., weights_keep=..., flags_keep=...) *)
  let af := member_arg (a_flags pl) "flags_keep" fkeep fk in
  let aw := member_arg (a_weights pl) "weights_keep" wkeep wk in
  mk_cds (c_fsel c) (c_wsel c) fkeep wkeep (map (fun d => pds_set_keep pl known d aw af) (c_members c)).

Definition cds_select (pl : plumbing) (known : list string) (c : cds) (kf kw : option selarg) : cds :=
  let fsel := or_else kf (c_fsel c) in
  let wsel := or_else kw (c_wsel c) in
  let fk1 := match fsel with Some a => a | None => c_fkeep c end in       (* plain attribute assignment *)
  let wk1 := match wsel with Some a => a | None => c_wkeep c end in
  cds_set_keep pl known (mk_cds fsel wsel fk1 wk1 (c_members c)) (Some wk1) (Some fk1).

(* ConcatenatedDataSet(datasets): DataSet.__init__ defaults, then self.select(spw=0, subarray=0) *)
Definition cds_open (pl : plumbing) (known : list string) (members : list pds) : cds :=
  cds_select pl known
             (mk_cds None None (SelStr (lookup "_flags_keep" ds_init_keeps "")) (SelStr (lookup "_weights_keep" ds_init_keeps ""))
                     members) None None.

(* a call on the whole, or directly on member n (c.datasets[n].select(...)) *)
Inductive step := Whole (kf kw : option selarg) | Member (n : nat) (kf kw : option selarg).

Fixpoint update_nth {A : Type} (l : list A) (n : nat) (f : A -> A) : list A :=
  match l, n with
  | [], _ => []
  | x :: t, O => f x :: t
  | x :: t, S k => x :: update_nth t k f
  end.

Definition cds_step (pl : plumbing) (known : list string) (c : cds) (st : step) : cds :=
  match st with
  | Whole kf kw => cds_select pl known c kf kw
  | Member n kf kw =>
      mk_cds (c_fsel c) (c_wsel c) (c_fkeep c) (c_wkeep c)
             (update_nth (c_members c) n (fun d => pds_select pl known d kf kw))
  end.
Definition cds_run (pl : plumbing) (known : list string) (c : cds) (h : list step) : cds :=
  fold_left (cds_step pl known) h c.

(* what a sample of a member shows through the (glued) flags / weights indexers *)
Definition member_flag (d : pds) (raw : Z) : bool :=
  match p_fmt d with
  | FV4 => v4_flag raw (p_mask d)
  | _ => flag_bool raw (p_mask d)           (* np.bool_(np.bitwise_and(mask, stored)) *)
  end.
(* (w, e) stands for w * 2^e ; HDF5 formats: all ones when no weight is selected *)
Definition member_weight (d : pds) (w : Z * Z) : Z * Z :=
  match p_fmt d with
  | FV4 => w
  | _ => match p_wts d with [] => (1, 0) | _ => w end
  end.

(* ---------- SPEC ---------- *)
(* the names currently selected on the whole: the last flags= / weights= argument of a call ON THE WHOLE *)
Fixpoint last_whole_f (h : list step) (cur : selarg) : selarg :=
  match h with
  | [] => cur
  | Whole (Some a) _ :: t => last_whole_f t a
  | _ :: t => last_whole_f t cur
  end.
Fixpoint last_whole_w (h : list step) (cur : selarg) : selarg :=
  match h with
  | [] => cur
  | Whole _ (Some a) :: t => last_whole_w t a
  | _ :: t => last_whole_w t cur
  end.
(* nothing was done behind the back of the whole since its last call *)
Definition ends_whole (h : list step) : bool :=
  match rev h with [] => true | Whole _ _ :: _ => true | Member _ _ _ :: _ => false end.

Definition spec_fmt_mask (f : fmt) (a : selarg) : Z :=
  match f with FV2 => spec_mask_v2 (spec_wanted a) | _ => spec_mask_v34 (spec_wanted a) end.
Definition doc_weights : list string := ["precision"]%string.
Definition spec_weights_on (a : selarg) : bool :=
  existsb (fun n => mem_string n doc_weights) (selection_to_list a doc_weights).

(* ---------- wire ---------- *)
Definition to_fmt (x : sx) : fmt := match x with I 2 => FV2 | I 3 => FV3 | _ => FV4 end.
Definition to_optsel (x : sx) : option selarg := match x with L [a] => Some (to_selarg a) | _ => None end.
Definition to_kwpair (x : sx) : kwpair :=
  match x with L [f; w] => (to_optsel f, to_optsel w) | _ => (None, None) end.
Definition to_cstep (x : sx) : step :=
  match x with
  | L [I 0; f; w] => Whole (to_optsel f) (to_optsel w)
  | L [I 1; I n; f; w] => Member (Z.to_nat n) (to_optsel f) (to_optsel w)
  | _ => Whole None None
  end.
Definition to_member (x : sx) : pds :=
  match x with
  | L [f; L pre] => pds_run cur_plumbing flag_names (pds_init flag_names (to_fmt f)) (map to_kwpair pre)
  | _ => pds_init flag_names FV4
  end.
Definition of_member (h : list step) (d : pds) : sx :=
  L [I (p_mask d); of_nats (p_wts d);
     I (spec_fmt_mask (p_fmt d) (last_whole_f h (SelStr "all")));
     of_bool (spec_weights_on (last_whole_w h (SelStr "all")))].

Fixpoint prefixes {A : Type} (l : list A) : list (list A) :=
  match l with [] => [[]] | x :: t => [] :: map (cons x) (prefixes t) end.

(* (1 fmt hist)            -> ((mask wts spec_mask spec_weights_on) after every prefix of hist, the empty one first)
                              hist = ((f w) ...), f / w = () | (selarg)     -- ONE plain data set
   (2 members hist)        -> for every prefix of hist (the empty one = just concatenated first):
                              (ends_whole ((mask wts spec_mask spec_weights_on) per member))
                              members = ((fmt prehist) ...), hist = ((0 f w) | (1 n f w) ...) *)
Definition wire_162 (x : sx) : sx :=
  match x with
  | L [I 1; f; L hist] =>
      let h := map to_kwpair hist in
      L (map (fun pre =>
                let d := pds_run cur_plumbing flag_names (pds_init flag_names (to_fmt f)) pre in
                L [I (p_mask d); of_nats (p_wts d);
                   I (spec_fmt_mask (p_fmt d) (last_sel (map fst pre) (SelStr "all")));
                   of_bool (spec_weights_on (last_sel (map snd pre) (SelStr "all")))])
             (prefixes h))
  | L [I 2; L members; L hist] =>
      let ms := map to_member members in
      let h := map to_cstep hist in
      L (map (fun pre =>
                let c := cds_run cur_plumbing flag_names (cds_open cur_plumbing flag_names ms) pre in
                L [of_bool (ends_whole pre); L (map (of_member pre) (c_members c))])
             (prefixes h))
  | _ => sx_err
  end.
