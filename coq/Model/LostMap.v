(* C06: model of katdal/vis_flags_weights.py:ChunkStoreVisFlagsWeights.__init__ (lost map, _apply_data_lost,
   _default_zero, weights = weights * weights_channel[..., newaxis]), of dask.array.rechunk.intersect_chunks
   as used there, of datasources.py:_align_chunk_info, and the property's spec.

   Arrays are numbered 0 = correlator_data, 1 = flags, 2 = weights, 3 = weights_channel.
   Stored data are functions from global coordinates (list Z) to Z; chunk identity is the tuple of the chunk's
   start coordinates in the stored array (this is what the chunk name is made of). *)
From Coq Require Import ZArith List Bool String.
From KV Require Import Base.Sx Model.Prune.
From KV Require Gen.Generated Model.Flags.
Import ListNotations.
Open Scope Z_scope.

Definition DATA_LOST : Z := Model.Flags.lookup_mask "data_lost"%string.

(* ------------------------------------------------------------------------------------------------ *)
(* dask.array.rechunk: _intersect_1d on the breakpoints of old and new, for positive chunk sizes.
   For every new chunk the list of (old chunk index, local start, local stop) it is assembled from.
   `take` walks the old chunks from (chunk i, local position s) to collect n elements (dask: the breakpoints
   between two consecutive 'n' labels); fuel bounds the number of old chunks visited. *)
Definition piece := (nat * Z * Z)%type.

Fixpoint take (fuel : nat) (old : list Z) (i : nat) (s n : Z) : list piece * (nat * Z) :=
  match fuel with
  | O => ([], (i, s))
  | S f =>
      let c := nth i old 0 in
      if n <? c - s then ([(i, s, s + n)], (i, s + n))
      else if n =? c - s then ([(i, s, c)], (S i, 0))
      else let '(ps, st) := take f old (S i) 0 (n - (c - s)) in ((i, s, c) :: ps, st)
  end.

Fixpoint inter (new old : list Z) (i : nat) (s : Z) : list (list piece) :=
  match new with
  | [] => []
  | n :: new' => let '(ps, (i', s')) := take (S (List.length old)) old i s n in ps :: inter new' old i' s'
  end.

Definition intersect_1d (old new : list Z) : list (list piece) := inter new old 0%nat 0.

(* itertools.product, first factor slowest (= C order) *)
Fixpoint product {A : Type} (ls : list (list A)) : list (list A) :=
  match ls with
  | [] => [[]]
  | l :: rest => flat_map (fun a => map (cons a) (product rest)) l
  end.

Definition old_to_new (old new : list (list Z)) : list (list (list piece)) :=
  map (fun on => intersect_1d (fst on) (snd on)) (combine old new).

(* for every N-d new chunk (C order): its N-d pieces, each a tuple over the axes of (old index, slice) *)
Definition intersect_chunks (old new : list (list Z)) : list (list (list piece)) :=
  map product (product (old_to_new old new)).

(* ------------------------------------------------------------------------------------------------ *)
(* store.get_dask_array(name, chunks, index=preselect_index, errors=...) *)
Definition pad_win (win : list (option (Z * Z))) (n : nat) : list (option (Z * Z)) :=
  firstn n (win ++ repeat None n).

Definition get_dask_array (cs : list (list Z)) (win : list (option (Z * Z))) : list axis :=
  map (fun cw => mk_axis (fst cw) (snd cw)) (combine cs (pad_win win (List.length cs))).

Definition chunks_of (d : list axis) : list (list Z) := map ax_sizes d.
Definition blk_ids (d : list axis) (J : list nat) : list Z :=
  map (fun aj => ax_id (fst aj) (snd aj)) (combine d J).
Definition blk_src (d : list axis) (Jq : list (nat * Z)) : list Z :=
  map (fun aj => ax_src (fst aj) (snd aj)) (combine d Jq).
Definition locs (chs : list (list Z)) (p : list Z) : list (nat * Z) :=
  map (fun cx => loc (fst cx) 0 (snd cx)) (combine chs p).

(* ------------------------------------------------------------------------------------------------ *)
(* the lost map *)
Definition entry := (nat * list nat * list piece)%type.   (* source array, source block index, N-d piece *)

Definition src_keys (d : list axis) : list (list nat) :=
  product (map (fun a => seq 0 (List.length (ax_blocks a))) d).

(* one pass of `for array_name, array in darray.items()` *)
Definition entries_of (fl : list axis) (name : nat) (d : list axis) : list entry :=
  let chunks := chunks_of d ++ map (fun a => [zsum (ax_sizes a)]) (skipn (List.length d) fl) in
  let intersections := intersect_chunks (chunks_of fl) chunks in
  flat_map (fun kp => map (fun pc => (name, fst kp, pc)) (snd kp)) (combine (src_keys d) intersections).

Definition all_entries (fl : list axis) (others : list (nat * list axis)) : list entry :=
  flat_map (fun nd => entries_of fl (fst nd) (snd nd)) others.

Definition dst_index (pc : list piece) : list nat := map (fun p => fst (fst p)) pc.

Fixpoint nats_eqb (a b : list nat) : bool :=
  match a, b with
  | [], [] => true
  | x :: a', y :: b' => Nat.eqb x y && nats_eqb a' b'
  | _, _ => false
  end.

(* lost_map[I] *)
Definition lost_map_at (ents : list entry) (I : list nat) : list entry :=
  filter (fun e => nats_eqb (dst_index (snd e)) I) ents.

Definition in_slice (p : piece) (x : Z) : bool := (snd (fst p) <=? x) && (x <? snd p).
Definition in_slices (pc : list piece) (q : list Z) : bool :=
  forallb (fun px => in_slice (fst px) (snd px)) (combine pc q).

(* _apply_data_lost, read at local position q of the flags chunk:
   for chunk, slices in partition(2, lost): if isinstance(chunk, PlaceholderChunk): flags[slices] |= DATA_LOST *)
Definition apply_data_lost (ph : nat -> list nat -> bool) (orig : Z) (lost : list entry) (q : list Z) : Z :=
  fold_left (fun f e => if ph (fst (fst e)) (snd (fst e)) && in_slices (snd e) q then Z.lor f DATA_LOST else f)
            lost orig.

(* ------------------------------------------------------------------------------------------------ *)
Record cfg := { c_chunks : list (list (list Z));        (* chunk specs after _align_chunk_info *)
                c_win : list (option (Z * Z));          (* preselect_index, normalised *)
                c_miss : nat -> list Z -> bool;         (* chunk absent from the store? (array, start coordinates) *)
                c_dat : nat -> list Z -> Z }.           (* stored values *)

Definition A_VIS := 0%nat.
Definition A_FLAGS := 1%nat.
Definition A_W := 2%nat.
Definition A_WC := 3%nat.

Definition arr_chunks (c : cfg) (a : nat) : list (list Z) := nth a (c_chunks c) [].
Definition darr (c : cfg) (a : nat) : list axis := get_dask_array (arr_chunks c a) (c_win c).
(* block J of darray[a] is a PlaceholderChunk (flags: a DATA_LOST-filled default chunk) *)
Definition placeholder (c : cfg) (a : nat) (J : list nat) : bool := c_miss c a (blk_ids (darr c a) J).

(* _default_zero over the placeholder array *)
Definition filled (c : cfg) (a : nat) (p : list Z) : Z :=
  let d := darr c a in
  let Jq := locs (chunks_of d) p in
  if placeholder c a (map fst Jq) then 0 else c_dat c a (blk_src d Jq).

Definition model_vis (c : cfg) (p : list Z) : Z := filled c A_VIS p.
Definition model_weights (c : cfg) (p : list Z) : Z :=
  filled c A_W p * filled c A_WC (firstn (List.length (arr_chunks c A_WC)) p).

Definition the_entries (c : cfg) : list entry :=
  all_entries (darr c A_FLAGS) [(A_VIS, darr c A_VIS); (A_W, darr c A_W); (A_WC, darr c A_WC)].

Definition model_flags_with (ents : list entry) (c : cfg) (p : list Z) : Z :=
  let fl := darr c A_FLAGS in
  let Iq := locs (chunks_of fl) p in
  let I := map fst Iq in
  let orig := if placeholder c A_FLAGS I then DATA_LOST else c_dat c A_FLAGS (blk_src fl Iq) in
  apply_data_lost (placeholder c) orig (lost_map_at ents I) (map snd Iq).

Definition model_flags (c : cfg) (p : list Z) : Z := model_flags_with (the_entries c) c p.

(* ------------------------------------------------------------------------------------------------ *)
(* SPEC (the property statement, per element of the preselected window) *)
Definition gpos (c : cfg) (p : list Z) : list Z :=
  map (fun wx => wlo (fst wx) + snd wx) (combine (pad_win (c_win c) (List.length p)) p).
Definition chunk_id (chs : list (list Z)) (g : list Z) : list Z :=
  map (fun cx => chunk_start (fst cx) (snd cx)) (combine chs g).
Definition own (c : cfg) (a : nat) (p : list Z) : list Z := firstn (List.length (arr_chunks c a)) p.
(* the chunk of array a that covers element p of the window is absent *)
Definition lost_in (c : cfg) (a : nat) (p : list Z) : bool :=
  c_miss c a (chunk_id (arr_chunks c a) (gpos c (own c a p))).
Definition stored (c : cfg) (a : nat) (p : list Z) : Z := c_dat c a (gpos c (own c a p)).

Definition spec_vis (c : cfg) (p : list Z) : Z := if lost_in c A_VIS p then 0 else stored c A_VIS p.
Definition spec_weights (c : cfg) (p : list Z) : Z :=
  if lost_in c A_W p || lost_in c A_WC p then 0 else stored c A_W p * stored c A_WC p.
Definition spec_flags (c : cfg) (p : list Z) : Z :=
  Z.lor (if lost_in c A_FLAGS p then DATA_LOST else stored c A_FLAGS p)
        (if lost_in c A_VIS p || lost_in c A_W p || lost_in c A_WC p then DATA_LOST else 0).

(* ------------------------------------------------------------------------------------------------ *)
(* datasources.py:_align_chunk_info: phantom one-dump chunks pad the shorter arrays *)
Definition n_dumps (chs : list (list Z)) : Z := zsum (hd [] chs).
Definition align_one (maxd : Z) (chs : list (list Z)) : list (list Z) :=
  match chs with
  | [] => []
  | t :: rest => (t ++ repeat 1 (Z.to_nat (maxd - zsum t))) :: rest
  end.
Definition max_dumps (all : list (list (list Z))) : Z := fold_right Z.max 0 (map n_dumps all).
Definition align (all : list (list (list Z))) : list (list (list Z)) := map (align_one (max_dumps all)) all.

Fixpoint zs_eqb (a b : list Z) : bool :=
  match a, b with
  | [], [] => true
  | x :: a', y :: b' => Z.eqb x y && zs_eqb a' b'
  | _, _ => false
  end.

(* what the store answers: explicitly deleted chunks are absent, and so is anything past the dumps that were written *)
Definition store_missing (orig : list (list (list Z))) (lost : list (list (list Z))) (a : nat) (id : list Z) : bool :=
  existsb (zs_eqb id) (nth a lost []) || (n_dumps (nth a orig []) <=? hd 0 id).

(* ------------------------------------------------------------------------------------------------ *)
(* wire *)
Definition lin (shape pos : list Z) : Z :=
  fold_left (fun acc nx => acc * fst nx + snd nx) (combine shape pos) 0.
Definition in_shape (shape pos : list Z) : bool :=
  Nat.eqb (List.length shape) (List.length pos) &&
  forallb (fun nx => (0 <=? snd nx) && (snd nx <? fst nx)) (combine shape pos).
Definition dat_of (shape flat pos : list Z) : Z :=
  if in_shape shape pos then nth (Z.to_nat (lin shape pos)) flat 0 else 0.

Definition zrange (n : Z) : list Z := map Z.of_nat (seq 0 (Z.to_nat n)).

Definition to_chunks3 (x : sx) : list (list (list Z)) := map (fun a => map to_Zs (to_list a)) (to_list x).
Definition to_win (x : sx) : list (option (Z * Z)) :=
  map (fun w => match w with L [I lo; I hi] => Some (lo, hi) | _ => None end) (to_list x).

Definition mk_cfg (orig : list (list (list Z))) (win : list (option (Z * Z)))
                  (lost : list (list (list Z))) (data : list (list Z)) : cfg :=
  {| c_chunks := align orig; c_win := win;
     c_miss := store_missing orig lost;
     c_dat := fun a pos => dat_of (map zsum (nth a orig [])) (nth a data []) pos |}.

(* (chunks win lost data) ->
   (shape chunks-of-the-four-dask-arrays model_vis spec_vis model_weights spec_weights model_flags spec_flags),
   the six value lists in C order over the preselected window *)
Definition wire_6 (x : sx) : sx :=
  match x with
  | L [chunks; win; lost; data] =>
      let c := mk_cfg (to_chunks3 chunks) (to_win win) (to_chunks3 lost) (map to_Zs (to_list data)) in
      let shape := map zsum (chunks_of (darr c A_VIS)) in
      let ps := product (map zrange shape) in
      let ents := the_entries c in
      L [of_Zs shape;
         L (map (fun a => L (map of_Zs (chunks_of (darr c a)))) [A_VIS; A_FLAGS; A_W; A_WC]);
         of_Zs (map (model_vis c) ps); of_Zs (map (spec_vis c) ps);
         of_Zs (map (model_weights c) ps); of_Zs (map (spec_weights c) ps);
         of_Zs (map (model_flags_with ents c) ps); of_Zs (map (spec_flags c) ps)]
  | _ => sx_err
  end.

Definition of_piece (p : piece) : sx := L [of_nat (fst (fst p)); I (snd (fst p)); I (snd p)].

(* (old new) -> intersect_1d old new *)
Definition wire_61 (x : sx) : sx :=
  match x with
  | L [old; new] => L (map (fun ps => L (map of_piece ps)) (intersect_1d (to_Zs old) (to_Zs new)))
  | _ => sx_err
  end.

(* (chunks (lo hi)) -> (pruned-chunks start stop offset sliced-chunk-sizes)   [_prune_chunks, one axis] *)
Definition wire_62 (x : sx) : sx :=
  match x with
  | L [cs; L [I lo; I hi]] =>
      let '(cs', start', stop', off) := prune_axis (to_Zs cs) (Some (lo, hi)) in
      L [of_Zs cs'; I start'; I stop'; I off; of_Zs (ax_sizes (mk_axis (to_Zs cs) (Some (lo, hi))))]
  | _ => sx_err
  end.

(* (old-chunkings new-chunkings) -> intersect_chunks, N-d *)
Definition wire_63 (x : sx) : sx :=
  match x with
  | L [old; new] =>
      L (map (fun pcs => L (map (fun pc => L (map of_piece pc)) pcs))
             (intersect_chunks (map to_Zs (to_list old)) (map to_Zs (to_list new))))
  | _ => sx_err
  end.
